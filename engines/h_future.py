import os

ENGINE = {
    "name": "h_future",
    "path": "harness/h_future.cpp",
    "std": "c++14",
    "kind": "generated Future / then / when_all / when_any / timed-wait scenarios on the real schedulables: run counters, result-identity logs, readiness probes (result sampled before inputs), logical stamps, scripted gates at the hook sites in run() / addToThenChainOrExecute() / CompletionEventImpl, futex interposer (spurious returns, pre-wait delays), lifetime-tracked payloads",
}

_A = [
    "ManualInvoker (a harness Schedulable that stores the OnceFunction and runs it on a harness thread later) is a legal Schedulable: the Future constructor documents 'a TaskSet, ThreadPool, or similar type that has function schedule'",
    "every stored function is eventually invoked exactly once by the harness (the documented OnceFunction / makeOnceFunction contract)",
    "a TaskSet is only ever used by one thread at a time; ConcurrentTaskSet::wait() is never concurrent with schedule()/then()/when_*() on it",
    "pools, task sets and NewThreadInvoker threads are torn down / drained before lifetimes are judged",
]

PROPS = {
    "C18": {
        "level": "exploration",
        "technique": "runtime monitoring: functor run counter + in-flight counter, per-get() result address / value / exception log, lifetime registry on result and functor; hook-point and futex perturbation; plain, TSan and ASan(no small-buffer allocator) builds",
        "level_text": "Each case builds one Future<value|reference|void> on ThreadPool / TaskSet / ConcurrentTaskSet / ImmediateInvoker / NewThreadInvoker / a harness ManualInvoker (async and deferred policies both ways, pools of 0..4 threads, workers optionally blocked so that waiter-inline and pool execution both occur), hands copies to 1..6 threads that run random sequences of get / wait / wait_for / wait_until / is_ready / copy / move / share / assign / destroy (optionally all released into get() at once), optionally drops the original handle; a second family ('burst') runs up to 32 rounds per case in which persistent waiter threads and the executor are released into get()/run() on a fresh future by one barrier. Checked: functor executed exactly once and never concurrently with itself; every get() returned the same address and the functor's value (or rethrew the functor's exception, never returned normally); wait()/get() imply is_ready(); result and functor destroyed exactly once. Held-on-what-was-run, not a proof.",
        "level_note": "The two-thread window between the status load and the CAS in run() has no hook point; it is reached by releasing up to 6 waiters simultaneously and by the case count. Lifetime errors inside SmallBufferAllocator blocks are only visible through the Tracked members and in the asan-nosba build.",
        "design_ref": "DESIGN.md §4 C18",
        "sweep_args": {"n": 96, "burst": 16},
        "rule": "case = (schedulable, pool size, async, deferred, result kind, throws, waiter count, per-waiter op program, gate mode, perturbation) drawn from the seeded generator; non-trivial = at least two waiter threads and at least one get() executed; distinct by full spec; burst cases are blocks and report their rounds as _evals/_nt",
        "required_classes": ["ran:waiter-inline", "ran:pool-worker", "ran:ctor-inline", "ran:new-thread", "ran:manual-runner",
                             "sched:pool", "sched:taskset", "sched:ctaskset", "sched:immediate", "sched:newthread", "sched:manual",
                             "res:value", "res:ref", "res:void", "throws", "gated", "multi-getter", "get-during-run",
                             "original-dropped", "not-deferred", "async", "pool0", "burst", "burst:manual", "burst:pool", "burst:newthread", "burst:ctaskset"],
        "assumptions": _A,
        "runs": {
            "quick": [{"config": "plain", "shards": 16, "args": {"n": 560, "burst": 128}},
                      {"config": "tsan", "shards": 8, "args": {"n": 48, "burst": 12}},
                      {"config": "asan-nosba", "shards": 8, "args": {"n": 96, "burst": 16}}],
            "thorough": [{"config": "plain", "shards": 16, "seeds": 3},
                         {"config": "tsan", "shards": 16, "args": {"n": 8000}},
                         {"config": "asan-nosba", "shards": 16, "args": {"n": 12000}},
                         {"config": "asan", "shards": 16, "args": {"n": 8000}}],
        },
    },
    "C19": {
        "level": "exploration",
        "technique": "runtime monitoring: per-continuation run counters and antecedent-readiness probes, logical stamps for registration classes, scripted gates for the four narrow windows of addToThenChainOrExecute()/run(), readiness probes on combinator results (result sampled before inputs), task-set wait postcondition, state-based lost-continuation verdict; plain, TSan and ASan(no small-buffer allocator) builds",
        "level_text": "then(): programs of 1..50 continuations (chains, trees with fan-out <= 8, stars) hung off one root future (value / void / reference, any schedulable) and registered by 1..4 threads before, while and after the root completes, on ImmediateInvoker / ThreadPool / TaskSet / ConcurrentTaskSet / NewThreadInvoker with both policies; four scripted interleavings park a thread at the hook sites after the readiness test, after the chain push, after notify(kReady) and after the status CAS. Checked: every continuation ran exactly once, saw its antecedent ready and the antecedent's value/exception, its future became ready with the right value, nothing is left after teardown; a continuation that is never dispatched is a direct violation (ImmediateInvoker) or a watchdog hang. Combinators: when_all / when_any over iterator ranges (n = 0,1,2,3,5,8,20) and the variadic overloads (arities 0,1,2,3,5 with mixed value/void/reference futures, lvalue and rvalue arguments), plain / TaskSet / ConcurrentTaskSet variants, inputs complete before / after the call in a shuffled order, with pollers, early get() and a continuation on the result all probing 'result ready => inputs (named input) ready', order and identity of the when_all elements, index range of when_any, and 'taskSet.wait() returned => result ready' (also in bulk stress rounds).",
        "level_note": "Readiness probes sample the result first and the inputs afterwards; since readiness is monotone this can only miss, never invent, a violation. The window between the task-set counter decrement and the ready store has no hook point and is only reached by volume (stress rounds).",
        "design_ref": "DESIGN.md §4 C19",
        "sweep_args": {"then": 64, "comb": 48, "var": 32, "stress": 4, "rounds": 40},
        "rule": "case = one continuation program or one combinator call with its input sources/completion order (stress cases are blocks of rounds reporting _evals); non-trivial = at least one continuation (then), at least two inputs (combinators); distinct by full spec",
        "required_classes": ["reg:before-start", "reg:during-run", "reg:after-ready",
                             "reg:window-test-drain-push", "reg:window-push-drain-recheck", "reg:window-notify-register-drain", "reg:window-cas-register-finish",
                             "cont:immediate", "cont:pool", "cont:taskset", "cont:ctaskset", "cont:newthread",
                             "root:manual", "root:pool", "root:taskset", "root:ctaskset", "root:immediate", "root:newthread",
                             "shape:chain", "shape:tree", "shape:star", "long-program", "multi-registrar", "early-get", "exception-propagation",
                             "api:when_all", "api:when_any", "api:when_all-variadic", "api:when_any-variadic",
                             "arity:0", "arity:1", "arity:2-3", "arity:4+", "form:()", "form:(P)", "form:(P,void,ref)", "form:(P,P,P,P,P)",
                             "variant:plain", "variant:TaskSet", "variant:ConcurrentTaskSet", "taskset-wait-implies-ready",
                             "inputs-complete-after-call", "inputs-complete-before-call", "input-throws", "rvalue-arguments", "stress:taskset-wait"],
        "assumptions": _A,
        "runs": {
            "quick": [{"config": "plain", "shards": 16, "args": {"then": 600, "comb": 400, "var": 200, "stress": 8, "rounds": 400}},
                      {"config": "tsan", "shards": 8, "args": {"then": 48, "comb": 40, "var": 24, "stress": 4, "rounds": 40}},
                      {"config": "asan-nosba", "shards": 8, "args": {"then": 64, "comb": 48, "var": 32, "stress": 4, "rounds": 80}}],
            "thorough": [{"config": "plain", "shards": 16, "seeds": 2},
                         {"config": "tsan", "shards": 16, "args": {"then": 5000, "comb": 3500, "var": 1500, "stress": 64, "rounds": 150}},
                         {"config": "asan-nosba", "shards": 16, "args": {"then": 6000, "comb": 4000, "var": 2000, "stress": 64, "rounds": 300}}],
        },
    },
    "C20": {
        "level": "exploration",
        "technique": "runtime monitoring: one-sided elapsed-time oracle (steady_clock around the call; only 'timeout although elapsed < requested' is flagged), completion read-back after every positive result, 'notify issued' flag, thread-local in-timed-wait flag tested inside the functor; futex interposer (spurious returns 25 %, pre-wait delays) and gates in front of the futex call",
        "level_text": "CompletionEvent::waitFor/waitUntil and Future::wait_for/wait_until with timeouts 0, negative, 1 ns, sub-us, 1 us, sub-ms, 500 us, 5 ms, 50 ms, 1 h, 30 days (and seconds::max / hours::max / 1e30 s / time_point::max in the non-UBSan builds) in seven Rep/Period types and three time_point flavours (steady ns, system ns, steady ms): never notified, notified at timeout +- delta, notified early under a long timeout, status changed between the load and the futex call (gate), futures not started (deferred and not), running for shorter/longer than the timeout. Every 'true/ready' is followed by completed()/is_ready() (must be true) and, for events, by a check that notify() had been issued; every 'false/timeout' must have at least the requested time elapsed (2 ns slack for the timespec truncation; 1 ms for system_clock deadlines). Deferred clause: futures created by the constructor, by dispenso::async(schedulable, policy, ...) and by then() with every policy combination on blocked pools / task sets / NewThreadInvoker / ManualInvoker; the functor records whether it runs on a thread that is inside a timed wait.",
        "level_note": "Elapsed time measured outside the call over-estimates the time spent waiting, so an early timeout shorter than the call overhead (~1 us) cannot be seen; machine load can only hide, never produce, a finding.",
        "design_ref": "DESIGN.md §4 C20",
        "sweep_args": {"n": 240},
        "rule": "case = one scripted scenario (event or future) with 1..3 waiter threads, each with its own timeout value / representation / clock; non-trivial = every case (each performs at least one timed wait); distinct by full spec",
        "required_classes": ["script:event-timeout", "script:event-notify-race", "script:event-long-early-notify", "script:event-notify-before-futex",
                             "script:future-notstarted-nondeferred", "script:future-notstarted-deferred", "script:future-running",
                             "script:future-start-before-futex", "script:deferred-clause", "script:then-deferred-clause", "script:deferred-clause-max-timeout", "deferred-clause:max-timeout",
                             "status-changed-before-futex", "timed-wait-ran-functor", "inline-forbidden-and-not-started",
                             "to:zero", "to:negative", "to:sub-us", "to:sub-ms", "to:ms", "to:long",
                             "for", "until:steady", "until:system", "timeout-seen", "ready-seen", "spurious-futex"],
        "assumptions": _A + [
            "system_clock deadlines: 1 ms tolerance, because the implementation converts them to a relative CLOCK_MONOTONIC wait and clock slewing is outside its control",
            "2 ns slack on steady-clock verdicts: the implementation passes the timeout to the kernel as a timespec (integral ns) computed through a double",
        ],
        "runs": {
            "quick": [{"config": "plain", "shards": 16, "args": {"n": 2000}},
                      {"config": "tsan", "shards": 8, "args": {"n": 160}},
                      {"config": "asan-nosba", "shards": 8, "args": {"n": 240}}],
            "thorough": [{"config": "plain", "shards": 16, "seeds": 3},
                         {"config": "tsan", "shards": 16, "args": {"n": 12000}},
                         {"config": "asan-nosba", "shards": 16, "args": {"n": 12000}},
                         {"config": "asan", "shards": 16, "args": {"n": 8000}}],
        },
    },
}

# Development aid (mutant triage): H_FUTURE_CONFIGS=plain,asan-nosba restricts the configs that are run.
_only = os.environ.get("H_FUTURE_CONFIGS")
if _only:
    _keep = set(_only.split(","))
    for _p in PROPS.values():
        for _tier in list(_p["runs"]):
            _p["runs"][_tier] = [r for r in _p["runs"][_tier] if r["config"] in _keep] or _p["runs"][_tier][:1]
