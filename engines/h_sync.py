ENGINE = {
    "name": "h_sync",
    "path": "harness/h_sync.cpp",
    "std": "c++14",
    "kind": "generated multi-threaded programs over CompletionEvent/Latch, RWLock, DistributedRWLock, AsyncRequest, ResourcePool, TimedTask, threadId on the real code; "
            "issued-before-call counters, occupancy counters, stamped history checker, lifetime counters, invocation log, futex interposer + state-based hang verdict",
}

_A_STAMP = "vrt::stamp() is one relaxed RMW counter: stamp(ret A) < stamp(call B) means A completed before B began"
_A_HANG = ("liveness is decided as termination of bounded programs: a hang is declared by the runtime watchdog only from state "
           "(no progress for 10 s / 20 s AND threads parked in untimed futex waits with a stable exit counter, or >= 50 % CPU burnt while flat)")

PROPS = {
    "C21": {
        "level": "exploration",
        "technique": "runtime monitoring: issued-before-call counters for early returns, futex interposer (parked-thread census, pre-wait delays, spurious returns), "
                     "scripted gate between the status load and the futex wait, state-based deadlock verdict in sacrificial processes; plain + TSan + ASan builds",
        "level_text": "Generated CompletionEvent programs (1..8 waiters, 1..2 notifiers, waiters parked first / notify first / race / one waiter gated between its status load and its futex wait, reset() reuse) "
                      "and Latch programs (counts 1..16, random compositions of the count into count_down(n) and arrive_and_wait over 1..4 threads plus 0..6 pure waiters, the zero-crossing operation either fixed by the "
                      "spec or raced) run on the real primitives. A waiter that returns while fewer decrements / no notify have been issued is an early return; a waiter that never returns ends in the "
                      "watchdog's deadlock verdict (all parked in untimed FUTEX_WAIT, exits stable). Held-on-what-was-run.",
        "level_note": "Family simultaneous-final: a waiter parked in wait(), the last 2..3 decrements (count_down(n) / arrive_and_wait) released together through a hot relaxed spin line with a per-round skew of -300..+300 ns, 150..450 rounds per case (quick; up to 3000 thorough) on a fresh Latch each round; verdict: all count_downs returned, no FUTEX_WAKE issued since the round began, a waiter still inside its futex wait for 3 samples. Trusts the futex interposer's census and the relaxed 'issued' counters (advanced before the call, read after the wait returns; the primitives' own release/acquire chain orders them).",
        "design_ref": "DESIGN.md §4 C21",
        "rule": "case = (primitive, waiters, arrival mode, composition of the count over threads, final operation, perturbation); non-trivial = at least one thread really entered a futex wait; distinct by full spec",
        "required_classes": ["event", "latch", "event:waiters-parked", "event:notify-first", "event:race", "event:gate-reached", "event:all-parked-before-notify", "event:reset-reuse",
                             "latch:ordered", "latch:race", "latch:count_down-n", "latch:arrive_and_wait", "latch:all-parked-before-final", "spurious-wakeups", "pre-wait-delay",
                             "simultaneous-final", "simultaneous-final:waiter-parked", "simultaneous-final:count_down1+count_down1", "simultaneous-final:count_down2+count_down1",
                             "simultaneous-final:count_down1x3", "simultaneous-final:count_down1+arrive_and_wait"],
        "assumptions": [_A_HANG, "count_down never drives the count below zero (std::latch precondition)"],
        "runs": {
            "quick": [{"config": "plain", "shards": 16}, {"config": "tsan", "shards": 16, "args": {"n": 82}}, {"config": "asan", "shards": 16, "args": {"n": 82}}],
            "thorough": [{"config": "plain", "shards": 16, "seeds": 2}, {"config": "tsan", "shards": 16, "args": {"n": 2050}}, {"config": "asan", "shards": 16, "args": {"n": 2050}}],
        },
    },
    "C22": {
        "level": "exploration",
        "technique": "runtime monitoring: occupancy counters updated inside the owned region, quiescence residue check (try_lock / try_lock_shared must succeed), hook-site perturbation, "
                     "state-based hang verdict; ThreadSanitizer on a plain variable written under exclusive / read under shared ownership; ASan build",
        "level_text": "2..8 threads run bounded random sequences (<= 80 quick / 200 thorough ops each) of lock, try_lock, lock_shared, try_lock_shared, lock/try_lock + lock_downgrade, and - in one third of the programs - "
                      "a single upgrader doing lock_shared, lock_upgrade, then lock_downgrade or unlock, on RWLock and UnalignedRWLock, with dwell 0..50us and delays at the try_lock roll-back, reader back-out, "
                      "writer-bit and futex-wait sites. Any second thread inside with a writer is a violation; the program must terminate; afterwards the lock must be free.",
        "level_note": "lock_upgrade is only used as documented ('only one thread can try to lock for write concurrently'): in upgrade programs either the other threads only read, or every write attempt "
                      "(including the upgrader's) is serialised by a harness token taken with relaxed atomics. An overlap shorter than the monitor's counter update could be missed in plain builds; TSan sees it regardless of duration.",
        "design_ref": "DESIGN.md §4 C22",
        "rule": "case = (lock type, threads, per-thread op strings with dwell, upgrade mode, perturbation); non-trivial = >= 2 threads and >= 4 completed operations; distinct by full spec",
        "required_classes": ["RWLock", "UnalignedRWLock", "plain-program", "upgrade-program", "t2-4", "t5-8", "try_lock-succeeded", "try_lock-failed", "try_lock_shared-succeeded",
                             "try_lock_shared-failed", "upgrade", "downgrade", "writer-parked", "perturbed"],
        "assumptions": [_A_HANG],
        "runs": {
            "quick": [{"config": "plain", "shards": 16}, {"config": "tsan", "shards": 16, "args": {"n": 96, "ops": 40}}, {"config": "asan", "shards": 16, "args": {"n": 96}}],
            "thorough": [{"config": "plain", "shards": 16, "seeds": 2}, {"config": "tsan", "shards": 16, "args": {"n": 1500, "ops": 80}}, {"config": "asan", "shards": 16, "args": {"n": 1500}}],
        },
    },
    "C23": {
        "level": "exploration",
        "technique": "runtime monitoring: occupancy counters, quiescence residue check on every slot, hook-site perturbation between slots, state-based hang verdict; TSan plain-variable oracle; ASan build",
        "level_text": "As C22 on detail::DistributedRWLockImpl<N> with explicit slot indices (all readers on one slot, one slot per thread, random slot per operation) and on the public DistributedRWLock<N> "
                      "(slots chosen by threadId()), N in {1,2,4,16}, writers mixing lock and try_lock. After every program try_lock must succeed and every slot must accept a reader: a failed try_lock "
                      "that left a writer bit or reader count behind is seen there or as a hang.",
        "level_note": "Whether a failed try_lock failed at slot 0 or rolled back a partial acquisition is not observable from outside; both are produced by the schedule (hook between slots).",
        "design_ref": "DESIGN.md §4 C23",
        "rule": "case = (impl/public, N, slot map, threads, per-thread op strings, perturbation); non-trivial = >= 2 threads and >= 4 completed operations; distinct by full spec",
        "required_classes": ["N=1", "N=2", "N=4", "N=16", "explicit-slots", "public-api", "map:one-slot", "map:slot-per-thread", "map:random-slots", "try_lock-succeeded", "try_lock-failed",
                             "try_lock_shared-succeeded", "try_lock_shared-failed", "writer-parked", "t2-4", "t5-8"],
        "assumptions": [_A_HANG],
        "runs": {
            "quick": [{"config": "plain", "shards": 16}, {"config": "tsan", "shards": 16, "args": {"n": 96, "ops": 40}}, {"config": "asan", "shards": 16, "args": {"n": 96}}],
            "thorough": [{"config": "plain", "shards": 16, "seeds": 2}, {"config": "tsan", "shards": 16, "args": {"n": 1500, "ops": 80}}, {"config": "asan", "shards": 16, "args": {"n": 1500}}],
        },
    },
    "C24": {
        "level": "exploration",
        "technique": "runtime monitoring: per-thread stamped operation logs merged into a history checker (unique tags, self-validating payloads); TSan and ASan on the same workloads",
        "level_text": "1..3 consumers, 1..3 producers and 0..2 separate requesters run 4..16 (quick) / 4..40 (thorough) histories per case, each on a fresh AsyncRequest<std::string>, meeting at a relaxed spin barrier before every history so that the threads really overlap (50..600 / 50..2000 operations per thread and history, delays at the two hook sites). "
                      "Checked: every returned value is the intact payload of a successful emplace, no tag is returned twice or before its emplace began, two successes need a consumption and a new request in between, "
                      "successes <= requests.",
        "level_note": "The history check is sound (it only uses orderings implied by the stamps), not complete: an anomaly that is consistent with some linearisation is left to TSan/ASan, which see the underlying race.",
        "design_ref": "DESIGN.md §4 C24",
        "rule": "case = (consumers, producers, requesters, who requests, operations per thread, perturbation); non-trivial = >= 2 successful emplaces and >= 2 returned values; distinct by full spec",
        "required_classes": ["one-consumer", "multi-consumer", "one-producer", "multi-producer", "consumer-requests", "separate-requesters", "perturbed", "many-updates"],
        "assumptions": [_A_STAMP],
        "runs": {
            "quick": [{"config": "plain", "shards": 16}, {"config": "tsan", "shards": 16, "args": {"n": 64, "ops": 300, "rounds": 8}}, {"config": "asan", "shards": 16, "args": {"n": 64, "ops": 300, "rounds": 8}}],
            "thorough": [{"config": "plain", "shards": 16, "seeds": 2}, {"config": "tsan", "shards": 16, "args": {"n": 800, "ops": 600, "rounds": 16}}, {"config": "asan", "shards": 16, "args": {"n": 800, "ops": 600, "rounds": 16}}],
        },
    },
    "C25": {
        "level": "exploration",
        "technique": "runtime monitoring: per-resource holder counters, global held counter, per-id lifetime counters, idle-flat hang verdict (the blocking queue's semaphore is invisible to the futex interposer); TSan and ASan/LSan builds",
        "level_text": "Pools of 1..4 resources, 1..8 threads, 30..150 (quick) operations each: acquire/release, move construction (once and twice), live=empty, empty=live, live=live and self move-assignment of handles. "
                      "A resource must never have two holders, held <= size, bounded programs must terminate, after the program all `size` resources must be obtainable again, and the pool's destruction must destroy each exactly once.",
        "level_note": "One third of the cases run TWO live pools of the same T (sizes 1..4 each, 1..4 threads): every resource is tagged with the pool that created it, handles are move-assigned within and across the pools (live=live, live=empty, empty=live), acquire() from a pool must only ever return that pool's own resources, and at the end each pool must hand out exactly its own `size` resources again and destroy them exactly once. A thread holds two resources only if the pool has >= 2 and no other thread does (harness token), otherwise the program itself could deadlock.",
        "design_ref": "DESIGN.md §4 C25",
        "rule": "case = (size, threads, operations per thread, dwell, perturbation); non-trivial = >= 4 acquires; distinct by full spec",
        "required_classes": ["size=1", "size=2", "size=3", "size=4", "threads<=size", "threads>size", "all-held-reached", "move-construct", "assign-live=live", "assign-live=empty", "assign-empty=live", "self-assign",
                             "two-pools", "cross-pool-move-assign", "cross:live=live", "cross:live=empty", "cross:empty=live"],
        "assumptions": [_A_HANG],
        "runs": {
            "quick": [{"config": "plain", "shards": 16}, {"config": "tsan", "shards": 16, "args": {"n": 96, "ops": 80}}, {"config": "asan", "shards": 16, "args": {"n": 96}}],
            "thorough": [{"config": "plain", "shards": 16, "seeds": 2}, {"config": "tsan", "shards": 16, "args": {"n": 1200}}, {"config": "asan", "shards": 16, "args": {"n": 1200}}],
        },
    },
    "C26": {
        "level": "exploration",
        "technique": "runtime monitoring: invocation log (stamps + dispenso::getTime()), in-flight counter, hook-site census of kick-offs, scripted gates at the cancelled-test site, gated pool workers; TSan and ASan builds",
        "level_text": "A private TimedTaskScheduler per case; schedulables ImmediateInvoker, ThreadPool(1), ThreadPool(2..4); all schedule() overloads; periods 0.2-5 ms, counts 1..20, steady/normal, functions that return "
                      "false. Scenarios: run to completion (count bound, nothing after false, nothing before the first scheduled time), cancel before the task is due, cancel between periods, cancel while every pool worker is "
                      "occupied, destruction at a random offset, destruction while the scheduler thread is parked between the cancelled test and the inProgress increment, and a false return while the next kick-off is parked there.",
        "level_note": "cancel() is only judged where the test-then-call window is closed: by the clock the scheduler itself uses (kick-off k is never due before first + k*period - (k+1)*10us) or by occupying all pool workers. "
                      "'Not before' uses a 300us tolerance on the scheduler's own clock (the code fires up to 10us early by design).",
        "design_ref": "DESIGN.md §4 C26",
        "rule": "case = (scenario, schedulable, schedule() overload, first delay, period, count, type, false-return index, dwell, cancel/destroy offset, perturbation); non-trivial = at least one invocation, or a closed cancel window, or a reached gate; distinct by full spec",
        "required_classes": ["scenario:run", "scenario:cancel-before-due", "scenario:cancel-mid-run", "scenario:cancel-gated-pool", "scenario:dtor-random", "scenario:dtor-gated", "scenario:retfalse-gated",
                             "sched:immediate", "sched:pool1", "sched:poolN", "run:completed", "run:false-before-last", "run:steady", "run:detached", "cancel-before-due:window-closed",
                             "cancel-mid-run:window-closed", "cancel-gated-pool:wrapper-queued-before-cancel", "dtor-random:after-some-invocations", "dtor-gated:gate-reached", "moved-handle"],
        "assumptions": ["dispenso::getTime() is monotone and consistent across cores to well below 100us"],
        "runs": {
            "quick": [{"config": "plain", "shards": 16}, {"config": "tsan", "shards": 16, "args": {"n": 128}}, {"config": "asan", "shards": 16, "args": {"n": 128}}],
            "thorough": [{"config": "plain", "shards": 16, "seeds": 2}, {"config": "tsan", "shards": 16, "args": {"n": 1600}}, {"config": "asan", "shards": 16, "args": {"n": 1600}}],
        },
    },
    "C45": {
        "level": "exploration",
        "technique": "runtime monitoring: per-thread value slots compared after join (stability, pairwise distinctness over all threads of a case and over the process); spin-barrier release so first calls collide; TSan build",
        "level_text": "Waves of 1..64 threads (1..3 waves, every 16th case 5..9 waves of 64 = up to 576 threads) are released together and call threadId() 1 or 100 times; dispenso pool workers are included in a quarter of the cases. "
                      "Values must be constant per thread and pairwise distinct over all threads of the case, the main thread and (by-catch) every earlier thread of the process.",
        "level_note": "TSan builds use waves of at most 16 threads (thread creation under TSan costs ~0.2 s per thread on the shared machine). A lost update in the id counter needs two first calls within nanoseconds; the spin barrier and the case count make that window reachable but not certain per case.",
        "design_ref": "DESIGN.md §4 C45",
        "rule": "case = (wave sizes, calls per thread, pool workers); non-trivial = at least two threads compared; distinct by full spec",
        "required_classes": ["one-wave", "multi-wave", "wave-of-64", "wave-of-1", "more-than-256-threads", "pool-workers"],
        "assumptions": [],
        "runs": {
            "quick": [{"config": "plain", "shards": 16}, {"config": "tsan", "shards": 16, "args": {"n": 32, "maxwave": 16}}],
            "thorough": [{"config": "plain", "shards": 16, "seeds": 3}, {"config": "tsan", "shards": 16, "args": {"n": 200, "maxwave": 16}}],
        },
    },
}
