ENGINE = {
    "name": "h_parfor",
    "path": "harness/h_parfor.cpp",
    "std": "c++14",
    "kind": "generated parallel_for / for_each calls on real pools, chunk-log partition checker, in-flight counters, differential 128-bit arithmetic reference",
}

_A = ["the harness bodies only touch monitor counters; chunk logs are read after the task set's wait()",
      "ranges wider than 2^62 items are not generated (ChunkedRange documents that sizes must fit int64)"]

PROPS = {
    "C12": {
        "level": "exploration",
        "technique": "runtime monitoring: chunk-log partition oracle over generated ranges/options (8-bit pair space enumerated), on plain and ASan/UBSan builds",
        "level_text": "Every generated parallel_for call (8 index types, static/adaptive/explicit chunking, all ParForOptions, pools 0..9, three calling contexts) is executed on the real pool; the multiset of body chunks is checked to be an exact partition of [start,end) and the in-flight counter to be zero at return / after wait(). The int8/uint8 (start,end) pair space is enumerated (1/8 per quick run, complete x3 option rotations in thorough); wider types are edge-biased samples. Held-on-what-was-run, not a proof.",
        "level_note": "Trusts the chunk log (relaxed atomic index, distinct slots) and the sort-based partition check; option axes other than (start,end) are sampled pseudo-randomly per case.",
        "design_ref": "DESIGN.md §4 C12",
        "rule": "case = (type, start, end, chunking, api, options, pool, context) drawn from the seeded generator; 8-bit ranges come from an enumeration of all ordered pairs; non-trivial = range of >= 2 items that was actually split into >= 2 chunks; distinct by full spec",
        "required_classes": ["chunking:static", "chunking:adaptive", "chunking:explicit", "nowait", "nested", "from-pool-task", "pool0", "type:i8", "type:u8", "type:i64", "type:u64"],
        "assumptions": _A,
        "runs": {
            "quick": [{"config": "plain", "shards": 16}, {"config": "asan", "shards": 16, "args": {"wide": 1200, "stride": 64}}],
            "thorough": [{"config": "plain", "shards": 16, "seeds": 2}, {"config": "asan", "shards": 16}],
        },
        "exhaustive": {"quick": False, "thorough": False},
    },
    "C13": {
        "level": "exploration",
        "technique": "runtime monitoring: chunk-size oracle (multiples of granularity, single tail at range end) over generated starts/sizes/g",
        "level_text": "Generated calls with granularity 2..64, every start residue, sizes around multiples of g and g*workers, static and adaptive chunking, wait on/off, pools 1..9; the recorded chunk sizes are checked against the contract.",
        "level_note": "Same chunk log as C12; explicit chunk sizes are excluded because the contract does not apply to them.",
        "design_ref": "DESIGN.md §4 C13",
        "rule": "case = (type, start, size, g, chunking, options, pool); non-trivial = at least two chunks were produced; distinct by full spec",
        "required_classes": ["chunking:static", "chunking:adaptive", "start-aligned", "start-unaligned", "tail-chunk-seen", "nowait"],
        "assumptions": _A,
        "runs": {
            "quick": [{"config": "plain", "shards": 16}],
            "thorough": [{"config": "plain", "shards": 16, "seeds": 3}, {"config": "asan", "shards": 16}],
        },
    },
    "C14": {
        "level": "exploration",
        "technique": "runtime monitoring: per-state occupancy counter inside dwelling bodies; ThreadSanitizer on a plain field of the state",
        "level_text": "Stateful parallel_for calls (vector/deque/list, reuseExistingState both ways, all chunking modes, wait on/off, granularity tails) with bodies that dwell 50-250us while holding an occupancy counter in their state; any second entry into an occupied state is a violation, as is an empty container afterwards. The same workload runs under TSan where the state's plain field turns an overlap into a data race report.",
        "level_note": "An overlap shorter than the dwell can be missed; the dwell is long relative to scheduling latencies, and the case count makes repeated chances.",
        "design_ref": "DESIGN.md §4 C14",
        "rule": "case = stateful call spec; non-trivial = at least two body invocations; distinct by full spec",
        "required_classes": ["chunking:static", "chunking:adaptive", "chunking:explicit", "wait", "nowait", "tail", "concurrent-bodies"],
        "assumptions": _A,
        "runs": {
            "quick": [{"config": "plain", "shards": 16}, {"config": "tsan", "shards": 16, "args": {"n": 600}}],
            "thorough": [{"config": "plain", "shards": 16, "seeds": 2}, {"config": "tsan", "shards": 16, "args": {"n": 4000}}],
        },
    },
    "C15": {
        "level": "exploration",
        "technique": "runtime monitoring: per-element application counters and in-flight counter over generated for_each/for_each_n calls",
        "level_text": "for_each / for_each_n over vector, list and forward_list with n in 0..130 and 10^4, maxThreads 0/1/2/N/N+1/default, wait on/off, pools 0..9, both task-set kinds; every element's application count must be exactly 1 (0 beyond n) and nothing may still be running at return / after wait().",
        "level_note": "A crash (e.g. division by zero) is attributed to the open case by the driver.",
        "design_ref": "DESIGN.md §4 C15",
        "rule": "case = (container, total, n, api, maxThreads, wait, pool, task-set kind); non-trivial = n >= 2; distinct by full spec",
        "required_classes": ["iter:random-access", "iter:bidirectional", "iter:forward", "wait", "nowait", "pool0", "for_each_n", "serial-requested"],
        "assumptions": _A,
        "runs": {
            "quick": [{"config": "plain", "shards": 16}, {"config": "asan", "shards": 16, "args": {"n": 2000}}],
            "thorough": [{"config": "plain", "shards": 16, "seeds": 2}, {"config": "asan", "shards": 16, "args": {"n": 20000}}],
        },
    },
    "C17": {
        "level": "exploration",
        "technique": "differential check of the real chunking functions against a 128-bit reference, under UBSan; small box enumerated, 63-bit domain sampled",
        "level_text": "detail::staticChunkSize, staticChunkSizeGranular and StaticChunkMapper are called directly; sizes must sum to items, transition index within [0,chunks], sizes multiples of g, boundaries contiguous. The box items<=4096 (1024 quick) x chunks<=512 x 8 granularities is enumerated; 10^6 (quick) / 10^7 (thorough) edge-biased 63-bit triples are sampled; UBSan reports any signed overflow inside the stated domain.",
        "level_note": "Enumeration plus sampling, not a proof: the 63-bit domain is only sampled.",
        "design_ref": "DESIGN.md §4 C17",
        "rule": "evaluations = (items, chunks, g) triples evaluated; non-trivial = chunks >= 2 and items >= chunks*g (every chunk non-empty), counted per triple (triples inside a block are distinct by construction in the box, pseudo-random beyond)",
        "required_classes": ["box", "random63"],
        "assumptions": ["domain: (items/g + chunks) * g < 2^63, the condition under which the implementation's own ssize_t arithmetic cannot overflow"],
        "runs": {
            "quick": [{"config": "ubsan", "shards": 16}],
            "thorough": [{"config": "ubsan", "shards": 16, "seeds": 2}],
        },
        "exhaustive": {"quick": False, "thorough": False},
    },
    "C48": {
        "level": "exploration",
        "technique": "runtime monitoring: global in-flight counter maximum over dwelling bodies, compared with maxThreads",
        "level_text": "parallel_for (all chunking modes, granularity tails, wait on/off) and for_each calls with maxThreads 0..N+1 and bodies that dwell so allowed concurrency is reached; the maximum number of simultaneously running bodies must not exceed max(1,maxThreads).",
        "level_note": "Excess concurrency shorter than the dwell could be missed; 'bound-reached' is a required coverage class so that the monitor is known to see real concurrency.",
        "design_ref": "DESIGN.md §4 C48",
        "rule": "case = call spec with dwell; non-trivial = at least two body invocations; distinct by full spec",
        "required_classes": ["concurrent-bodies", "bound-reached", "serial-requested", "for_each", "nowait", "tail"],
        "assumptions": _A,
        "runs": {
            "quick": [{"config": "plain", "shards": 16}],
            "thorough": [{"config": "plain", "shards": 16, "seeds": 3}],
        },
    },
}
