ENGINE = {
    "name": "h_nest",
    "path": "harness/h_nest.cpp",
    "std": "c++14",
    "kind": "generated nesting programs (task sets, futures, parallel loops, parallel_invoke, continuations) on real pools with schedule/futex perturbation and a state-based hang verdict; per-functor counters; stack-depth and nested-body probes",
}

_A = ["task bodies block only through dispenso waits (task-set wait/tryWait loops, Future::wait/get, waiting parallel_for/for_each); generated programs are trees, hence acyclic",
      "TaskSet objects are only used from the thread that created them; wait() is never concurrent with schedule() on a ConcurrentTaskSet"]

PROPS = {
    "C06": {
        "level": "exploration",
        "technique": "runtime monitoring: random acyclic nesting programs executed on real pools of 0,1,2,3,8 threads under hook-point and futex perturbation; refutation = state-based hang verdict of the watchdog (flat progress + spinning or parked threads) with pool accessor dump",
        "level_text": "Random task trees (depth <= 5 quick / 6 thorough, fan-out <= 8): a node opens a TaskSet / ConcurrentTaskSet (kHeavy, kLightweight) on the same pool, schedules its children through schedule / schedule(FQ) / scheduleBulk / scheduleBulk(FQ) / mixed and waits (wait, tryWait loop, destructor); or creates futures on the pool or on a set and waits/gets them; or runs a waiting parallel_for / for_each; or parallel_invoke + wait; or a then-chain. Root on the external thread or inside a pool task (no external helper). Wake and poll mode. Liveness is restated as bounded progress: every program must finish; a hang is reported by the watchdog with the pool state as witness.",
        "level_note": "Bounded-progress restatement of a liveness property: interleavings are sampled (perturbation at the claim/push/park sites, futex pre-wait delays and spurious wake-ups), not enumerated. 'all-workers-in-wait' (every pool thread simultaneously inside a wait) is a required coverage class.",
        "design_ref": "DESIGN.md §4 C06",
        "rule": "case = (pool size, load multiplier, root placement, wake mode, perturbation, generated tree); non-trivial = tree depth >= 2 and at least two waits executed; distinct by spec + case index (trees are regenerated from the seed)",
        "required_classes": ["pool0", "pool1", "poolN", "ext-root", "pool-root", "poll-mode", "all-workers-in-wait", "perturbed", "futex-spurious",
                             "kind:ts", "kind:cts-heavy", "kind:cts-light", "kind:fut-pool", "kind:fut-set", "kind:parfor", "kind:foreach", "kind:pinvoke", "kind:then", "family:tree", "family:dag", "kind:cross-wait", "kind:sibling-future"],
        "assumptions": _A,
        "runs": {
            "quick": [{"config": "plain", "shards": 16, "args": {"n": 256}}, {"config": "tsan", "shards": 16, "args": {"n": 64}}],
            "thorough": [{"config": "plain", "shards": 8, "seeds": 3}, {"config": "tsan", "shards": 8, "args": {"n": 1200}}],
        },
    },
    "C16": {
        "level": "exploration",
        "technique": "runtime monitoring: per-functor invocation counters, thread-local 'inside this parallel_invoke call' marker for the last functor, counts checked right after tasks.wait()",
        "level_text": "parallel_invoke calls of arity 1..8 (flat, idle and with all workers held + pool over its load factor so schedule() falls back to inline) and recursive divide-and-conquer trees (binary to depth 12 = 4096 leaves, random arity 1..8 to depth 7) and left spines of depth 40..120 recursing through the non-last functor on a task set held over its inline threshold (so the inline depth cap of 32 is reached) sharing one ConcurrentTaskSet (kHeavy / kLightweight) with a single wait at the top, on pools 0..9, from an external thread or from inside a pool task. Every functor's count must be exactly 1 after wait(); the last functor of every call must have run on the calling thread while the call was active.",
        "level_note": "Arity and shape are enumerated/sampled; interleavings sampled.",
        "design_ref": "DESIGN.md §4 C16",
        "rule": "case = (shape, arities, pool, cost, caller, load); non-trivial = at least one parallel_invoke call with >= 3 tree nodes; distinct by spec + case index",
        "required_classes": ["shape:flat", "shape:binary", "shape:tree", "shape:flat-loaded", "arity:1", "arity:2", "arity:3", "arity:4", "arity:5", "arity:6", "arity:7", "arity:8",
                             "pool0", "from-pool-task", "inline-fallback", "depth12", "cost:heavy", "cost:light", "shape:spine-loaded", "spine:deeper-than-inline-cap"],
        "assumptions": _A,
        "runs": {
            "quick": [{"config": "plain", "shards": 16, "args": {"n": 512}}, {"config": "tsan", "shards": 16, "args": {"n": 128}}],
            "thorough": [{"config": "plain", "shards": 16, "seeds": 3}, {"config": "tsan", "shards": 16, "args": {"n": 1500}}],
        },
    },
    "C46": {
        "level": "exploration",
        "technique": "runtime monitoring: every body records its stack depth (address of a local relative to the first monitored body the thread ever ran) and the number of monitored bodies nested below it on the same thread; each shape runs at sizes n and 8n; second oracle: the same shapes on 512 KiB thread stacks under ASan",
        "level_text": "Shapes: then-chains (continuations scheduled on a pool / TaskSet / ConcurrentTaskSet, deferred or async policy, fired from a worker or from an external thread), recursive ConcurrentTaskSet scheduling (schedule, scheduleBulk(1), binary fan-out; kHeavy/kLightweight), serial pipelines whose stage queues fill up, graph chains / combs / ladders on the ConcurrentTaskSetExecutor; pools 0..4, idle or with workers held and the pool over its load factor. Refuted if the maximum stack depth at 8n exceeds the one at n by more than 64 KiB (128 KiB under TSan, 256 KiB under ASan, whose frames are larger), or any body runs deeper than 512 KiB of stack or below more than 80 nested monitored bodies (kMaxInlineDepth is 32); in that case the run is stopped before the stack overflows.",
        "level_note": "A constant bound cannot be observed directly; growth between n and 8n plus absolute caps far above the implementation's intended limit (32 nested inline runs) stand in for it.",
        "design_ref": "DESIGN.md §4 C46",
        "rule": "case = (shape, variant, pool, load multiplier, load, trigger thread, n); non-trivial = the 8n run executed at least 8n monitored bodies; distinct by full spec",
        "required_classes": ["shape:then", "shape:ctsrec", "shape:pipe", "shape:graph", "pool0", "pool1", "poolN", "loaded", "from-worker", "nested-inline-seen", "depth-limit-reached"],
        "assumptions": _A,
        "runs": {
            "quick": [{"config": "plain", "shards": 16, "args": {"n": 192}}, {"config": "tsan", "shards": 16, "args": {"n": 48, "size": 150}}, {"config": "asan", "shards": 16, "args": {"n": 96, "smallstack": 1, "size": 200}}],
            "thorough": [{"config": "plain", "shards": 16, "seeds": 2}, {"config": "tsan", "shards": 16, "args": {"n": 400, "size": 300}}, {"config": "asan", "shards": 16, "args": {"n": 1500, "smallstack": 1}}],
        },
    },
}
