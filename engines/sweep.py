# C10 / C11 are sweeps: they re-run the quick case sets of every claimed property's engine under a
# sanitizer build (monitor-lite) and judge only the sanitizer's reports.
ENGINE = {
    "name": "sweep",
    "path": "check.py (re-runs every engine under engines/)",
    "std": "c++14",
    "kind": "sanitizer sweep: every engine's generated workloads under ThreadSanitizer (C10) / AddressSanitizer+UBSan+LSan (C11)",
}

PROPS = {
    "C10": {
        "engine": "sweep",
        "level": "exploration",
        "technique": "ThreadSanitizer (happens-before race detection on declared memory orders) over every engine's generated, perturbed in-contract workloads",
        "level_text": "Every claimed property's TSan-sized quick case set (quick: a 3/8 shard sample of each; thorough: all of it, 3 seeds) is re-run in a gcc -fsanitize=thread build with hook perturbation on and monitors in lite mode (relaxed atomics / thread-local logs only, so the monitors add no happens-before edges). Any data-race report not listed in known_findings.json is a violation. TSan judges the declared memory orders, which is what decides races under the weak C++ memory model on x86 hardware.",
        "level_note": "Only races on paths the workloads reach, in interleavings that occurred; TSan does not model stand-alone fences (dispenso annotates those regions itself). Reports are keyed by '<property whose cases ran>:<case key>#tsan:<kind>:<top dispenso functions>'.",
        "design_ref": "DESIGN.md §4 C10",
        "rule": "cases are the other engines' quick cases; non-trivial per the owning engine's rule; distinct by that engine's signature",
        "required_classes": [],
        "assumptions": ["harness workloads stay inside dispenso's documented thread-safety contract (DESIGN §3.5)"],
        "sweep": {"configs": {"quick": ["tsan"], "thorough": ["tsan"]}, "tools": ["tsan"], "kinds": ["data race", "use-after-free", "heap-use-after-free"],
                  "shards": 8, "run_shards": {"quick": 3, "thorough": 8}, "seeds": {"quick": 1, "thorough": 3}, "exclude": ["C17", "C43", "C44"]},
        "runs": {"quick": [], "thorough": []},
    },
    "C11": {
        "engine": "sweep",
        "level": "exploration",
        "technique": "AddressSanitizer + UndefinedBehaviorSanitizer + LeakSanitizer (also with DISPENSO_NO_SMALL_BUFFER_ALLOCATOR) over every engine's generated workloads including throw/cancel/shutdown paths",
        "level_text": "Every claimed property's ASan-sized quick case set (quick: a 3/8 shard sample of each; thorough: all of it, 2 seeds, both builds) is re-run in -fsanitize=address,undefined builds (asan, and asan-nosba where dispenso's small-buffer allocator is compiled out so its blocks are visible to ASan/LSan); per-case recoverable leak checks attribute leaks to cases. Any ASan/UBSan/LSan report not listed in known_findings.json is a violation.",
        "level_note": "Red-zone tools miss intra-object overflows and reuse inside dispenso's own pooled allocators (hence the asan-nosba build and Tracked payloads in the engines). Only reached paths are judged.",
        "design_ref": "DESIGN.md §4 C11",
        "rule": "cases are the other engines' quick cases; non-trivial per the owning engine's rule; distinct by that engine's signature",
        "required_classes": [],
        "assumptions": ["harness workloads stay inside dispenso's documented contract (DESIGN §3.5)"],
        "sweep": {"configs": {"quick": ["asan"], "thorough": ["asan", "asan-nosba"]}, "tools": ["asan", "lsan", "ubsan"],
                  "shards": 8, "run_shards": {"quick": 3, "thorough": 8}, "seeds": {"quick": 1, "thorough": 2}, "exclude": ["C17", "C44"]},
        "runs": {"quick": [], "thorough": []},
    },
}
