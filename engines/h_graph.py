ENGINE = {
    "name": "h_graph",
    "path": "harness/h_graph.cpp",
    "std": "c++14",
    "kind": "generated graph programs (random DAGs, subgraph partitions, BiProp sets, clear/rebuild/move chains) on the real executors; per-node run counters and logical start/end stamps checked against a harness-side graph model",
}

_A = ["workloads follow the documented protocol: every execution is prepared by setAllNodesIncomplete or by setIncomplete + ForwardPropagator on a graph whose nodes are all complete or freshly created; graphs are acyclic by construction (edges only forward in a hidden order)",
      "node bodies only touch relaxed monitor atomics and one plain per-node field that dependents read (so TSan judges predecessor/dependent ordering); monitor logs are read after the executor returned / after the task set's wait()",
      "the logical clock is one relaxed counter: end(P) < start(D) is accepted as 'P finished before D started'"]

PROPS = {
    "C30": {
        "level": "exploration",
        "technique": "runtime monitoring: exactly-once counters and start/end stamp order per node against a model of the graph, over generated build / clear / rebuild / move programs on all executors; plain, TSan and ASan builds",
        "level_text": "Each case generates a random DAG (1-150 nodes quick, 300 thorough; 1-6 subgraphs; fan-in up to 12, hubs, duplicate edges, variadic dependsOn, BiProp edges on BiPropGraph) and a chain of steps (full evaluation, partial evaluation, no-op, Subgraph::clear + rebuild with cross-subgraph edges, node/subgraph additions, move construction/assignment, Graph::clear, clearSubgraphs), each followed by one of the five executor forms (single thread, parallel_for on TaskSet / ConcurrentTaskSet, ConcurrentTaskSetExecutor with wait and with wait=false + later wait) on pools of 0..9 threads with hook/futex perturbation and dwelling bodies. The set of incomplete nodes is read back (isCompleted) right before the executor is called; afterwards every such node must have run exactly once, after the end stamp of each of its predecessors that ran, no other node may have run, and every node must be complete. Throwing steps: a full evaluation on the case's persistent executor object in which 1-2 chosen node functors throw a tagged exception (judged: the call or the task set's wait() rethrows, no node twice, no complete node, every node that ran had all its incomplete predecessors run and finish, nothing in flight after the task sets were waited on), then setAllNodesIncomplete + a normal execution on the SAME executor object and another on a fresh one, both under the full oracle. Held-on-what-was-run.",
        "level_note": "Task sets are replaced after a throwing execution (a task set that captured an exception stays cancelled by design). Trusts the harness-side edge model (mirrors every dependsOn / clear) and the relaxed logical clock; hook sites kGraphAfterNodeRun / kGraphBetweenDependents (ConcurrentTaskSetExecutor path) are perturbed with p=0.3 in a quarter of the cases; the other executors' windows only through body dwell times and the pool's hook sites.",
        "design_ref": "DESIGN.md §4 C30",
        "rule": "case = (graph type, DAG generator parameters, subgraph partition, step chain, executor, pool, task-set knobs, perturbation) drawn from the seeded generator; non-trivial = at least two node bodies ran and at least one dependency between two nodes that both ran had to be enforced; distinct by parameters + hash of the generated program",
        "required_classes": ["graph", "biprop", "exec:single", "exec:parfor-ts", "exec:parfor-cts", "exec:ctsx-wait", "exec:ctsx-nowait",
                             "pool0", "poolN", "concurrent-bodies", "dup-edges", "subgraphs",
                             "op:full", "op:partial", "op:noop", "op:clear-fp", "op:clear-setall", "clear-with-cross-edges",
                             "op:add-fp", "op:move-ctor", "op:move-assign", "op:graph-clear", "op:subgraphs-clear",
                             "op:throw", "throwing-step", "executor-reused-after-throw", "throw-aborted-early",
                             "throw:single", "throw:parfor-ts", "throw:parfor-cts", "throw:ctsx-wait", "throw:ctsx-nowait"],
        "assumptions": _A,
        "runs": {
            "quick": [{"config": "plain", "shards": 16, "args": {"n": 960}},
                      {"config": "tsan", "shards": 16, "args": {"n": 192}},
                      {"config": "asan", "shards": 16, "args": {"n": 192}}],
            "thorough": [{"config": "plain", "shards": 16, "seeds": 2, "args": {"n": 20000}},
                         {"config": "tsan", "shards": 16, "args": {"n": 3000}},
                         {"config": "asan", "shards": 16, "args": {"n": 3000}}],
        },
    },
    "C31": {
        "level": "exploration",
        "technique": "runtime monitoring: differential check of the set of re-run nodes (run counters) and their order (stamps) against the model's forward closure + union-find of biPropDependsOn calls, over generated DAGs, marked subsets and executors; plain, TSan and ASan builds",
        "level_text": "Each case builds a random Graph or BiPropGraph (BiProp edge probability 0.05-0.6, declaration order shuffled so that sets are created, extended and merged in every order), evaluates it fully, then performs 3-8 (thorough 3-12) rounds: mark a random subset incomplete (single nodes, small sets, 10-50 %, all, sinks), run ForwardPropagator, execute on a random executor form; the nodes that ran must be exactly the forward closure of the marked nodes plus every member of each propagation set meeting the closure, each once, each after the end of every re-run predecessor. Interleaved rounds check that setAllNodesIncomplete (also after marks / after a propagation) gives a full evaluation and that an empty mark set re-runs nothing.",
        "level_note": "The expected set is computed from the harness's own adjacency and union-find; a second, pointer-level model of the shared member lists is used only to name the scenario class of a round (sets-coherent / sets-stale), never as the oracle.",
        "design_ref": "DESIGN.md §4 C31",
        "rule": "case = (graph type, DAG + BiProp generator parameters, round chain, executor, pool) from the seeded generator; non-trivial = at least one strictly partial re-evaluation (some but not all nodes re-run) with a dependency enforced between two re-run nodes; distinct by parameters + hash of the generated program",
        "required_classes": ["graph", "biprop", "exec:single", "exec:parfor-ts", "exec:parfor-cts", "exec:ctsx-wait", "exec:ctsx-nowait",
                             "op:partial", "partial-strict", "set-added-nodes", "full-after-partial", "merged-sets", "op:fp-noop", "pool0", "poolN"],
        "assumptions": _A,
        "runs": {
            "quick": [{"config": "plain", "shards": 16, "args": {"n": 960}},
                      {"config": "tsan", "shards": 16, "args": {"n": 192}},
                      {"config": "asan", "shards": 16, "args": {"n": 192}}],
            "thorough": [{"config": "plain", "shards": 16, "seeds": 2, "args": {"n": 20000}},
                         {"config": "tsan", "shards": 16, "args": {"n": 3000}},
                         {"config": "asan", "shards": 16, "args": {"n": 3000}}],
        },
    },
}
