ENGINE = {
    "name": "h_cancel",
    "path": "harness/h_cancel.cpp",
    "std": "c++14",
    "kind": "scripted cancel / exception scenarios on real pools with workers held in gate tasks, per-body run counters and logical stamps, per-exception delivery log",
}

_A = ["harness bodies only touch monitor counters; counters are read after the task set's own wait() returned",
      "a worker held in a harness gate task executes nothing else; this is what closes the check-then-act window between a wrapper's canceled() test and the body",
      "TaskSet objects are only used from the thread that created them; wait() is never concurrent with schedule() on a ConcurrentTaskSet"]

PROPS = {
    "C04": {
        "level": "exploration",
        "technique": "runtime monitoring: per-body run counters in scenarios where every path to a body provably begins after cancel() returned (same-thread schedule after cancel; bodies queued while every worker is held in a gate task; cascade through kOn parents; exception-cancel with one executing thread); plain + TSan + ASan builds",
        "level_text": "Scenario A: cancel() returns, then the same thread calls schedule / schedule(ForceQueuingTag) / scheduleBulk / scheduleBulk(ForceQueuingTag) at every load level that selects a different path (idle, set over its load factor, pool over its load factor, both; external and pool-recursive caller; 0-thread pool; TaskSet, ConcurrentTaskSet kHeavy/kLightweight). B: bodies force-queued while all workers sit in gate tasks, then cancel, then gates open. C: the same through ParentCascadeCancel::kOn parents at depth 1..3 with sibling children and sets born under a cancelled parent. D: cancellation by a thrown exception with exactly one executing thread (D1 queued thrower; D2 a body of a scheduleBulk batch throws while the batch runs inline; D3 a body of such a batch calls cancel() itself: the rest of the batch must not run). E: a kOn child is alive, a sibling task of the parent throws (exception-cancel of the parent), then the owner calls parent.cancel(): the child must be cancelled; judged on the child with scenarios A and B (depth 1-2, all kinds, pools 0 and >= 2). No forbidden body may run; wait() must return true (D: rethrow once, then true).",
        "level_note": "Only scenarios whose check-then-act window is closed by construction are judged (DESIGN 3.1). Load levels are read back from the pool/task-set accessors right before the call, so the class that was really reached is what is recorded.",
        "design_ref": "DESIGN.md §4 C04",
        "rule": "case = scenario spec (scenario, set kind, API, intended load level, caller, pool size, multipliers, counts); non-trivial = at least one body was forbidden to run and none of them ran; distinct by full spec",
        "required_classes": ["scn:A", "scn:C", "scn:D", "kind:ts", "kind:cts-heavy", "kind:cts-light", "pool0", "pool-recursive-caller",
                             "lvl:idle", "lvl:set-over", "lvl:pool-over", "lvl:both-over", "inline-fallback-level-reached",
                             "post:ts/schedule/set-over", "post:ts/bulk/set-over", "post:cts-heavy/schedule/pool-over", "post:cts-light/schedule/pool-over",
                             "post:cts-light/bulk/pool-over", "post:cts-heavy/bulk/set-over",
                             "cascade-depth:1", "cascade-depth:2", "cascade-siblings", "born-cancelled",
                             "exception-cancel:queued", "exception-cancel:bulk-inline", "cancel-during-inline-bulk", "cancel-during-inline-bulk:body-cancels", "cancel-after-exception-cascade", "scn:E", "cancel-from-other-thread", "free-workers"],
        "assumptions": _A,
        "runs": {
            "quick": [{"config": "plain", "shards": 16, "args": {"n": 960}}, {"config": "tsan", "shards": 16, "args": {"n": 192}}, {"config": "asan", "shards": 16, "args": {"n": 320}}],
            "thorough": [{"config": "plain", "shards": 16, "seeds": 5}, {"config": "tsan", "shards": 16, "args": {"n": 6000}}, {"config": "asan", "shards": 16, "args": {"n": 8000}}],
        },
    },
    "C05": {
        "level": "exploration",
        "technique": "runtime monitoring: every throw carries a unique id; a delivery log at every schedule / scheduleBulk / wait / tryWait call site; in-flight and outstanding counters at each delivery; plain + TSan + ASan builds",
        "level_text": "Programs of up to 3 rounds of schedule / schedule(FQ) / scheduleBulk / scheduleBulk(FQ) calls (1..3 producer threads for ConcurrentTaskSet, external or pool-recursive caller, workers optionally held so that queues build up and inline fall-backs run) over pools 0..8 with any subset of <= 8 throwing bodies among <= 200, a soft rendezvous so throwers collide, then tryWait/wait sequences. Scripted families: late-thrower (first captured is determined) and throw-after-cancel (thrower already running and held, set cancelled by its owner / another thread / a kOn parent's cascade, then the body throws: the exception must still be delivered exactly once by the next completed wait/tryWait and wait() reports cancellation; TaskSet and ConcurrentTaskSet heavy/light, single and bulk scheduling, pools 1..4). Checked: no id delivered twice; an exception leaves a schedule call only if that call ran the body inline; the first completion-observing wait after a capture rethrows exactly one captured id (the first one where one thread ran all throwers) and later waits throw nothing; no delivery while bodies are unfinished; wait returns (watchdog + stuck-state sentinel).",
        "level_note": "Which captured exception is first is only judged when all throwers of the batch ran on one thread. Pipelines are covered by C29.",
        "design_ref": "DESIGN.md §4 C05",
        "rule": "case = generated program (ops, throwers, waits, pool, set kind); non-trivial = at least one body threw; distinct by full spec",
        "required_classes": ["kind:ts", "kind:cts-heavy", "kind:cts-light", "pool0", "direct-propagation", "delivered-by-wait", "concurrent-throwers",
                             "late-thrower-first", "throw-after-user-cancel", "throw-after-cascade-cancel", "throw-after-other-thread-cancel", "throw-after-cancel:bulk", "throw-after-cancel:single", "throw-after-cancel:tryWait", "captured-inline-throw", "multi-producer", "pool-recursive-caller", "tryWait", "multi-round"],
        "assumptions": _A,
        "runs": {
            "quick": [{"config": "plain", "shards": 16, "args": {"n": 960}}, {"config": "tsan", "shards": 16, "args": {"n": 192}}, {"config": "asan", "shards": 16, "args": {"n": 320}}],
            "thorough": [{"config": "plain", "shards": 16, "seeds": 5}, {"config": "tsan", "shards": 16, "args": {"n": 5000}}, {"config": "asan", "shards": 16, "args": {"n": 8000}}],
        },
    },
}
