ENGINE = {
    "name": "h_seq",
    "path": "harness/h_seq.cpp",
    "std": "c++17",  # std::optional is the reference model of C40; dispenso itself is still C++14 code
    "kind": "sequential differential interpreters (generated operation programs on the real type and on std::vector / std::optional) with a lifetime registry checked after every operation",
}

_CV_OPS = ["ctor_default", "ctor_reserve", "ctor_size", "ctor_size_value", "ctor_range", "ctor_range_list", "ctor_size_range", "ctor_ilist",
           "copy_ctor", "move_ctor", "copy_assign", "move_assign", "self_assign", "assign_n_value", "assign_range",
           "push_back_copy", "push_back_move", "emplace_back", "push_back_alias",
           "grow_by", "grow_by_value", "grow_by_range", "grow_by_ilist", "grow_by_generator", "grow_to_at_least", "grow_to_at_least_value",
           "insert_copy", "insert_move", "insert_n_value", "insert_range", "insert_ilist", "erase_pos", "erase_range",
           "resize", "resize_value", "reserve", "pop_back", "clear", "shrink_to_fit", "swap_member", "swap_free",
           "compare", "iterate_forward", "iterate_backward", "iterator_arithmetic", "at_front_back"]
_CV_TRAITS = ["%s-%s-%s" % (a, b, c) for a in ("inl", "heap") for b in ("fast", "compact") for c in ("asneeded", "half", "full")]
_SV_OPS = ["ctor_default", "ctor_count", "ctor_count_value", "ctor_ilist", "copy_ctor", "move_ctor", "copy_assign", "move_assign", "self_assign",
           "push_back_copy", "push_back_move", "emplace_back", "push_back_alias", "pop_back", "resize", "resize_value", "erase", "reserve", "clear", "observe"]
_OR_OPS = ["ctor_default", "ctor_value_copy", "ctor_value_move", "ctor_from_long", "copy_ctor", "move_ctor", "copy_assign", "move_assign",
           "self_copy_assign", "self_move_assign", "assign_value", "assign_value_rv", "emplace", "destroy", "observe"]

_A = ["single-threaded; the reference model is libstdc++'s std::vector / std::optional",
      "a sequence stops at its first divergence: operations after a diverging one are covered by other sequences (per-case random operation subsets, all pairs/triples)"]

PROPS = {
    "C32": {
        "level": "exploration",
        "technique": "runtime monitoring: differential interpreter against std::vector after every operation + lifetime registry (Tracked elements), all 12 trait combinations, first bucket 1..16 via element size; ASan/UBSan build for memory errors",
        "level_text": "Programs over 46 ConcurrentVector operations (every constructor, assign, push/emplace incl. self-aliasing, the grow_by family, grow_to_at_least, all insert/erase overloads, resize, reserve, pop_back, clear, shrink_to_fit, copy/move/swap, the six comparisons, forward/backward/reverse iteration, iterator arithmetic, []/at/front/back) run on the real container and on std::vector<long>; after every operation size, every element, the index of the returned iterator and the registry (live count == elements held, no construct-over-live, no destroy-of-dead, no use-of-dead, alignment) are compared; at the end both vectors are destroyed and nothing may stay alive. 38 instantiations: 12 trait combinations x first-bucket 2/4/8 (element sizes 128/64/32) plus 1 and 16 for two combinations. Quick: all ordered pairs of a 69-entry canonical alphabet after a fixed prefix + random programs of 3..60 operations + dedicated grow_to_at_least(0) cases; thorough: all triples and more random programs. Held on the programs that were run, not a proof.",
        "level_note": "Trusts the Tracked registry (address keyed, plain/asan builds) and std::vector as reference. max_size() is not exercised: it does not compile (names Traits::kMaxVectorSize). Custom SizeTraits cannot be instantiated either (the iterator type names ConcurrentVector<T, Traits> without SizeTraits), so the first-bucket length is varied through sizeof(T).",
        "design_ref": "DESIGN.md §4 C32",
        "rule": "evaluation = one program (operation sequence) on one instantiation; non-trivial = at least two operations completed and at least one mutating operation ran on a non-empty vector; pairs/triples are distinct by construction, random programs are pseudo-random",
        "required_classes": ["mode:all-pairs", "mode:random", "bucket-cross"] + ["op:" + o for o in _CV_OPS] + ["trait:" + t for t in _CV_TRAITS] + ["elem:e16", "elem:e32", "elem:e64", "elem:e128", "elem:e256"],
        "assumptions": _A,
        "runs": {
            "quick": [{"config": "plain", "shards": 16, "args": {"n": 120}}, {"config": "asan", "shards": 16, "args": {"n": 24}}],
            "thorough": [{"config": "plain", "shards": 16, "seeds": 2}, {"config": "asan", "shards": 16, "args": {"n": 60}}],
        },
        "exhaustive": {"quick": False, "thorough": False},
    },
    "C38": {
        "level": "exploration",
        "technique": "runtime monitoring: differential interpreter against std::vector + lifetime registry + address alignment of every element; alignment decided in the plain build (glibc malloc), memory errors in the ASan/UBSan build",
        "level_text": "Programs over 20 SmallVector operations (all constructors, copy/move construction and assignment, self assignment, push_back/emplace_back incl. a reference to an own element, pop_back, both resize overloads, erase, reserve, clear, iteration/front/back/data/capacity) for inline capacities 1,2,4,8,64 and element alignments 8,16,32,64; after every operation size, contents, returned position, live count and `address % alignof(T)` of every element (inline and heap) are checked. Quick: all ordered pairs of a 36-entry alphabet from three start states (empty / inline full / on heap) + random programs + one-program cases for push_back(v[i]) after every (start state, operation); thorough: all triples, more random programs.",
        "level_note": "ASan's allocator returns 16-byte (often 64-byte) aligned blocks, so the alignment clause is decided by the plain configuration; the registry entry runs both.",
        "design_ref": "DESIGN.md §4 C38",
        "rule": "evaluation = one program on one (T, N) instantiation; non-trivial = at least two operations completed, one of them mutating a non-empty vector",
        "required_classes": ["mode:all-pairs", "mode:random", "storage:heap", "storage:inline", "N:1", "N:2", "N:4", "N:8", "N:64", "align:8", "align:16", "align:32", "align:64"] + ["op:" + o for o in _SV_OPS],
        "assumptions": _A,
        "runs": {
            "quick": [{"config": "plain", "shards": 16, "args": {"n": 200}}, {"config": "asan", "shards": 16, "args": {"n": 40, "aliasstride": 12}}],
            "thorough": [{"config": "plain", "shards": 16, "seeds": 2, "args": {"n": 2000}}, {"config": "asan", "shards": 16, "args": {"n": 300, "aliasstride": 4}}],
        },
    },
    "C39": {
        "level": "exploration",
        "technique": "runtime monitoring: id-keyed callable registry (construct / invoke / destroy counters, address alignment, byte pattern, owned heap cell) over a grid of callable sizes and alignments; ASan + LSan with and without the small-buffer allocator",
        "level_text": "77 callable types (sizes 1..1024 bytes on both sides of the 56-byte inline limit and of every small-buffer class 4..256 and the malloc fall-back, alignments 1..256) are wrapped in OnceFunction from rvalues, lvalues and const lvalues, moved through chains of 0..5 move constructions / move assignments, and then either invoked or released with cleanupNotRun(); also submitted through ThreadPool (0, 1, 2 threads, with and without ForceQueuingTag), TaskSet and ConcurrentTaskSet. After every step: number of live callables, number of invocations (0 before the call, exactly 1 after it, 0 after cleanupNotRun), no callable destroyed or invoked twice, `this % alignof == 0` at construction, invocation and destruction, bytes of the stored callable unchanged by relocation.",
        "level_note": "Callables are trivially relocatable by construction (OnceFunction documents memcpy relocation), so the registry is keyed by an id stored in the callable, not by address.",
        "design_ref": "DESIGN.md §4 C39",
        "rule": "evaluation = one scenario (callable type, construction kind, move chain, finish, route); every scenario invokes or releases a stored callable, so all are non-trivial; scenarios are pseudo-random per case plus two fixed ones per type",
        "required_classes": ["storage:inline", "storage:spill-sba", "storage:spill-malloc", "via:direct", "via:pool1-forcequeue", "via:pool2", "via:pool0", "via:taskset", "via:concurrent-taskset",
                             "finish:invoke", "finish:cleanupNotRun", "chain:0", "chain:5", "align:1", "align:64", "align:128", "align:256"],
        "assumptions": ["every OnceFunction is invoked or cleaned up exactly once by the harness (documented contract)"],
        "runs": {
            "quick": [{"config": "plain", "shards": 16, "args": {"n": 10}}, {"config": "asan", "shards": 16, "args": {"n": 3}}, {"config": "asan-nosba", "shards": 16, "args": {"n": 3}}],
            "thorough": [{"config": "plain", "shards": 16, "seeds": 2, "args": {"n": 400}}, {"config": "asan", "shards": 16, "args": {"n": 60}}, {"config": "asan-nosba", "shards": 16, "args": {"n": 60}}],
        },
    },
    "C40": {
        "level": "exploration",
        "technique": "runtime monitoring: differential interpreter against std::optional + lifetime registry, all short programs enumerated",
        "level_text": "Programs over three OpResult slots (default / value-copy / value-move / converting construction, copy and move construction, copy and move assignment in every engaged/disengaged combination, self assignment, assignment from a value, emplace, destruction) run on OpResult<Tracked> and OpResult<alignas(64) Tracked> and on std::optional<long>; after every operation has_value(), operator bool, value(), alignment and the registry (live contained objects == engaged results, nothing constructed over a live object, nothing destroyed twice) are compared. Quick: all ordered pairs of the 69 concrete (operation, slot, slot) choices + random programs of 2..30 operations; thorough: all triples.",
        "level_note": "After a move std::optional keeps the source engaged (moved-from value) while OpResult disengages it; that difference is not flagged (the reference follows what the source reports), only the lifetime balance and the destination are checked.",
        "design_ref": "DESIGN.md §4 C40",
        "rule": "evaluation = one program; non-trivial = at least two operations completed including a mutating one",
        "required_classes": ["all-pairs", "random", "align8", "align64"] + ["op:" + o for o in _OR_OPS],
        "assumptions": _A,
        "runs": {
            "quick": [{"config": "plain", "shards": 16, "args": {"n": 4000}}, {"config": "asan", "shards": 16, "args": {"n": 800}}],
            "thorough": [{"config": "plain", "shards": 16, "seeds": 2, "args": {"n": 40000}}, {"config": "asan", "shards": 16, "args": {"n": 4000}}],
        },
    },
}
