ENGINE = {
    "name": "h_alloc",
    "path": "harness/h_alloc.cpp",
    "std": "c++14",
    "kind": "generated multi-phase alloc/dealloc programs over 1..4 threads (cross-thread release, thread exits, concurrent diagnostics), owner patterns, address-interval ownership map, stamp-ordered hand-out/release histories, slab log",
}

_A = ["blocks are handed between harness threads only through the harness barrier / thread join (the synchronisation a user of the allocators has to provide)",
      "the ownership map is plain/asan only (its mutex would add happens-before edges under TSan); under TSan exclusivity is judged by owner patterns, the post-hoc history check and TSan's own race reports on the block bytes"]

PROPS = {
    "C41": {
        "level": "exploration",
        "technique": "runtime monitoring: alignment/size/owner-pattern on every block, interval ownership map, post-hoc hand-out/release alternation per address; ThreadSanitizer for the backing-store lock; ASan for block bounds",
        "level_text": "Generated programs (alloc bursts, random frees, mixed runs, short-lived threads) over 1..4 threads and the block classes 4..256 (+512, the alignedMalloc fallback); pools of held blocks rotate between threads at every phase so that blocks are released on other threads, worker threads exit between segments with cached blocks, an optional diagnostics thread calls approxBytesAllocatedSmallBuffer for every class throughout, and a ramp-up holds more blocks than the allocator ever created so that the slab-growth path runs (perturbed at kSbaAfterBackingLock). Scripted cases park a grower inside the backing-store critical section, call the diagnostics function and start a second grower. Every block must be aligned, never overlap a live block, and keep its owner pattern until released. Held-on-what-was-run, not a proof.",
        "level_note": "Trusts the logical stamps for the post-hoc history (alloc stamped after return, release stamped before the call) and the harness' own hand-off synchronisation. A double hand-out whose second owner releases before the first one looks can only be seen by the map (plain/asan) or TSan.",
        "design_ref": "DESIGN.md §4 C41",
        "rule": "case = (class, threads, diagnostics on/off, growth forced, generated program); non-trivial = at least two allocations and one release happened; distinct by full spec incl. program hash",
        "required_classes": ["class:4", "class:8", "class:16", "class:32", "class:64", "class:128", "class:256", "fallback-class", "threads:1", "threads:4",
                             "cross-thread-free", "thread-exit", "diag-concurrent", "slab-growth", "diag-during-growth", "gate-reached", "diag-gate-reached"],
        "assumptions": _A,
        "runs": {
            "quick": [{"config": "plain", "shards": 16, "args": {"n": 384, "gates": 32}}, {"config": "tsan", "shards": 16, "args": {"n": 96, "gates": 16, "scale": 40}},
                      {"config": "asan", "shards": 16, "args": {"n": 128, "gates": 16, "scale": 60}}],
            "thorough": [{"config": "plain", "shards": 16, "seeds": 2}, {"config": "tsan", "shards": 16, "args": {"n": 1200, "gates": 64, "scale": 40}},
                         {"config": "asan", "shards": 16, "args": {"n": 1200, "gates": 64, "scale": 60}}],
        },
    },
    "C42": {
        "level": "exploration",
        "technique": "runtime monitoring: slab log from custom allocFunc/deallocFunc, chunk-in-slab and chunk-grid checks, owner patterns, interval ownership map, post-hoc hand-out/release alternation, slab reuse after clear(), release-exactly-once at destruction; TSan and ASan builds",
        "level_text": "PoolAllocator with 1..4 threads and NoLockPoolAllocator serially, chunk sizes 1..1000, slabs of 1..40 chunks (exact and ragged), generated alloc/dealloc programs with cross-thread release, clear() at quiescent points between thread generations, destruction with and without live chunks. Every chunk must lie on the chunk grid of a slab obtained from allocFunc, never be live twice, the first allocFunc call after a clear() must come after every recycled slab was reused, and the destructor must release each slab exactly once.",
        "level_note": "Same stamp-based history as C41. clear() is only called at quiescence as the API requires.",
        "design_ref": "DESIGN.md §4 C42",
        "rule": "case = (thread-safe or not, chunk size, slab size, threads, generated program with clear points); non-trivial = at least two allocations and one slab; distinct by full spec incl. program hash",
        "required_classes": ["threadsafe", "nolock", "threads:1", "threads:4", "clear", "allocFunc-after-clear", "ragged-slab", "one-chunk-slab",
                             "destroyed-with-live-chunks", "multi-slab", "cross-thread-free"],
        "assumptions": _A,
        "runs": {
            "quick": [{"config": "plain", "shards": 16, "args": {"n": 1440}}, {"config": "tsan", "shards": 16, "args": {"n": 384, "scale": 40}},
                      {"config": "asan", "shards": 16, "args": {"n": 576, "scale": 60}}],
            "thorough": [{"config": "plain", "shards": 16, "seeds": 2}, {"config": "tsan", "shards": 16, "args": {"n": 2000, "scale": 40}},
                         {"config": "asan", "shards": 16, "args": {"n": 3000, "scale": 60}}],
        },
    },
}
