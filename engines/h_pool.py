ENGINE = {
    "name": "h_pool",
    "path": "harness/h_pool.cpp",
    "std": "c++14",
    "kind": "generated submission / wait / resize programs run by external threads, the main thread and pool tasks against one real ThreadPool; "
            "per-id invocation counters, per-set completion counters, thread-local submit-scope (ForceQueuingTag) checker, futex-observed "
            "quiescence + pending-work accessor, scripted gate interleavings around resize, state-based hang watchdog",
}

_A = ["task bodies touch only relaxed monitor counters and one plain slot per id (read after the barrier under test)",
      "workloads stay inside the documented contract: a TaskSet is used by one thread, ConcurrentTaskSet::wait is not concurrent with external schedule calls, "
      "the pool is destroyed only after every harness thread that calls into it was joined (pool tasks may still be scheduling children)"]

PROPS = {
    "C01": {
        "level": "exploration",
        "technique": "runtime monitoring: per-task invocation counters + heap tokens over generated producer programs, destructor started with queues full / workers gated; plain, TSan and ASan builds",
        "level_text": "Each case builds a pool (0..17 threads, load multiplier 1/2/32, signaling or polling wake), runs 1..6 producer programs (external threads or pool "
                      "tasks) that mix schedule, schedule(ForceQueuingTag), scheduleBulk(0/1/15/16/17/100/N/2N+1), pool-bound futures and tasks that schedule "
                      "children, optionally holds the workers in gate tasks that are released before, after or from inside ~ThreadPool (gate at the destructor's "
                      "hook site), destroys the pool without waiting for anything, and then requires every id's invocation count to be exactly 1 and no body to "
                      "run after the destructor returned. Hook sites in the enqueue / placed-push / hint-clear / worker-park windows are perturbed.",
        "level_note": "A scripted case parks a worker between its failed central-queue dequeue and the clearing of the non-empty hint while the last running task force-queues a child after the destructor's first drain, so that only the destructor's post-join drain can run it. Held-on-what-was-run. Double invocation is additionally an ASan double free; a dropped task's token is freed by the harness after the verdict.",
        "design_ref": "DESIGN.md §4 C01",
        "rule": "case = (pool size, multiplier, wake mode, producer programs, gate plan, perturbation) from the seeded generator; non-trivial = at least two tasks were handed to the pool; distinct by full spec",
        "required_classes": ["pool0", "pool1-8", "pool9+", "poll", "wake", "gated-dtor", "free", "fut", "futkids", "pool-task-producer", "multi-producer",
                             "bulk>16", "mult1", "script:dtor-hint-race", "post-join-drain-ran-a-task", "script:dtor-zero-thread-queue", "zero-thread-dtor-drained", "ran:worker", "ran:caller-inline", "ran:pool-dtor"],
        "assumptions": _A,
        "runs": {
            "quick": [{"config": "plain", "shards": 16, "args": {"n": 400}}, {"config": "tsan", "shards": 16, "args": {"n": 64, "scripted": 8}}, {"config": "asan", "shards": 16, "args": {"n": 128, "scripted": 8}}],
            "thorough": [{"config": "plain", "shards": 16, "seeds": 5}, {"config": "tsan", "shards": 16, "args": {"n": 1500}}, {"config": "asan", "shards": 16, "args": {"n": 3000}}],
        },
    },
    "C02": {
        "level": "exploration",
        "technique": "runtime monitoring: scheduled/finished counters per task set checked at every wait / successful tryWait / destructor return, readiness of set-bound futures; plain, TSan, ASan",
        "level_text": "Programs over TaskSet and ConcurrentTaskSet (heavy and lightweight, stealing multiplier 1/4) mixing schedule, force-queued, bulk, force-queued bulk, "
                      "async(set), then(f,set), when_all(set,...), static parallel_for, self-recursive scheduling, nested task sets inside tasks, owners that are external "
                      "threads or pool tasks, and 1..3 concurrent producers on a shared ConcurrentTaskSet; pools 0..9. 'scheduled' is bumped before each call, "
                      "'finished' is the last action of each body (after a dwell); equality is required immediately after wait(), after tryWait()==true and after the "
                      "set's destructor, and set-bound futures must be ready.",
        "level_note": "A wait that returns less than one dwell early can be missed in a single case; the dwell and the hook at the wrapper's post-body site widen the window.",
        "design_ref": "DESIGN.md §4 C02",
        "rule": "case = generated task-set program(s); non-trivial = at least one barrier was checked over at least two tasks; distinct by full spec",
        "required_classes": ["TS", "CTSh", "CTSl", "pool0", "poolN", "owner-pool-task", "owner-external", "recursive", "multi-producer", "tryWait", "wait",
                             "dtor-barrier", "future", "then", "when_all", "bulk", "fq", "parfor", "ring-overflow", "inline-depth-cap", "inline-depth-cap:CTSh.schedule", "inline-depth-cap:CTSl.schedule", "inline-depth-cap:CTSl.bulk", "inline-depth-cap:CTSh.bulk", "inline-depth-cap:TS.schedule", "inline-depth-cap:TS.bulk", "tryWait0-polled", "ran:waiter", "ran:worker", "wait-with-outstanding"],
        "assumptions": _A,
        "runs": {
            "quick": [{"config": "plain", "shards": 16, "args": {"n": 480}}, {"config": "tsan", "shards": 16, "args": {"n": 64}}, {"config": "asan", "shards": 16, "args": {"n": 128}}],
            "thorough": [{"config": "plain", "shards": 16, "seeds": 5}, {"config": "tsan", "shards": 16, "args": {"n": 2000}}, {"config": "asan", "shards": 16, "args": {"n": 4000}}],
        },
    },
    "C03": {
        "level": "exploration",
        "technique": "runtime monitoring: invocation counters + task-set barriers under a concurrent resizer thread, scripted gate interleavings at the resize / ring-count hook sites, state-based hang verdicts",
        "level_text": "Random cases: a resizer thread issues resize(0..9) and setSignalingWake against 1..4 producers using pool.schedule, force-queue, bulk, futures, TaskSet / "
                      "ConcurrentTaskSet (ring-sized bulks, static parallel_for) with waits; every id must run exactly once and every wait must return (watchdog). "
                      "Scripted cases park one side at a hook site: producer after scheduleBulkToRings loaded the ring count while a full shrink runs; resizer after "
                      "stop / after join while ring-path or placed submissions arrive; producer after forceEnqueue's size test while resize(0) completes. A stranded "
                      "task is reported from state (task outstanding, none running, ring index >= published ring count non-empty or zero-thread pool, no progress over "
                      "4000 tryWait polls) or by the watchdog when the real wait() is used.",
        "level_note": "Random cases with ring-path bulks racing a ring-count shrink are a separate small class because they can reach the known stranding schedule.",
        "design_ref": "DESIGN.md §4 C03",
        "rule": "case = (pool, producer programs, resize sequence, perturbation) or a scripted interleaving spec; non-trivial = at least one resize ran against at least two tasks (random) / the gate was reached (scripted); distinct by full spec",
        "required_classes": ["ringbulk", "noring", "shrink", "noshrink", "resize:grow", "resize:shrink", "resize:zero", "setSignalingWake", "parallel_for", "future",
                             "shared-cts", "script:push-after-shrink", "script:ringbulk-after-join", "script:ringbulk-after-stop", "script:placed-after-stop",
                             "script:fq-after-resize0", "script:shrink-before-ringcount-load", "zero-thread-dtor-drained", "resize-drained", "gate-reached", "ran:resize"],
        "assumptions": _A,
        "runs": {
            "quick": [{"config": "plain", "shards": 8}, {"config": "tsan", "shards": 8, "args": {"n": 64, "scripted": 16}}, {"config": "asan", "shards": 8, "args": {"n": 96, "scripted": 16}}],
            "thorough": [{"config": "plain", "shards": 8, "seeds": 3}, {"config": "tsan", "shards": 8, "args": {"n": 800, "scripted": 80}}, {"config": "asan", "shards": 8, "args": {"n": 1500, "scripted": 80}}],
        },
    },
    "C08": {
        "level": "exploration",
        "technique": "runtime monitoring: guarded pending-work accessor read at a futex-observed quiescent point after generated histories and scripted resize-drains; behavioural probe",
        "level_text": "Histories of all submission paths, waits and concurrent resizes are run to completion; then, with every id finished, nobody submitting and all workers "
                      "observed inside a futex wait at one instant (a worker flushes its batched decrements before it waits), verifWorkRemaining() must be 0, and a probe "
                      "schedule() on the idle pool must not run inline. Scripted cases make resize() drain ring / steal-ring tasks itself (resizer parked after stop or "
                      "after join while ring-path or placed submissions arrive).",
        "level_note": "The idle condition is polled, never the value. Histories whose last state cannot be observed idle are counted, not judged.",
        "design_ref": "DESIGN.md §4 C08",
        "rule": "case = history or scripted interleaving; non-trivial = the accounting check was actually performed (quiescent and idle observed) after at least two tasks; distinct by full spec",
        "required_classes": ["accounting-checked", "resizes", "noresize", "ringbulk", "noring", "resize-drained", "waiter-stole", "inline", "poll",
                             "script:ringbulk-after-join", "script:ringbulk-after-stop", "script:placed-after-stop", "target:zero", "target:shrink", "target:grow"],
        "assumptions": _A,
        "runs": {
            "quick": [{"config": "plain", "shards": 16}, {"config": "tsan", "shards": 16, "args": {"n": 64, "scripted": 24}}, {"config": "asan", "shards": 16, "args": {"n": 96, "scripted": 24}}],
            "thorough": [{"config": "plain", "shards": 16, "seeds": 3}, {"config": "tsan", "shards": 16, "args": {"n": 800, "scripted": 120}}, {"config": "asan", "shards": 16, "args": {"n": 1500, "scripted": 120}}],
        },
    },
    "C47": {
        "level": "exploration",
        "technique": "runtime monitoring: thread-local stack of the id ranges currently being force-queued by this thread; a body that finds its own id there ran inside its submit call",
        "level_text": "All ForceQueuingTag overloads that exist (ThreadPool::schedule, TaskSet / ConcurrentTaskSet heavy+lightweight ::schedule and ::scheduleBulk) are called "
                      "from external threads and from pool tasks, on idle pools and on pools whose workers are held by gate tasks with more than loadFactor tasks queued "
                      "(so that plain schedule() demonstrably runs inline), pools 1..9 (17 thorough), multipliers 1/2/32. The check is thread-local and therefore exact.",
        "level_note": "ThreadPool has no public scheduleBulk(n, gen, ForceQueuingTag) overload in this tree, so that call named by the property cannot be exercised.",
        "design_ref": "DESIGN.md §4 C47",
        "rule": "case = (pool, load level, caller kind, program of force-queued submissions); non-trivial = at least one force-queued task was submitted; distinct by full spec",
        "required_classes": ["idle", "overloaded", "pool-recursive", "pool-recursive-overloaded", "overload-confirmed", "pool.schedule-fq", "TS.schedule-fq", "TS.bulk-fq",
                             "CTSh.schedule-fq", "CTSh.bulk-fq", "CTSl.schedule-fq", "CTSl.bulk-fq", "mult1", "mult32"],
        "assumptions": _A,
        "runs": {
            "quick": [{"config": "plain", "shards": 16}, {"config": "tsan", "shards": 16, "args": {"n": 96}}, {"config": "asan", "shards": 16, "args": {"n": 160}}],
            "thorough": [{"config": "plain", "shards": 16, "seeds": 3}, {"config": "tsan", "shards": 16, "args": {"n": 1500}}, {"config": "asan", "shards": 16, "args": {"n": 3000}}],
        },
    },
}
