ENGINE = {
    "name": "h_wake",
    "path": "harness/h_wake.cpp",
    "std": "c++14",
    "kind": "real pools with a one-hour wake backstop (public setSignalingWake), futex interposer as the observer of who is parked, scripted gates at the three park sites, /proc thread census",
}

_A07 = [
    "the backstop is moved to one hour with the public setSignalingWake(true, 1h); nothing else about the pool is changed",
    "one producer (the harness main thread, not a pool thread) submits; it never waits before the verdict",
    "task bodies return by themselves (no body blocks on another), so 'all workers parked' means nothing is running",
    "only dispenso's own futex() wrapper goes through the interposed syscall(); the harness itself never uses timed futex waits",
]
_A09 = [
    "wake mode uses a 30-60 min backstop so that completion cannot come from it; poll mode is run both with its 100-200 us poll period (not judged for hangs: there the timed sleep is the design) and with a one-hour period (mode pollL, judged like wake mode: since wakeAll() always issues the futex wake, stopping parked pollers must not wait for their period)",
    "the pool is used from one thread only; no call races the destructor, resize or setSignalingWake",
    "thread census through /proc/self/task: count of live non-harness threads, plus identity of the stopped generation by (tid, thread start time) so that a recycled tid cannot produce a verdict",
]

PROPS = {
    "C07": {
        "level": "exploration",
        "technique": "runtime monitoring: one-hour backstop, futex interposer shows all N workers parked, one producer submits through each path and does not wait; state-based stranded verdict (all workers parked again in 3 samples 100 ms apart, wait-exit counter stable, units unstarted)",
        "level_text": "For every submission path (pool schedule / schedule(ForceQueuing) / scheduleBulk, TaskSet and ConcurrentTaskSet heavy+light single and bulk, non-waiting parallel_for static+adaptive, non-waiting for_each, pool-bound Future) x pool size x park-order shuffle, a pool with a one-hour backstop is brought to the all-parked state, its park order is shuffled (ring-path full wakes and/or single force-queued tasks), then k in 1..N tasks are submitted by one non-pool thread. Pass = every unit started. Violation = every worker parked again while units are unstarted. Half the cases also delay the producer and/or the workers at the hook sites inside the submit and park paths. A second family (held-singles) submits single force-queued tasks one at a time into parked pools of 9, 10 and 17 threads (small last wake group) with bodies that block until released, so that every submission needs one more sleeper to be claimed and woken, the round-robin group hint starting on different groups (0..3 prior singles); the number of submissions stays within what the wake protocol guarantees for any kernel choice of waiter. Held-on-what-was-run.",
        "level_note": "The kernel's choice among futex waiters is not controlled, only varied by shuffling the park order; wake orders actually seen are recorded per case (ranks). No latency threshold is used anywhere.",
        "design_ref": "DESIGN.md §4 C07",
        "rule": "case = (path, N, k, shuffle, perturbation, order index); non-trivial = the pool reached the all-parked state and the submission made at least one parked worker leave its futex wait and start a unit (or ended stranded); distinct by full spec",
        "required_classes": ["route:central", "route:ring", "route:placed", "k:single", "k:multi", "ring:aligned", "ring:partial", "central:single", "central:burst", "central:bulk", "placed:single", "placed:burst", "placed:bulk",
                             "history:fresh", "history:bulk", "history:claimed", "multi-group", "perturbed", "held-singles", "held-singles:small-last-group",
                             "held-singles:hint-start-g0", "held-singles:hint-start-g1", "held-singles:hint-start-g2",
                             "path:pool-schedule", "path:pool-schedule-fq", "path:pool-bulk", "path:ts-schedule", "path:ts-bulk",
                             "path:cts-heavy-schedule", "path:cts-heavy-bulk", "path:cts-light-schedule", "path:cts-light-bulk",
                             "path:parfor-static", "path:parfor-adaptive", "path:foreach", "path:future", "path:future-async"],
        "assumptions": _A07,
        "runs": {
            "quick": [{"config": "plain", "shards": 16}],
            "thorough": [{"config": "plain", "shards": 16, "seeds": 2}],
        },
    },
    "C09": {
        "level": "exploration",
        "technique": "runtime monitoring: lifecycles (destructor / resize / setSignalingWake) issued while workers are parked, spinning, busy, delayed at the park sites or held in a scripted gate at each park site; state-based hang verdict (caller asleep in join, surviving workers parked in a timed futex wait with a 30-60 min timeout, wait exits stable) plus the runtime watchdog; thread census after return; repeated under TSan",
        "level_text": "Each case builds a pool of 0..17 threads in wake mode (one-hour backstop) or poll mode, gives the worker generation a history (none, ring-path bulk, single force-queued tasks), drives the workers to a phase (parked, spinning, busy, park-site delays + futex pre-wait delays + spurious futex returns, or a gate that holds one worker before enterSleep / after enterSleep / before the wait), then runs the operation under test on the main thread and afterwards destroys the surviving pool. The call must return, and afterwards the number of live non-harness threads must equal the size of the new configuration and no thread of the stopped generation (tid + start time) may be alive. Poll mode with a one-hour period (pollL) goes through the same operations and phases (phases are set up on the way to the first park, because nothing wakes a poller for a task). setSignalingWake(same flag, other duration) on parked long-period workers (1 h -> 200 us, 1 h -> 1 h - 1 s) is additionally followed by a force-queued task that the new configuration must start (state-based stranded verdict).",
        "level_note": "The phase present at call time is recorded from the futex interposer and the guarded accessors (at-call:* classes). The gate is opened by the monitor thread after the stopper passed its stop loop (or right at the start of the call), with a random delay.",
        "design_ref": "DESIGN.md §4 C09",
        "rule": "evaluations = operations under test (the operation of the case plus the final destructor of a surviving pool); non-trivial = the stopped generation had at least one worker thread; distinct by case spec",
        "required_classes": ["op:dtor", "op:resize-up", "op:resize-down", "op:resize-0", "op:ssw-same", "op:ssw-toggle", "mode:wake", "mode:poll",
                             "phase:parked", "phase:spinning", "phase:busy", "phase:parking", "gate-reached:gate8", "gate-reached:gate9",
                             "gate-reached:gate10", "hist:fresh", "hist:bulk", "hist:claimed", "n0", "n1", "multi-group",
                             "at-call:parked", "at-call:spinning", "at-call:busy",
                             "mode:pollL", "pollL:parked", "pollL:spinning", "pollL:busy", "pollL:parking", "pollL:gate-reached:gate8",
                             "pollL:gate-reached:gate10", "pollL:op:dtor", "pollL:op:resize", "pollL:op:ssw",
                             "ssw-parked:wake:long-short", "ssw-parked:wake:long-long", "ssw-parked:poll:long-short", "ssw-parked:poll:long-long",
                             "followup:wake", "followup:poll"],
        "assumptions": _A09,
        "runs": {
            "quick": [{"config": "plain", "shards": 16, "args": {"n": 1200}}, {"config": "tsan", "shards": 16, "args": {"n": 160, "nmax": 9}}],
            "thorough": [{"config": "plain", "shards": 16, "seeds": 2}, {"config": "tsan", "shards": 16, "args": {"n": 2400, "nmax": 12}}],
        },
    },
}
