ENGINE = {
    "name": "h_misc",
    "path": "harness/h_misc.cpp",
    "std": "c++14",
    "kind": "differential checks of CpuSet / CPU-list parsing / topology grouping and of the bit-math helpers against independent reference implementations",
}

PROPS = {
    "C43": {
        "level": "exploration",
        "technique": "runtime monitoring: differential against std::set<int> clipped to [0, CPU_SETSIZE), a reference CPU-list parser, and four grouping invariants on random synthetic topologies; plain and ASan/UBSan builds",
        "level_text": "(a) random sequences of add/addRange/remove/removeRange/contains/count/clear/copy with ids drawn from in-range, boundary (-1, 0, 1023, 1024), negative, huge and INT32 extreme values, the whole set compared with the model after every operation; every single operation over a structured id list (all of -1030..1030, +-2^k, INT32 extremes; 17x17 range bounds) on four base sets. (b) every string of length <= 6 (7 thorough) over {0,1,2,3,4,9,'-',','} with and without trailing newline, plus random kernel-grammar lists with ids up to 2^34: strings in the grammar (N | A-B with A<=B, comma separated) are compared with a reference parser, all others only have to parse cleanly and stay self-consistent; arbitrary byte strings for the sanitizers. (c) 20 000 (200 000 thorough) synthetic topologies (1..160 CPUs, dense/sparse ids, also beyond 1024; L2 = runs of 1..8 or SMT pairs, empty L2 groups; L3 = contiguous / interleaved / partial unions of L2 groups in sorted or shuffled order; maxGroupSize from INT32_MIN to INT32_MAX) with the four invariants of the statement checked on buildGroupsFromCacheTopology.",
        "level_note": "Linux backing (cpu_set_t) only. CPU ids in topologies are non-negative and below 2^31-1 (cpu+1 must be representable). The kernel's stride syntax (A-B:u/g) is outside the stated grammar.",
        "design_ref": "DESIGN.md §4 C43",
        "rule": "evaluation = one operation sequence / one parsed string / one topology; non-trivial = >= 2 mutations / a string denoting at least one in-range id / a topology with >= 2 L2 groups",
        "required_classes": ["set-random", "set-single-op", "id:negative", "id:beyond", "id:extreme", "id:in-range", "parse-enumerated", "parse-random", "parse-range-in-to-beyond-2^20", "parse-ids-beyond-setsize",
                             "group:no-l3", "group:contiguous-l3", "group:interleaved-l3", "group:partial-l3", "group:max<=0", "group:max<l2", "group:max>=l2", "group:multiple-groups", "group:cpu-beyond-setsize"],
        "assumptions": ["CPU_SETSIZE == 1024 (checked at start-up)"],
        "runs": {
            "quick": [{"config": "plain", "shards": 16}, {"config": "asan", "shards": 16, "args": {"nset": 100, "nparse": 100, "ngroup": 5000, "maxlen": 5}}],
            "thorough": [{"config": "plain", "shards": 16, "seeds": 2}, {"config": "asan", "shards": 16, "args": {"nset": 1000, "nparse": 1000, "ngroup": 50000, "maxlen": 6}}],
        },
        "exhaustive": {"quick": False, "thorough": False},
    },
    "C44": {
        "level": "exploration",
        "technique": "differential check against table-driven references (byte tables built by naive loops); 16-bit windows exhaustive in quick, all 2^32 inputs in thorough; UBSan/ASan builds",
        "level_text": "nextPow2 (1..2^63), log2 and log2const (32-bit, 64-bit and the generic overload for other integer types; non-zero), countTrailingZeros (non-zero), countSetBits (all), alignToCacheLine (<= 2^64-64) are compared with references for: every 16-bit pattern placed at bit 0,8,..,48 with 7 variants each (alone, lower bits filled, +-1, top bit, complement), every value with <= 3 set bits and its complement, 2^k+-{0,1,2}, 10^6 (10^8 thorough) random values in four shapes; thorough adds ALL 2^32 values for the 32-bit overloads and for the 64-bit functions on 32-bit inputs. alignedMalloc: every power-of-two alignment 2^0..2^16 x every size 0..4097: address multiple of the alignment, whole block writable (ASan), blocks kept allocated keep their contents, alignedFree(nullptr). Not a proof for the 64-bit domain.",
        "level_note": "nextPow2(0), log2(0), countTrailingZeros(0) are outside the stated domains and not called. The references share no code with the builtins/inline assembly used by the implementation.",
        "design_ref": "DESIGN.md §4 C44",
        "rule": "evaluation = one input value run through every function whose domain contains it (one allocation for alignedMalloc); non-trivial = non-zero input; window/sparse/slice inputs are distinct by construction, random ones pseudo-random",
        "required_classes": ["bits-16bit-exhaustive", "bits-structured", "bits-random", "alignedMalloc"],
        "assumptions": ["x86-64 Linux build (bsr inline assembly path); kCacheLineSize == 64"],
        "runs": {
            "quick": [{"config": "plain", "shards": 16}, {"config": "asan", "shards": 16, "args": {"nrandom": 16}}],
            "thorough": [{"config": "plain", "shards": 16, "args": {"exhaustive32": 1}}, {"config": "ubsan", "shards": 16, "args": {"exhaustive32": 1, "nrandom": 160}}, {"config": "asan", "shards": 16, "args": {"exhaustive32": 0, "nrandom": 160}}],
        },
        "exhaustive": {"quick": False, "thorough": False},
    },
}
