#include "verif_rt.h"

#include <dlfcn.h>
#include <errno.h>
#include <linux/futex.h>
#include <stdarg.h>
#include <sys/syscall.h>
#include <time.h>
#include <unistd.h>

#include <unordered_set>

#if VRT_ASAN
#include <sanitizer/lsan_interface.h>
#endif

namespace vrt {

Args g_args;
static long g_leakEvery = 1;
void leakCheckEvery(long n) {
  g_leakEvery = n;
}

// ---------------------------------------------------------------- output
namespace {
FILE* g_out = nullptr;
std::mutex& g_outMtx = *new std::mutex;
std::atomic<long> g_violations{0};
std::atomic<long> g_curCase{-1};
// Heap-allocated and never destroyed: the detached watchdog thread may still read them while main's
// static destructors run at exit.
std::string& g_curKey = *new std::string; // written at caseBegin (main thread), read via curKeyCopy()
std::mutex& g_keyMtx = *new std::mutex;
std::atomic<uint64_t> g_stamp{1};
std::atomic<uint64_t> g_progress{0};
double g_caseStart = 0;

void emitLine(const std::string& s) {
  std::lock_guard<std::mutex> lk(g_outMtx);
  if (g_out) {
    fputs(s.c_str(), g_out);
    fputc('\n', g_out);
    fflush(g_out);
  }
}
std::string curKeyCopy() {
  std::lock_guard<std::mutex> lk(g_keyMtx);
  return g_curKey;
}
} // namespace

std::string Args::get(const std::string& k, const std::string& dflt) const {
  for (auto& kv : extra) {
    if (kv.first == k) return kv.second;
  }
  return dflt;
}
long Args::getInt(const std::string& k, long dflt) const {
  std::string v = get(k, "");
  return v.empty() ? dflt : std::strtol(v.c_str(), nullptr, 10);
}

uint64_t stamp() {
  return g_stamp.fetch_add(1, std::memory_order_relaxed);
}
void progress(uint64_t n) {
  g_progress.fetch_add(n, std::memory_order_relaxed);
}
double nowSeconds() {
  return std::chrono::duration<double>(std::chrono::steady_clock::now().time_since_epoch()).count();
}
void spinFor(int micros) {
  auto end = std::chrono::steady_clock::now() + std::chrono::microseconds(micros);
  while (std::chrono::steady_clock::now() < end) {
  }
}

Rng caseRng(long idx, uint64_t salt) {
  return Rng(mix(mix(g_args.seed, hashStr(g_args.prop.c_str())), mix(static_cast<uint64_t>(idx), salt)));
}

bool selected(long idx) {
  if (g_args.only >= 0) return idx == g_args.only;
  if (idx < g_args.from) return false;
  return (idx % g_args.nshards) == g_args.shard;
}

// ---------------------------------------------------------------- JSON
std::string J::esc(const std::string& s) {
  std::string o;
  o.reserve(s.size() + 8);
  for (unsigned char c : s) {
    switch (c) {
      case '"': o += "\\\""; break;
      case '\\': o += "\\\\"; break;
      case '\n': o += "\\n"; break;
      case '\r': o += "\\r"; break;
      case '\t': o += "\\t"; break;
      default:
        if (c < 0x20) {
          char b[8];
          snprintf(b, sizeof b, "\\u%04x", c);
          o += b;
        } else {
          o += static_cast<char>(c);
        }
    }
  }
  return o;
}
void J::key(const char* k) {
  if (!body_.empty()) body_ += ",";
  body_ += "\"";
  body_ += k;
  body_ += "\":";
}
J& J::kv(const char* k, const std::string& v) {
  key(k);
  body_ += "\"" + esc(v) + "\"";
  return *this;
}
J& J::kv(const char* k, const char* v) {
  return kv(k, std::string(v));
}
J& J::kv(const char* k, bool v) {
  key(k);
  body_ += v ? "true" : "false";
  return *this;
}
J& J::kv(const char* k, double v) {
  key(k);
  char b[64];
  snprintf(b, sizeof b, "%.9g", v);
  body_ += b;
  return *this;
}
J& J::kv(const char* k, const J& obj) {
  key(k);
  body_ += obj.str();
  return *this;
}
J& J::raw(const char* k, const std::string& rawJson) {
  key(k);
  body_ += rawJson;
  return *this;
}

// ---------------------------------------------------------------- case protocol
void caseBegin(long idx, const std::string& key, const J& spec) {
  {
    std::lock_guard<std::mutex> lk(g_keyMtx);
    g_curKey = key;
  }
  g_curCase.store(idx, std::memory_order_relaxed);
  g_caseStart = nowSeconds();
  emitLine(J().kv("ev", "case_begin").kv("case", idx).kv("key", key).kv("spec", spec).str());
  fprintf(stderr, "@@VRT case_begin %ld %s\n", idx, key.c_str());
  fflush(stderr);
  progress();
}
void caseEnd(const J& stats, const std::string& ntSig, const std::vector<std::string>& classes) {
  long idx = g_curCase.load(std::memory_order_relaxed);
#if VRT_ASAN
  // Attribute leaks to the case that produced them. LeakSanitizer re-reports every leak on each
  // check, so after the first one the process ends and the driver continues in a fresh process.
  {
    static long sinceCheck = 0;
    if (g_leakEvery > 0 && ++sinceCheck >= g_leakEvery) {
      sinceCheck = 0;
      if (__lsan_do_recoverable_leak_check()) {
        violation("LeakSanitizer: memory allocated during this case was leaked (report in stderr)", J(), "leak");
        _exit(6);
      }
    }
  }
#endif
  J j;
  j.kv("ev", "case_end").kv("case", idx).kv("stats", stats).kv("nt", ntSig).arr("cls", classes);
  j.kv("wall_s", nowSeconds() - g_caseStart);
  emitLine(j.str());
  fprintf(stderr, "@@VRT case_end %ld\n", idx);
  fflush(stderr);
  g_curCase.store(-1, std::memory_order_relaxed);
  progress();
}
void violation(const std::string& msg, const J& detail, const std::string& subkey, const char* prop) {
  g_violations.fetch_add(1, std::memory_order_relaxed);
  std::string key = curKeyCopy();
  if (!subkey.empty()) key += "/" + subkey;
  emitLine(J().kv("ev", "violation")
               .kv("case", g_curCase.load(std::memory_order_relaxed))
               .kv("prop", prop ? std::string(prop) : g_args.prop)
               .kv("key", key)
               .kv("msg", msg)
               .kv("detail", detail)
               .str());
}
void inconclusive(const std::string& why) {
  emitLine(J().kv("ev", "inconclusive")
               .kv("case", g_curCase.load(std::memory_order_relaxed))
               .kv("key", curKeyCopy())
               .kv("why", why)
               .str());
}
void note(const J& obj) {
  emitLine(J().kv("ev", "note").kv("case", g_curCase.load(std::memory_order_relaxed)).kv("data", obj).str());
}
long violationsSeen() {
  return g_violations.load(std::memory_order_relaxed);
}
const std::string& currentCaseKey() {
  return g_curKey;
}

// ---------------------------------------------------------------- perturbation points
namespace {
constexpr int kMaxSites = 64;
struct alignas(64) Site {
  std::atomic<uint32_t> prob{0}; // out of 65536
  std::atomic<int> gate{0}; // 0 none, 1 armed, 2 a thread is parked, 3 opened
  std::atomic<uint64_t> hits{0}, delays{0};
};
Site g_sites[kMaxSites];
std::atomic<bool> g_hooksOn{false};
std::atomic<int> g_maxSleepUs{300};
std::atomic<int> g_nextOrdinal{0};
thread_local int tl_ord = -1;
thread_local uint64_t tl_rng = 0;

inline uint64_t tlRand() {
  if (tl_rng == 0) {
    tl_rng = mix(g_args.seed ^ 0xABCDEF, static_cast<uint64_t>(threadOrdinal()) + 17) | 1;
  }
  tl_rng ^= tl_rng << 13;
  tl_rng ^= tl_rng >> 7;
  tl_rng ^= tl_rng << 17;
  return tl_rng;
}
void recomputeOn() {
  bool on = false;
  for (auto& s : g_sites) {
    if (s.prob.load(std::memory_order_relaxed) || s.gate.load(std::memory_order_relaxed)) on = true;
  }
  g_hooksOn.store(on, std::memory_order_relaxed);
}
} // namespace

int threadOrdinal() {
  if (tl_ord < 0) tl_ord = g_nextOrdinal.fetch_add(1, std::memory_order_relaxed);
  return tl_ord;
}
void hooksReset() {
  for (auto& s : g_sites) {
    s.prob.store(0, std::memory_order_relaxed);
    int g = s.gate.load(std::memory_order_relaxed);
    if (g == 2) {
      s.gate.store(3, std::memory_order_relaxed); // release a parked thread
    } else if (g == 1) {
      s.gate.store(0, std::memory_order_relaxed);
    }
  }
  recomputeOn();
}
void hookProb(int site, double p) {
  if (site <= 0 || site >= kMaxSites) return;
  g_sites[site].prob.store(static_cast<uint32_t>(p * 65536.0), std::memory_order_relaxed);
  recomputeOn();
}
void hookProbAll(double p) {
  for (int i = 1; i < kMaxSites; ++i) {
    g_sites[i].prob.store(static_cast<uint32_t>(p * 65536.0), std::memory_order_relaxed);
  }
  recomputeOn();
}
void hookMaxSleepUs(int us) {
  g_maxSleepUs.store(us, std::memory_order_relaxed);
}
void gateArm(int site) {
  g_sites[site].gate.store(1, std::memory_order_relaxed);
  g_hooksOn.store(true, std::memory_order_relaxed);
}
bool gateWaitArrived(int site, int timeoutMs) {
  double end = nowSeconds() + timeoutMs / 1000.0;
  while (nowSeconds() < end) {
    if (g_sites[site].gate.load(std::memory_order_relaxed) == 2) return true;
    usleep(100);
  }
  return g_sites[site].gate.load(std::memory_order_relaxed) == 2;
}
void gateOpen(int site) {
  int g = g_sites[site].gate.load(std::memory_order_relaxed);
  if (g == 2) {
    g_sites[site].gate.store(3, std::memory_order_relaxed);
  } else {
    g_sites[site].gate.store(0, std::memory_order_relaxed);
  }
  // hooksOn is recomputed lazily by the parked thread when it leaves
}
uint64_t hookHits(int site) {
  return g_sites[site].hits.load(std::memory_order_relaxed);
}
uint64_t hookDelays(int site) {
  return g_sites[site].delays.load(std::memory_order_relaxed);
}
J hookStats() {
  J j;
  for (int i = 1; i < kMaxSites; ++i) {
    uint64_t h = g_sites[i].hits.load(std::memory_order_relaxed);
    if (h) {
      j.kv(std::to_string(i).c_str(), J().kv("hits", h).kv("delays", g_sites[i].delays.load(std::memory_order_relaxed)));
    }
  }
  return j;
}
void hookStatsReset() {
  for (auto& s : g_sites) {
    s.hits.store(0, std::memory_order_relaxed);
    s.delays.store(0, std::memory_order_relaxed);
  }
}

} // namespace vrt

extern "C" void dispenso_verif_point(int site) {
  using namespace vrt;
  if (!g_hooksOn.load(std::memory_order_relaxed)) return;
  if (site <= 0 || site >= kMaxSites) return;
  Site& s = g_sites[site];
  s.hits.fetch_add(1, std::memory_order_relaxed);
  int g = s.gate.load(std::memory_order_relaxed);
  if (g == 1) {
    int exp = 1;
    if (s.gate.compare_exchange_strong(exp, 2, std::memory_order_relaxed)) {
      // park until opened; long safety timeout so a forgotten gate cannot hang the process
      double end = nowSeconds() + 60.0;
      while (s.gate.load(std::memory_order_relaxed) != 3 && nowSeconds() < end) {
        usleep(50);
      }
      s.gate.store(0, std::memory_order_relaxed);
      s.delays.fetch_add(1, std::memory_order_relaxed);
      return;
    }
  }
  uint32_t p = s.prob.load(std::memory_order_relaxed);
  if (p) {
    uint64_t r = tlRand();
    if ((r & 0xFFFF) < p) {
      s.delays.fetch_add(1, std::memory_order_relaxed);
      unsigned kind = (r >> 16) % 10;
      if (kind < 5) {
        sched_yield();
      } else if (kind < 8) {
        unsigned n = 50 + ((r >> 24) % 3000);
        for (volatile unsigned i = 0; i < n; ++i) {
        }
      } else {
        int mx = g_maxSleepUs.load(std::memory_order_relaxed);
        usleep(1 + static_cast<unsigned>((r >> 24) % static_cast<unsigned>(mx > 0 ? mx : 1)));
      }
    }
  }
}

// ---------------------------------------------------------------- futex interposer
namespace vrt {
namespace {
std::atomic<uint64_t> f_waits{0}, f_timed{0}, f_wakes{0}, f_timeouts{0}, f_spur{0}, f_exits{0};
std::atomic<int> f_inWait{0}, f_inTimed{0}, f_inUntimed{0};
std::atomic<uint32_t> f_preProb{0}, f_spurProb{0};
std::atomic<int> f_preMaxUs{0};
using SyscallFn = long (*)(long, ...);
// Resolved eagerly in init() and cached in a plain atomic: a function-local static would be
// guarded by __cxa_guard_acquire, and libstdc++ waits on a contended guard through syscall(SYS_futex),
// i.e. through this interposer again -> unbounded recursion when several threads make the
// process's first futex call at the same moment.
std::atomic<SyscallFn> g_realSyscall{nullptr};
SyscallFn realSyscall() {
  SyscallFn fn = g_realSyscall.load(std::memory_order_relaxed);
  if (!fn) {
    fn = reinterpret_cast<SyscallFn>(dlsym(RTLD_NEXT, "syscall"));
    g_realSyscall.store(fn, std::memory_order_relaxed);
  }
  return fn;
}
} // namespace

FutexStats futexStats() {
  FutexStats s;
  s.waits = f_waits.load(std::memory_order_relaxed);
  s.timedWaits = f_timed.load(std::memory_order_relaxed);
  s.wakes = f_wakes.load(std::memory_order_relaxed);
  s.timeouts = f_timeouts.load(std::memory_order_relaxed);
  s.spuriousInjected = f_spur.load(std::memory_order_relaxed);
  s.waitExits = f_exits.load(std::memory_order_relaxed);
  s.inWaitNow = f_inWait.load(std::memory_order_relaxed);
  s.inTimedWaitNow = f_inTimed.load(std::memory_order_relaxed);
  s.inUntimedWaitNow = f_inUntimed.load(std::memory_order_relaxed);
  return s;
}
void futexStatsReset() {
  f_waits = 0;
  f_timed = 0;
  f_wakes = 0;
  f_timeouts = 0;
  f_spur = 0;
  f_exits = 0;
}
void futexPreWaitDelay(double prob, int maxUs) {
  f_preProb.store(static_cast<uint32_t>(prob * 65536.0), std::memory_order_relaxed);
  f_preMaxUs.store(maxUs, std::memory_order_relaxed);
}
void futexSpurious(double prob) {
  f_spurProb.store(static_cast<uint32_t>(prob * 65536.0), std::memory_order_relaxed);
}
void futexReset() {
  f_preProb = 0;
  f_spurProb = 0;
}
} // namespace vrt

// no_sanitize_address: the interposer reads six variadic longs unconditionally; callers that pass fewer
// (libstdc++'s __cxa_guard_acquire passes four) make the extra reads land in the caller's frame,
// which ASan would report as a stack-buffer-underflow inside this function.
extern "C" __attribute__((no_sanitize_address)) long syscall(long number, ...) {
  using namespace vrt;
  va_list ap;
  va_start(ap, number);
  long a[6];
  for (int i = 0; i < 6; ++i) a[i] = va_arg(ap, long);
  va_end(ap);
  SyscallFn real = realSyscall();
  if (number == SYS_futex) {
    int op = static_cast<int>(a[1]) & FUTEX_CMD_MASK;
    if (op == FUTEX_WAIT) {
      bool timed = a[3] != 0;
      f_waits.fetch_add(1, std::memory_order_relaxed);
      if (timed) f_timed.fetch_add(1, std::memory_order_relaxed);
      uint32_t pp = f_preProb.load(std::memory_order_relaxed);
      uint32_t sp = f_spurProb.load(std::memory_order_relaxed);
      if (pp | sp) {
        uint64_t r = tlRand();
        if (sp && ((r >> 20) & 0xFFFF) < sp) {
          f_spur.fetch_add(1, std::memory_order_relaxed);
          sched_yield();
          return 0; // spurious wake-up: permitted by the futex contract
        }
        if (pp && (r & 0xFFFF) < pp) {
          int mx = f_preMaxUs.load(std::memory_order_relaxed);
          usleep(1 + static_cast<unsigned>((r >> 36) % static_cast<unsigned>(mx > 0 ? mx : 1)));
        }
      }
      f_inWait.fetch_add(1, std::memory_order_relaxed);
      (timed ? f_inTimed : f_inUntimed).fetch_add(1, std::memory_order_relaxed);
      long ret = real(number, a[0], a[1], a[2], a[3], a[4], a[5]);
      int e = errno;
      (timed ? f_inTimed : f_inUntimed).fetch_sub(1, std::memory_order_relaxed);
      f_inWait.fetch_sub(1, std::memory_order_relaxed);
      f_exits.fetch_add(1, std::memory_order_relaxed);
      if (ret == -1 && e == ETIMEDOUT) f_timeouts.fetch_add(1, std::memory_order_relaxed);
      errno = e;
      return ret;
    } else if (op == FUTEX_WAKE) {
      f_wakes.fetch_add(1, std::memory_order_relaxed);
    }
  }
  return real(number, a[0], a[1], a[2], a[3], a[4], a[5]);
}

// ---------------------------------------------------------------- watchdog
namespace vrt {
namespace {
std::atomic<int> w_armed{0}; // flat seconds, 0 = disarmed
std::atomic<bool> w_idleFlatIsHang{false};
std::function<std::string()>& w_dumper = *new std::function<std::string()>;
std::mutex& w_dumperMtx = *new std::mutex;
std::atomic<bool> w_started{false};

double cpuSeconds() {
  struct timespec ts;
  clock_gettime(CLOCK_PROCESS_CPUTIME_ID, &ts);
  return ts.tv_sec + ts.tv_nsec * 1e-9;
}

void watchdogLoop() {
  uint64_t lastProg = g_progress.load(std::memory_order_relaxed);
  double flatSince = nowSeconds();
  double cpuAtFlat = cpuSeconds();
  uint64_t exitsAtFlat = f_exits.load(std::memory_order_relaxed);
  int lastArmed = 0;
  for (;;) {
    usleep(100000);
    int T = w_armed.load(std::memory_order_relaxed);
    uint64_t p = g_progress.load(std::memory_order_relaxed);
    if (T == 0 || p != lastProg || T != lastArmed) {
      lastProg = p;
      lastArmed = T;
      flatSince = nowSeconds();
      cpuAtFlat = cpuSeconds();
      exitsAtFlat = f_exits.load(std::memory_order_relaxed);
      continue;
    }
    double flat = nowSeconds() - flatSince;
    if (flat < T) continue;
    double cpu = cpuSeconds() - cpuAtFlat;
    FutexStats fs = futexStats();
    bool exitsStable = fs.waitExits == exitsAtFlat;
    const char* kind = nullptr;
    // A busy process without monitor progress is only called a livelock after a 3x longer window:
    // legitimately slow phases exist that burn CPU without progress events (observed: pthread_join
    // under TSan releasing shadow memory with madvise on a loaded machine took > 10 s). A true
    // livelock stays flat for ever, so it is still caught; the parked-threads (deadlock) verdict,
    // whose evidence is direct, keeps the short window.
    if (cpu >= flat * 0.4) {
      if (flat < 3.0 * T) continue;
      kind = "livelock";
    } else if (cpu < T * 0.05 && exitsStable && fs.inWaitNow > 0) {
      kind = "deadlock";
    } else if (cpu < T * 0.05 && w_idleFlatIsHang.load(std::memory_order_relaxed)) {
      kind = "blocked";
    }
    std::string state = "{}";
    {
      std::lock_guard<std::mutex> lk(w_dumperMtx);
      if (w_dumper) state = w_dumper();
    }
    J j;
    j.kv("ev", kind ? "hang" : "inconclusive")
        .kv("case", g_curCase.load(std::memory_order_relaxed))
        .kv("prop", g_args.prop)
        .kv("key", curKeyCopy())
        .kv("kind", kind ? kind : "starved-or-unknown")
        .kv("why", "no progress")
        .kv("flat_s", flat)
        .kv("cpu_s", cpu)
        .kv("futex", J().kv("inWait", fs.inWaitNow).kv("inTimed", fs.inTimedWaitNow).kv("inUntimed", fs.inUntimedWaitNow).kv("exitsStable", exitsStable).kv("wakes", fs.wakes))
        .raw("state", state)
        .kv("hooks", hookStats());
    emitLine(j.str());
    fprintf(stderr, "@@VRT %s case %ld\n", kind ? "hang" : "inconclusive", g_curCase.load());
    // witness: stacks of all threads (best effort; gdb attaches to its parent, we are root)
    if (!(getenv("VRT_GDB_ON_HANG") && getenv("VRT_GDB_ON_HANG")[0] == '0')) {
      fflush(stderr);
      char cmd[512];
      snprintf(cmd, sizeof cmd,
               "timeout 90 gdb -p %d -batch -ex 'set pagination off' -ex 'thread apply all bt 16' 2>&1 | "
               "grep -v '^\\[New LWP\\|^warning\\|^Reading\\|^$' | cut -c1-220 | head -n 500 >&2",
               static_cast<int>(getpid()));
      fprintf(stderr, "@@VRT stacks begin\n");
      fflush(stderr);
      int rcg = system(cmd);
      (void)rcg;
      fprintf(stderr, "@@VRT stacks end\n");
      fflush(stderr);
    }
    _exit(kind ? 3 : 4);
  }
}
} // namespace

void watchdogArm(int flatSeconds) {
  if (flatSeconds <= 0) flatSeconds = (thorough() ? 20 : 10) * (VRT_TSAN ? 2 : 1);
  w_armed.store(flatSeconds, std::memory_order_relaxed);
}
void watchdogDisarm() {
  w_armed.store(0, std::memory_order_relaxed);
}
void setStateDumper(std::function<std::string()> f) {
  std::lock_guard<std::mutex> lk(w_dumperMtx);
  w_dumper = std::move(f);
}
void watchdogIdleFlatIsHang(bool v) {
  w_idleFlatIsHang.store(v, std::memory_order_relaxed);
}

// ---------------------------------------------------------------- lifetime registry
namespace {
LifeStats g_life;
#if !VRT_TSAN
constexpr int kShards = 64;
struct Shard {
  std::mutex m;
  std::unordered_set<const void*> live;
};
Shard g_shards[kShards];
inline Shard& shardFor(const void* p) {
  return g_shards[(reinterpret_cast<uintptr_t>(p) >> 4) % kShards];
}
#endif
} // namespace

LifeStats& life() {
  return g_life;
}
void lifeReset() {
  g_life.constructed = 0;
  g_life.destroyed = 0;
  g_life.constructOverLive = 0;
  g_life.destroyDead = 0;
  g_life.useDead = 0;
  g_life.misaligned = 0;
#if !VRT_TSAN
  for (auto& s : g_shards) {
    std::lock_guard<std::mutex> lk(s.m);
    s.live.clear();
  }
#endif
}
void lifeOnConstruct(const void* p, size_t align) {
  g_life.constructed.fetch_add(1, std::memory_order_relaxed);
  if (reinterpret_cast<uintptr_t>(p) % align) g_life.misaligned.fetch_add(1, std::memory_order_relaxed);
#if !VRT_TSAN
  Shard& s = shardFor(p);
  std::lock_guard<std::mutex> lk(s.m);
  if (!s.live.insert(p).second) g_life.constructOverLive.fetch_add(1, std::memory_order_relaxed);
#endif
}
void lifeOnDestroy(const void* p) {
  g_life.destroyed.fetch_add(1, std::memory_order_relaxed);
#if !VRT_TSAN
  Shard& s = shardFor(p);
  std::lock_guard<std::mutex> lk(s.m);
  if (!s.live.erase(p)) g_life.destroyDead.fetch_add(1, std::memory_order_relaxed);
#endif
}
void lifeOnUse(const void* p) {
#if !VRT_TSAN
  Shard& s = shardFor(p);
  std::lock_guard<std::mutex> lk(s.m);
  if (!s.live.count(p)) g_life.useDead.fetch_add(1, std::memory_order_relaxed);
#else
  (void)p;
#endif
}
J lifeJson() {
  return J()
      .kv("constructed", g_life.constructed.load())
      .kv("destroyed", g_life.destroyed.load())
      .kv("constructOverLive", g_life.constructOverLive.load())
      .kv("destroyDead", g_life.destroyDead.load())
      .kv("useDead", g_life.useDead.load())
      .kv("misaligned", g_life.misaligned.load());
}

// ---------------------------------------------------------------- init / finish
void init(int argc, char** argv) {
  for (int i = 1; i < argc; ++i) {
    std::string a = argv[i];
    auto val = [&]() -> std::string { return (i + 1 < argc) ? std::string(argv[++i]) : std::string(); };
    if (a == "--prop") g_args.prop = val();
    else if (a == "--tier") g_args.tier = val();
    else if (a == "--seed") g_args.seed = std::strtoull(val().c_str(), nullptr, 10);
    else if (a == "--out") g_args.out = val();
    else if (a == "--shard") {
      std::string v = val();
      sscanf(v.c_str(), "%d/%d", &g_args.shard, &g_args.nshards);
    } else if (a == "--only") g_args.only = std::strtol(val().c_str(), nullptr, 10);
    else if (a == "--from") g_args.from = std::strtol(val().c_str(), nullptr, 10);
    else if (a == "--config") g_args.config = val();
    else if (a == "--lite") g_args.lite = true;
    else if (a.rfind("--", 0) == 0) {
      std::string k = a.substr(2);
      g_args.extra.emplace_back(k, val());
    }
  }
  if (g_args.nshards < 1) g_args.nshards = 1;
  (void)realSyscall(); // resolve before any thread exists
  setvbuf(stdout, nullptr, _IOLBF, 0);
  if (!g_args.out.empty()) {
    g_out = fopen(g_args.out.c_str(), "a");
    if (!g_out) {
      fprintf(stderr, "vrt: cannot open %s\n", g_args.out.c_str());
      _exit(2);
    }
  } else {
    g_out = stdout;
  }
  emitLine(J().kv("ev", "proc_begin")
               .kv("prop", g_args.prop)
               .kv("tier", g_args.tier)
               .kv("seed", g_args.seed)
               .kv("config", g_args.config)
               .kv("shard", g_args.shard)
               .kv("nshards", g_args.nshards)
               .kv("only", g_args.only)
               .kv("from", g_args.from)
               .kv("pid", static_cast<long>(getpid()))
               .str());
  if (!w_started.exchange(true)) {
    std::thread(watchdogLoop).detach();
  }
}

int finish() {
  watchdogDisarm();
  hooksReset();
  emitLine(J().kv("ev", "proc_end").kv("violations", violationsSeen()).kv("hooks", hookStats()).str());
  if (g_out && g_out != stdout) fflush(g_out);
  return 0;
}

} // namespace vrt
