// Runtime linked into every verification harness: seeded PRNG, logical clock, JSONL case
// protocol, perturbation-point / gate implementation behind DISPENSO_VERIF_POINT, futex
// interposer, state-based hang watchdog, lifetime-tracked value types.
//
// Rule for TSan builds (VRT_TSAN): nothing in here that is touched from inside monitored
// regions uses locks or acquire/release ordering, so the runtime adds no happens-before edges
// that could hide a race in dispenso. Mutex-protected parts are used at case boundaries only
// (or are compiled out under VRT_TSAN, see Registry).
#pragma once

#include <atomic>
#include <chrono>
#include <cstdint>
#include <cstdio>
#include <cstdlib>
#include <cstring>
#include <functional>
#include <mutex>
#include <string>
#include <thread>
#include <type_traits>
#include <unordered_map>
#include <utility>
#include <vector>

#if defined(__SANITIZE_THREAD__)
#define VRT_TSAN 1
#else
#define VRT_TSAN 0
#endif
#if defined(__SANITIZE_ADDRESS__)
#define VRT_ASAN 1
#else
#define VRT_ASAN 0
#endif

namespace vrt {

// ---------------------------------------------------------------- args / lifecycle
struct Args {
  std::string prop; // property id this process is deciding (or "C10"/"C11" sweep)
  std::string tier = "quick";
  uint64_t seed = 1;
  std::string out; // JSONL output file
  int shard = 0, nshards = 1;
  long only = -1; // run only this case index
  long from = 0; // skip case indices below this
  std::string config = "plain";
  bool lite = false; // sanitizer-sweep mode: monitors in lite mode
  std::vector<std::pair<std::string, std::string>> extra; // --k v pairs not known to rt
  std::string get(const std::string& k, const std::string& dflt = "") const;
  long getInt(const std::string& k, long dflt) const;
};
extern Args g_args;

void init(int argc, char** argv); // parse args, open output, start watchdog thread
int finish(); // flush, returns process exit code (0 ok, 1 violations seen)
inline bool thorough() {
  return g_args.tier == "thorough";
}
// true if case idx belongs to this process (shard / only / from filters)
bool selected(long idx);

// ---------------------------------------------------------------- PRNG
inline uint64_t mix(uint64_t a, uint64_t b) {
  uint64_t x = a * 0x9E3779B97F4A7C15ull + (b ^ 0xD1B54A32D192ED03ull);
  x ^= x >> 30;
  x *= 0xBF58476D1CE4E5B9ull;
  x ^= x >> 27;
  x *= 0x94D049BB133111EBull;
  x ^= x >> 31;
  return x;
}
inline uint64_t hashStr(const char* s) {
  uint64_t h = 1469598103934665603ull;
  while (*s) {
    h = (h ^ static_cast<unsigned char>(*s++)) * 1099511628211ull;
  }
  return h;
}
struct Rng {
  uint64_t s;
  explicit Rng(uint64_t seed) : s(mix(seed, 0x1234567)) {
    if (!s) s = 1;
  }
  uint64_t next() {
    s ^= s << 13;
    s ^= s >> 7;
    s ^= s << 17;
    return s * 0x2545F4914F6CDD1Dull;
  }
  uint64_t below(uint64_t n) { // [0,n)
    return n ? next() % n : 0;
  }
  long range(long lo, long hi) { // inclusive
    return lo + static_cast<long>(below(static_cast<uint64_t>(hi - lo + 1)));
  }
  bool chance(double p) {
    return (next() >> 11) * (1.0 / 9007199254740992.0) < p;
  }
  template <typename T>
  const T& pick(const std::vector<T>& v) {
    return v[below(v.size())];
  }
  template <typename T, size_t N>
  const T& pick(const T (&v)[N]) {
    return v[below(N)];
  }
};
// PRNG for case idx of the current (seed, prop): independent of every other case.
Rng caseRng(long idx, uint64_t salt = 0);

// ---------------------------------------------------------------- logical clock
// One global counter, relaxed RMW: totally ordered, respects real time, no HB edge.
uint64_t stamp();

// ---------------------------------------------------------------- JSON builder
class J {
 public:
  J() {}
  J& kv(const char* k, const std::string& v);
  J& kv(const char* k, const char* v);
  J& kv(const char* k, bool v);
  J& kv(const char* k, double v);
  J& kv(const char* k, const J& obj);
  template <typename T, typename std::enable_if<std::is_integral<T>::value && !std::is_same<T, bool>::value, int>::type = 0>
  J& kv(const char* k, T v) {
    key(k);
    if (std::is_signed<T>::value) {
      body_ += std::to_string(static_cast<long long>(v));
    } else {
      body_ += std::to_string(static_cast<unsigned long long>(v));
    }
    return *this;
  }
  J& raw(const char* k, const std::string& rawJson); // value is already JSON
  template <typename T>
  J& arr(const char* k, const std::vector<T>& v) {
    std::string s = "[";
    for (size_t i = 0; i < v.size(); ++i) {
      if (i) s += ",";
      s += toJson(v[i]);
    }
    s += "]";
    return raw(k, s);
  }
  std::string str() const {
    return "{" + body_ + "}";
  }
  bool empty() const {
    return body_.empty();
  }
  static std::string esc(const std::string& s);

 private:
  static std::string toJson(const std::string& s) {
    return "\"" + esc(s) + "\"";
  }
  static std::string toJson(const char* s) {
    return toJson(std::string(s));
  }
  static std::string toJson(const J& j) {
    return j.str();
  }
  template <typename T, typename std::enable_if<std::is_arithmetic<T>::value, int>::type = 0>
  static std::string toJson(T v) {
    return std::to_string(v);
  }
  void key(const char* k);
  std::string body_;
};

// ---------------------------------------------------------------- case protocol
// caseBegin .. caseEnd bracket one case. `key` names the scenario class (API call site +
// configuration class); it is the default violation key and the key used when the process dies
// inside the case. ntSig: non-empty => the case was non-trivial, and the string is its
// distinctness signature. classes: coverage classes this case reached.
void caseBegin(long idx, const std::string& key, const J& spec);
void caseEnd(const J& stats, const std::string& ntSig, const std::vector<std::string>& classes = {});
// Report a violation of `prop` (default: the property being run). subkey is appended to the
// case key as "<caseKey>/<subkey>" when non-empty. Thread-safe; callable from any thread.
void violation(const std::string& msg, const J& detail = J(), const std::string& subkey = "", const char* prop = nullptr);
// A case the harness could not decide (coverage target not reached, gate never arrived).
void inconclusive(const std::string& why);
void note(const J& obj); // free-form observation line
long violationsSeen();
const std::string& currentCaseKey();

// ASan builds: caseEnd() runs a recoverable LeakSanitizer check every n cases (default 1; 0 = off, the
// at-exit check still runs). A leak ends the process after attributing it to the current case.
void leakCheckEvery(long n);

// progress counter sampled by the watchdog (relaxed)
void progress(uint64_t n = 1);

// ---------------------------------------------------------------- perturbation points
void hooksReset(); // all probabilities 0, all gates disarmed, counters kept
void hookProb(int site, double p); // probability that a thread reaching `site` is perturbed
void hookProbAll(double p);
void hookMaxSleepUs(int us); // upper bound for the usleep variant (default 300)
// Gates: the first thread reaching an armed site parks there until gateOpen(site).
void gateArm(int site);
bool gateWaitArrived(int site, int timeoutMs); // true if a thread is parked at the gate
void gateOpen(int site); // releases the parked thread and disarms
uint64_t hookHits(int site);
uint64_t hookDelays(int site);
J hookStats(); // {"site":{"hits":n,"delays":m},...} for sites with hits>0 since last reset of stats
void hookStatsReset();
// last site hit by the calling thread / by thread ordinal (for state dumps)
int threadOrdinal(); // small dense id for the calling thread

// ---------------------------------------------------------------- futex interposer
struct FutexStats {
  uint64_t waits = 0, timedWaits = 0, wakes = 0, timeouts = 0, spuriousInjected = 0, waitExits = 0;
  int inWaitNow = 0, inTimedWaitNow = 0, inUntimedWaitNow = 0;
};
FutexStats futexStats();
void futexStatsReset();
void futexPreWaitDelay(double prob, int maxUs); // delay between the caller's value check and the real wait
void futexSpurious(double prob); // make FUTEX_WAIT return 0 immediately without waiting
void futexReset(); // injection off

// ---------------------------------------------------------------- watchdog (state-based hang verdict)
// While armed, a background thread samples progress every 100 ms. If progress is flat for
// flatSeconds AND (all busy threads are parked in untimed futex waits with stable exits, OR the
// process burned >= flatSeconds/2 CPU seconds), a "hang" record is written for the current case
// and the process _exit(3)s. If neither holds the record is "inconclusive" and exit code is 4.
void watchdogArm(int flatSeconds = 0); // 0 => default for the tier (10 quick / 20 thorough)
void watchdogDisarm();
void setStateDumper(std::function<std::string()> f); // extra JSON object string for the hang witness
// If set, a flat period with (almost) no CPU use counts as a hang ("blocked") even when no thread
// is seen inside a futex wait: for harnesses where every blocking primitive in play belongs to the
// code under test (semaphores, mutexes inside moodycamel's blocking queue are invisible to the
// futex interposer).
void watchdogIdleFlatIsHang(bool v);

// ---------------------------------------------------------------- misc helpers
void spinFor(int micros); // busy-wait without syscalls
inline void sleepUs(int us) {
  std::this_thread::sleep_for(std::chrono::microseconds(us));
}
double nowSeconds(); // steady clock

// Simple sense-reversing barrier on relaxed/acq_rel atomics for harness threads (plain/asan) —
// under TSan it still is a legitimate synchronisation point the harness chooses to add.
class Barrier {
 public:
  explicit Barrier(int n) : n_(n) {}
  void wait() {
    int gen = gen_.load(std::memory_order_acquire);
    if (count_.fetch_add(1, std::memory_order_acq_rel) + 1 == n_) {
      count_.store(0, std::memory_order_relaxed);
      gen_.fetch_add(1, std::memory_order_acq_rel);
    } else {
      while (gen_.load(std::memory_order_acquire) == gen) {
        std::this_thread::yield();
      }
    }
  }

 private:
  const int n_;
  std::atomic<int> count_{0};
  std::atomic<int> gen_{0};
};

// ---------------------------------------------------------------- lifetime registry + Tracked
// Registry of live tracked objects keyed by address. In TSan builds only the atomic counters are
// maintained (no map, no lock).
struct LifeStats {
  std::atomic<long> constructed{0}, destroyed{0}, constructOverLive{0}, destroyDead{0}, useDead{0}, misaligned{0};
  long live() const {
    return constructed.load() - destroyed.load();
  }
};
LifeStats& life();
void lifeReset();
void lifeOnConstruct(const void* p, size_t align);
void lifeOnDestroy(const void* p);
void lifeOnUse(const void* p);
J lifeJson();

template <size_t Align>
struct alignas(Align) TrackedT {
  static constexpr uint32_t kAlive = 0xA11CE5u, kDead = 0xDEADu, kMoved = 0x30BEDu;
  long value;
  uint32_t magic;
  TrackedT() : value(0), magic(kAlive) {
    lifeOnConstruct(this, Align);
  }
  /* implicit */ TrackedT(long v) : value(v), magic(kAlive) {
    lifeOnConstruct(this, Align);
  }
  TrackedT(const TrackedT& o) : value(o.value), magic(kAlive) {
    lifeOnUse(&o);
    lifeOnConstruct(this, Align);
  }
  TrackedT(TrackedT&& o) noexcept : value(o.value), magic(kAlive) {
    lifeOnUse(&o);
    o.value = -777;
    lifeOnConstruct(this, Align);
  }
  TrackedT& operator=(const TrackedT& o) {
    lifeOnUse(this);
    lifeOnUse(&o);
    value = o.value;
    return *this;
  }
  TrackedT& operator=(TrackedT&& o) noexcept {
    lifeOnUse(this);
    lifeOnUse(&o);
    value = o.value;
    if (&o != this) o.value = -777;
    return *this;
  }
  ~TrackedT() {
    lifeOnDestroy(this);
    magic = kDead;
  }
  bool operator==(const TrackedT& o) const {
    return value == o.value;
  }
  bool operator!=(const TrackedT& o) const {
    return value != o.value;
  }
  bool operator<(const TrackedT& o) const {
    return value < o.value;
  }
};
using Tracked = TrackedT<alignof(long)>;

} // namespace vrt
