// Engine h_nest, C46: inline task execution never grows the stack without bound.
// Driver + then-chains + recursive ConcurrentTaskSet scheduling.
#include "h_nest_c46.h"

#include <dispenso/future.h>

DepthMon g_dm;
thread_local int tl_bodyNest = 0;
static thread_local uintptr_t tl_stackTop = 0;

// Depth relative to the first monitored body this thread ever ran (a worker's first body sits at the
// constant depth of the pool's thread loop; the case driver thread is fresh for every case). The
// stack top reported by pthread_getattr_np is not used as the base because the static TLS block
// lives there and is several hundred KiB in sanitizer builds.
long stackDepthHere(const void* probe) {
  uintptr_t p = reinterpret_cast<uintptr_t>(probe);
  if (!tl_stackTop) tl_stackTop = p;
  return p < tl_stackTop ? static_cast<long>(tl_stackTop - p) : 0;
}

void depthCapExceeded(long stack, long nest) {
  int e = 0;
  if (g_dm.tripped.compare_exchange_strong(e, 1)) {
    vrt::violation("inline execution nested beyond every constant bound",
                   J().kv("stackBytes", stack).kv("nestedBodies", nest).kv("capStack", g_dm.capStack.load()).kv("capNest", g_dm.capNest.load()), "unbounded");
  }
  // keep going while the stack is in no danger (the sizes used fit an 8 MiB stack); otherwise stop
  // the run before it overflows
  if (stack > g_dm.hardStop.load(std::memory_order_relaxed)) _exit(5);
}

void c46Overload(dispenso::ThreadPool& pool, dispenso::ConcurrentTaskSet& aux, int hold, int mult) {
  for (int i = 0; i < hold; ++i) aux.schedule([]() { g_ngates.body(); }, dispenso::ForceQueuingTag());
  g_ngates.waitArrived(hold);
  ssize_t N = pool.numThreads();
  int guard = 0;
  while (pool.verifWorkRemaining() <= N * mult + 1 && guard++ < 400) {
    if (N == 0) aux.scheduleBulk(2, [](size_t) { return []() { vrt::progress(); }; }, dispenso::ForceQueuingTag());
    else aux.schedule([]() { vrt::progress(); }, dispenso::ForceQueuingTag());
  }
}

namespace {

Obs46 collect() {
  Obs46 o;
  o.maxStack = g_dm.maxStack.load(std::memory_order_relaxed);
  o.maxNest = g_dm.maxNest.load(std::memory_order_relaxed);
  o.bodies = g_dm.bodies.load(std::memory_order_relaxed);
  return o;
}

// A Schedulable that only stores the functor; the harness invokes it later on a thread of its choice.
struct ManualSched {
  dispenso::OnceFunction fn;
  bool has = false;
  void schedule(dispenso::OnceFunction f) {
    fn = std::move(f);
    has = true;
  }
  void schedule(dispenso::OnceFunction f, dispenso::ForceQueuingTag) {
    fn = std::move(f);
    has = true;
  }
};

std::atomic<int> g_go{0}, g_rootDone{0};

} // namespace

// ------------------------------------------------------------------ then-chain
Obs46 runThenChain(const Spec46& s) {
  g_dm.reset();
  g_ngates.reset();
  g_go.store(0, std::memory_order_relaxed);
  const int target = s.variant / 2; // 0 pool 1 TaskSet 2 ConcurrentTaskSet
  const std::launch policy = (s.variant & 1) ? std::launch::async : dispenso::kNotAsync;
  {
    dispenso::ThreadPool pool(static_cast<size_t>(s.pool), static_cast<size_t>(s.mult));
    g_curPool.store(&pool);
    dispenso::ConcurrentTaskSet aux(pool, dispenso::TaskCost::kLightweight); // central queue: every worker looks there (placed work can sit in another group's steal ring)
    dispenso::TaskSet ts(pool);
    dispenso::ConcurrentTaskSet cts(pool);
    ManualSched ms;
    dispenso::Future<void> cur;
    bool onPool = s.rootOnPool && s.pool > 0;
    if (s.load) c46Overload(pool, aux, onPool ? s.pool - 1 : s.pool, s.mult);
    if (onPool) {
      cur = dispenso::async(pool, std::launch::async, []() {
        BodyScope b;
        while (!g_go.load(HS_ACQ)) vrt::sleepUs(20);
      });
    } else {
      cur = dispenso::Future<void>([]() { BodyScope b; }, ms);
    }
    for (long i = 0; i < s.n; ++i) {
      auto body = [](dispenso::Future<void>&&) { BodyScope b; };
      if (target == 0) cur = cur.then(body, pool, policy);
      else if (target == 1) cur = cur.then(body, ts, policy);
      else cur = cur.then(body, cts, policy);
    }
    if (onPool) g_go.store(1, HS_REL);
    else ms.fn();
    // never wait() on the tail: that would run the chain recursively from the waiting side, which is
    // the caller's own request and not what the property is about
    // the held workers are released shortly after the chain was fired (continuations that were queued
    // rather than run inline need them); what ran inline under the overload has happened by then
    for (int polls = 0; !cur.is_ready(); ++polls) {
      if (polls == 100) g_ngates.open();
      vrt::sleepUs(50);
    }
    g_ngates.open();
    ts.wait();
    cts.wait();
    aux.wait();
    g_curPool.store(nullptr);
  }
  return collect();
}

// ------------------------------------------------------------------ recursive ConcurrentTaskSet scheduling
namespace {
dispenso::ConcurrentTaskSet* g_recSet = nullptr;
std::atomic<long> g_recMade{0};
long g_recN = 0;
int g_recApi = 0;

struct Rec {
  long k;
  void operator()() const {
    BodyScope b;
    if (g_recApi == 2) {
      for (int c = 0; c < 2; ++c) {
        long id = g_recMade.fetch_add(1, std::memory_order_relaxed);
        if (id >= g_recN) break;
        g_recSet->schedule(Rec{id});
      }
    } else if (k + 1 < g_recN) {
      if (g_recApi == 0) g_recSet->schedule(Rec{k + 1});
      else {
        long nk = k + 1;
        g_recSet->scheduleBulk(1, [nk](size_t) { return Rec{nk}; });
      }
    }
  }
};
} // namespace

Obs46 runCtsRec(const Spec46& s) {
  g_dm.reset();
  g_ngates.reset();
  g_rootDone.store(0, std::memory_order_relaxed);
  g_recApi = s.variant / 2;
  g_recN = s.n;
  g_recMade.store(1, std::memory_order_relaxed);
  {
    dispenso::ThreadPool pool(static_cast<size_t>(s.pool), static_cast<size_t>(s.mult));
    g_curPool.store(&pool);
    dispenso::ConcurrentTaskSet aux(pool, dispenso::TaskCost::kLightweight); // central queue: every worker looks there (placed work can sit in another group's steal ring)
    dispenso::ConcurrentTaskSet cts(pool, (s.variant & 1) ? dispenso::TaskCost::kHeavy : dispenso::TaskCost::kLightweight);
    g_recSet = &cts;
    bool onPool = s.rootOnPool && s.pool > 0;
    if (s.load) c46Overload(pool, aux, onPool ? s.pool - 1 : s.pool, s.mult);
    if (onPool) {
      pool.schedule(
          []() {
            g_recSet->schedule(Rec{0});
            g_rootDone.store(1, HS_REL);
          },
          dispenso::ForceQueuingTag());
      while (!g_rootDone.load(HS_ACQ)) vrt::sleepUs(30);
    } else {
      cts.schedule(Rec{0});
    }
    g_ngates.open();
    cts.wait();
    aux.wait();
    g_curPool.store(nullptr);
  }
  return collect();
}

// ------------------------------------------------------------------ driver
namespace {
const char* kShapeNames[] = {"then", "ctsrec", "pipe", "graph"};

std::string variantName(const Spec46& s) {
  switch (s.shape) {
    case 0: {
      const char* t[] = {"pool", "ts", "cts"};
      return std::string(t[s.variant / 2]) + ((s.variant & 1) ? "-async" : "-notasync");
    }
    case 1: {
      const char* a[] = {"schedule", "bulk1", "fan2"};
      return std::string(a[s.variant / 2]) + ((s.variant & 1) ? "-heavy" : "-light");
    }
    case 2: {
      const char* p[] = {"serial2", "serial3", "par-then-serial"};
      return p[s.variant % 3];
    }
    default: {
      const char* g[] = {"chain", "comb-leaf-first", "comb-chain-first", "ladder"};
      return g[s.variant % 4];
    }
  }
}

Obs46 runShape(const Spec46& s) {
  switch (s.shape) {
    case 0: return runThenChain(s);
    case 1: return runCtsRec(s);
    case 2: return runPipe(s);
    default: return runGraph(s);
  }
}
} // namespace

void runC46() {
  const bool th = vrt::thorough();
  const long cases = vrt::g_args.getInt("n", th ? 3000 : 256);
  const bool small = vrt::g_args.getInt("smallstack", 0) != 0;
  const long baseN = vrt::g_args.getInt("size", th ? 1250 : 300);
  installStateDumper();
  size_t stackSize = 8u << 20;
  if (small) {
    // every thread created from here on (pool workers, the case driver thread) gets a 512 KiB stack:
    // unbounded nesting then also shows as a stack overflow (SEGV / ASan report) inside the case
    pthread_attr_t a;
    pthread_attr_init(&a);
    stackSize = 512u << 10;
    pthread_attr_setstacksize(&a, stackSize);
    pthread_setattr_default_np(&a);
    pthread_attr_destroy(&a);
  }
  g_dm.capStack.store(small ? 256 * 1024 : 512 * 1024);
  g_dm.hardStop.store(small ? 256 * 1024 : 5 * 1024 * 1024);
  for (long idx = 0; idx < cases; ++idx) {
    if (!vrt::selected(idx)) continue;
    vrt::Rng r = vrt::caseRng(idx);
    Spec46 s;
    s.shape = static_cast<int>(idx % 4);
    s.pool = static_cast<int>((idx / 4) % 5);
    s.variant = static_cast<int>(r.below(6));
    if (s.shape == 2) s.variant %= 3;
    if (s.shape == 3) s.variant %= 4;
    s.mult = r.chance(0.5) ? 1 : 32;
    s.load = r.chance(0.4) ? 1 : 0;
    s.rootOnPool = s.pool > 0 && r.chance(0.5);
    s.n = baseN;
    if (s.shape == 2) s.n = baseN * 4; // pipeline items are cheap
    std::string key = std::string(kShapeNames[s.shape]) + "/" + variantName(s) + "/" + (s.pool == 0 ? "pool0" : s.pool == 1 ? "pool1" : "poolN") + "/" + (s.load ? "loaded" : "idle") + "/" + (s.rootOnPool ? "from-worker" : "from-external");
    J spec = J().kv("shape", kShapeNames[s.shape]).kv("variant", variantName(s)).kv("pool", s.pool).kv("mult", s.mult).kv("load", s.load).kv("rootOnPool", s.rootOnPool).kv("n", s.n).kv("n8", s.n * 8).kv("smallstack", small);
    vrt::caseBegin(idx, key, spec);
    g_dm.tripped.store(0);
    vrt::watchdogArm();
    Obs46 o1, o8;
    {
      // the case driver is a fresh thread so that it has the same (possibly small) stack as the workers
      std::thread t([&]() {
        Spec46 a = s;
        o1 = runShape(a);
        a.n = s.n * 8;
        o8 = runShape(a);
      });
      t.join();
    }
    vrt::watchdogDisarm();
    long growth = o8.maxStack - o1.maxStack;
    // 33 nested inline runs (the implementation's limit) cost about 16 KiB of stack in the plain build,
    // 30 KiB under TSan and 70-100 KiB under ASan; unbounded nesting adds >= 7n frames (hundreds of KiB)
#if VRT_ASAN
    const long kGrowthLimit = 256 * 1024;
#elif VRT_TSAN
    const long kGrowthLimit = 128 * 1024;
#else
    const long kGrowthLimit = 64 * 1024;
#endif
    if (growth > kGrowthLimit) {
      vrt::violation("stack depth of inline execution grows with the amount of work", J().kv("stackAtN", o1.maxStack).kv("stackAt8N", o8.maxStack).kv("nestAtN", o1.maxNest).kv("nestAt8N", o8.maxNest).kv("n", s.n), "growth");
    }
    std::vector<std::string> cls;
    cls.push_back(std::string("shape:") + kShapeNames[s.shape]);
    cls.push_back(std::string(kShapeNames[s.shape]) + ":" + variantName(s));
    cls.push_back(s.pool == 0 ? "pool0" : s.pool == 1 ? "pool1" : "poolN");
    if (s.load) cls.push_back("loaded");
    if (s.rootOnPool) cls.push_back("from-worker");
    if (o8.maxNest >= 2) cls.push_back("nested-inline-seen");
    if (o8.maxNest >= 30) cls.push_back("depth-limit-reached");
    bool nt = o8.bodies >= s.n * 8;
    vrt::caseEnd(J().kv("stackAtN", o1.maxStack).kv("stackAt8N", o8.maxStack).kv("nestAtN", o1.maxNest).kv("nestAt8N", o8.maxNest).kv("bodiesAt8N", o8.bodies), nt ? spec.str() : "", cls);
  }
}
