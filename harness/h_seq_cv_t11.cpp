// C32 instantiations for trait combination heap-compact-full (see h_seq_cv_impl.h)
#include "h_seq_cv_impl.h"

HSEQ_CV_INSTANCE(t11_0, vrt::TrackedT<32>, "e32", false, false, kFullBufferAhead, "heap-compact-full")
HSEQ_CV_INSTANCE(t11_1, vrt::TrackedT<64>, "e64", false, false, kFullBufferAhead, "heap-compact-full")
HSEQ_CV_INSTANCE(t11_2, vrt::TrackedT<128>, "e128", false, false, kFullBufferAhead, "heap-compact-full")
