#pragma once
// Workload driver shared by C34 (MpmcRingBuffer) and C35 (SPSCRingBuffer): runs generated
// producer/consumer histories on the real ring and records them; the history checker is in
// h_conc_ringcheck.cpp (not a template).
#include "h_conc_common.h"

#include <dispenso/mpmc_ring_buffer.h>
#include <dispenso/spsc_ring_buffer.h>

#include <deque>
#include <new>

// ------------------------------------------------------------------ element type
// Objects whose address lies inside the ring object are reported to the lifetime registry
// (construct-over-live, destroy-dead, live count); all others only to two counters.
extern uintptr_t g_ringLo, g_ringHi;
extern std::atomic<long> g_outCtor, g_outDtor, g_itemBadUse;

struct Item {
  static constexpr uint32_t kAlive = 0xA11CE5u, kDead = 0xDEADu;
  static constexpr uint64_t kEmptyTag = ~0ull, kMovedTag = ~0ull - 1;
  uint64_t tag;
  uint32_t magic;
  std::unique_ptr<uint64_t> heap; // heap-owning payload: a skipped destructor is an LSan leak
  bool inRing() const {
    uintptr_t a = reinterpret_cast<uintptr_t>(this);
    return a >= g_ringLo && a < g_ringHi;
  }
  void born() {
    if (inRing()) vrt::lifeOnConstruct(this, alignof(Item));
    else g_outCtor.fetch_add(1, std::memory_order_relaxed);
  }
  Item() noexcept : tag(kEmptyTag), magic(kAlive) {
    born();
  }
  explicit Item(uint64_t t) noexcept : tag(t), magic(kAlive), heap(new (std::nothrow) uint64_t(t)) {
    born();
  }
  Item(const Item& o) noexcept : tag(o.tag), magic(kAlive), heap(o.heap ? new (std::nothrow) uint64_t(*o.heap) : nullptr) {
    if (o.magic != kAlive) g_itemBadUse.fetch_add(1, std::memory_order_relaxed);
    born();
  }
  Item(Item&& o) noexcept : tag(o.tag), magic(kAlive), heap(std::move(o.heap)) {
    if (o.magic != kAlive) g_itemBadUse.fetch_add(1, std::memory_order_relaxed);
    o.tag = kMovedTag;
    born();
  }
  Item& operator=(const Item& o) noexcept {
    if (o.magic != kAlive || magic != kAlive) g_itemBadUse.fetch_add(1, std::memory_order_relaxed);
    tag = o.tag;
    heap.reset(o.heap ? new (std::nothrow) uint64_t(*o.heap) : nullptr);
    return *this;
  }
  Item& operator=(Item&& o) noexcept {
    if (o.magic != kAlive || magic != kAlive) g_itemBadUse.fetch_add(1, std::memory_order_relaxed);
    tag = o.tag;
    heap = std::move(o.heap);
    if (&o != this) o.tag = kMovedTag;
    return *this;
  }
  ~Item() {
    if (magic != kAlive) g_itemBadUse.fetch_add(1, std::memory_order_relaxed);
    if (inRing()) vrt::lifeOnDestroy(this);
    else g_outDtor.fetch_add(1, std::memory_order_relaxed);
    magic = kDead;
  }
  bool intact(uint64_t expect) const {
    return magic == kAlive && tag == expect && heap && *heap == expect;
  }
};

inline uint64_t mkTag(int producer, uint64_t seq) {
  return (static_cast<uint64_t>(producer + 1) << 40) | seq;
}

// ------------------------------------------------------------------ recorded history
struct PushRec { // one successfully pushed element
  uint64_t s0, s1; // call / return stamp of the operation that pushed it
  int32_t op; // id of the operation within the producer (batch items share it)
  int32_t pos; // position within that operation
};
struct PopRec { // one successfully popped element
  uint64_t tag, s0, s1;
  int32_t pos; // position within the (batch) operation
  bool good; // payload intact
};
struct ShortRec { // an operation that transferred fewer elements than it was asked to
  uint64_t s0, s1;
  long before; // elements this thread had pushed (popped) before the call
  long asked, got;
};
struct RingHistory {
  int P = 0, C = 0; // concurrent producers / consumers; index P / C = the quiescent (main) thread
  size_t capacity = 0;
  bool spsc = false;
  std::vector<std::vector<PushRec>> pushes; // [producer][seq]
  std::vector<std::vector<PopRec>> pops; // [consumer], program order
  std::vector<ShortRec> pushShort, popShort; // SPSC only
  long unpushedDamaged = 0; // elements the ring refused but modified
  long pushedNotMoved = 0;
  long shortDropped = 0;
  uint64_t drainStamp = 0; // != 0: the ring was drained at quiescence at this stamp
};
struct RingSpec {
  int kind = 0; // 0 mpmc, 1 spsc
  int inst = 0; // instantiation index
  int P = 1, C = 1;
  long perProducer = 100;
  int batchMax = 0;
  double pausePush = 0, pausePop = 0, hookP = 0;
  bool leaveInRing = false;
  long preOps = 0, postOps = 0;
  uint64_t salt = 0;
  J json() const {
    return J().kv("kind", kind ? "spsc" : "mpmc").kv("inst", inst).kv("producers", P).kv("consumers", C).kv("perProducer", perProducer)
        .kv("batchMax", batchMax).kv("pausePush", pausePush).kv("pausePop", pausePop).kv("hookP", hookP).kv("leaveInRing", leaveInRing)
        .kv("preOps", preOps).kv("postOps", postOps).kv("salt", static_cast<unsigned long long>(salt));
  }
};
struct RingOutcome {
  RingHistory h;
  long remainingAtQuiescence = 0; // pushed - popped when all threads were joined
  long liveInRingAtQuiescence = -1; // lifetime registry
  long liveAfterDtor = -1;
  long quiescentOps = 0;
  bool sawFull = false, sawEmpty = false, sawFailedPushConcurrent = false, sawFailedPopConcurrent = false;
};

// history checker (h_conc_ringcheck.cpp): reports violations itself, returns number of problems
long checkRingHistory(const RingHistory& h, long* maxOccupancy);

// ------------------------------------------------------------------ ring adapters
template <typename R>
struct MpmcOps {
  static constexpr bool kSpsc = false;
  static size_t pushBatch(R& r, Item* items, size_t n) {
    return r.try_push_batch(items, n);
  }
  static size_t popBatch(R&, Item*, size_t) {
    return 0;
  }
};
template <typename R>
struct SpscOps {
  static constexpr bool kSpsc = true;
  static size_t pushBatch(R& r, Item* items, size_t n) {
    return r.try_push_batch(items, items + n);
  }
  static size_t popBatch(R& r, Item* dest, size_t n) {
    return r.try_pop_batch(dest, n);
  }
};

// One push operation of a random variant; returns number of elements pushed.
// Logs into `recs` (successful elements) and `shorts` (SPSC: refused / partial).
template <typename R, typename Ops>
struct RingDriver {
  R& ring;
  const RingSpec& spec;
  RingDriver(R& r, const RingSpec& s) : ring(r), spec(s) {}

  long push(int producer, uint64_t seq, long maxItems, TRng& rng, std::vector<PushRec>& recs, int32_t& opId, RingHistory* shorts,
            long& damaged, long& notMoved) {
    int variant = static_cast<int>(rng.below(spec.batchMax > 0 ? 5 : 3));
    if (variant >= 3) {
      long m = 1 + static_cast<long>(rng.below(static_cast<uint64_t>(spec.batchMax)));
      if (rng.chance(0.1)) m = static_cast<long>(R::capacity()) + 1 + static_cast<long>(rng.below(3)); // more than fits
      if (m > maxItems) m = maxItems;
      std::vector<Item> items;
      items.reserve(static_cast<size_t>(m));
      for (long i = 0; i < m; ++i) items.emplace_back(mkTag(producer, seq + static_cast<uint64_t>(i)));
      uint64_t s0 = vrt::stamp();
      size_t k = Ops::pushBatch(ring, items.data(), static_cast<size_t>(m));
      uint64_t s1 = vrt::stamp();
      if (k > static_cast<size_t>(m)) k = static_cast<size_t>(m) + 1000000; // reported by caller as impossible count
      for (long i = 0; i < m; ++i) {
        if (static_cast<size_t>(i) < k) {
          if (items[static_cast<size_t>(i)].tag != Item::kMovedTag) ++notMoved;
        } else if (!items[static_cast<size_t>(i)].intact(mkTag(producer, seq + static_cast<uint64_t>(i)))) {
          ++damaged;
        }
      }
      for (size_t i = 0; i < k && i < static_cast<size_t>(m); ++i) recs.push_back({s0, s1, opId, static_cast<int32_t>(i)});
      if (Ops::kSpsc && shorts && k < static_cast<size_t>(m)) {
        if (shorts->pushShort.size() < 20000) shorts->pushShort.push_back({s0, s1, static_cast<long>(seq), m, static_cast<long>(k)});
        else ++shorts->shortDropped;
      }
      ++opId;
      return static_cast<long>(k);
    }
    uint64_t tag = mkTag(producer, seq);
    bool ok;
    uint64_t s0, s1;
    if (variant == 0) {
      Item it(tag);
      s0 = vrt::stamp();
      ok = ring.try_push(std::move(it));
      s1 = vrt::stamp();
      if (ok && it.tag != Item::kMovedTag) ++notMoved;
      if (!ok && !it.intact(tag)) ++damaged;
    } else if (variant == 1) {
      Item it(tag);
      const Item& cref = it;
      s0 = vrt::stamp();
      ok = ring.try_push(cref);
      s1 = vrt::stamp();
      if (!it.intact(tag)) ++damaged; // a copy never changes the source
    } else {
      s0 = vrt::stamp();
      ok = ring.try_emplace(tag);
      s1 = vrt::stamp();
    }
    if (ok) {
      recs.push_back({s0, s1, opId, 0});
    } else if (Ops::kSpsc && shorts) {
      if (shorts->pushShort.size() < 20000) shorts->pushShort.push_back({s0, s1, static_cast<long>(seq), 1, 0});
      else ++shorts->shortDropped;
    }
    ++opId;
    return ok ? 1 : 0;
  }

  // One pop operation of a random variant; appends popped elements to recs.
  long pop(TRng& rng, std::vector<PopRec>& recs, RingHistory* shorts, long poppedBefore, int batchMax) {
    int variant = static_cast<int>(rng.below(Ops::kSpsc && batchMax > 0 ? 4 : 3));
    uint64_t s0, s1;
    if (variant == 3) {
      size_t m = 1 + static_cast<size_t>(rng.below(static_cast<uint64_t>(batchMax)));
      std::vector<Item> dest(m);
      s0 = vrt::stamp();
      size_t k = Ops::popBatch(ring, dest.data(), m);
      s1 = vrt::stamp();
      for (size_t i = 0; i < k && i < m; ++i) {
        const Item& it = dest[i];
        recs.push_back({it.tag, s0, s1, static_cast<int32_t>(i), it.intact(it.tag)});
      }
      if (k > m) recs.push_back({Item::kEmptyTag, s0, s1, 0, false}); // impossible count -> unknown element
      if (shorts && k < m) {
        if (shorts->popShort.size() < 20000) shorts->popShort.push_back({s0, s1, poppedBefore, static_cast<long>(m), static_cast<long>(k)});
        else ++shorts->shortDropped;
      }
      return static_cast<long>(k);
    }
    bool ok = false;
    if (variant == 0) {
      Item out;
      s0 = vrt::stamp();
      ok = ring.try_pop(out);
      s1 = vrt::stamp();
      if (ok) recs.push_back({out.tag, s0, s1, 0, out.intact(out.tag)});
    } else if (variant == 1) {
      s0 = vrt::stamp();
      auto res = ring.try_pop();
      s1 = vrt::stamp();
      ok = static_cast<bool>(res);
      if (ok) recs.push_back({res.value().tag, s0, s1, 0, res.value().intact(res.value().tag)});
    } else {
      alignas(Item) char storage[sizeof(Item)];
      Item* p = reinterpret_cast<Item*>(storage);
      s0 = vrt::stamp();
      ok = ring.try_pop_into(p);
      s1 = vrt::stamp();
      if (ok) {
        recs.push_back({p->tag, s0, s1, 0, p->intact(p->tag)});
        p->~Item();
      }
    }
    if (!ok && Ops::kSpsc && shorts) {
      if (shorts->popShort.size() < 20000) shorts->popShort.push_back({s0, s1, poppedBefore, 1, 0});
      else ++shorts->shortDropped;
    }
    return ok ? 1 : 0;
  }
};

// Quiescent single-thread phase: every operation is checked against a std::deque model
// ("a pop succeeds iff the buffer is non-empty, a push succeeds iff it is not full", exact FIFO).
template <typename R, typename Ops>
static void quiescentPhase(R& ring, const RingSpec& spec, RingOutcome& out, std::deque<uint64_t>& model, long ops, TRng& rng, uint64_t& qseq,
                           int32_t& qop, long finalFill) {
  RingDriver<R, Ops> drv(ring, spec);
  RingHistory& h = out.h;
  const size_t cap = R::capacity();
  std::vector<PushRec>& prec = h.pushes[static_cast<size_t>(h.P)];
  std::vector<PopRec>& qrec = h.pops[static_cast<size_t>(h.C)];
  long damaged = 0, notMoved = 0;
  auto doPush = [&]() {
    size_t before = prec.size();
    long room = static_cast<long>(cap) - static_cast<long>(model.size());
    long k = drv.push(h.P, qseq, 1 << 20, rng, prec, qop, nullptr, damaged, notMoved);
    ++out.quiescentOps;
    if (room == 0) out.sawFull = true;
    if ((k > 0) != (room > 0)) {
      flag(room > 0 ? "quiescent push refused although the buffer is not full" : "quiescent push accepted although the buffer is full",
           J().kv("size", static_cast<long>(model.size())).kv("capacity", static_cast<long>(cap)).kv("pushed", k), "quiescent");
    }
    if (k > room) flag("push stored more elements than there was room", J().kv("pushed", k).kv("room", room), "capacity");
    for (size_t i = before; i < prec.size(); ++i) model.push_back(mkTag(h.P, qseq + (i - before)));
    qseq += static_cast<uint64_t>(k > 0 && k < 1000000 ? k : 0);
  };
  auto doPop = [&]() {
    size_t before = qrec.size();
    long have = static_cast<long>(model.size());
    long k = drv.pop(rng, qrec, nullptr, 0, spec.batchMax);
    ++out.quiescentOps;
    if (have == 0) out.sawEmpty = true;
    if ((k > 0) != (have > 0)) {
      flag(have > 0 ? "quiescent pop failed although the buffer is non-empty" : "quiescent pop succeeded although the buffer is empty",
           J().kv("size", have).kv("popped", k), "quiescent");
    }
    for (size_t i = before; i < qrec.size(); ++i) {
      if (model.empty()) break;
      if (qrec[i].tag != model.front()) {
        flag("quiescent pop returned an element that is not the oldest one", J().kv("got", static_cast<unsigned long long>(qrec[i].tag)).kv("expected", static_cast<unsigned long long>(model.front())), "fifo");
      }
      model.pop_front();
    }
  };
  for (long i = 0; i < ops; ++i) {
    // biased walk that visits both the empty and the full state
    bool wantPush;
    long phase = (i / static_cast<long>(cap + 2)) % 3;
    if (phase == 0) wantPush = rng.chance(0.85);
    else if (phase == 1) wantPush = rng.chance(0.15);
    else wantPush = rng.chance(0.5);
    if (wantPush) doPush();
    else doPop();
  }
  if (finalFill >= 0) {
    int guard = 0;
    while (static_cast<long>(model.size()) > finalFill && guard++ < 100000) {
      size_t b = model.size();
      doPop();
      if (model.size() == b) break;
    }
    while (static_cast<long>(model.size()) < finalFill && guard++ < 100000) {
      size_t b = model.size();
      doPush();
      if (model.size() == b) break;
    }
  }
  h.unpushedDamaged += damaged;
  h.pushedNotMoved += notMoved;
}

template <typename R, typename Ops>
static RingOutcome runRingT(const RingSpec& spec) {
  RingOutcome out;
  RingHistory& h = out.h;
  h.P = spec.P;
  h.C = spec.C;
  h.capacity = R::capacity();
  h.spsc = Ops::kSpsc;
  h.pushes.assign(static_cast<size_t>(spec.P) + 1, {});
  h.pops.assign(static_cast<size_t>(spec.C) + 1, {});
  vrt::lifeReset();
  g_outCtor = 0;
  g_outDtor = 0;
  g_itemBadUse = 0;
  void* mem = nullptr;
  size_t bytes = (sizeof(R) + 127) / 128 * 128;
  if (posix_memalign(&mem, alignof(R) > 128 ? alignof(R) : 128, bytes) != 0) abort();
  g_ringLo = reinterpret_cast<uintptr_t>(mem);
  g_ringHi = g_ringLo + sizeof(R);
  R* ringp = new (mem) R();
  R& ring = *ringp;
  std::deque<uint64_t> model;
  TRng qrng(spec.salt ^ 0x9151);
  uint64_t qseq = 0;
  int32_t qop = 0;
  if (spec.hookP > 0) {
    vrt::hookProb(V::kMpmcPushAfterClaim, spec.hookP);
    vrt::hookProb(V::kMpmcPopAfterClaim, spec.hookP);
    vrt::hookProb(V::kSpscPushBeforePublish, spec.hookP);
    vrt::hookProb(V::kSpscPopBeforePublish, spec.hookP);
    vrt::hookMaxSleepUs(60);
  }
  // pre-history: offsets head/tail, wraps the indices, and leaves a random fill level behind
  long startFill = static_cast<long>(qrng.below(R::capacity() + 1));
  quiescentPhase<R, Ops>(ring, spec, out, model, spec.preOps, qrng, qseq, qop, startFill);

  // ---- concurrent phase
  std::atomic<bool> stop{false};
  std::atomic<long> totalPopped{0};
  std::vector<RingHistory> shorts(static_cast<size_t>(spec.P + spec.C)); // per-thread (SPSC short/refused ops)
  std::vector<long> damagedV(static_cast<size_t>(spec.P), 0), notMovedV(static_cast<size_t>(spec.P), 0);
  std::vector<std::thread> prod, cons;
  HBarrier start(spec.P + spec.C);
  for (int p = 0; p < spec.P; ++p) {
    prod.emplace_back([&, p]() {
      TRng rng(vrt::mix(spec.salt, 1000 + static_cast<uint64_t>(p)));
      RingDriver<R, Ops> drv(ring, spec);
      std::vector<PushRec>& recs = h.pushes[static_cast<size_t>(p)];
      recs.reserve(static_cast<size_t>(spec.perProducer));
      int32_t opId = 0;
      uint64_t seq = 0;
      start.wait();
      long fails = 0;
      while (static_cast<long>(seq) < spec.perProducer) {
        long k = drv.push(p, seq, spec.perProducer - static_cast<long>(seq), rng, recs, opId, &shorts[static_cast<size_t>(p)],
                          damagedV[static_cast<size_t>(p)], notMovedV[static_cast<size_t>(p)]);
        if (k > 0) {
          seq += static_cast<uint64_t>(k);
          vrt::progress();
          fails = 0;
        } else if (++fails > 3) {
          std::this_thread::yield();
        }
        maybePause(rng, spec.pausePush);
      }
    });
  }
  for (int c = 0; c < spec.C; ++c) {
    cons.emplace_back([&, c]() {
      TRng rng(vrt::mix(spec.salt, 2000 + static_cast<uint64_t>(c)));
      RingDriver<R, Ops> drv(ring, spec);
      std::vector<PopRec>& recs = h.pops[static_cast<size_t>(c)];
      long mine = 0, fails = 0;
      start.wait();
      while (!stop.load(std::memory_order_relaxed)) {
        long k = drv.pop(rng, recs, &shorts[static_cast<size_t>(spec.P + c)], mine, spec.batchMax);
        if (k > 0) {
          mine += k;
          vrt::progress();
          fails = 0;
        } else if (++fails > 3) {
          std::this_thread::yield();
        }
        maybePause(rng, spec.pausePop);
      }
    });
  }
  for (auto& t : prod) t.join();
  if (!spec.leaveInRing) {
    // give the consumers the chance to empty the ring (bounded by operations of theirs, not by time:
    // they run until told to stop; an element they cannot get at stays for the quiescent drain)
    for (int spins = 0; spins < 2000 && !ring.empty(); ++spins) usleep(50);
  }
  stop.store(true, std::memory_order_relaxed);
  for (auto& t : cons) t.join();
  vrt::hooksReset();
  for (auto& s : shorts) {
    h.pushShort.insert(h.pushShort.end(), s.pushShort.begin(), s.pushShort.end());
    h.popShort.insert(h.popShort.end(), s.popShort.begin(), s.popShort.end());
    h.shortDropped += s.shortDropped;
    if (!s.pushShort.empty()) out.sawFailedPushConcurrent = true;
    if (!s.popShort.empty()) out.sawFailedPopConcurrent = true;
  }
  for (int p = 0; p < spec.P; ++p) {
    h.unpushedDamaged += damagedV[static_cast<size_t>(p)];
    h.pushedNotMoved += notMovedV[static_cast<size_t>(p)];
  }
  // ---- quiescence: what must be inside now
  long pushed = 0, popped = 0;
  for (auto& v : h.pushes) pushed += static_cast<long>(v.size());
  for (auto& v : h.pops) popped += static_cast<long>(v.size());
  out.remainingAtQuiescence = pushed - popped;
  out.liveInRingAtQuiescence = vrt::life().live();
  // rebuild the model of the content: pushed elements minus popped ones, in claim order is unknown
  // for MPMC, so the post phase uses a model only when the ring has been drained first.
  if (!spec.leaveInRing) {
    // drain with exact iff-checks: exactly `remaining` pops succeed, the next one fails
    RingDriver<R, Ops> drv(ring, spec);
    std::vector<PopRec>& qrec = h.pops[static_cast<size_t>(h.C)];
    long remaining = out.remainingAtQuiescence;
    for (long i = 0; i < remaining;) {
      long k = drv.pop(qrng, qrec, nullptr, 0, spec.batchMax);
      if (k <= 0) {
        flag("quiescent pop failed although the buffer is non-empty (elements lost)", J().kv("stillInside", remaining - i), "quiescent");
        break;
      }
      i += k;
    }
    size_t before = qrec.size();
    long k = drv.pop(qrng, qrec, nullptr, 0, 0);
    if (k > 0 && remaining >= 0) {
      flag("quiescent pop succeeded although every pushed element had been popped", J().kv("tag", static_cast<unsigned long long>(qrec[before].tag)), "quiescent");
    }
    out.sawEmpty = true;
    h.drainStamp = vrt::stamp();
    model.clear();
    quiescentPhase<R, Ops>(ring, spec, out, model, spec.postOps, qrng, qseq, qop, static_cast<long>(qrng.below(R::capacity() + 1)));
    out.liveInRingAtQuiescence = vrt::life().live();
    out.remainingAtQuiescence = static_cast<long>(model.size());
  }
  ringp->~R();
  out.liveAfterDtor = vrt::life().live();
  g_ringLo = g_ringHi = 0;
  free(mem);
  return out;
}
