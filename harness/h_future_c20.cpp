// C20: timed waits. "ready" means done, "timeout" means the requested time has elapsed, and a timed
// wait runs a not-yet-started functor only for futures created with the deferred policy.
//
// Verdicts that involve time are one-sided, so machine load cannot produce a false alarm: the
// elapsed time is measured around the call with steady_clock (it can only over-estimate the time
// spent waiting), and only "timeout although elapsed < requested" is flagged.
#include "h_future_common.h"

#include <cmath>

namespace {

using Steady = std::chrono::steady_clock;
using SysClock = std::chrono::system_clock;
using ldns = std::chrono::duration<long double, std::nano>;

// The implementation converts the timeout to a timespec (integral nanoseconds) through a double;
// sub-2ns truncation is not a violation of the property as stated for any clock the caller can read.
constexpr long double kSlackSteadyNs = 2.0L;
// system_clock deadlines are converted to a relative CLOCK_MONOTONIC wait; clock slewing between the
// two clocks is not under dispenso's control (DESIGN C20: 1 ms tolerance, recorded as assumption).
constexpr long double kSlackSystemNs = 1e6L;

enum Script : int { kE0Timeout, kE1Race, kE2LongEarly, kE3EagainEvent, kF0NotStartedND, kF1NotStartedD, kF2Running, kF3EagainFuture, kF4AsyncFn, kF5ThenPolicy, kF6MaxTimeout, kNumScripts };
const char* const kScriptNames[] = {"event-timeout", "event-notify-race", "event-long-early-notify", "event-notify-before-futex", "future-notstarted-nondeferred", "future-notstarted-deferred", "future-running",
                                    "future-start-before-futex", "deferred-clause", "then-deferred-clause", "deferred-clause-max-timeout"};

struct TSpec {
  long long ns = 0; // requested relative time
  int rep = 0; // representation used for waitFor
  bool until = false;
  int clock = 0; // 0 steady/ns, 1 system/ns, 2 steady/ms time_point
  int special = 0; // 1 seconds::max, 2 hours::max, 3 double 1e30 s, 4 steady time_point::max, 5 1 h, 6 30 days, 7 milliseconds::max, 8 system time_point::max
  J json() const {
    static const char* rn[] = {"ns", "us", "ms", "double-s", "float-ms", "int32-us", "long-100us"};
    static const char* cn[] = {"steady", "system", "steady-ms"};
    static const char* sn[] = {"", "seconds::max", "hours::max", "1e30s", "time_point::max", "1h", "30d", "milliseconds::max", "system time_point::max"};
    J j;
    j.kv("ns", ns).kv("api", until ? "until" : "for");
    if (until) j.kv("clock", cn[clock]);
    else j.kv("rep", rn[rep]);
    if (special) j.kv("special", sn[special]);
    return j;
  }
  const char* cls() const {
    if (special == 5 || special == 6) return "long";
    if (special) return "huge";
    if (ns == 0) return "zero";
    if (ns < 0) return "negative";
    if (ns < 1000) return "sub-us";
    if (ns < 1000000) return "sub-ms";
    return "ms";
  }
};

struct Meas {
  bool valid = false;
  bool ready = false, doneAfter = false, until = false;
  int clock = 0;
  long double reqNs = 0, elapsedNs = 0, shortNs = 0;
  int issuedSeen = 0;
  TSpec t;
};

struct EventW {
  dispenso::CompletionEvent* e;
  template <typename D>
  bool waitFor(const D& d) {
    return e->waitFor(d);
  }
  template <typename TP>
  bool waitUntil(const TP& tp) {
    return e->waitUntil(tp);
  }
  bool done() {
    return e->completed();
  }
};
struct FutureW {
  dispenso::Future<long>* f;
  template <typename D>
  bool waitFor(const D& d) {
    return f->wait_for(d) == std::future_status::ready;
  }
  template <typename TP>
  bool waitUntil(const TP& tp) {
    return f->wait_until(tp) == std::future_status::ready;
  }
  bool done() {
    return f->is_ready();
  }
};

template <typename W, typename D>
Meas doFor(W& w, const D& d) {
  Meas m;
  m.valid = true;
  m.reqNs = std::chrono::duration_cast<ldns>(d).count();
  auto t0 = Steady::now();
  ++tl_inTimedWait;
  bool r = w.waitFor(d);
  --tl_inTimedWait;
  auto t1 = Steady::now();
  m.ready = r;
  m.doneAfter = w.done();
  m.elapsedNs = std::chrono::duration_cast<ldns>(t1 - t0).count();
  return m;
}
template <typename W, typename TP>
Meas doUntil(W& w, const TP& tp, int clock) {
  using Clock = typename TP::clock;
  Meas m;
  m.valid = true;
  m.until = true;
  m.clock = clock;
  ++tl_inTimedWait;
  bool r = w.waitUntil(tp);
  --tl_inTimedWait;
  auto after = Clock::now();
  m.ready = r;
  m.doneAfter = w.done();
  m.shortNs = std::chrono::duration_cast<ldns>(tp - after).count(); // > 0: returned before the deadline
  return m;
}

template <typename W>
Meas timedCall(W& w, const TSpec& t) {
  namespace ch = std::chrono;
  Meas m;
  if (t.special) {
    switch (t.special) {
      case 1: m = doFor(w, ch::seconds::max()); break;
      case 2: m = doFor(w, ch::hours::max()); break;
      case 3: m = doFor(w, ch::duration<double>(1e30)); break;
      case 4: m = doUntil(w, Steady::time_point::max(), 0); break;
      case 5: m = t.until ? doUntil(w, Steady::now() + ch::hours(1), 0) : doFor(w, ch::hours(1)); break;
      case 7: m = doFor(w, ch::milliseconds::max()); break;
      case 8: m = doUntil(w, SysClock::time_point::max(), 1); break;
      default: m = t.until ? doUntil(w, SysClock::now() + ch::hours(24 * 30), 1) : doFor(w, ch::hours(24 * 30)); break;
    }
  } else if (t.until) {
    switch (t.clock) {
      case 0: m = doUntil(w, Steady::now() + ch::nanoseconds(t.ns), 0); break;
      case 1: m = doUntil(w, SysClock::now() + ch::nanoseconds(t.ns), 1); break;
      default: m = doUntil(w, ch::time_point_cast<ch::milliseconds>(Steady::now() + ch::nanoseconds(t.ns)), 2); break;
    }
  } else {
    switch (t.rep) {
      case 0: m = doFor(w, ch::nanoseconds(t.ns)); break;
      case 1: m = doFor(w, ch::microseconds(t.ns / 1000)); break;
      case 2: m = doFor(w, ch::milliseconds(t.ns / 1000000)); break;
      case 3: m = doFor(w, ch::duration<double>(static_cast<double>(t.ns) * 1e-9)); break;
      case 4: m = doFor(w, ch::duration<float, std::milli>(static_cast<float>(t.ns) * 1e-6f)); break;
      case 5: m = doFor(w, ch::duration<int, std::micro>(static_cast<int>(t.ns / 1000))); break;
      default: m = doFor(w, ch::duration<long, std::ratio<1, 10000>>(t.ns / 100000)); break;
    }
  }
  m.t = t;
  return m;
}

struct Spec {
  int script = 0;
  int waiters = 1;
  TSpec t[3];
  int perturb = 0;
  bool spurious = false, prewait = false;
  int deltaUs = 0; // E1: notify at timeout + delta
  int dwellUs = 0; // F2
  int afterUs = 0; // E2: notify after; F6: complete the future after
  // F4 / F5
  int creation = 0; // 0 constructor, 1 dispenso::async
  int sched = 0;
  int policy = 0; // bit0 async, bit1 deferred
  int pool = 2;
  J json() const {
    J j;
    j.kv("script", kScriptNames[script]).kv("waiters", waiters);
    std::vector<J> ts;
    for (int i = 0; i < waiters; ++i) ts.push_back(t[i].json());
    j.arr("t", ts);
    j.kv("perturb", perturb).kv("spurious", spurious).kv("prewait", prewait);
    if (script == kE1Race) j.kv("deltaUs", deltaUs);
    if (script == kF2Running) j.kv("dwellUs", dwellUs);
    if (script == kE2LongEarly || script == kF6MaxTimeout) j.kv("afterUs", afterUs);
    if (script >= kF4AsyncFn) j.kv("creation", creation ? "async()" : "ctor").kv("sched", schedName(sched)).kv("policy", policy).kv("pool", pool);
    return j;
  }
};

struct Ctx {
  std::atomic<int> issued{0};
  std::atomic<int> runs{0};
  std::atomic<int> ranInTimed{0}, ranInTimedForbidden{0};
  std::atomic<int> contRuns{0}, contInTimedForbidden{0};
  std::atomic<bool> entered{false}, releaseFn{false};
  bool holdUntilRelease = false;
  bool allowInline = true, contAllowInline = true;
  int dwellUs = 0;
  long value = 0;
  std::atomic<bool> go{false};
  std::atomic<int> arrived{0};
  Meas meas[3];
};

struct Fn20 {
  Ctx* c;
  FnGuts g;
  explicit Fn20(Ctx* cc) : c(cc) {}
  long operator()() {
    c->runs.fetch_add(1, std::memory_order_relaxed);
    if (tl_inTimedWait) {
      c->ranInTimed.fetch_add(1, std::memory_order_relaxed);
      if (!c->allowInline) c->ranInTimedForbidden.fetch_add(1, std::memory_order_relaxed);
    }
    c->entered.store(true, std::memory_order_relaxed);
    vrt::progress();
    if (c->holdUntilRelease) {
      while (!c->releaseFn.load(std::memory_order_relaxed)) {
        usleep(20);
      }
    } else if (c->dwellUs) {
      vrt::spinFor(c->dwellUs);
    }
    return c->value;
  }
};
// free function for the dispenso::async(...) creation path (std::bind of a plain function pointer)
long asyncBody(Ctx* c) {
  Fn20 f(c);
  return f();
}
struct Then20 {
  Ctx* c;
  FnGuts g;
  explicit Then20(Ctx* cc) : c(cc) {}
  long operator()(dispenso::Future<long>&& a) {
    c->contRuns.fetch_add(1, std::memory_order_relaxed);
    if (tl_inTimedWait && !c->contAllowInline) c->contInTimedForbidden.fetch_add(1, std::memory_order_relaxed);
    vrt::progress();
    return a.get() + 1;
  }
};

void judge(const Spec& s, const Meas& m, bool isEvent, int w) {
  if (!m.valid) return;
  J d;
  d.kv("waiter", w).kv("t", m.t.json()).kv("ready", m.ready).kv("doneAfter", m.doneAfter).kv("elapsedNs", static_cast<double>(m.elapsedNs)).kv("requestedNs", static_cast<double>(m.reqNs)).kv("spec", s.json());
  if (m.ready && !m.doneAfter) {
    vrt::violation(isEvent ? "waitFor/waitUntil returned true but completed() is false" : "wait_for/wait_until returned ready but is_ready() is false", d, "ready-not-done");
  }
  if (m.ready && isEvent && !m.issuedSeen) {
    vrt::violation("timed wait reported completion before notify() was called", d, "ready-before-notify");
  }
  if (!m.ready) {
    if (!m.until) {
      if (m.elapsedNs + kSlackSteadyNs < m.reqNs) vrt::violation("timeout reported although less than the requested time elapsed", d, "early-timeout");
    } else {
      long double slack = m.clock == 1 ? kSlackSystemNs : kSlackSteadyNs;
      if (m.shortNs > slack) vrt::violation("wait_until reported a timeout before the deadline", d.kv("beforeDeadlineNs", static_cast<double>(m.shortNs)), "early-timeout");
    }
  }
}

long long pickNs(vrt::Rng& r, bool allowLong) {
  // zero, negative, 1 ns, sub-us, 1 us, sub-ms, 500 us, 5 ms, 50 ms
  uint64_t x = r.below(100);
  if (x < 12) return 0;
  if (x < 20) return r.chance(0.5) ? -1000 : -5000000000LL;
  if (x < 28) return 1;
  if (x < 34) return static_cast<long long>(r.range(2, 999));
  if (x < 44) return 1000;
  if (x < 58) return static_cast<long long>(r.range(1001, 400000));
  if (x < 76) return 500000;
  if (x < 84) return static_cast<long long>(r.range(600000, 2500000));
  if (x < 96 || !allowLong) return 5000000;
  return 50000000;
}
TSpec pickT(vrt::Rng& r, bool allowLong, long long forceNs = -1) {
  TSpec t;
  t.ns = forceNs >= 0 ? forceNs : pickNs(r, allowLong);
  t.until = r.chance(0.4);
  t.clock = static_cast<int>(r.below(3));
  t.rep = static_cast<int>(r.below(7));
  return t;
}

// waiter thread body shared by the scripts
template <typename W>
void waiterThread(Ctx* c, int w, W obj, TSpec t, bool isEvent) {
  RoleScope role(kRoleWaiter);
  c->arrived.fetch_add(1, std::memory_order_relaxed);
  while (!c->go.load(std::memory_order_relaxed)) {
    sched_yield();
  }
  Meas m = timedCall(obj, t);
  if (isEvent) m.issuedSeen = c->issued.load(std::memory_order_relaxed);
  c->meas[w] = m;
  vrt::progress();
}

void releaseWaiters(Ctx& c, int n) {
  while (c.arrived.load(std::memory_order_relaxed) < n) {
    usleep(10);
    vrt::progress(); // pure harness phase (threads starting up)
  }
  c.go.store(true, std::memory_order_relaxed);
}

struct Outcome {
  std::vector<std::string> cls;
  J stats;
  bool nontrivial = false;
  std::string inconclusive;
};

// ---------------------------------------------------------------- event scripts
void runEvent(const Spec& s, Ctx& c, Outcome& out) {
  dispenso::CompletionEvent ev;
  std::vector<std::thread> th;
  if (s.script == kE3EagainEvent) {
    // waiter loads status 0, parks in front of the futex call; notify() happens; the futex call then
    // fails with EAGAIN and the loop must report completion (not a timeout)
    vrt::gateArm(V::kEventBeforeFutexWait);
    th.emplace_back(waiterThread<EventW>, &c, 0, EventW{&ev}, s.t[0], true);
    releaseWaiters(c, 1);
    if (!vrt::gateWaitArrived(V::kEventBeforeFutexWait, 8000)) {
      out.inconclusive = "gate kEventBeforeFutexWait not reached";
    }
    c.issued.store(1, std::memory_order_relaxed);
    ev.notify();
    vrt::gateOpen(V::kEventBeforeFutexWait);
    th[0].join();
    if (out.inconclusive.empty()) out.cls.push_back("status-changed-before-futex");
    return;
  }
  for (int w = 0; w < s.waiters; ++w) th.emplace_back(waiterThread<EventW>, &c, w, EventW{&ev}, s.t[w], true);
  std::thread notifier;
  if (s.script == kE1Race || s.script == kE2LongEarly) {
    long long atNs = s.script == kE1Race ? std::max<long long>(0, s.t[0].ns + static_cast<long long>(s.deltaUs) * 1000) : static_cast<long long>(s.afterUs) * 1000;
    notifier = std::thread([&c, &ev, atNs]() {
      while (!c.go.load(std::memory_order_relaxed)) {
        sched_yield();
      }
      auto end = Steady::now() + std::chrono::nanoseconds(atNs);
      while (Steady::now() < end) {
        if (atNs > 2000000) usleep(50);
      }
      c.issued.store(1, std::memory_order_relaxed);
      ev.notify();
    });
  }
  releaseWaiters(c, s.waiters);
  for (auto& t : th) t.join();
  if (notifier.joinable()) notifier.join();
}

// ---------------------------------------------------------------- future scripts
template <typename S>
dispenso::Future<long> makeFuture(Ctx& c, const Spec& s, S& sched) {
  RoleScope role(kRoleCtor);
  std::launch a = (s.policy & 1) ? std::launch::async : dispenso::kNotAsync;
  std::launch d = (s.policy & 2) ? std::launch::deferred : dispenso::kNotDeferred;
  return dispenso::Future<long>(Fn20(&c), sched, a, d);
}

void runFuture(const Spec& s, Ctx& c, Outcome& out) {
  std::unique_ptr<dispenso::ThreadPool> pool;
  std::unique_ptr<dispenso::TaskSet> ts;
  std::unique_ptr<dispenso::ConcurrentTaskSet> cts;
  ManualInvoker manual;
  dispenso::NewThreadInvoker nti;
  PoolGate gate;
  std::vector<std::thread> th;
  std::thread runner;
  {
    dispenso::Future<long> f, cf;
    const bool policyDeferred = (s.policy & 2) != 0;
    if (s.script == kF4AsyncFn || s.script == kF6MaxTimeout) {
      if (s.sched <= kSCTaskSet) {
        pool.reset(new dispenso::ThreadPool(static_cast<size_t>(s.pool)));
        gate.block(*pool, s.pool);
        if (s.sched == kSTaskSet) ts.reset(new dispenso::TaskSet(*pool));
        if (s.sched == kSCTaskSet) cts.reset(new dispenso::ConcurrentTaskSet(*pool));
      }
      c.allowInline = policyDeferred;
      if (s.creation == 0) {
        switch (s.sched) {
          case kSPool: f = makeFuture(c, s, *pool); break;
          case kSTaskSet: f = makeFuture(c, s, *ts); break;
          case kSCTaskSet: f = makeFuture(c, s, *cts); break;
          case kSNewThread: f = makeFuture(c, s, nti); break;
          default: f = makeFuture(c, s, manual); break;
        }
      } else {
        // dispenso::async(schedulable, policy, f, args...): the documented meaning of `policy` is
        // "async: force queuing; deferred: wait_for / wait_until may invoke the functor"
        RoleScope role(kRoleCtor);
        std::launch p = static_cast<std::launch>(0);
        if (s.policy & 1) p = p | std::launch::async;
        if (s.policy & 2) p = p | std::launch::deferred;
        switch (s.sched) {
          case kSPool: f = dispenso::async(*pool, p, asyncBody, &c); break;
          case kSTaskSet: f = dispenso::async(*ts, p, asyncBody, &c); break;
          case kSCTaskSet: f = dispenso::async(*cts, p, asyncBody, &c); break;
          default: f = dispenso::async(nti, p, asyncBody, &c); break;
        }
      }
    } else if (s.script == kF5ThenPolicy) {
      c.allowInline = true; // the antecedent is a default (deferred) future
      c.contAllowInline = policyDeferred;
      Spec s2 = s;
      s2.policy = 2;
      f = makeFuture(c, s2, manual);
      RoleScope role(kRoleCtor);
      std::launch a = (s.policy & 1) ? std::launch::async : dispenso::kNotAsync;
      std::launch d = policyDeferred ? std::launch::deferred : dispenso::kNotDeferred;
      if (s.sched == kSPool) {
        pool.reset(new dispenso::ThreadPool(static_cast<size_t>(s.pool)));
        cf = f.then(Then20(&c), *pool, a, d);
      } else if (s.sched == kSNewThread) {
        cf = f.then(Then20(&c), nti, a, d);
      } else {
        cf = f.then(Then20(&c), dispenso::kImmediateInvoker, a, d);
      }
    } else {
      Spec s2 = s;
      s2.policy = (s.script == kF1NotStartedD || (s.script == kF2Running && (s.policy & 2))) ? 2 : 0;
      c.allowInline = (s2.policy & 2) != 0;
      f = makeFuture(c, s2, manual);
    }

    dispenso::Future<long>& target = s.script == kF5ThenPolicy ? cf : f;
    std::vector<dispenso::Future<long>> copies(static_cast<size_t>(s.waiters), target);

    if (s.script == kF3EagainFuture) {
      // waiter loads kNotStarted and parks in front of the futex call; the functor is started (status
      // becomes kRunning) and keeps running; the futex call fails with EAGAIN and the wait must go on
      // for the full timeout
      c.holdUntilRelease = true;
      vrt::gateArm(V::kEventBeforeFutexWait);
      th.emplace_back(waiterThread<FutureW>, &c, 0, FutureW{&copies[0]}, s.t[0], false);
      releaseWaiters(c, 1);
      bool arrived = vrt::gateWaitArrived(V::kEventBeforeFutexWait, 8000);
      if (!arrived) out.inconclusive = "gate kEventBeforeFutexWait not reached";
      runner = std::thread([&manual]() {
        RoleScope role(kRoleRunner);
        manual.run(0);
      });
      while (!c.entered.load(std::memory_order_relaxed)) {
        usleep(20);
      }
      vrt::gateOpen(V::kEventBeforeFutexWait);
      th[0].join();
      c.releaseFn.store(true, std::memory_order_relaxed);
      runner.join();
      if (arrived) out.cls.push_back("status-changed-before-futex");
    } else {
      if (s.script == kF2Running) {
        c.dwellUs = s.dwellUs;
        runner = std::thread([&manual]() {
          RoleScope role(kRoleRunner);
          manual.run(0);
        });
        while (!c.entered.load(std::memory_order_relaxed)) {
          usleep(10);
        }
      }
      if (s.script == kF6MaxTimeout) {
        // the waits below only end when the future completes: another thread completes it after a while
        runner = std::thread([&c, &s, &gate, &manual]() {
          RoleScope role(kRoleRunner);
          while (!c.go.load(std::memory_order_relaxed)) {
            sched_yield();
          }
          usleep(static_cast<unsigned>(s.afterUs));
          gate.release();
          manual.runPending();
        });
      }
      for (int w = 0; w < s.waiters; ++w) th.emplace_back(waiterThread<FutureW>, &c, w, FutureW{&copies[static_cast<size_t>(w)]}, s.t[w], false);
      releaseWaiters(c, s.waiters);
      for (auto& t : th) t.join();
      if (runner.joinable()) runner.join();
    }
    // the scenario is over: let everything complete and check the value once
    gate.release();
    {
      RoleScope role(kRoleDrain);
      manual.runPending();
      long v = target.get();
      long expect = s.script == kF5ThenPolicy ? c.value + 1 : c.value;
      if (v != expect) vrt::violation("future value wrong after timed waits", J().kv("got", v).kv("expected", expect).kv("spec", s.json()), "value", "C18");
    }
    copies.clear();
  }
  {
    RoleScope role(kRoleDrain);
    ts.reset();
    cts.reset();
    pool.reset();
    if (s.sched == kSNewThread) dispenso::detail::drainNewThreadInvokerThreads();
  }
  int runs = c.runs.load();
  if (runs != 1) vrt::violation("functor executed " + std::to_string(runs) + " times", J().kv("spec", s.json()), "runs", "C18");
  if (s.script == kF5ThenPolicy && c.contRuns.load() != 1) vrt::violation("continuation executed " + std::to_string(c.contRuns.load()) + " times", J().kv("spec", s.json()), "runs", "C19");
  if (c.ranInTimedForbidden.load()) {
    vrt::violation("a future created without the deferred policy had its functor executed by a thread inside wait_for/wait_until", J().kv("spec", s.json()), "inline-run");
  }
  if (c.contInTimedForbidden.load()) {
    vrt::violation("a continuation future created with kNotDeferred was executed by a thread inside wait_for/wait_until", J().kv("spec", s.json()), "inline-run");
  }
  if (c.ranInTimed.load()) out.cls.push_back("timed-wait-ran-functor");
  if (s.script == kF6MaxTimeout && !(s.policy & 2)) out.cls.push_back("deferred-clause:max-timeout");
  if (s.script == kF4AsyncFn || s.script == kF5ThenPolicy || s.script == kF0NotStartedND) {
    bool forbidden = s.script == kF0NotStartedND || !(s.policy & 2);
    if (forbidden && s.sched != kSNewThread) out.cls.push_back("inline-forbidden-and-not-started");
  }
}

Spec gen(vrt::Rng& r, long idx) {
  Spec s;
  const bool th = vrt::thorough();
  uint64_t x = r.below(100);
  s.script = x < 24 ? kE0Timeout : x < 39 ? kE1Race : x < 47 ? kE2LongEarly : x < 49 ? kE3EagainEvent : x < 59 ? kF0NotStartedND : x < 66 ? kF1NotStartedD : x < 79 ? kF2Running : x < 81 ? kF3EagainFuture : x < 91 ? kF4AsyncFn : x < 95 ? kF6MaxTimeout : kF5ThenPolicy;
  if (idx < kNumScripts) s.script = static_cast<int>(idx); // every script at least once per run
  s.waiters = static_cast<int>(r.range(1, 3));
  bool allowLong = th || r.chance(0.5);
  for (int i = 0; i < 3; ++i) s.t[i] = pickT(r, allowLong);
  s.perturb = static_cast<int>(r.below(3));
  s.spurious = r.chance(0.5);
  s.prewait = r.chance(0.3);
  s.pool = static_cast<int>(r.range(1, 3));
  s.policy = static_cast<int>(r.below(4));
  switch (s.script) {
    case kE1Race: {
      static const int del[] = {-300, -40, -5, 0, 5, 40, 300};
      s.deltaUs = del[r.below(7)];
      static const long long to[] = {1000, 30000, 200000, 500000, 1500000, 5000000};
      long long ns = to[r.below(6)];
      for (int i = 0; i < 3; ++i) s.t[i] = pickT(r, false, ns);
      break;
    }
    case kE2LongEarly: {
      s.afterUs = static_cast<int>(r.range(20, 600));
      bool ub = vrt::g_args.getInt("huge", (vrt::g_args.config == "plain" || vrt::g_args.config == "tsan") ? 1 : 0) != 0;
      for (int i = 0; i < 3; ++i) {
        s.t[i] = TSpec();
        int sp = static_cast<int>(r.range(1, 6));
        if (!ub && sp <= 3) sp = static_cast<int>(r.range(4, 6));
        s.t[i].special = sp;
        s.t[i].until = sp == 4 || (sp >= 5 && r.chance(0.5));
        s.t[i].clock = sp == 6 ? 1 : 0;
        s.t[i].ns = sp == 5 ? 3600LL * 1000000000LL : sp == 6 ? 30LL * 86400LL * 1000000000LL : 0;
      }
      break;
    }
    case kE3EagainEvent:
    case kF3EagainFuture:
      s.waiters = 1;
      s.t[0] = pickT(r, false, 30000000);
      s.t[0].until = r.chance(0.3);
      s.t[0].clock = 0;
      if (s.t[0].rep == 6) s.t[0].rep = 0;
      s.perturb = 0; // the gate is the perturbation
      s.prewait = false;
      s.spurious = false;
      s.policy = 0;
      break;
    case kF0NotStartedND:
      s.policy = 0;
      for (int i = 0; i < 3; ++i) {
        if (s.t[i].ns > 5000000) s.t[i].ns = 5000000;
      }
      break;
    case kF2Running: {
      static const int dw[] = {30, 300, 1500, 4000};
      s.dwellUs = dw[r.below(4)];
      s.policy = r.chance(0.5) ? 2 : 0;
      break;
    }
    case kF4AsyncFn: {
      s.creation = static_cast<int>(r.below(2));
      static const int sc0[] = {kSPool, kSTaskSet, kSCTaskSet, kSNewThread, kSManual};
      static const int sc1[] = {kSPool, kSTaskSet, kSCTaskSet, kSNewThread};
      s.sched = s.creation ? sc1[r.below(4)] : sc0[r.below(5)];
      for (int i = 0; i < 3; ++i) {
        if (s.t[i].ns > 2500000) s.t[i].ns = 500000;
      }
      break;
    }
    case kF6MaxTimeout: {
      // non-started futures waited on with exactly Rep::max() / time_point::max(); mostly without the
      // deferred bit (the functor must then be left to the pool / the manual runner)
      s.creation = static_cast<int>(r.below(2));
      static const int sc0[] = {kSPool, kSTaskSet, kSCTaskSet, kSManual};
      static const int sc1[] = {kSPool, kSTaskSet, kSCTaskSet};
      s.sched = s.creation ? sc1[r.below(3)] : sc0[r.below(4)];
      if (r.chance(0.8)) s.policy &= 1;
      s.waiters = static_cast<int>(r.range(1, 2));
      s.afterUs = static_cast<int>(r.range(20000, 50000));
      s.spurious = r.chance(0.3);
      bool ub = vrt::g_args.getInt("huge", (vrt::g_args.config == "plain" || vrt::g_args.config == "tsan") ? 1 : 0) != 0;
      for (int i = 0; i < 3; ++i) {
        s.t[i] = TSpec();
        static const int safe[] = {7, 4, 8};
        static const int all[] = {7, 4, 8, 1, 2};
        int sp = ub ? all[r.below(5)] : safe[r.below(3)];
        s.t[i].special = sp;
        s.t[i].until = sp == 4 || sp == 8;
        s.t[i].clock = sp == 8 ? 1 : 0;
      }
      break;
    }
    case kF5ThenPolicy: {
      static const int sc[] = {kSPool, kSNewThread, kSImmediate};
      s.sched = sc[r.below(3)];
      for (int i = 0; i < 3; ++i) {
        if (s.t[i].ns > 2500000) s.t[i].ns = 500000;
      }
      break;
    }
    default: break;
  }
  return s;
}

std::string keyOf(const Spec& s) {
  std::string k = kScriptNames[s.script];
  if (s.script == kF4AsyncFn || s.script == kF5ThenPolicy || s.script == kF6MaxTimeout) {
    static const char* pn[] = {"policy=none", "policy=async", "policy=deferred", "policy=async+deferred"};
    k += std::string("/") + (s.creation ? "async-fn" : (s.script == kF5ThenPolicy ? "then" : "ctor")) + "/" + schedName(s.sched) + "/" + pn[s.policy];
  } else {
    k += std::string("/") + (s.t[0].until ? "until" : "for") + "/" + s.t[0].cls();
  }
  return k;
}

} // namespace

void runC20(long base) {
  const long n = vrt::g_args.getInt("n", vrt::thorough() ? 60000 : 3200);
  for (long k = 0; k < n; ++k) {
    long idx = base + k;
    if (!vrt::selected(idx)) continue;
    vrt::Rng r = vrt::caseRng(idx);
    Spec s = gen(r, k);
    vrt::caseBegin(idx, keyOf(s), s.json());
    vrt::watchdogArm();
    vrt::lifeReset();
    applyPerturb(s.perturb, s.spurious, s.prewait);
    std::unique_ptr<Ctx> c(new Ctx);
    c->value = 100 + static_cast<long>(r.below(100000));
    Outcome out;
    const bool isEvent = s.script <= kE3EagainEvent;
    if (isEvent) runEvent(s, *c, out);
    else runFuture(s, *c, out);
    clearPerturb();
    vrt::watchdogDisarm();
    int timeouts = 0, readies = 0;
    for (int w = 0; w < s.waiters; ++w) {
      judge(s, c->meas[w], isEvent, w);
      if (c->meas[w].valid) (c->meas[w].ready ? readies : timeouts)++;
      if (c->meas[w].valid) {
        out.cls.push_back(std::string("to:") + c->meas[w].t.cls());
        out.cls.push_back(c->meas[w].t.until ? (c->meas[w].t.clock == 1 ? "until:system" : "until:steady") : "for");
      }
    }
    if (!isEvent) lifeVerdict("C20");
    if (!out.inconclusive.empty()) vrt::inconclusive(out.inconclusive);
    out.cls.push_back(std::string("script:") + kScriptNames[s.script]);
    if (timeouts) out.cls.push_back("timeout-seen");
    if (readies) out.cls.push_back("ready-seen");
    if (s.spurious) out.cls.push_back("spurious-futex");
    vrt::caseEnd(J().kv("timeouts", timeouts).kv("readies", readies).kv("runs", c->runs.load()).kv("ranInTimed", c->ranInTimed.load()), s.json().str(), out.cls);
  }
}
