#include "h_pipeline_impl.h"
void runShapes_g0(int shape, dispenso::ThreadPool& pool) {
  switch (shape) {
    case 0: runCodes<'x'>(pool); break;
    case 1: runCodes<'X'>(pool); break;
    case 2: runCodes<'g', 's'>(pool); break;
    case 3: runCodes<'G', 'S'>(pool); break;
    case 4: runCodes<'R', 's'>(pool); break;
    case 5: runCodes<'g', 'S'>(pool); break;
    case 23: runCodes<'G', 's'>(pool); break;
    default: break;
  }
}
