// C32 instantiations for trait combination heap-compact-half (see h_seq_cv_impl.h)
#include "h_seq_cv_impl.h"

HSEQ_CV_INSTANCE(t10_0, vrt::TrackedT<32>, "e32", false, false, kHalfBufferAhead, "heap-compact-half")
HSEQ_CV_INSTANCE(t10_1, vrt::TrackedT<64>, "e64", false, false, kHalfBufferAhead, "heap-compact-half")
HSEQ_CV_INSTANCE(t10_2, vrt::TrackedT<128>, "e128", false, false, kHalfBufferAhead, "heap-compact-half")
HSEQ_CV_INSTANCE(t10_3, vrt::TrackedT<8>, "e16", false, false, kHalfBufferAhead, "heap-compact-half")
HSEQ_CV_INSTANCE(t10_4, vrt::TrackedT<256>, "e256", false, false, kHalfBufferAhead, "heap-compact-half")
