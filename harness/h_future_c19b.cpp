// C19, part 2: when_all / when_any over iterator ranges (plain, TaskSet and ConcurrentTaskSet
// variants), and a stress block for "taskSet.wait() returned => the result future is ready".
#include "h_future_common.h"

namespace {

constexpr int kMaxIn = 24;

enum Src : int { kReadyMade = 0, kDonePool = 1, kManual = 2, kPoolQueued = 3, kNewThread = 4, kNumSrc };
const char* const kSrcNames[] = {"ready", "done", "manual", "pool", "newthread"};

struct Spec {
  bool any = false;
  int n = 0;
  int variant = 0; // 0 plain, 1 TaskSet, 2 ConcurrentTaskSet
  int src[kMaxIn];
  bool throws[kMaxIn];
  int order[kMaxIn]; // order in which the completer runs the manual inputs
  int pool = 2;
  int gate = 0;
  bool earlyGet = false;
  bool poller = true;
  int stepDelayUs = 0;
  int perturb = 0;
  bool spurious = false;
  J json() const {
    J j;
    j.kv("api", any ? "when_any" : "when_all").kv("n", n).kv("variant", variant == 0 ? "plain" : variant == 1 ? "TaskSet" : "ConcurrentTaskSet");
    std::vector<std::string> ss;
    std::vector<int> th, od;
    for (int i = 0; i < n; ++i) {
      ss.push_back(kSrcNames[src[i]]);
      th.push_back(throws[i]);
      od.push_back(order[i]);
    }
    j.arr("src", ss).arr("throws", th).arr("order", od);
    j.kv("pool", pool).kv("gate", gate).kv("earlyGet", earlyGet).kv("poller", poller).kv("stepDelayUs", stepDelayUs).kv("perturb", perturb).kv("spurious", spurious);
    return j;
  }
};

struct Ctx {
  Spec s;
  long base = 0;
  std::atomic<int> runs[kMaxIn];
  std::atomic<int> probeRuns{0};
  std::atomic<int> readyButInputNot{0}; // result ready while an input was not
  std::atomic<int> badIndex{0}; // when_any: index out of range
  std::atomic<long> badIndexVal{0};
  std::atomic<int> probes{0}, probesSawReady{0};
  std::atomic<bool> stop{false};
  std::atomic<bool> go{false};
  Ctx() {
    for (auto& r : runs) r.store(0);
  }
};

struct InFn {
  Ctx* c;
  int i;
  FnGuts g;
  InFn(Ctx* cc, int ii) : c(cc), i(ii) {}
  Payload operator()() {
    int n = c->runs[i].fetch_add(1, std::memory_order_relaxed);
    if (n > 8) {
      vrt::violation("input functor storm");
      _exit(5);
    }
    vrt::progress();
    if (c->s.throws[i]) throw CaseEx{900 + i};
    return Payload(c->base + i);
  }
};

using FP = dispenso::Future<Payload>;
using AllRes = dispenso::Future<std::vector<FP>>;
using AnyRes = dispenso::Future<size_t>;

// Readiness probes. Sound because readiness is monotone: the result is sampled first, the inputs
// afterwards, so "result ready, input not ready" means the input was not ready when the result was.
void probeAll(Ctx& c, const AllRes& res, const std::vector<FP>& in) {
  c.probes.fetch_add(1, std::memory_order_relaxed);
  if (!res.is_ready()) return;
  c.probesSawReady.fetch_add(1, std::memory_order_relaxed);
  for (auto& f : in) {
    if (!f.is_ready()) c.readyButInputNot.fetch_add(1, std::memory_order_relaxed);
  }
}
void probeAny(Ctx& c, const AnyRes& res, const std::vector<FP>& in) {
  c.probes.fetch_add(1, std::memory_order_relaxed);
  if (!res.is_ready()) return;
  c.probesSawReady.fetch_add(1, std::memory_order_relaxed);
  size_t idx = res.get();
  if (in.empty()) return; // nothing it could name; only "ready, no crash" is checked
  if (idx >= in.size()) {
    c.badIndex.fetch_add(1, std::memory_order_relaxed);
    c.badIndexVal.store(static_cast<long>(idx), std::memory_order_relaxed);
  } else if (!in[idx].is_ready()) {
    c.readyButInputNot.fetch_add(1, std::memory_order_relaxed);
  }
}

struct ProbeAllFn {
  Ctx* c;
  std::vector<FP> in;
  FnGuts g;
  long operator()(AllRes&& r) {
    c->probeRuns.fetch_add(1, std::memory_order_relaxed);
    probeAll(*c, r, in);
    return 1;
  }
};
struct ProbeAnyFn {
  Ctx* c;
  std::vector<FP> in;
  FnGuts g;
  long operator()(AnyRes&& r) {
    c->probeRuns.fetch_add(1, std::memory_order_relaxed);
    probeAny(*c, r, in);
    return 1;
  }
};

struct Outcome {
  std::vector<std::string> cls;
  J stats;
  bool nontrivial = false;
};

template <bool kAny>
struct Api;
template <>
struct Api<false> {
  using Res = AllRes;
  using Probe = ProbeAllFn;
  static Res call(std::vector<FP>& in) {
    return dispenso::when_all(in.begin(), in.end());
  }
  template <typename TS>
  static Res call(TS& ts, std::vector<FP>& in) {
    return dispenso::when_all(ts, in.begin(), in.end());
  }
  static void probe(Ctx& c, const Res& r, const std::vector<FP>& in) {
    probeAll(c, r, in);
  }
};
template <>
struct Api<true> {
  using Res = AnyRes;
  using Probe = ProbeAnyFn;
  static Res call(std::vector<FP>& in) {
    return dispenso::when_any(in.begin(), in.end());
  }
  template <typename TS>
  static Res call(TS& ts, std::vector<FP>& in) {
    return dispenso::when_any(ts, in.begin(), in.end());
  }
  static void probe(Ctx& c, const Res& r, const std::vector<FP>& in) {
    probeAny(c, r, in);
  }
};

void checkResult(Ctx& c, const AllRes& res, const Spec& s, const std::vector<FP>&) {
  const std::vector<FP>& v = res.get();
  J d;
  d.kv("spec", s.json());
  if (static_cast<int>(v.size()) != s.n) {
    vrt::violation("when_all result has " + std::to_string(v.size()) + " elements for " + std::to_string(s.n) + " inputs", d, "order");
    return;
  }
  for (int j = 0; j < s.n; ++j) {
    if (!v[static_cast<size_t>(j)].is_ready()) {
      vrt::violation("when_all result is ready but element " + std::to_string(j) + " is not", d, "ready");
      continue;
    }
    try {
      long t = v[static_cast<size_t>(j)].get().tag;
      if (s.throws[j] || t != c.base + j) vrt::violation("when_all result element " + std::to_string(j) + " is not input " + std::to_string(j), d.kv("tag", t).kv("expected", c.base + j), "order");
    } catch (const CaseEx& e) {
      if (!s.throws[j] || e.id != 900 + j) vrt::violation("when_all result element " + std::to_string(j) + " rethrows an unexpected exception", d.kv("id", e.id), "order");
    }
  }
}
void checkResult(Ctx&, const AnyRes& res, const Spec& s, const std::vector<FP>& in) {
  size_t idx = res.get();
  J d;
  d.kv("index", static_cast<long>(idx)).kv("spec", s.json());
  if (s.n == 0) return;
  if (idx >= static_cast<size_t>(s.n)) vrt::violation("when_any index out of range", d, "index");
  else if (!in[idx].is_ready()) vrt::violation("when_any names an input that is not ready", d, "ready");
}

template <bool kAny>
Outcome runCase(const Spec& s, long idx) {
  using A = Api<kAny>;
  using Res = typename A::Res;
  Outcome out;
  std::unique_ptr<Ctx> cp(new Ctx);
  Ctx& c = *cp;
  c.s = s;
  vrt::Rng r = vrt::caseRng(idx, 313);
  c.base = 10 + static_cast<long>(r.below(100000)) * 100;
  vrt::lifeReset();
  applyPerturb(s.perturb, s.spurious, false);
  bool tsWaitNotReady = false, readyAtReturnButInputNot = false;
  int manualCount = 0;
  {
    std::unique_ptr<dispenso::ThreadPool> pool(new dispenso::ThreadPool(static_cast<size_t>(s.pool)));
    ManualInvoker manual;
    dispenso::NewThreadInvoker nti;
    PoolGate gate;
    std::vector<FP> in;
    std::vector<int> slotOf(static_cast<size_t>(s.n), -1);
    {
      RoleScope role(kRoleCtor);
      // inputs that must be complete before the combinator is called
      for (int i = 0; i < s.n; ++i) {
        if (s.src[i] == kReadyMade) in.push_back(dispenso::make_ready_future(Payload(c.base + i)));
        else if (s.src[i] == kDonePool) {
          in.emplace_back(InFn(&c, i), *pool);
          in.back().wait();
        } else in.emplace_back();
      }
      if (s.gate && s.pool > 0) gate.block(*pool, s.pool);
      for (int i = 0; i < s.n; ++i) {
        if (s.src[i] == kManual) {
          slotOf[static_cast<size_t>(i)] = manual.size();
          in[static_cast<size_t>(i)] = FP(InFn(&c, i), manual);
          ++manualCount;
        } else if (s.src[i] == kPoolQueued) in[static_cast<size_t>(i)] = FP(InFn(&c, i), *pool, std::launch::async);
        else if (s.src[i] == kNewThread) in[static_cast<size_t>(i)] = FP(InFn(&c, i), nti);
      }
    }
    {
      std::unique_ptr<dispenso::TaskSet> ts;
      std::unique_ptr<dispenso::ConcurrentTaskSet> cts;
      if (s.variant == 1) ts.reset(new dispenso::TaskSet(*pool));
      if (s.variant == 2) cts.reset(new dispenso::ConcurrentTaskSet(*pool));
      Res res;
      {
        RoleScope role(kRoleCtor);
        res = s.variant == 0 ? A::call(in) : s.variant == 1 ? A::call(*ts, in) : A::call(*cts, in);
      }
      A::probe(c, res, in);
      if (c.readyButInputNot.load()) readyAtReturnButInputNot = true;
      dispenso::Future<long> probeFut;
      {
        RoleScope role(kRoleRegistrar);
        probeFut = res.then(typename A::Probe{&c, in, FnGuts()}, dispenso::kImmediateInvoker);
      }
      std::vector<std::thread> th;
      if (s.poller) {
        th.emplace_back([&c, res, in]() {
          RoleScope role(kRoleWaiter);
          while (!c.go.load(std::memory_order_relaxed)) {
            sched_yield();
          }
          while (!res.is_ready() && !c.stop.load(std::memory_order_relaxed)) {
            sched_yield();
          }
          A::probe(c, res, in);
        });
      }
      if (s.earlyGet) {
        th.emplace_back([&c, res, in]() {
          RoleScope role(kRoleWaiter);
          while (!c.go.load(std::memory_order_relaxed)) {
            sched_yield();
          }
          res.wait(); // may run the combinator's functor inline, which waits on (and may run) inputs
          A::probe(c, res, in);
        });
      }
      // completer: runs the manual inputs one by one in the case's order, probing between steps
      th.emplace_back([&c, &s, &manual, &slotOf, res, in]() {
        RoleScope role(kRoleRunner);
        while (!c.go.load(std::memory_order_relaxed)) {
          sched_yield();
        }
        for (int k = 0; k < s.n; ++k) {
          int i = s.order[k];
          if (s.src[i] != kManual) continue;
          if (s.stepDelayUs) vrt::spinFor(s.stepDelayUs);
          A::probe(c, res, in);
          manual.run(slotOf[static_cast<size_t>(i)]);
          A::probe(c, res, in);
        }
      });
      c.go.store(true, std::memory_order_relaxed);
      if (s.gate) {
        vrt::spinFor(30 + s.stepDelayUs);
        gate.release();
      }
      if (s.variant) {
        RoleScope role(kRoleDrain);
        if (ts) ts->wait();
        else cts->wait();
        if (!res.is_ready()) tsWaitNotReady = true;
        A::probe(c, res, in);
      }
      for (auto& t : th) t.join();
      gate.release();
      // when_any: the losers still have to complete; everything else is complete already
      {
        RoleScope role(kRoleDrain);
        for (auto& f : in) f.wait();
        res.wait();
        A::probe(c, res, in);
        c.stop.store(true, std::memory_order_relaxed);
        checkResult(c, res, s, in);
        probeFut.wait();
      }
      ts.reset();
      cts.reset();
    }
    in.clear();
    {
      RoleScope role(kRoleDrain);
      dispenso::detail::drainNewThreadInvokerThreads();
      pool.reset();
      dispenso::detail::drainNewThreadInvokerThreads();
    }
  }
  clearPerturb();
  J d;
  d.kv("spec", s.json());
  if (c.readyButInputNot.load()) {
    vrt::violation(kAny ? "when_any result is ready and names an input that is not ready" : "when_all result is ready while an input is not ready", d.kv("count", c.readyButInputNot.load()).kv("atReturn", readyAtReturnButInputNot), "ready");
  }
  if (c.badIndex.load()) vrt::violation("when_any index out of range", d.kv("index", c.badIndexVal.load()), "index");
  if (tsWaitNotReady) vrt::violation("taskSet.wait() returned but the combinator's result future is not ready", d, "taskset-wait");
  if (c.probeRuns.load() != 1) vrt::violation("continuation on the combinator result executed " + std::to_string(c.probeRuns.load()) + " times", d, "runs");
  for (int i = 0; i < s.n; ++i) {
    int expect = s.src[i] == kReadyMade ? 0 : 1;
    if (c.runs[i].load() != expect) vrt::violation("input functor executed " + std::to_string(c.runs[i].load()) + " times", d.kv("input", i), "input-runs", "C18");
  }
  lifeVerdict(kAny ? "C19 when_any" : "C19 when_all");

  out.cls.push_back(kAny ? "api:when_any" : "api:when_all");
  out.cls.push_back(s.variant == 0 ? "variant:plain" : s.variant == 1 ? "variant:TaskSet" : "variant:ConcurrentTaskSet");
  out.cls.push_back(s.n == 0 ? "arity:0" : s.n == 1 ? "arity:1" : s.n <= 3 ? "arity:2-3" : "arity:4+");
  if (manualCount) out.cls.push_back("inputs-complete-after-call");
  else out.cls.push_back("inputs-complete-before-call");
  if (s.earlyGet) out.cls.push_back("early-get");
  if (s.variant && !tsWaitNotReady) out.cls.push_back("taskset-wait-implies-ready");
  bool thr = false;
  for (int i = 0; i < s.n; ++i) thr = thr || s.throws[i];
  if (thr) out.cls.push_back("input-throws");
  out.nontrivial = s.n >= 2;
  out.stats = J().kv("probes", c.probes.load()).kv("probesSawReady", c.probesSawReady.load()).kv("manual", manualCount);
  return out;
}

Spec gen(vrt::Rng& r) {
  Spec s;
  s.any = r.chance(0.45);
  static const int ns[] = {0, 1, 1, 2, 2, 3, 3, 5, 8, 20};
  s.n = ns[r.below(10)];
  s.variant = static_cast<int>(r.below(3));
  s.pool = static_cast<int>(r.range(1, 4));
  if (r.chance(0.05)) s.pool = 0;
  s.gate = s.pool > 0 && r.chance(0.3);
  int mode = static_cast<int>(r.below(4)); // 0 mixed, 1 all manual, 2 all complete before, 3 pool/newthread
  for (int i = 0; i < kMaxIn; ++i) {
    s.src[i] = kManual;
    s.throws[i] = false;
    s.order[i] = i;
  }
  for (int i = 0; i < s.n; ++i) {
    switch (mode) {
      case 0: s.src[i] = static_cast<int>(r.below(kNumSrc)); break;
      case 1: s.src[i] = kManual; break;
      case 2: s.src[i] = r.chance(0.5) ? kReadyMade : kDonePool; break;
      default: s.src[i] = r.chance(0.5) ? kPoolQueued : (r.chance(0.5) ? kNewThread : kManual); break;
    }
    s.throws[i] = s.src[i] != kReadyMade && r.chance(0.1);
  }
  for (int i = s.n - 1; i > 0; --i) std::swap(s.order[i], s.order[r.below(static_cast<uint64_t>(i) + 1)]);
  s.earlyGet = r.chance(0.3);
  s.poller = r.chance(0.7);
  static const int sd[] = {0, 0, 5, 60, 300};
  s.stepDelayUs = sd[r.below(5)];
  s.perturb = static_cast<int>(r.below(3));
  s.spurious = r.chance(0.2);
  return s;
}

std::string keyOf(const Spec& s) {
  std::string k = s.any ? "when_any" : "when_all";
  k += s.variant == 0 ? "/iter/plain" : s.variant == 1 ? "/iter/TaskSet" : "/iter/ConcurrentTaskSet";
  k += s.n == 0 ? "/n0" : s.n == 1 ? "/n1" : "/nN";
  bool man = false;
  for (int i = 0; i < s.n; ++i) man = man || s.src[i] == kManual || s.src[i] == kPoolQueued || s.src[i] == kNewThread;
  k += man ? "/pending-inputs" : "/complete-inputs";
  if (s.earlyGet) k += "/early-get";
  return k;
}

// ---------------------------------------------------------------- stress block
// Many short rounds of: result future registered with a task set; taskSet.wait(); result.is_ready().
// The window between the task-set counter decrement and the ready store is a few instructions wide,
// so this is done in bulk; each case is one block and reports its inner evaluation count.
struct StressFn {
  std::atomic<long>* sink;
  long operator()() {
    sink->fetch_add(1, std::memory_order_relaxed);
    return 5;
  }
};
struct StressThen {
  std::atomic<long>* sink;
  long operator()(dispenso::Future<long>&& a) {
    sink->fetch_add(1, std::memory_order_relaxed);
    return a.get() + 1;
  }
};

// Observer for the stress rounds (not in TSan builds: it uses fences). While a round is published it
// samples "task set has no outstanding task" (the condition on which wait() returns) and then the
// result future's readiness. The outstanding count is raised before the result future is registered
// and the round is published after the registering call returned, so a zero count means the result's
// run() has passed its decrement; the fence keeps the two loads in order.
struct Observer {
  std::atomic<int> active{0}, busy{0};
  std::atomic<bool> quit{false};
  std::atomic<long> probes{0}, zeroSeen{0}, bad{0};
  const dispenso::TaskSetBase* ts = nullptr;
  const dispenso::Future<long>* res = nullptr;
  const dispenso::Future<size_t>* resAny = nullptr;
  void loop() {
    while (!quit.load(std::memory_order_seq_cst)) {
      int a = active.load(std::memory_order_seq_cst);
      if (a == 0) {
        sched_yield();
        continue;
      }
      busy.store(1, std::memory_order_seq_cst);
      if (active.load(std::memory_order_seq_cst) == a) {
        for (int i = 0; i < 64 && active.load(std::memory_order_relaxed) == a; ++i) {
          long out = static_cast<long>(ts->verifOutstanding());
          std::atomic_thread_fence(std::memory_order_seq_cst);
          bool rdy = res ? res->is_ready() : resAny->is_ready();
          probes.fetch_add(1, std::memory_order_relaxed);
          if (out == 0) {
            zeroSeen.fetch_add(1, std::memory_order_relaxed);
            if (!rdy) bad.fetch_add(1, std::memory_order_relaxed);
          }
        }
      }
      busy.store(0, std::memory_order_seq_cst);
    }
  }
  void publish(const dispenso::TaskSetBase* t, const dispenso::Future<long>* r, const dispenso::Future<size_t>* ra, int round) {
    ts = t;
    res = r;
    resAny = ra;
    active.store(round + 1, std::memory_order_seq_cst);
  }
  void retract() {
    active.store(0, std::memory_order_seq_cst);
    while (busy.load(std::memory_order_seq_cst)) {
    }
  }
};

template <typename TS>
long stressRounds(dispenso::ThreadPool& pool, int kind, long rounds, long& notReady, vrt::Rng& r, Observer* obs) {
  std::atomic<long> sink{0};
  long evals = 0;
  for (long k = 0; k < rounds; ++k) {
    TS ts(pool);
    dispenso::Future<long> res;
    dispenso::Future<size_t> resAny;
    std::vector<dispenso::Future<long>> in;
    int which = kind == 3 ? static_cast<int>(r.below(3)) : kind;
    bool async = r.chance(0.5);
    if (which == 0) {
      res = dispenso::Future<long>(StressFn{&sink}, ts, asyncPol(async));
    } else if (which == 1) {
      dispenso::Future<long> a(StressFn{&sink}, pool, asyncPol(async));
      res = a.then(StressThen{&sink}, ts, asyncPol(r.chance(0.5)));
    } else {
      int n = static_cast<int>(r.range(1, 3));
      for (int i = 0; i < n; ++i) in.emplace_back(StressFn{&sink}, pool, asyncPol(async));
      resAny = dispenso::when_any(ts, in.begin(), in.end());
    }
    if (obs) obs->publish(&ts, which == 2 ? nullptr : &res, which == 2 ? &resAny : nullptr, static_cast<int>(k));
    ts.wait();
    bool ready = which == 2 ? resAny.is_ready() : res.is_ready();
    if (obs) obs->retract();
    if (!ready) ++notReady;
    ++evals;
    if ((k & 63) == 0) vrt::progress();
    for (auto& f : in) f.wait();
  }
  return evals;
}

} // namespace

void runC19Comb(long base, long n) {
  for (long k = 0; k < n; ++k) {
    long idx = base + k;
    if (!vrt::selected(idx)) continue;
    vrt::Rng r = vrt::caseRng(idx);
    Spec s = gen(r);
    vrt::caseBegin(idx, keyOf(s), s.json());
    vrt::watchdogArm();
    Outcome o = s.any ? runCase<true>(s, idx) : runCase<false>(s, idx);
    vrt::watchdogDisarm();
    vrt::caseEnd(o.stats, o.nontrivial ? s.json().str() : "", o.cls);
  }
}

void runC19Stress(long base, long n) {
  for (long k = 0; k < n; ++k) {
    long idx = base + k;
    if (!vrt::selected(idx)) continue;
    vrt::Rng r = vrt::caseRng(idx);
    int kind = static_cast<int>(k % 4);
    bool concurrent = (k / 4) % 2 == 1;
    int threads = static_cast<int>(r.range(1, 3));
    long rounds = vrt::g_args.getInt("rounds", VRT_TSAN ? 150 : 1500);
    static const char* kn[] = {"future", "then", "when_any", "mixed"};
    std::string key = std::string("stress/taskset-wait/") + kn[kind] + "/" + (concurrent ? "ConcurrentTaskSet" : "TaskSet");
    J spec = J().kv("kind", kn[kind]).kv("ts", concurrent ? "ConcurrentTaskSet" : "TaskSet").kv("pool", threads).kv("rounds", rounds);
    vrt::caseBegin(idx, key, spec);
    vrt::watchdogArm();
    clearPerturb();
    long notReady = 0, evals = 0, obsBad = 0, obsZero = 0;
    {
      dispenso::ThreadPool pool(static_cast<size_t>(threads));
      std::unique_ptr<Observer> obs;
      std::thread obsThread;
#if !VRT_TSAN
      obs.reset(new Observer);
      obsThread = std::thread([&obs]() { obs->loop(); });
#endif
      evals = concurrent ? stressRounds<dispenso::ConcurrentTaskSet>(pool, kind, rounds, notReady, r, obs.get()) : stressRounds<dispenso::TaskSet>(pool, kind, rounds, notReady, r, obs.get());
      if (obs) {
        obs->quit.store(true, std::memory_order_seq_cst);
        obsThread.join();
        obsBad = obs->bad.load();
        obsZero = obs->zeroSeen.load();
      }
    }
    vrt::watchdogDisarm();
    if (obsBad) vrt::violation("the task set's outstanding count reached zero (the condition on which wait() returns) while the result future registered with it was not ready (" + std::to_string(obsBad) + " observations)", spec, "taskset-wait");
    if (notReady) vrt::violation("taskSet.wait() returned but the result future is not ready (" + std::to_string(notReady) + " of " + std::to_string(evals) + " rounds)", spec, "taskset-wait");
    vrt::caseEnd(J().kv("_evals", evals).kv("_nt", evals).kv("notReady", notReady).kv("observerZeroSeen", obsZero), key + "/" + std::to_string(k), {"stress:taskset-wait"});
  }
}
