#include "h_parfor_impl.h"

Obs runSpec_t0(const Spec& s) {
  return runSpecT<int8_t>(s);
}
