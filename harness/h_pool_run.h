#pragma once
// Engine h_pool: case runner interface (h_pool_run.cpp) used by the per-property generators
// (h_pool_props.cpp).
#include <algorithm>

#include "h_pool_common.h"

void monInit();
void monReset();
void monRemember();

struct CaseSpec {
  int N = 4; // pool threads at construction
  int mult = 32; // poolLoadMultiplier
  int mode = 0; // 0 signaling wake (default), 1 polling
  std::vector<Program> programs;
  std::vector<int> ext; // programs run on external threads (producers)
  std::vector<int> poolTasks; // programs launched as pool tasks (through the global set if there is one)
  int mainProg = -1; // program run on the main thread
  int resizerProg = -1; // program run on one more external thread (resize / setSignalingWake ops)
  int ctsKind = 0, ctsSteal = 4; // global ConcurrentTaskSet owned by main: 0 none, 2 heavy, 3 lightweight
  int gates = 0; // gate tasks that hold workers
  int gateRelease = 1; // 0 after launching the programs, 1 after they were joined, 2 from inside ~ThreadPool
  double perturb = 0; // hook-site delay probability
  double futexDelay = 0, futexSpur = 0;
  bool checkAccounting = false; // C08 quiescence check before the pool is destroyed
  int finalResize = -1; // main resizes to this after everything was joined (-1: no)
  bool hintRace = false; // delay (almost) every worker between a failed central-queue dequeue and its clearing of the non-empty hint
  bool joinPoolTasks = false; // main polls until the pool-task programs have finished before it goes on to ~ThreadPool
  J json() const;
};

struct CaseObs {
  uint32_t ids = 0;
  long lost = 0, dup = 0, firstLost = -1, firstDup = -1;
  long lostChildOfDtorDrained = 0; // lost tasks whose parent ran inside ~ThreadPool
  long lostOther = 0;
  long lateRuns = 0;
  long barrierChecks = 0, barrierFails = 0;
  long futChecked = 0, futNotReady = 0;
  long fqInline = 0, fqTasks = 0;
  long cls[C_NCLS] = {0};
  bool dtorGateReached = true;
  long plainBad = 0;
  // accounting
  bool acctChecked = false, quiescent = false, idleSeen = false, probeInline = false;
  long drift = 0, notWorking = 0, finalN = 0, resizeRan = 0;
  long resizes = 0, resizeGrow = 0, resizeShrink = 0, resizeZero = 0;
  long maxOutstandingAtWait = 0, tryWaitFalse = 0;
  J json() const;
};

CaseObs runCase(const CaseSpec& s);

// Scripted interleavings around resize (gates at hook sites)
enum ScriptKind {
  SK_PUSH_AFTER_SHRINK = 1, // producer parked after scheduleBulkToRings loaded the ring count; full resize; release
  SK_RINGBULK_AFTER_JOIN, // resizer parked after joining the workers; ring bulk; release (resize drains the rings itself)
  SK_RINGBULK_AFTER_STOP, // resizer parked after stop flags; ring bulk; release
  SK_PLACED_AFTER_STOP, // resizer parked after stop flags; placed submissions claim sleepers -> steal rings; release
  SK_FQ_AFTER_RESIZE0, // producer parked after forceEnqueue's size test; resize(0) completes; release
  SK_SHRINK_BEFORE_RINGCOUNT, // producer parked after the task set's racy ring test, before scheduleBulkToRings re-reads the ring count; full shrink; release
};
struct ScriptSpec {
  int kind = SK_PUSH_AFTER_SHRINK;
  int N = 4, target = 2, count = 4;
  int setKind = 1; // 1 TaskSet, 3 ConcurrentTaskSet lightweight (both take the ring path); SK_PLACED: 0 future on pool, 2 CTS heavy
  int via = 0; // SK_FQ_AFTER_RESIZE0: 0 pool.schedule(f, ForceQueuingTag), 1 TaskSet::schedule, 2 several plain pool.schedule(f)
  int mult = 32;
  bool realWait = false; // wait() under the watchdog instead of the bounded tryWait probe
  bool checkAccounting = false;
  int repeat = 1; // SK_*_AFTER_JOIN/STOP: how many scripted resizes in a row (alternating target / N)
  J json() const;
  std::string targetClass() const {
    return target == 0 ? "zero" : target < N ? "shrink" : target > N ? "grow" : "same";
  }
};
struct ScriptObs {
  bool reached = true; // gates were reached
  std::string why;
  bool stranded = false; // state-based stranded verdict
  long strandedTasks = 0, ringsBeyond = 0, polls = 0;
  long drainedByResize = 0;
  long ranInDtor = 0; // SK_FQ_AFTER_RESIZE0: tasks that only ~ThreadPool ran
  CaseObs c;
};
ScriptObs runScript(const ScriptSpec& s);

// Scripted shutdown: a worker is parked between its failed central-queue dequeue and its clearing of the
// non-empty hint while the last running task force-queues a child after the destructor's first drain;
// the child can then only be run by the destructor's drain after the join.
struct DtorHintObs {
  bool reached = true;
  std::string why;
  bool kidRanInDtor = false;
  CaseObs c;
};
DtorHintObs runDtorHintScript(int N);

// Inline-depth cap (h_pool_depth.cpp): a chain that nests inline past detail::kMaxInlineDepth on a pool thread
// of an overloaded pool and then schedules slow leaves through the "cannot inline any more" branches.
struct DepthSpec {
  int N = 2; // pool threads (N-1 of them gated)
  int setKind = 3; // 1 TaskSet (owned by a pool task), 2 CTS heavy, 3 CTS lightweight (owned by main)
  int via = 0; // 0 schedule(f), 1 scheduleBulk(bulkN, gen)
  int bulkN = 1;
  int chainLen = 36; // levels after the root
  int leaves = 3;
  int leafDwellUs = 5000;
  int stealMult = 4;
  int fillers = 10;
  int finish = 0; // 0 wait(), 1 tryWait(n>=1) loop, 2 destructor
  J json() const;
};
struct DepthObs {
  long maxNest = 0, maxInlineDepth = 0, capHits = 0, tryWait0Polls = 0, tryWait0True = 0;
  CaseObs c;
};
DepthObs runDepthCap(const DepthSpec& s);
