#include "h_pipeline_impl.h"
void runShapes_g4(int shape, dispenso::ThreadPool& pool) {
  switch (shape) {
    case 18: runCodes<'G', 'O', 'V', 'O', 'S'>(pool); break;
    case 19: runCodes<'g', 'v', 'o', 'v', 's'>(pool); break;
    case 20: runCodes<'R', 'P', 'V', 'P', 'S'>(pool); break;
    default: break;
  }
}
