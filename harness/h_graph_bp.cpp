// Engine h_graph: BiPropGraph instantiation of the program interpreter (see h_graph.cpp).
#include "h_graph_impl.h"

template void runProgram<dispenso::BiPropGraph>(vrt::Rng&, const CaseParams&, bool, StepStats&, bool);
