// C32 instantiations for trait combination inl-fast-asneeded (see h_seq_cv_impl.h)
#include "h_seq_cv_impl.h"

HSEQ_CV_INSTANCE(t0_0, vrt::TrackedT<32>, "e32", true, true, kAsNeeded, "inl-fast-asneeded")
HSEQ_CV_INSTANCE(t0_1, vrt::TrackedT<64>, "e64", true, true, kAsNeeded, "inl-fast-asneeded")
HSEQ_CV_INSTANCE(t0_2, vrt::TrackedT<128>, "e128", true, true, kAsNeeded, "inl-fast-asneeded")
HSEQ_CV_INSTANCE(t0_3, vrt::TrackedT<8>, "e16", true, true, kAsNeeded, "inl-fast-asneeded")
HSEQ_CV_INSTANCE(t0_4, vrt::TrackedT<256>, "e256", true, true, kAsNeeded, "inl-fast-asneeded")
