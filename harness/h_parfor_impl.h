#pragma once
#include "h_parfor_common.h"

// ------------------------------------------------------------------ the call under test
template <typename T, typename TS, typename Container>
static void callParFor(TS& ts, Container& states, const Spec& s) {
  dispenso::ParForOptions opt;
  if (s.maxThreads >= 0) opt.maxThreads = static_cast<uint32_t>(s.maxThreads);
  opt.wait = s.wait;
  opt.minItemsPerChunk = s.minItems;
  opt.granularity = s.gran;
  opt.reuseExistingState = s.reuse;
  opt.defaultChunking = s.chunking == 1 ? dispenso::ParForChunking::kAdaptive : dispenso::ParForChunking::kStatic;
  T a = static_cast<T>(s.start), b = static_cast<T>(s.end);
  using CR = dispenso::ChunkedRange<T>;
  CR range = s.chunking == 0 ? CR(a, b, typename CR::Static())
      : s.chunking == 1      ? CR(a, b, typename CR::Auto())
                             : CR(a, b, static_cast<T>(s.chunk));
  switch (s.api) {
    case 0:
      dispenso::parallel_for(
          ts, range,
          [](T cb, T ce) {
            enterBody();
            recordChunk(cb, ce);
            leaveBody();
          },
          opt);
      break;
    case 1:
      dispenso::parallel_for(
          ts, states, []() { return State(); }, range,
          [](State& st, T cb, T ce) {
            int prev = st.p->inUse.fetch_add(1, std::memory_order_relaxed);
            if (prev != 0) g_stateOverlap.fetch_add(1, std::memory_order_relaxed);
            st.p->plain++;
            enterBody();
            recordChunk(cb, ce);
            leaveBody();
            st.p->inUse.fetch_sub(1, std::memory_order_relaxed);
          },
          opt);
      break;
    case 2:
      dispenso::parallel_for(
          ts, a, b,
          [](T i) {
            i128 off = static_cast<i128>(i) - g_elemStart;
            if (off < 0 || off >= static_cast<i128>(g_elem->size())) {
              g_elemOutside.fetch_add(1, std::memory_order_relaxed);
            } else {
              (*g_elem)[static_cast<size_t>(off)].fetch_add(1, std::memory_order_relaxed);
            }
            if (g_logN.fetch_add(1, std::memory_order_relaxed) >= g_logLimit) storm("more element calls than elements");
          },
          opt);
      break;
    default:
      dispenso::parallel_for(
          ts, a, b,
          [](T cb, T ce) {
            enterBody();
            recordChunk(cb, ce);
            leaveBody();
          },
          opt);
      break;
  }
}

template <typename T, typename TS, typename Container>
static void runInContext(dispenso::ThreadPool& pool, const Spec& s, long& inflightAtReturn) {
  auto doit = [&]() {
    Container states;
    if (s.reuse && s.api == 1) {
      states.emplace_back();
      states.emplace_back();
    }
    {
      TS ts(pool);
      callParFor<T>(ts, states, s);
      if (s.wait) inflightAtReturn = g_inflight.load(std::memory_order_relaxed);
      ts.wait();
      if (!s.wait) inflightAtReturn = g_inflight.load(std::memory_order_relaxed);
    }
    // (an empty range returns before any state is created; nothing executes, so nothing is claimed)
    if (s.api == 1 && s.end > s.start && states.empty()) {
      vrt::violation("states container empty after stateful parallel_for", J(), "states-empty", "C14");
    }
  };
  if (s.ctx == 0) {
    doit();
  } else if (s.ctx == 1) {
    // Run the call on a pool worker. Which worker (i.e. which ring index the caller has) matters
    // to static chunking, and an idle pool tends to hand a single task to worker 0, so one task per
    // worker is queued and the one that arrives `chosen`-th makes the call.
    dispenso::TaskSet outer(pool);
    const int nTasks = std::max(1, s.pool);
    const int chosen = static_cast<int>((static_cast<unsigned long long>(s.start < 0 ? -s.start : s.start) + static_cast<unsigned long long>(s.end - s.start)) % static_cast<unsigned>(nTasks));
    std::atomic<int> arrive{0};
    for (int t = 0; t < nTasks; ++t) {
      outer.schedule(
          [&]() {
            if (arrive.fetch_add(1, std::memory_order_relaxed) == chosen) {
              doit();
            } else {
              vrt::spinFor(20);
            }
          },
          dispenso::ForceQueuingTag());
    }
    outer.wait();
  } else {
    dispenso::TaskSet outer(pool);
    dispenso::ParForOptions o;
    o.maxThreads = 2;
    std::atomic<int> once{0};
    dispenso::parallel_for(
        outer, dispenso::ChunkedRange<int>(0, 2, 1),
        [&](int, int) {
          if (once.fetch_add(1) == 0) doit();
        },
        o);
  }
}

template <typename T>
static Obs runSpecT(const Spec& s) {
  Obs o;
  i128 size = s.end - s.start;
  size_t limit;
  if (s.api == 2) {
    limit = static_cast<size_t>(size) + 1;
    g_elem = new std::vector<std::atomic<int>>(static_cast<size_t>(size));
    for (auto& a : *g_elem) a.store(0, std::memory_order_relaxed);
    g_elemStart = s.start;
  } else {
    i128 mx = size;
    if (s.chunking == 2 && s.chunk > 0) mx = (size + s.chunk - 1) / s.chunk;
    limit = static_cast<size_t>(std::min<i128>(mx, 200000)) + 2;
  }
  resetMonitors(limit, s.dwellUs);
  vrt::hooksReset();
  if (s.perturb > 0) {
    vrt::hookProb(V::kStripeAfterClaim, s.perturb);
    vrt::hookProb(V::kPoolBulkRingsBetweenPush, s.perturb);
    vrt::hookProb(V::kTaskSetBulkAfterRingTest, s.perturb);
    vrt::hookProb(V::kTaskSetWrapperAfterBody, s.perturb);
    vrt::hookProb(V::kPoolSchedAfterEnqueue, s.perturb);
  }
  {
    dispenso::ThreadPool pool(static_cast<size_t>(s.pool));
    // deque/list state containers are instantiated for TaskSet only (compile time); the
    // ConcurrentTaskSet path uses std::vector
    if (s.tsKind == 0) {
      if (s.container == 0) runInContext<T, dispenso::TaskSet, std::vector<State>>(pool, s, o.inflightAtReturn);
      else if (s.container == 1) runInContext<T, dispenso::TaskSet, std::deque<State>>(pool, s, o.inflightAtReturn);
      else runInContext<T, dispenso::TaskSet, std::list<State>>(pool, s, o.inflightAtReturn);
    } else {
      runInContext<T, dispenso::ConcurrentTaskSet, std::vector<State>>(pool, s, o.inflightAtReturn);
    }
  }
  vrt::hooksReset();
  o.maxInflight = g_maxInflight.load();
  o.overlaps = g_stateOverlap.load();
  if (s.api == 2) {
    o.chunks = g_logN.load();
    long bad = g_elemOutside.load();
    for (auto& a : *g_elem) {
      if (a.load(std::memory_order_relaxed) != 1) ++bad;
    }
    o.elemBad = bad;
    if (bad) {
      o.partitionOk = false;
      o.partitionMsg = "element-wise: " + std::to_string(bad) + " indices with count != 1 or outside the range";
    }
    delete g_elem;
    g_elem = nullptr;
    return o;
  }
  size_t n = std::min(g_logN.load(), kLogCap);
  o.chunks = n;
  std::vector<ChunkRec> recs(g_log, g_log + n);
  std::sort(recs.begin(), recs.end(), [](const ChunkRec& x, const ChunkRec& y) { return x.b < y.b || (x.b == y.b && x.e < y.e); });
  if (size == 0) {
    if (n != 0) {
      o.partitionOk = false;
      o.partitionMsg = "body invoked on an empty range";
    }
    return o;
  }
  i128 cur = s.start;
  for (size_t i = 0; i < n && o.partitionOk; ++i) {
    if (recs[i].b >= recs[i].e) {
      o.partitionOk = false;
      o.partitionMsg = "empty or inverted chunk [" + s128(recs[i].b) + "," + s128(recs[i].e) + ")";
    } else if (recs[i].b != cur) {
      o.partitionOk = false;
      o.partitionMsg = std::string(recs[i].b < cur ? "overlap" : "gap") + " at " + s128(cur) + ": next chunk [" + s128(recs[i].b) + "," + s128(recs[i].e) + ")";
    }
    cur = recs[i].e;
  }
  if (o.partitionOk && cur != s.end) {
    o.partitionOk = false;
    o.partitionMsg = "chunks end at " + s128(cur) + " instead of " + s128(s.end) + " (" + std::to_string(n) + " chunks)";
  }
  if (s.gran > 1 && s.chunking != 2) {
    for (auto& r : recs) {
      if ((r.e - r.b) % s.gran != 0) {
        ++o.nonMultiple;
        if (r.e != s.end) o.nonMultipleEndsAtEnd = false;
      }
    }
  }
  return o;
}

