// C25 — ResourcePool bounds and exclusivity.
//
// Monitor: every pooled object carries a holder counter (acquire must see 0) and the case keeps a
// global "held" counter (<= size); both are released by the harness BEFORE the handle is destroyed
// or move-assigned over, because the recycle happens inside those calls. Object lifetimes are
// counted per resource id (exactly one live object per id while the pool lives, exactly one
// destruction per id by the pool's destructor). "acquire blocks only while all are held" is
// decided as termination of bounded programs in which holders always release (blocking goes
// through a semaphore the futex interposer cannot see, so an idle flat period is a hang).
#include <dispenso/resource_pool.h>

#include "h_sync_common.h"

namespace {

constexpr int kMaxRes = 8;
std::atomic<int> g_liveById[kMaxRes], g_destroyedById[kMaxRes];
std::atomic<long> g_objects{0};
std::atomic<long> g_badMagic{0};

struct Res {
  static constexpr uint32_t kAlive = 0xC0FFEE25u;
  int id;
  uint32_t magic;
  std::atomic<int> holders{0};
  std::unique_ptr<long> heap; // a skipped destructor is an LSan leak
  explicit Res(int i) : id(i), magic(kAlive), heap(new long(i)) {
    g_objects.fetch_add(1, std::memory_order_relaxed);
    if (i >= 0 && i < kMaxRes) g_liveById[i].fetch_add(1, std::memory_order_relaxed);
  }
  Res(Res&& o) noexcept : id(o.id), magic(kAlive), heap(std::move(o.heap)) {
    g_objects.fetch_add(1, std::memory_order_relaxed);
    o.id = -1;
  }
  ~Res() {
    if (magic != kAlive) g_badMagic.fetch_add(1, std::memory_order_relaxed);
    magic = 0xDEAD;
    g_objects.fetch_sub(1, std::memory_order_relaxed);
    if (id >= 0 && id < kMaxRes) {
      g_liveById[id].fetch_sub(1, std::memory_order_relaxed);
      g_destroyedById[id].fetch_add(1, std::memory_order_relaxed);
    }
  }
};
using Handle = dispenso::Resource<Res>;

struct Spec {
  int size = 1, threads = 1;
  long ops = 100;
  int dwellMax = 10;
  double hookP = 0;
  J json() const {
    return J().kv("size", size).kv("threads", threads).kv("opsPerThread", ops).kv("dwellMaxUs", dwellMax).kv("hookP", hookP);
  }
};

struct Counts {
  long acquires = 0, moves = 0, assignLiveLive = 0, assignLiveEmpty = 0, assignEmptyLive = 0, selfAssign = 0;
  char pad[64];
};
struct Obs {
  Counts c;
  long bad = 0;
  long maxHeld = 0;
};

// Resources are tagged with the pool that created them: ids 0..3 belong to pool A (index 0),
// ids 4..7 to pool B (index 1). All monitors are keyed per (pool, resource).
constexpr int kPoolStride = 4;
std::atomic<long> g_heldP[2], g_maxHeldP[2];
std::atomic<int> g_sizeP[2];
std::atomic<long> g_bad{0}, g_opsDone{0};
std::atomic<int> g_inAcquire{0};
std::string dumpState() {
  return J().kv("heldA", g_heldP[0].load()).kv("sizeA", g_sizeP[0].load()).kv("heldB", g_heldP[1].load()).kv("sizeB", g_sizeP[1].load())
      .kv("threadsInsideAcquire", g_inAcquire.load()).kv("opsDone", g_opsDone.load()).str();
}

void report(const std::string& msg, const J& d, const char* sub) {
  if (g_bad.fetch_add(1, std::memory_order_relaxed) < 4) vrt::violation(msg, d, sub);
}

// monitor bookkeeping around the real calls; `from` = index of the pool acquire() was called on
void onAcquired(Handle& h, int from) {
  Res& res = h.get();
  const int owner = res.id >= 0 ? res.id / kPoolStride : -1;
  if (res.magic != Res::kAlive || res.id < 0 || res.id >= kMaxRes || res.id % kPoolStride >= g_sizeP[owner].load(std::memory_order_relaxed)) {
    report("acquire() returned something that is not a live pooled resource", J().kv("id", res.id), "bad-resource");
    return;
  }
  if (owner != from) {
    report("acquire() handed out a resource that was created by the other pool (a handle returned it to the wrong pool)",
           J().kv("acquiredFromPool", from).kv("createdByPool", owner).kv("id", res.id), "wrong-pool");
  }
  int prev = res.holders.fetch_add(1, std::memory_order_relaxed);
  if (prev != 0) report("one resource is held by two Resource handles at once", J().kv("id", res.id).kv("holders", prev + 1), "exclusivity");
  long now = g_heldP[owner].fetch_add(1, std::memory_order_relaxed) + 1;
  long size = g_sizeP[owner].load(std::memory_order_relaxed);
  if (now > size) report("more resources held than the pool's size", J().kv("pool", owner).kv("held", now).kv("size", size), "bound");
  long mx = g_maxHeldP[owner].load(std::memory_order_relaxed);
  while (now > mx && !g_maxHeldP[owner].compare_exchange_weak(mx, now, std::memory_order_relaxed)) {
  }
}
void beforeRelease(Handle& h) {
  Res& res = h.get();
  res.holders.fetch_sub(1, std::memory_order_relaxed);
  if (res.id >= 0 && res.id < kMaxRes) g_heldP[res.id / kPoolStride].fetch_sub(1, std::memory_order_relaxed);
}
Handle acquireMonitored(dispenso::ResourcePool<Res>& pool, int from = 0) {
  g_inAcquire.fetch_add(1, std::memory_order_relaxed);
  Handle h = pool.acquire();
  g_inAcquire.fetch_sub(1, std::memory_order_relaxed);
  onAcquired(h, from);
  return h;
}

void resetMonitors(int sizeA, int sizeB) {
  for (int i = 0; i < kMaxRes; ++i) {
    g_liveById[i] = 0;
    g_destroyedById[i] = 0;
  }
  g_objects = 0;
  g_badMagic = 0;
  for (int p = 0; p < 2; ++p) {
    g_heldP[p] = 0;
    g_maxHeldP[p] = 0;
  }
  g_sizeP[0] = sizeA;
  g_sizeP[1] = sizeB;
  g_bad = 0;
  g_opsDone = 0;
  g_inAcquire = 0;
}

Obs runCase(const Spec& s, long idx) {
  Obs o;
  resetMonitors(s.size, 0);
  if (s.hookP > 0) vrt::hookProb(V::kResPoolAfterAcquire, s.hookP);
  std::vector<Counts> counts(static_cast<size_t>(s.threads));
  {
    int nextId = 0;
    dispenso::ResourcePool<Res> pool(static_cast<size_t>(s.size), [&nextId]() { return Res(nextId++); });
    for (int i = 0; i < s.size; ++i) {
      if (g_liveById[i].load() != 1) report("pool construction did not leave exactly one live object per resource", J().kv("id", i).kv("live", g_liveById[i].load()), "lifetime");
    }
    std::atomic<int> doubleToken{0};
    hs::SpinStart start(s.threads);
    auto body = [&](int t) {
      Counts& c = counts[static_cast<size_t>(t)];
      vrt::Rng r = vrt::caseRng(idx, 500 + static_cast<uint64_t>(t));
      start.arriveAndWait();
      for (long k = 0; k < s.ops; ++k) {
        int kind = static_cast<int>(r.below(10));
        if (kind < 4) {
          Handle h = acquireMonitored(pool);
          ++c.acquires;
          hs::dwell(r, s.dwellMax);
          beforeRelease(h);
        } else if (kind < 6) {
          // move construction: the moved-from handle must not recycle
          Handle a = acquireMonitored(pool);
          ++c.acquires;
          {
            Handle b(std::move(a));
            ++c.moves;
            hs::dwell(r, s.dwellMax);
            if (r.chance(0.5)) {
              Handle c2(std::move(b));
              ++c.moves;
              beforeRelease(c2);
            } else {
              beforeRelease(b);
            }
          }
          hs::dwell(r, s.dwellMax / 2);
        } else if (kind < 7) {
          // live = std::move(empty): target's resource goes back, target ends up empty
          Handle a = acquireMonitored(pool);
          ++c.acquires;
          Handle b(std::move(a)); // a empty, b live
          ++c.moves;
          hs::dwell(r, s.dwellMax);
          beforeRelease(b); // the recycle happens inside the assignment
          b = std::move(a);
          ++c.assignLiveEmpty;
        } else if (kind < 8) {
          Handle a = acquireMonitored(pool);
          ++c.acquires;
          Handle& ar = a;
          a = std::move(ar); // self move-assignment keeps the resource
          ++c.selfAssign;
          hs::dwell(r, s.dwellMax);
          beforeRelease(a);
        } else {
          // live = std::move(live): needs two resources at once; only one thread at a time may
          // hold two, and only if the pool has at least two, otherwise the program itself could deadlock
          if (s.size >= 2 && !doubleToken.exchange(1, std::memory_order_relaxed)) {
            Handle a = acquireMonitored(pool);
            Handle b = acquireMonitored(pool);
            c.acquires += 2;
            hs::dwell(r, s.dwellMax);
            beforeRelease(a); // the recycle of a's resource happens inside the assignment
            a = std::move(b);
            ++c.assignLiveLive;
            hs::dwell(r, s.dwellMax);
            beforeRelease(a);
            // b is empty now; a releases b's former resource at scope end
            doubleToken.store(0, std::memory_order_relaxed);
          } else {
            // empty = std::move(live)
            Handle a = acquireMonitored(pool);
            ++c.acquires;
            Handle e(std::move(a)); // a is empty, e is live
            ++c.moves;
            a = std::move(e); // a live again, e empty
            ++c.assignEmptyLive;
            hs::dwell(r, s.dwellMax);
            beforeRelease(a);
          }
        }
        g_opsDone.fetch_add(1, std::memory_order_relaxed);
        vrt::progress();
      }
    };
    std::vector<std::thread> th;
    for (int t = 0; t < s.threads; ++t) th.emplace_back(body, t);
    for (auto& t : th) t.join();
    vrt::hooksReset();
    if (g_heldP[0].load() != 0) report("harness bookkeeping: held != 0 after join", J().kv("held", g_heldP[0].load()), "harness");
    for (int i = 0; i < s.size; ++i) {
      if (g_destroyedById[i].load() != 0 || g_liveById[i].load() != 1) {
        report("a pooled resource was destroyed or duplicated while the pool is alive", J().kv("id", i).kv("live", g_liveById[i].load()).kv("destroyed", g_destroyedById[i].load()), "lifetime");
      }
    }
    // every resource must be obtainable again (none lost by a handle operation): size acquires
    // from one thread must succeed without blocking, the (size+1)th is not attempted
    {
      std::vector<std::unique_ptr<Handle>> all;
      for (int i = 0; i < s.size; ++i) {
        all.emplace_back(new Handle(acquireMonitored(pool)));
        vrt::progress();
      }
      for (auto& h : all) beforeRelease(*h);
    }
    vrt::progress();
  } // pool destroyed here (watchdog still armed: a lost resource blocks the destructor)
  for (int i = 0; i < s.size; ++i) {
    if (g_destroyedById[i].load() != 1 || g_liveById[i].load() != 0) {
      report("resource not destroyed exactly once by the pool's destruction", J().kv("id", i).kv("live", g_liveById[i].load()).kv("destroyed", g_destroyedById[i].load()), "lifetime");
    }
  }
  if (g_objects.load() != 0) report("pooled objects still alive after the pool was destroyed", J().kv("objects", g_objects.load()), "lifetime");
  if (g_badMagic.load() != 0) report("destructor ran on a dead object", J().kv("n", g_badMagic.load()), "lifetime");
  for (auto& c : counts) {
    o.c.acquires += c.acquires;
    o.c.moves += c.moves;
    o.c.assignLiveLive += c.assignLiveLive;
    o.c.assignLiveEmpty += c.assignLiveEmpty;
    o.c.assignEmptyLive += c.assignEmptyLive;
    o.c.selfAssign += c.selfAssign;
  }
  o.bad = g_bad.load();
  o.maxHeld = g_maxHeldP[0].load();
  return o;
}

// ------------------------------------------------------------------ two pools of the same T
struct Spec2 {
  int sizeA = 1, sizeB = 1, threads = 1;
  long ops = 100;
  int dwellMax = 10;
  double hookP = 0;
  J json() const {
    return J().kv("scenario", "two-pools").kv("sizeA", sizeA).kv("sizeB", sizeB).kv("threads", threads).kv("opsPerThread", ops).kv("dwellMaxUs", dwellMax).kv("hookP", hookP);
  }
};
struct Counts2 {
  long acquires = 0, moves = 0, withinLiveLive = 0, crossLiveLive = 0, crossLiveEmpty = 0, crossEmptyLive = 0, withinLiveEmpty = 0, withinEmptyLive = 0;
  char pad[64];
};
struct Obs2 {
  Counts2 c;
  long bad = 0;
  long maxHeldA = 0, maxHeldB = 0;
};

void checkAlive(int pool, int size, const char* when) {
  for (int i = 0; i < size; ++i) {
    int id = pool * kPoolStride + i;
    if (g_destroyedById[id].load() != 0 || g_liveById[id].load() != 1) {
      report(std::string("a pooled resource was destroyed or duplicated ") + when, J().kv("pool", pool).kv("id", id).kv("live", g_liveById[id].load()).kv("destroyed", g_destroyedById[id].load()), "lifetime");
    }
  }
}
void checkDestroyedOnce(int pool, int size) {
  for (int i = 0; i < size; ++i) {
    int id = pool * kPoolStride + i;
    if (g_destroyedById[id].load() != 1 || g_liveById[id].load() != 0) {
      report("resource not destroyed exactly once by its pool's destruction", J().kv("pool", pool).kv("id", id).kv("live", g_liveById[id].load()).kv("destroyed", g_destroyedById[id].load()), "lifetime");
    }
  }
}

Obs2 runTwoPools(const Spec2& s, long idx) {
  Obs2 o;
  resetMonitors(s.sizeA, s.sizeB);
  if (s.hookP > 0) vrt::hookProb(V::kResPoolAfterAcquire, s.hookP);
  std::vector<Counts2> counts(static_cast<size_t>(s.threads));
  const int sizes[2] = {s.sizeA, s.sizeB};
  {
    int nextA = 0, nextB = kPoolStride;
    dispenso::ResourcePool<Res> poolA(static_cast<size_t>(s.sizeA), [&nextA]() { return Res(nextA++); });
    {
      dispenso::ResourcePool<Res> poolB(static_cast<size_t>(s.sizeB), [&nextB]() { return Res(nextB++); });
      dispenso::ResourcePool<Res>* pools[2] = {&poolA, &poolB};
      checkAlive(0, s.sizeA, "during pool construction");
      checkAlive(1, s.sizeB, "during pool construction");
      // Only one thread at a time holds two resources (of whichever pools), and two of the same pool
      // only if that pool has at least two: the others never wait while holding, so the program
      // itself cannot deadlock.
      std::atomic<int> doubleToken{0};
      hs::SpinStart start(s.threads);
      auto body = [&](int t) {
        Counts2& c = counts[static_cast<size_t>(t)];
        vrt::Rng r = vrt::caseRng(idx, 700 + static_cast<uint64_t>(t));
        start.arriveAndWait();
        for (long k = 0; k < s.ops; ++k) {
          int kind = static_cast<int>(r.below(10));
          int pa = static_cast<int>(r.below(2));
          int pb = r.chance(0.7) ? 1 - pa : pa;
          if (kind < 3) {
            Handle h = acquireMonitored(*pools[pa], pa);
            ++c.acquires;
            hs::dwell(r, s.dwellMax);
            beforeRelease(h);
          } else if (kind < 4) {
            Handle a = acquireMonitored(*pools[pa], pa);
            ++c.acquires;
            Handle b(std::move(a));
            ++c.moves;
            hs::dwell(r, s.dwellMax);
            beforeRelease(b);
          } else if (kind < 5) {
            // within one pool, no second resource needed: live = empty, then nothing is held
            Handle a = acquireMonitored(*pools[pa], pa);
            ++c.acquires;
            Handle b(std::move(a));
            ++c.moves;
            beforeRelease(b);
            b = std::move(a);
            ++c.withinLiveEmpty;
          } else if (kind < 6) {
            Handle a = acquireMonitored(*pools[pa], pa);
            ++c.acquires;
            Handle e(std::move(a));
            ++c.moves;
            a = std::move(e);
            ++c.withinEmptyLive;
            hs::dwell(r, s.dwellMax);
            beforeRelease(a);
          } else if ((pa != pb || sizes[pa] >= 2) && !doubleToken.exchange(1, std::memory_order_relaxed)) {
            const bool cross = pa != pb;
            int form = static_cast<int>(r.below(3));
            Handle a = acquireMonitored(*pools[pa], pa);
            Handle b = acquireMonitored(*pools[pb], pb);
            c.acquires += 2;
            hs::dwell(r, s.dwellMax);
            if (form == 0) {
              // live(pa) = live(pb): a's resource must go back to pool pa, a then owns pb's resource
              beforeRelease(a);
              a = std::move(b);
              ++(cross ? c.crossLiveLive : c.withinLiveLive);
              hs::dwell(r, s.dwellMax);
              beforeRelease(a); // returns to pool pb when a dies
            } else if (form == 1) {
              // live(pa) = empty handle that came from pool pb
              Handle b2(std::move(b)); // b: empty, belongs to pb
              ++c.moves;
              beforeRelease(b2);
              { Handle sink(std::move(b2)); } // pb's resource goes home
              beforeRelease(a);
              a = std::move(b); // a's resource must go back to pa; a is empty afterwards
              if (cross) ++c.crossLiveEmpty;
              else ++c.withinLiveEmpty;
            } else {
              // empty handle that came from pool pa = live(pb)
              Handle a2(std::move(a)); // a: empty, belongs to pa
              ++c.moves;
              beforeRelease(a2);
              { Handle sink(std::move(a2)); } // pa's resource goes home
              a = std::move(b); // a now owns pb's resource and must return it to pb
              if (cross) ++c.crossEmptyLive;
              else ++c.withinEmptyLive;
              hs::dwell(r, s.dwellMax);
              beforeRelease(a);
            }
            doubleToken.store(0, std::memory_order_relaxed);
          } else {
            Handle h = acquireMonitored(*pools[pb], pb);
            ++c.acquires;
            beforeRelease(h);
          }
          g_opsDone.fetch_add(1, std::memory_order_relaxed);
          vrt::progress();
        }
      };
      std::vector<std::thread> th;
      for (int t = 0; t < s.threads; ++t) th.emplace_back(body, t);
      for (auto& t : th) t.join();
      vrt::hooksReset();
      for (int p = 0; p < 2; ++p) {
        if (g_heldP[p].load() != 0) report("harness bookkeeping: held != 0 after join", J().kv("pool", p).kv("held", g_heldP[p].load()), "harness");
        checkAlive(p, sizes[p], "while the pools are alive");
      }
      // every pool must hand out exactly its own `size` resources again: a resource that went to
      // the other pool shows up there with the wrong tag, and its own pool blocks here (hang verdict)
      for (int p = 0; p < 2; ++p) {
        std::vector<std::unique_ptr<Handle>> all;
        for (int i = 0; i < sizes[p]; ++i) {
          all.emplace_back(new Handle(acquireMonitored(*pools[p], p)));
          vrt::progress();
        }
        for (auto& h : all) beforeRelease(*h);
      }
      vrt::progress();
    } // pool B destroyed
    checkDestroyedOnce(1, s.sizeB);
    checkAlive(0, s.sizeA, "by the other pool's destruction");
    vrt::progress();
  } // pool A destroyed
  checkDestroyedOnce(0, s.sizeA);
  if (g_objects.load() != 0) report("pooled objects still alive after both pools were destroyed", J().kv("objects", g_objects.load()), "lifetime");
  if (g_badMagic.load() != 0) report("destructor ran on a dead object", J().kv("n", g_badMagic.load()), "lifetime");
  for (auto& c : counts) {
    o.c.acquires += c.acquires;
    o.c.moves += c.moves;
    o.c.withinLiveLive += c.withinLiveLive;
    o.c.crossLiveLive += c.crossLiveLive;
    o.c.crossLiveEmpty += c.crossLiveEmpty;
    o.c.crossEmptyLive += c.crossEmptyLive;
    o.c.withinLiveEmpty += c.withinLiveEmpty;
    o.c.withinEmptyLive += c.withinEmptyLive;
  }
  o.bad = g_bad.load();
  o.maxHeldA = g_maxHeldP[0].load();
  o.maxHeldB = g_maxHeldP[1].load();
  return o;
}

} // namespace

void runC25() {
  const long n = vrt::g_args.getInt("n", vrt::thorough() ? 7500 : 384);
  vrt::setStateDumper(dumpState);
  vrt::watchdogIdleFlatIsHang(true);
  for (long idx = 0; idx < n; ++idx) {
    if (!vrt::selected(idx)) continue;
    vrt::Rng r = vrt::caseRng(idx);
    if ((idx + idx / 16) % 3 == 2) {
      // two live pools of the same T, handles moved within and across them
      Spec2 s2;
      s2.sizeA = static_cast<int>(r.range(1, 4));
      s2.sizeB = static_cast<int>(r.range(1, 4));
      s2.threads = static_cast<int>(r.range(1, 4));
      s2.ops = r.range(30, vrt::g_args.getInt("ops", vrt::thorough() ? 400 : 150));
      s2.dwellMax = r.pick(std::vector<int>{0, 5, 20});
      if (r.chance(0.5)) s2.hookP = r.pick(std::vector<double>{0.1, 0.5});
      vrt::caseBegin(idx, "two-pools/A" + std::to_string(s2.sizeA) + "B" + std::to_string(s2.sizeB), s2.json());
      vrt::watchdogArm();
      Obs2 o2 = runTwoPools(s2, idx);
      vrt::watchdogDisarm();
      std::vector<std::string> cls2{"two-pools"};
      if (o2.c.crossLiveLive + o2.c.crossLiveEmpty + o2.c.crossEmptyLive) cls2.push_back("cross-pool-move-assign");
      if (o2.c.crossLiveLive) cls2.push_back("cross:live=live");
      if (o2.c.crossLiveEmpty) cls2.push_back("cross:live=empty");
      if (o2.c.crossEmptyLive) cls2.push_back("cross:empty=live");
      if (o2.c.withinLiveLive) cls2.push_back("two-pools:within-live=live");
      if (o2.maxHeldA == s2.sizeA && o2.maxHeldB == s2.sizeB) cls2.push_back("two-pools:both-all-held");
      vrt::caseEnd(J().kv("acquires", o2.c.acquires).kv("crossLiveLive", o2.c.crossLiveLive).kv("crossLiveEmpty", o2.c.crossLiveEmpty).kv("crossEmptyLive", o2.c.crossEmptyLive)
                       .kv("withinLiveLive", o2.c.withinLiveLive).kv("maxHeldA", o2.maxHeldA).kv("maxHeldB", o2.maxHeldB).kv("bad", o2.bad),
                   o2.c.acquires >= 4 ? s2.json().str() : "", cls2);
      continue;
    }
    Spec s;
    s.size = static_cast<int>(1 + (idx + idx / 16) % 4); // decorrelated from the 16-way sharding
    s.threads = static_cast<int>(r.range(1, 8));
    s.ops = r.range(30, vrt::g_args.getInt("ops", vrt::thorough() ? 400 : 150));
    s.dwellMax = r.pick(std::vector<int>{0, 5, 20, 60});
    if (r.chance(0.5)) s.hookP = r.pick(std::vector<double>{0.1, 0.5});
    std::string key = "pool/size" + std::to_string(s.size) + "/" + (s.threads <= s.size ? "threads<=size" : "threads>size");
    vrt::caseBegin(idx, key, s.json());
    vrt::watchdogArm();
    Obs o = runCase(s, idx);
    vrt::watchdogDisarm();
    std::vector<std::string> cls;
    cls.push_back("size=" + std::to_string(s.size));
    cls.push_back(s.threads <= s.size ? "threads<=size" : "threads>size");
    if (o.maxHeld == s.size) cls.push_back("all-held-reached");
    if (o.c.moves) cls.push_back("move-construct");
    if (o.c.assignLiveLive) cls.push_back("assign-live=live");
    if (o.c.assignLiveEmpty) cls.push_back("assign-live=empty");
    if (o.c.assignEmptyLive) cls.push_back("assign-empty=live");
    if (o.c.selfAssign) cls.push_back("self-assign");
    bool nt = o.c.acquires >= 4;
    vrt::caseEnd(J().kv("acquires", o.c.acquires).kv("moves", o.c.moves).kv("assignLiveLive", o.c.assignLiveLive).kv("assignLiveEmpty", o.c.assignLiveEmpty)
                     .kv("assignEmptyLive", o.c.assignEmptyLive).kv("maxHeld", o.maxHeld).kv("bad", o.bad),
                 nt ? s.json().str() : "", cls);
  }
}
