// C25 — ResourcePool bounds and exclusivity.
//
// Monitor: every pooled object carries a holder counter (acquire must see 0) and the case keeps a
// global "held" counter (<= size); both are released by the harness BEFORE the handle is destroyed
// or move-assigned over, because the recycle happens inside those calls. Object lifetimes are
// counted per resource id (exactly one live object per id while the pool lives, exactly one
// destruction per id by the pool's destructor). "acquire blocks only while all are held" is
// decided as termination of bounded programs in which holders always release (blocking goes
// through a semaphore the futex interposer cannot see, so an idle flat period is a hang).
#include <dispenso/resource_pool.h>

#include "h_sync_common.h"

namespace {

constexpr int kMaxRes = 8;
std::atomic<int> g_liveById[kMaxRes], g_destroyedById[kMaxRes];
std::atomic<long> g_objects{0};
std::atomic<long> g_badMagic{0};

struct Res {
  static constexpr uint32_t kAlive = 0xC0FFEE25u;
  int id;
  uint32_t magic;
  std::atomic<int> holders{0};
  std::unique_ptr<long> heap; // a skipped destructor is an LSan leak
  explicit Res(int i) : id(i), magic(kAlive), heap(new long(i)) {
    g_objects.fetch_add(1, std::memory_order_relaxed);
    if (i >= 0 && i < kMaxRes) g_liveById[i].fetch_add(1, std::memory_order_relaxed);
  }
  Res(Res&& o) noexcept : id(o.id), magic(kAlive), heap(std::move(o.heap)) {
    g_objects.fetch_add(1, std::memory_order_relaxed);
    o.id = -1;
  }
  ~Res() {
    if (magic != kAlive) g_badMagic.fetch_add(1, std::memory_order_relaxed);
    magic = 0xDEAD;
    g_objects.fetch_sub(1, std::memory_order_relaxed);
    if (id >= 0 && id < kMaxRes) {
      g_liveById[id].fetch_sub(1, std::memory_order_relaxed);
      g_destroyedById[id].fetch_add(1, std::memory_order_relaxed);
    }
  }
};
using Handle = dispenso::Resource<Res>;

struct Spec {
  int size = 1, threads = 1;
  long ops = 100;
  int dwellMax = 10;
  double hookP = 0;
  J json() const {
    return J().kv("size", size).kv("threads", threads).kv("opsPerThread", ops).kv("dwellMaxUs", dwellMax).kv("hookP", hookP);
  }
};

struct Counts {
  long acquires = 0, moves = 0, assignLiveLive = 0, assignLiveEmpty = 0, assignEmptyLive = 0, selfAssign = 0;
  char pad[64];
};
struct Obs {
  Counts c;
  long bad = 0;
  long maxHeld = 0;
};

std::atomic<long> g_held{0}, g_maxHeld{0}, g_bad{0}, g_opsDone{0};
std::atomic<int> g_inAcquire{0};
std::atomic<int> g_size{0};
std::string dumpState() {
  return J().kv("held", g_held.load()).kv("size", g_size.load()).kv("threadsInsideAcquire", g_inAcquire.load()).kv("opsDone", g_opsDone.load()).str();
}

void report(const std::string& msg, const J& d, const char* sub) {
  if (g_bad.fetch_add(1, std::memory_order_relaxed) < 4) vrt::violation(msg, d, sub);
}

// monitor bookkeeping around the real calls
void onAcquired(Handle& h) {
  Res& res = h.get();
  if (res.magic != Res::kAlive || res.id < 0 || res.id >= g_size.load(std::memory_order_relaxed)) {
    report("acquire() returned something that is not a live pooled resource", J().kv("id", res.id), "bad-resource");
    return;
  }
  int prev = res.holders.fetch_add(1, std::memory_order_relaxed);
  if (prev != 0) report("one resource is held by two Resource handles at once", J().kv("id", res.id).kv("holders", prev + 1), "exclusivity");
  long now = g_held.fetch_add(1, std::memory_order_relaxed) + 1;
  if (now > g_size) report("more resources held than the pool's size", J().kv("held", now).kv("size", g_size.load()), "bound");
  long mx = g_maxHeld.load(std::memory_order_relaxed);
  while (now > mx && !g_maxHeld.compare_exchange_weak(mx, now, std::memory_order_relaxed)) {
  }
}
void beforeRelease(Handle& h) {
  Res& res = h.get();
  res.holders.fetch_sub(1, std::memory_order_relaxed);
  g_held.fetch_sub(1, std::memory_order_relaxed);
}
Handle acquireMonitored(dispenso::ResourcePool<Res>& pool) {
  g_inAcquire.fetch_add(1, std::memory_order_relaxed);
  Handle h = pool.acquire();
  g_inAcquire.fetch_sub(1, std::memory_order_relaxed);
  onAcquired(h);
  return h;
}

Obs runCase(const Spec& s, long idx) {
  Obs o;
  for (int i = 0; i < kMaxRes; ++i) {
    g_liveById[i] = 0;
    g_destroyedById[i] = 0;
  }
  g_objects = 0;
  g_badMagic = 0;
  g_held = 0;
  g_maxHeld = 0;
  g_bad = 0;
  g_opsDone = 0;
  g_inAcquire = 0;
  g_size = s.size;
  if (s.hookP > 0) vrt::hookProb(V::kResPoolAfterAcquire, s.hookP);
  std::vector<Counts> counts(static_cast<size_t>(s.threads));
  {
    int nextId = 0;
    dispenso::ResourcePool<Res> pool(static_cast<size_t>(s.size), [&nextId]() { return Res(nextId++); });
    for (int i = 0; i < s.size; ++i) {
      if (g_liveById[i].load() != 1) report("pool construction did not leave exactly one live object per resource", J().kv("id", i).kv("live", g_liveById[i].load()), "lifetime");
    }
    std::atomic<int> doubleToken{0};
    hs::SpinStart start(s.threads);
    auto body = [&](int t) {
      Counts& c = counts[static_cast<size_t>(t)];
      vrt::Rng r = vrt::caseRng(idx, 500 + static_cast<uint64_t>(t));
      start.arriveAndWait();
      for (long k = 0; k < s.ops; ++k) {
        int kind = static_cast<int>(r.below(10));
        if (kind < 4) {
          Handle h = acquireMonitored(pool);
          ++c.acquires;
          hs::dwell(r, s.dwellMax);
          beforeRelease(h);
        } else if (kind < 6) {
          // move construction: the moved-from handle must not recycle
          Handle a = acquireMonitored(pool);
          ++c.acquires;
          {
            Handle b(std::move(a));
            ++c.moves;
            hs::dwell(r, s.dwellMax);
            if (r.chance(0.5)) {
              Handle c2(std::move(b));
              ++c.moves;
              beforeRelease(c2);
            } else {
              beforeRelease(b);
            }
          }
          hs::dwell(r, s.dwellMax / 2);
        } else if (kind < 7) {
          // live = std::move(empty): target's resource goes back, target ends up empty
          Handle a = acquireMonitored(pool);
          ++c.acquires;
          Handle b(std::move(a)); // a empty, b live
          ++c.moves;
          hs::dwell(r, s.dwellMax);
          beforeRelease(b); // the recycle happens inside the assignment
          b = std::move(a);
          ++c.assignLiveEmpty;
        } else if (kind < 8) {
          Handle a = acquireMonitored(pool);
          ++c.acquires;
          Handle& ar = a;
          a = std::move(ar); // self move-assignment keeps the resource
          ++c.selfAssign;
          hs::dwell(r, s.dwellMax);
          beforeRelease(a);
        } else {
          // live = std::move(live): needs two resources at once; only one thread at a time may
          // hold two, and only if the pool has at least two, otherwise the program itself could deadlock
          if (s.size >= 2 && !doubleToken.exchange(1, std::memory_order_relaxed)) {
            Handle a = acquireMonitored(pool);
            Handle b = acquireMonitored(pool);
            c.acquires += 2;
            hs::dwell(r, s.dwellMax);
            beforeRelease(a); // the recycle of a's resource happens inside the assignment
            a = std::move(b);
            ++c.assignLiveLive;
            hs::dwell(r, s.dwellMax);
            beforeRelease(a);
            // b is empty now; a releases b's former resource at scope end
            doubleToken.store(0, std::memory_order_relaxed);
          } else {
            // empty = std::move(live)
            Handle a = acquireMonitored(pool);
            ++c.acquires;
            Handle e(std::move(a)); // a is empty, e is live
            ++c.moves;
            a = std::move(e); // a live again, e empty
            ++c.assignEmptyLive;
            hs::dwell(r, s.dwellMax);
            beforeRelease(a);
          }
        }
        g_opsDone.fetch_add(1, std::memory_order_relaxed);
        vrt::progress();
      }
    };
    std::vector<std::thread> th;
    for (int t = 0; t < s.threads; ++t) th.emplace_back(body, t);
    for (auto& t : th) t.join();
    vrt::hooksReset();
    if (g_held.load() != 0) report("harness bookkeeping: held != 0 after join", J().kv("held", g_held.load()), "harness");
    for (int i = 0; i < s.size; ++i) {
      if (g_destroyedById[i].load() != 0 || g_liveById[i].load() != 1) {
        report("a pooled resource was destroyed or duplicated while the pool is alive", J().kv("id", i).kv("live", g_liveById[i].load()).kv("destroyed", g_destroyedById[i].load()), "lifetime");
      }
    }
    // every resource must be obtainable again (none lost by a handle operation): size acquires
    // from one thread must succeed without blocking, the (size+1)th is not attempted
    {
      std::vector<std::unique_ptr<Handle>> all;
      for (int i = 0; i < s.size; ++i) {
        all.emplace_back(new Handle(acquireMonitored(pool)));
        vrt::progress();
      }
      for (auto& h : all) beforeRelease(*h);
    }
    vrt::progress();
  } // pool destroyed here (watchdog still armed: a lost resource blocks the destructor)
  for (int i = 0; i < s.size; ++i) {
    if (g_destroyedById[i].load() != 1 || g_liveById[i].load() != 0) {
      report("resource not destroyed exactly once by the pool's destruction", J().kv("id", i).kv("live", g_liveById[i].load()).kv("destroyed", g_destroyedById[i].load()), "lifetime");
    }
  }
  if (g_objects.load() != 0) report("pooled objects still alive after the pool was destroyed", J().kv("objects", g_objects.load()), "lifetime");
  if (g_badMagic.load() != 0) report("destructor ran on a dead object", J().kv("n", g_badMagic.load()), "lifetime");
  for (auto& c : counts) {
    o.c.acquires += c.acquires;
    o.c.moves += c.moves;
    o.c.assignLiveLive += c.assignLiveLive;
    o.c.assignLiveEmpty += c.assignLiveEmpty;
    o.c.assignEmptyLive += c.assignEmptyLive;
    o.c.selfAssign += c.selfAssign;
  }
  o.bad = g_bad.load();
  o.maxHeld = g_maxHeld.load();
  return o;
}

} // namespace

void runC25() {
  const long n = vrt::g_args.getInt("n", vrt::thorough() ? 5000 : 256);
  vrt::setStateDumper(dumpState);
  vrt::watchdogIdleFlatIsHang(true);
  for (long idx = 0; idx < n; ++idx) {
    if (!vrt::selected(idx)) continue;
    vrt::Rng r = vrt::caseRng(idx);
    Spec s;
    s.size = static_cast<int>(1 + (idx + idx / 16) % 4); // decorrelated from the 16-way sharding
    s.threads = static_cast<int>(r.range(1, 8));
    s.ops = r.range(30, vrt::g_args.getInt("ops", vrt::thorough() ? 400 : 150));
    s.dwellMax = r.pick(std::vector<int>{0, 5, 20, 60});
    if (r.chance(0.5)) s.hookP = r.pick(std::vector<double>{0.1, 0.5});
    std::string key = "pool/size" + std::to_string(s.size) + "/" + (s.threads <= s.size ? "threads<=size" : "threads>size");
    vrt::caseBegin(idx, key, s.json());
    vrt::watchdogArm();
    Obs o = runCase(s, idx);
    vrt::watchdogDisarm();
    std::vector<std::string> cls;
    cls.push_back("size=" + std::to_string(s.size));
    cls.push_back(s.threads <= s.size ? "threads<=size" : "threads>size");
    if (o.maxHeld == s.size) cls.push_back("all-held-reached");
    if (o.c.moves) cls.push_back("move-construct");
    if (o.c.assignLiveLive) cls.push_back("assign-live=live");
    if (o.c.assignLiveEmpty) cls.push_back("assign-live=empty");
    if (o.c.assignEmptyLive) cls.push_back("assign-empty=live");
    if (o.c.selfAssign) cls.push_back("self-assign");
    bool nt = o.c.acquires >= 4;
    vrt::caseEnd(J().kv("acquires", o.c.acquires).kv("moves", o.c.moves).kv("assignLiveLive", o.c.assignLiveLive).kv("assignLiveEmpty", o.c.assignLiveEmpty)
                     .kv("assignEmptyLive", o.c.assignEmptyLive).kv("maxHeld", o.maxHeld).kv("bad", o.bad),
                 nt ? s.json().str() : "", cls);
  }
}
