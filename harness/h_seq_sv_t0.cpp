// C38 instantiations for element alignment 8 (see h_seq_sv_impl.h)
#include "h_seq_sv_impl.h"

HSEQ_SV_INSTANCE(a8_n1, vrt::TrackedT<8>, 1)
HSEQ_SV_INSTANCE(a8_n2, vrt::TrackedT<8>, 2)
HSEQ_SV_INSTANCE(a8_n4, vrt::TrackedT<8>, 4)
HSEQ_SV_INSTANCE(a8_n8, vrt::TrackedT<8>, 8)
HSEQ_SV_INSTANCE(a8_n64, vrt::TrackedT<8>, 64)
HSEQ_SV_INSTANCE(a16_n1, vrt::TrackedT<16>, 1)
HSEQ_SV_INSTANCE(a16_n4, vrt::TrackedT<16>, 4)
