// Engine h_pool: monitors, case generators and verdicts for C01, C02, C03, C08, C47.
// See h_pool_common.h for the architecture.
#include "h_pool_run.h"

const char* const kClsNames[C_NCLS] = {"not-run", "worker", "worker-inline", "caller-inline", "waiter", "pool-dtor", "resize", "other"};

thread_local ThreadLocalState tl;
Mon g;

// ------------------------------------------------------------------ monitor plumbing
static uint32_t g_prevIds = 0;

void monInit() {
  g.count = new std::atomic<uint32_t>[kMaxIds];
  g.cls = new std::atomic<uint8_t>[kMaxIds];
  g.plain = new uint32_t[kMaxIds];
  g.tok = new int*[kMaxIds];
  g.parentOf = new uint32_t[kMaxIds];
  g.flagsOf = new uint8_t[kMaxIds];
  for (uint32_t i = 0; i < kMaxIds; ++i) {
    g.count[i].store(0, std::memory_order_relaxed);
    g.cls[i].store(0, std::memory_order_relaxed);
    g.plain[i] = 0;
    g.tok[i] = nullptr;
    g.parentOf[i] = kNoParent;
    g.flagsOf[i] = 0;
  }
  g_prevIds = 0;
}

void monReset() {
  uint32_t n = std::min(g_prevIds, kMaxIds);
  for (uint32_t i = 0; i < n; ++i) {
    g.count[i].store(0, std::memory_order_relaxed);
    g.cls[i].store(0, std::memory_order_relaxed);
    g.plain[i] = 0;
    g.tok[i] = nullptr;
    g.parentOf[i] = kNoParent;
    g.flagsOf[i] = 0;
  }
  g.nextId = 0;
  g.started = 0;
  g.finished = 0;
  g.lateRuns = 0;
  g.fqInline = 0;
  g.fqInlineId = -1;
  for (auto& c : g.clsCount) c = 0;
  g.barrierChecks = 0;
  g.barrierFails = 0;
  g.failSched = 0;
  g.failDone = 0;
  g.failKind = 0;
  g.failWhere = 0;
  g.futNotReady = 0;
  g.futChecked = 0;
  g.maxOutstandingAtWait = 0;
  g.gatesStarted = 0;
  g.programsDone = 0;
  g.release = 0;
  g.phase = 0;
  g.phasedStarted = 0;
  g.phasedKidQueued = 0;
  g.poolDead = false;
  g.poolDying = false;
  g.resizes = 0;
  g.resizeGrow = 0;
  g.resizeShrink = 0;
  g.resizeZero = 0;
  g.tryWaitFalse = 0;
  g.pool = nullptr;
  g.cts = nullptr;
  g.ctsMon.sched = 0;
  g.ctsMon.done = 0;
  g.ctsMon.set = nullptr;
  g.ctsMon.kind = 0;
  g.programs.clear();
}

void monRemember() {
  g_prevIds = std::max(g_prevIds, g.nextId.load(std::memory_order_relaxed));
}

uint32_t newIds(uint32_t n) {
  uint32_t b = g.nextId.fetch_add(n, std::memory_order_relaxed);
  if (b + n > kMaxIds) {
    fprintf(stderr, "h_pool: id space exhausted (%u + %u)\n", b, n);
    _exit(6);
  }
  return b;
}

Task mkProto(uint8_t act, uint8_t flags, uint16_t k, uint16_t dwellUs, SetMon* note, uint32_t parent, uint16_t depth) {
  Task t;
  t.id = 0;
  t.parent = parent;
  t.act = act;
  t.flags = flags;
  t.k = k;
  t.dwellUs = dwellUs;
  t.depth = depth;
  t.tok = nullptr;
  t.note = note;
  return t;
}

Task mkTask(uint32_t id, uint8_t act, uint8_t flags, uint16_t k, uint16_t dwellUs, SetMon* note, uint32_t parent, uint16_t depth) {
  Task t = mkProto(act, flags, k, dwellUs, note, parent, depth);
  t.id = id;
  t.tok = new int(static_cast<int>(id));
  g.tok[id] = t.tok;
  g.parentOf[id] = parent;
  g.flagsOf[id] = flags;
  return t;
}

void checkBarrier(SetMon& m, int where) {
  long s = m.sched.load(std::memory_order_relaxed);
  long d = m.done.load(std::memory_order_relaxed);
  g.barrierChecks.fetch_add(1, std::memory_order_relaxed);
  if (s != d) {
    if (g.barrierFails.fetch_add(1, std::memory_order_relaxed) == 0) {
      g.failSched.store(s, std::memory_order_relaxed);
      g.failDone.store(d, std::memory_order_relaxed);
      g.failKind.store(m.kind, std::memory_order_relaxed);
      g.failWhere.store(where, std::memory_order_relaxed);
    }
  }
}

static inline uint8_t classify() {
  if (tl.role == 0) return tl.inSubmit > 0 ? C_WORKER_INLINE : C_WORKER;
  if (tl.inDtor) return C_H_DTOR;
  if (tl.inResize) return C_H_RESIZE;
  if (tl.inSubmit > 0) return C_H_INLINE;
  if (tl.inWait > 0) return C_H_WAIT;
  return C_H_OTHER;
}

void Task::operator()() const {
  g.started.fetch_add(1, std::memory_order_relaxed);
  if (g.poolDead.load(std::memory_order_relaxed)) g.lateRuns.fetch_add(1, std::memory_order_relaxed);
  uint32_t prev = g.count[id].fetch_add(1, std::memory_order_relaxed);
  g.plain[id] = id + 1;
  // a body that runs inside a submit call which itself runs inside a wait is "inline": inSubmit is
  // tested before inWait for harness threads
  uint8_t c = classify();
  g.cls[id].store(c, std::memory_order_relaxed);
  g.clsCount[c].fetch_add(1, std::memory_order_relaxed);
  if (flags & F_FQ) {
    int n = tl.fqN < 64 ? tl.fqN : 64;
    for (int i = 0; i < n; ++i) {
      if (id >= tl.fq[i].lo && id < tl.fq[i].hi) {
        g.fqInline.fetch_add(1, std::memory_order_relaxed);
        g.fqInlineId.store(static_cast<long>(id), std::memory_order_relaxed);
        break;
      }
    }
  }
  if (act == A_GATE) {
    g.gatesStarted.fetch_add(1, std::memory_order_relaxed);
    while (!g.release.load(std::memory_order_relaxed)) {
      dispenso::detail::cpuRelax();
    }
  } else if (act == A_CHAIN || act == A_TS_CHAIN_OWNER) {
    int sIn = tl.inSubmit, sW = tl.inWait, sF = tl.fqN;
    tl.inSubmit = 0;
    tl.inWait = 0;
    if (act == A_CHAIN) runChain(*this);
    else runTsChainOwner(*this);
    tl.inSubmit = sIn;
    tl.inWait = sW;
    tl.fqN = sF;
  } else if (act == A_PHASED) {
    g.phasedStarted.store(1, std::memory_order_relaxed);
    while (g.phase.load(std::memory_order_relaxed) < 1) dispenso::detail::cpuRelax();
    {
      uint32_t b = newIds(1);
      subPoolFQ(*g.pool, mkTask(b, A_NONE, static_cast<uint8_t>(F_CHILD | F_FQ), 0, 0, nullptr, id, 1));
    }
    g.phasedKidQueued.store(1, std::memory_order_relaxed);
    while (g.phase.load(std::memory_order_relaxed) < 2) dispenso::detail::cpuRelax();
  } else if (act == A_PROGRAM) {
    // a program run by a thread that is inside submit/wait must start with clean scopes
    int sIn = tl.inSubmit, sW = tl.inWait, sF = tl.fqN;
    tl.inSubmit = 0;
    tl.inWait = 0;
    runProgram(static_cast<int>(k));
    tl.inSubmit = sIn;
    tl.inWait = sW;
    tl.fqN = sF;
    g.programsDone.fetch_add(1, std::memory_order_relaxed);
  } else if (act != A_NONE) {
    if (dwellUs) vrt::spinFor(static_cast<int>(dwellUs / 4)); // children are scheduled from the middle of the body
    int sIn = tl.inSubmit, sW = tl.inWait;
    tl.inSubmit = 0;
    tl.inWait = 0;
    runKids(*this);
    tl.inSubmit = sIn;
    tl.inWait = sW;
  }
  if (dwellUs) vrt::spinFor(static_cast<int>(dwellUs));
  vrt::progress();
#if VRT_ASAN
  delete tok; // a second invocation is a double free
#else
  if (prev == 0) delete tok;
#endif
  if (note) note->done.fetch_add(1, std::memory_order_relaxed);
  g.finished.fetch_add(1, std::memory_order_relaxed);
}

// ------------------------------------------------------------------ program pretty printer
static const char* opName(uint8_t k) {
  switch (k) {
    case O_SCHED: return "s";
    case O_SCHED_FQ: return "q";
    case O_BULK: return "b";
    case O_FUT: return "f";
    case O_FUT_ASYNC: return "fa";
    case O_TS_SCHED: return "Ts";
    case O_TS_SCHED_FQ: return "Tq";
    case O_TS_BULK: return "Tb";
    case O_TS_BULK_FQ: return "Tbq";
    case O_TS_FUT: return "Tf";
    case O_TS_THEN: return "Tthen";
    case O_TS_WHENALL: return "Tall";
    case O_TS_PARFOR: return "Tpf";
    case O_TS_PARFOR_NOWAIT: return "Tpfn";
    case O_TS_WAIT: return "Tw";
    case O_TS_TRYWAIT: return "Ttw";
    case O_G_SCHED: return "Gs";
    case O_G_SCHED_FQ: return "Gq";
    case O_G_BULK: return "Gb";
    case O_G_BULK_FQ: return "Gbq";
    case O_G_FUT: return "Gf";
    case O_RESIZE: return "R";
    case O_SETWAKE: return "W";
    case O_SLEEP: return "z";
    case O_YIELD: return "y";
    default: return "?";
  }
}
static const char* actName(uint8_t a) {
  switch (a) {
    case A_KIDS_POOL: return "+kp";
    case A_KIDS_POOL_FQ: return "+kq";
    case A_KIDS_BULK: return "+kb";
    case A_KIDS_SET: return "+ks";
    case A_KIDS_SET_BULK: return "+ksb";
    case A_NESTED_TS: return "+nT";
    case A_NESTED_CTS: return "+nC";
    case A_PROGRAM: return "+prog";
    default: return "";
  }
}
std::string Program::str() const {
  std::string s;
  const char* sk[] = {"", "TS", "CTSh", "CTSl"};
  if (setKind) s += std::string(sk[setKind]) + "*" + std::to_string(stealMult) + ":";
  for (size_t i = 0; i < ops.size(); ++i) {
    const Op& o = ops[i];
    if (i) s += " ";
    s += opName(o.kind);
    bool hasN = o.kind == O_BULK || o.kind == O_TS_BULK || o.kind == O_TS_BULK_FQ || o.kind == O_G_BULK || o.kind == O_G_BULK_FQ ||
        o.kind == O_RESIZE || o.kind == O_SETWAKE || o.kind == O_SLEEP || o.kind == O_TS_TRYWAIT || o.kind == O_TS_PARFOR || o.kind == O_TS_PARFOR_NOWAIT;
    if (hasN) s += std::to_string(o.n);
    if (o.fat) s += "F";
    if (o.act != A_NONE) s += std::string(actName(o.act)) + std::to_string(o.k);
    if (o.dwellUs) s += "~" + std::to_string(o.dwellUs);
  }
  return s;
}

// ------------------------------------------------------------------ main
void runC01();
void runC02();
void runC03();
void runC08();
void runC47();

int main(int argc, char** argv) {
  vrt::init(argc, argv);
  tl.role = 1;
  monInit();
  const std::string& p = vrt::g_args.prop;
  if (p == "C01") runC01();
  else if (p == "C02") runC02();
  else if (p == "C03") runC03();
  else if (p == "C08") runC08();
  else if (p == "C47") runC47();
  else {
    fprintf(stderr, "h_pool: unknown property %s\n", p.c_str());
    return 2;
  }
  return vrt::finish();
}
