// Engine h_nest: C06 (nested waits never deadlock through pool starvation), C16 (parallel_invoke),
// C46 (bounded inline nesting).  This TU: main, shared state, C06.
#include "h_nest_common.h"

#include <dispenso/for_each.h>
#include <dispenso/future.h>
#include <dispenso/parallel_for.h>
#include <dispenso/parallel_invoke.h>

NGates g_ngates;
std::atomic<dispenso::ThreadPool*> g_curPool{nullptr};
std::atomic<long> g_nodesDone{0}, g_nodesTotal{0}, g_workersInWait{0}, g_threadsInWait{0};

void installStateDumper() {
  static bool done = false;
  if (done) return;
  done = true;
  vrt::setStateDumper([]() {
    J j;
    dispenso::ThreadPool* p = g_curPool.load();
    if (p) {
      j.kv("numThreads", static_cast<long>(p->numThreads()))
          .kv("workRemaining", static_cast<long>(p->verifWorkRemaining()))
          .kv("queuedApprox", static_cast<long>(p->verifQueuedApprox()))
          .kv("numSleeping", static_cast<long>(p->verifNumSleeping()))
          .kv("numNotWorking", static_cast<long>(p->verifNumNotWorking()))
          .kv("ringsNonEmptyBeyond", static_cast<long>(p->verifRingsNonEmptyBeyond()));
    }
    j.kv("nodesDone", g_nodesDone.load()).kv("nodesTotal", g_nodesTotal.load()).kv("workersInWait", g_workersInWait.load()).kv("threadsInWait", g_threadsInWait.load());
    return j.str();
  });
}

// ------------------------------------------------------------------ C06 program model
namespace {

enum Kind { kLeaf = 0, kTS, kCtsHeavy, kCtsLight, kFutPool, kFutSet, kParFor, kForEach, kPInvoke, kThen, kCross, kSibFut, kNumKinds };
const int kNumTreeKinds = kCross; // kinds >= kCross only appear in the "dag" program family
const char* kKindNames[] = {"leaf", "ts", "cts-heavy", "cts-light", "fut-pool", "fut-set", "parfor", "foreach", "pinvoke", "then", "cross-wait", "sibling-future"};

struct PNode {
  int kind = kLeaf;
  int api = 0;      // sets: 0 schedule 1 scheduleFQ 2 bulk 3 bulkFQ 4 mixed
  int waitKind = 0; // sets: 0 wait 1 tryWait loop 2 destructor
  int opt = 0;      // futures: policy bits / order; parfor: chunking; fut-set: set kind
  int work = 0;     // leaf spin (us)
  int stealMult = 4;
  std::vector<int> kids;
};

struct Prog {
  std::vector<PNode> nodes;
  int depth = 0;
  int kindsUsed = 0;
};

Prog* g_prog = nullptr;
dispenso::ThreadPool* g_pool = nullptr;
std::atomic<int>* g_count = nullptr; // per node run count
std::atomic<long> g_allBlockedSamples{0}, g_maxWorkersInWait{0}, g_maxNest{0}, g_waits{0};
thread_local int tl_waitNest = 0;
thread_local int tl_nest = 0;
// threads that are executing program code and are not (at the top of their stack) inside a wait
std::atomic<long> g_active{0};
thread_local int tl_state = 0; // 0 outside the program, 1 running, 2 waiting
std::atomic<int> g_poolLock{0};
void poolLockTake() {
  int e = 0;
  while (!g_poolLock.compare_exchange_weak(e, 1, std::memory_order_acquire)) {
    e = 0;
    std::this_thread::yield();
  }
}
void poolLockGive() {
  g_poolLock.store(0, std::memory_order_release);
}

// State-based deadlock verdict (plain / asan builds): no thread is running program code outside a
// wait, nothing is queued in any tier of the pool, the program is unfinished, and that has been so
// for the whole flat period. Nothing can change such a state any more.
void startDeadlockSentinel() {
#if !VRT_TSAN
  static bool started = false;
  if (started) return;
  started = true;
  std::thread([]() {
    const double T = vrt::thorough() ? 20.0 : 10.0;
    double since = vrt::nowSeconds();
    long lastDone = -1;
    for (;;) {
      usleep(100000);
      bool stuck = false;
      long done = 0, total = 0, queued = 0, inWait = 0;
      poolLockTake();
      dispenso::ThreadPool* p = g_curPool.load();
      if (p && g_prog) {
        done = g_nodesDone.load();
        total = g_nodesTotal.load();
        queued = static_cast<long>(p->verifQueuedApprox());
        inWait = g_threadsInWait.load();
        stuck = done < total && done == lastDone && queued == 0 && g_active.load() == 0 && inWait > 0;
        lastDone = done;
      }
      poolLockGive();
      if (!stuck) {
        since = vrt::nowSeconds();
        continue;
      }
      if (vrt::nowSeconds() - since >= T) {
        vrt::violation("deadlock: every thread that has unfinished program code on its stack is inside a dispenso wait and no task is queued in any tier of the pool",
                       J().kv("nodesDone", done).kv("nodesTotal", total).kv("threadsInWait", inWait).kv("queuedApprox", queued).kv("flat_s", vrt::nowSeconds() - since), "");
        _exit(3);
      }
    }
  }).detach();
#endif
}

struct WaitScope {
  bool worker;
  int prevState = 0;
  WaitScope() : worker(onPoolThread(*g_pool)) {
    g_waits.fetch_add(1, std::memory_order_relaxed);
    if (tl_state == 1) g_active.fetch_sub(1, std::memory_order_relaxed);
    prevState = tl_state;
    tl_state = 2;
    if (tl_waitNest++ == 0) {
      g_threadsInWait.fetch_add(1, std::memory_order_relaxed);
      if (worker) {
        long now = g_workersInWait.fetch_add(1, std::memory_order_relaxed) + 1;
        relaxedMax(g_maxWorkersInWait, now);
        if (now >= g_pool->numThreads()) g_allBlockedSamples.fetch_add(1, std::memory_order_relaxed);
      }
    }
  }
  ~WaitScope() {
    if (--tl_waitNest == 0) {
      g_threadsInWait.fetch_sub(1, std::memory_order_relaxed);
      if (worker) g_workersInWait.fetch_sub(1, std::memory_order_relaxed);
    }
    tl_state = prevState;
    if (tl_state == 1) g_active.fetch_add(1, std::memory_order_relaxed);
    vrt::progress();
  }
};

void exec(int i);

struct Run {
  int i;
  void operator()() const {
    exec(i);
  }
};

template <typename SetT>
void runSetNode(const PNode& n, SetT& set) {
  const std::vector<int>& k = n.kids;
  size_t nk = k.size();
  switch (n.api) {
    case 0:
      for (int c : k) set.schedule(Run{c});
      break;
    case 1:
      for (int c : k) set.schedule(Run{c}, dispenso::ForceQueuingTag());
      break;
    case 2:
      set.scheduleBulk(nk, [&k](size_t j) { return Run{k[j]}; });
      break;
    case 3:
      set.scheduleBulk(nk, [&k](size_t j) { return Run{k[j]}; }, dispenso::ForceQueuingTag());
      break;
    default:
      for (size_t j = 0; j < nk; ++j) {
        if (j % 3 == 0) set.schedule(Run{k[j]});
        else if (j % 3 == 1) set.schedule(Run{k[j]}, dispenso::ForceQueuingTag());
        else set.scheduleBulk(1, [&k, j](size_t) { return Run{k[j]}; });
      }
      break;
  }
  if (n.waitKind == 0) {
    WaitScope ws;
    set.wait();
  } else if (n.waitKind == 1) {
    WaitScope ws;
    size_t m = 1 + static_cast<size_t>(n.opt % 3);
    while (!set.tryWait(m)) {
      std::this_thread::yield();
    }
  }
  // waitKind 2: the destructor waits
}

template <typename SetT>
void setNode(const PNode& n, SetT& set) {
  runSetNode(n, set);
}

void exec(int i) {
  const PNode& n = g_prog->nodes[static_cast<size_t>(i)];
  int nest = ++tl_nest;
  relaxedMax(g_maxNest, nest);
  const int prevState = tl_state;
  if (prevState != 1) g_active.fetch_add(1, std::memory_order_relaxed);
  tl_state = 1;
  g_count[i].fetch_add(1, std::memory_order_relaxed);
  vrt::progress();
  dispenso::ThreadPool& pool = *g_pool;
  switch (n.kind) {
    case kLeaf:
      if (n.work) vrt::spinFor(n.work);
      break;
    case kTS: {
      if (n.waitKind == 2) {
        WaitScope ws; // covers the destructor's wait
        dispenso::TaskSet ts(pool, n.stealMult);
        runSetNode(n, ts);
      } else {
        dispenso::TaskSet ts(pool, n.stealMult);
        runSetNode(n, ts);
      }
      break;
    }
    case kCtsHeavy:
    case kCtsLight: {
      dispenso::TaskCost cost = n.kind == kCtsHeavy ? dispenso::TaskCost::kHeavy : dispenso::TaskCost::kLightweight;
      if (n.waitKind == 2) {
        WaitScope ws;
        dispenso::ConcurrentTaskSet cts(pool, cost, n.stealMult);
        runSetNode(n, cts);
      } else {
        dispenso::ConcurrentTaskSet cts(pool, cost, n.stealMult);
        runSetNode(n, cts);
      }
      break;
    }
    case kFutPool: {
      std::vector<dispenso::Future<void>> fs;
      fs.reserve(n.kids.size());
      for (size_t j = 0; j < n.kids.size(); ++j) {
        bool forceAsync = ((n.opt >> (j % 8)) & 1) != 0;
        int c = n.kids[j];
        fs.emplace_back(dispenso::async(pool, forceAsync ? std::launch::async : dispenso::kNotAsync, [c]() { exec(c); }));
      }
      WaitScope ws;
      if (n.opt & 256) {
        for (size_t j = fs.size(); j-- > 0;) fs[j].wait();
      } else {
        for (auto& f : fs) f.get();
      }
      break;
    }
    case kFutSet: {
      // futures bound to a task set: the set's wait() covers them
      if (n.opt & 1) {
        dispenso::ConcurrentTaskSet cts(pool, (n.opt & 2) ? dispenso::TaskCost::kHeavy : dispenso::TaskCost::kLightweight, n.stealMult);
        std::vector<dispenso::Future<void>> fs;
        for (size_t j = 0; j < n.kids.size(); ++j) {
          int c = n.kids[j];
          fs.emplace_back(dispenso::async(cts, (j & 1) ? std::launch::async : dispenso::kNotAsync, [c]() { exec(c); }));
        }
        WaitScope ws;
        if (n.opt & 4) {
          for (auto& f : fs) f.wait();
        }
        cts.wait();
      } else {
        dispenso::TaskSet ts(pool, n.stealMult);
        std::vector<dispenso::Future<void>> fs;
        for (size_t j = 0; j < n.kids.size(); ++j) {
          int c = n.kids[j];
          fs.emplace_back(dispenso::async(ts, (j & 1) ? std::launch::async : dispenso::kNotAsync, [c]() { exec(c); }));
        }
        WaitScope ws;
        if (n.opt & 4) {
          for (auto& f : fs) f.wait();
        }
        ts.wait();
      }
      break;
    }
    case kParFor: {
      const std::vector<int>& k = n.kids;
      dispenso::ParForOptions opt;
      opt.wait = true;
      if (n.opt & 4) opt.maxThreads = 2;
      WaitScope ws;
      if (n.opt & 1) {
        dispenso::TaskSet ts(pool, n.stealMult);
        if (n.opt & 2) {
          dispenso::parallel_for(ts, dispenso::makeChunkedRange(size_t{0}, k.size(), dispenso::ParForChunking::kStatic), [&k](size_t b, size_t e) {
            for (size_t j = b; j < e; ++j) exec(k[j]);
          }, opt);
        } else {
          dispenso::parallel_for(ts, size_t{0}, k.size(), [&k](size_t j) { exec(k[j]); }, opt);
        }
      } else {
        dispenso::ConcurrentTaskSet cts(pool, n.stealMult);
        if (n.opt & 2) {
          dispenso::parallel_for(cts, dispenso::makeChunkedRange(size_t{0}, k.size(), dispenso::ParForChunking::kAuto), [&k](size_t b, size_t e) {
            for (size_t j = b; j < e; ++j) exec(k[j]);
          }, opt);
        } else {
          dispenso::parallel_for(cts, size_t{0}, k.size(), [&k](size_t j) { exec(k[j]); }, opt);
        }
      }
      break;
    }
    case kForEach: {
      const std::vector<int>& k = n.kids;
      dispenso::ForEachOptions opt;
      opt.wait = true;
      WaitScope ws;
      dispenso::TaskSet ts(pool, n.stealMult);
      dispenso::for_each(ts, k.begin(), k.end(), [](const int& c) { exec(c); }, opt);
      break;
    }
    case kPInvoke: {
      const std::vector<int>& k = n.kids;
      dispenso::ConcurrentTaskSet cts(pool, n.stealMult);
      switch (k.size()) {
        case 1: dispenso::parallel_invoke(cts, Run{k[0]}); break;
        case 2: dispenso::parallel_invoke(cts, Run{k[0]}, Run{k[1]}); break;
        case 3: dispenso::parallel_invoke(cts, Run{k[0]}, Run{k[1]}, Run{k[2]}); break;
        default: {
          // four-way invoke, the remaining children are scheduled plainly
          dispenso::parallel_invoke(cts, Run{k[0]}, Run{k[1]}, Run{k[2]}, Run{k[3]});
          for (size_t j = 4; j < k.size(); ++j) cts.schedule(Run{k[j]});
          break;
        }
      }
      WaitScope ws;
      cts.wait();
      break;
    }
    case kThen: {
      // chain: kid0 -> kid1 -> ... as continuations, then wait for the last
      const std::vector<int>& k = n.kids;
      int c0 = k[0];
      dispenso::Future<void> f = dispenso::async(pool, (n.opt & 1) ? std::launch::async : dispenso::kNotAsync, [c0]() { exec(c0); });
      for (size_t j = 1; j < k.size(); ++j) {
        int c = k[j];
        f = f.then([c](dispenso::Future<void>&&) { exec(c); }, pool, (n.opt & 2) ? std::launch::async : dispenso::kNotAsync);
      }
      WaitScope ws;
      f.wait();
      break;
    }
    case kCross: {
      // A task of another set waits for set S (scheduling into S has finished before that task is
      // created, so wait() is never concurrent with schedule()); this thread waits for that other set
      // and only afterwards for S itself. Acyclic: waiter -> S's tasks, this thread -> waiter.
      const std::vector<int>& k = n.kids;
      if (n.opt & 8) vrt::sleepUs(300 + (n.opt & 0xff) * 8); // lets idle workers park, so placed scheduling claims a sleeper
      dispenso::ConcurrentTaskSet S(pool, (n.opt & 1) ? dispenso::TaskCost::kLightweight : dispenso::TaskCost::kHeavy, n.stealMult);
      for (size_t j = 0; j < k.size(); ++j) {
        if ((n.opt >> 4) & 1 && (j & 1)) S.schedule(Run{k[j]}, dispenso::ForceQueuingTag());
        else S.schedule(Run{k[j]});
      }
      dispenso::ConcurrentTaskSet* sp = &S;
      dispenso::ConcurrentTaskSet S2(pool, (n.opt & 2) ? dispenso::TaskCost::kLightweight : dispenso::TaskCost::kHeavy, n.stealMult);
      auto waiter = [sp]() {
        WaitScope ws;
        sp->wait();
      };
      if (n.opt & 4) S2.schedule(waiter, dispenso::ForceQueuingTag());
      else S2.schedule(waiter);
      WaitScope ws;
      S2.wait();
      S.wait();
      break;
    }
    case kSibFut: {
      // A task waits for a future created by its parent (a sibling dependency): parent -> {future, task}, task -> future.
      const std::vector<int>& k = n.kids;
      if (n.opt & 8) vrt::sleepUs(300 + (n.opt & 0xff) * 8);
      int c0 = k[0];
      dispenso::Future<void> f = dispenso::async(pool, (n.opt & 1) ? std::launch::async : dispenso::kNotAsync, [c0]() { exec(c0); });
      dispenso::ConcurrentTaskSet S(pool, (n.opt & 2) ? dispenso::TaskCost::kLightweight : dispenso::TaskCost::kHeavy, n.stealMult);
      for (size_t j = 1; j < k.size(); ++j) {
        int c = k[j];
        auto dep = [f, c]() {
          {
            WaitScope ws;
            f.wait();
          }
          exec(c);
        };
        if (n.opt & 4) S.schedule(dep, dispenso::ForceQueuingTag());
        else S.schedule(dep);
      }
      WaitScope ws;
      S.wait();
      f.wait();
      break;
    }
    default: break;
  }
  g_nodesDone.fetch_add(1, std::memory_order_relaxed);
  tl_state = prevState;
  if (prevState != 1) g_active.fetch_sub(1, std::memory_order_relaxed);
  --tl_nest;
}

int genNode(vrt::Rng& r, Prog& p, int depth, int maxDepth, int& budget, int maxFan, bool dag) {
  int idx = static_cast<int>(p.nodes.size());
  p.nodes.emplace_back();
  --budget;
  if (depth > p.depth) p.depth = depth;
  PNode n;
  bool leaf = depth >= maxDepth || budget <= 0 || r.chance(depth == 0 ? 0.0 : 0.25);
  if (leaf) {
    n.kind = kLeaf;
    n.work = r.chance(0.5) ? 0 : static_cast<int>(r.range(1, 20));
  } else {
    n.kind = static_cast<int>(r.range(1, (dag ? kNumKinds : kNumTreeKinds) - 1));
    if (dag && r.chance(0.25)) n.kind = r.chance(0.5) ? kCross : kSibFut;
    n.api = static_cast<int>(r.below(5));
    n.waitKind = static_cast<int>(r.below(6));
    if (n.waitKind > 2) n.waitKind = 0;
    n.opt = static_cast<int>(r.below(512));
    n.stealMult = r.chance(0.5) ? 1 : 4;
    int fan = static_cast<int>(r.range(1, maxFan));
    if (n.kind == kPInvoke && fan > 6) fan = 6;
    p.kindsUsed |= 1 << n.kind;
    for (int j = 0; j < fan && (budget > 0 || j == 0); ++j) {
      int c = genNode(r, p, depth + 1, maxDepth, budget, maxFan, dag);
      n.kids.push_back(c);
    }
  }
  p.nodes[static_cast<size_t>(idx)] = n;
  return idx;
}

} // namespace

void runC06() {
  const bool th = vrt::thorough();
  const long n = vrt::g_args.getInt("n", th ? 5000 : 320);
  installStateDumper();
  startDeadlockSentinel();
  static std::atomic<int> rootDone{0};
  for (long idx = 0; idx < n; ++idx) {
    if (!vrt::selected(idx)) continue;
    vrt::Rng r = vrt::caseRng(idx);
    const int pools[] = {0, 1, 2, 3, 8, 1, 2};
    int poolN = pools[r.below(7)];
    if (th && r.chance(0.2)) poolN = static_cast<int>(r.range(4, 9));
    if (vrt::g_args.getInt("bigpool", 0)) poolN = static_cast<int>(r.range(9, 12)); // two wake groups / steal rings
    int mult = r.chance(0.5) ? 1 : 32;
    bool external = poolN == 0 || r.chance(0.5); // root runs on the external (main) thread
    bool pollMode = poolN > 0 && r.chance(0.15);
    double perturb = r.chance(0.5) ? (r.chance(0.5) ? 0.02 : 0.15) : 0.0;
    double futexDelay = r.chance(0.3) ? 0.2 : 0.0;
    double futexSpur = r.chance(0.2) ? 0.05 : 0.0;
    int maxDepth = static_cast<int>(r.range(2, th ? 6 : 5));
    int budget = static_cast<int>(r.range(10, th ? 600 : 200));
    int maxFan = static_cast<int>(r.range(2, 8));
    Prog prog;
#if VRT_TSAN
    const bool dag = false; // the state-based deadlock sentinel is off under TSan; the dag family is judged in the plain build
#else
    const bool dag = (idx % 8) == 7; // programs with waits on sets/futures that the waiting task did not create
#endif
    genNode(r, prog, 0, maxDepth, budget, maxFan, dag);
    std::string kinds;
    for (int k = 1; k < kNumKinds; ++k)
      if (prog.kindsUsed & (1 << k)) kinds += std::string(kinds.empty() ? "" : "+") + kKindNames[k];
    J spec = J().kv("pool", poolN).kv("mult", mult).kv("external", external).kv("pollMode", pollMode).kv("perturb", perturb).kv("futexDelay", futexDelay).kv("futexSpurious", futexSpur)
                 .kv("nodes", static_cast<long>(prog.nodes.size())).kv("depth", prog.depth).kv("kinds", kinds).kv("rootKind", kKindNames[prog.nodes[0].kind]);
    std::string dagHas = (prog.kindsUsed & (1 << kCross)) ? ((prog.kindsUsed & (1 << kSibFut)) ? "cross-wait+sibling-future" : "cross-wait") : ((prog.kindsUsed & (1 << kSibFut)) ? "sibling-future" : "none");
    std::string key = std::string(dag && dagHas != "none" ? "dag/" + dagHas + "/" : "tree/") + (poolN == 0 ? "pool0" : poolN == 1 ? "pool1" : "poolN") + "/" + (external ? "ext-root" : "pool-root") + "/" + (pollMode ? "poll" : "wake") + "/root:" + kKindNames[prog.nodes[0].kind];
    vrt::caseBegin(idx, key, spec);
    std::vector<std::atomic<int>> count(prog.nodes.size());
    for (auto& c : count) c.store(0, std::memory_order_relaxed);
    g_count = count.data();
    g_prog = &prog;
    g_active.store(0);
    g_nodesDone.store(0);
    g_nodesTotal.store(static_cast<long>(prog.nodes.size()));
    g_allBlockedSamples.store(0);
    g_maxWorkersInWait.store(0);
    g_maxNest.store(0);
    g_waits.store(0);
    rootDone.store(0, std::memory_order_relaxed);
    vrt::futexStatsReset();
    vrt::watchdogArm(th ? 30 : 15); // fallback; the deadlock sentinel (10 s / 20 s of an absorbing state) normally decides first
    {
      dispenso::ThreadPool pool(static_cast<size_t>(poolN), static_cast<size_t>(mult));
      if (pollMode) pool.setSignalingWake(false, std::chrono::microseconds(200));
      g_pool = &pool;
      poolLockTake();
      g_curPool.store(&pool);
      poolLockGive();
      if (perturb > 0) {
        vrt::hookProb(V::kPoolForceEnqueueAfterSizeTest, perturb);
        vrt::hookProb(V::kPoolPlacedAfterClaim, perturb);
        vrt::hookProb(V::kPoolPlacedAfterPush, perturb);
        vrt::hookProb(V::kPoolFindBeforeHintClear, perturb);
        vrt::hookProb(V::kPoolSchedAfterEnqueue, perturb);
        vrt::hookProb(V::kPoolWorkerBeforeEnterSleep, perturb);
        vrt::hookProb(V::kPoolWorkerAfterEnterSleep, perturb);
        vrt::hookProb(V::kPoolWorkerBeforeWait, perturb);
        vrt::hookProb(V::kTaskSetWrapperAfterBody, perturb);
        vrt::hookProb(V::kTaskSetBulkAfterRingTest, perturb);
        vrt::hookProb(V::kPoolBulkRingsBetweenPush, perturb);
        vrt::hookProb(V::kFutureRunAfterCas, perturb);
        vrt::hookProb(V::kFutureRunAfterNotify, perturb);
        vrt::hookProb(V::kFutureThenAfterReadyTest, perturb);
        vrt::hookProb(V::kFutureThenAfterPush, perturb);
        vrt::hookProb(V::kEventBeforeFutexWait, perturb);
      }
      if (futexDelay > 0) vrt::futexPreWaitDelay(futexDelay, 200);
      if (futexSpur > 0) vrt::futexSpurious(futexSpur);
      if (external) {
        exec(0);
      } else {
        pool.schedule(
            []() {
              exec(0);
              rootDone.store(1, HS_REL);
            },
            dispenso::ForceQueuingTag());
        while (!rootDone.load(HS_ACQ)) vrt::sleepUs(50);
      }
      vrt::futexReset();
      vrt::hooksReset();
      poolLockTake();
      g_curPool.store(nullptr);
      poolLockGive();
    }
    vrt::watchdogDisarm();
    long bad = 0;
    for (size_t i = 0; i < count.size(); ++i) {
      if (count[i].load() != 1) ++bad;
    }
    if (bad) vrt::violation("nested program finished but " + std::to_string(bad) + " nodes did not run exactly once", J().kv("nodes", static_cast<long>(count.size())), "counts", "C02");
    std::vector<std::string> cls;
    cls.push_back(poolN == 0 ? "pool0" : poolN == 1 ? "pool1" : "poolN");
    cls.push_back(external ? "ext-root" : "pool-root");
    cls.push_back(dag && dagHas != "none" ? "family:dag" : "family:tree");
    if (pollMode) cls.push_back("poll-mode");
    if (poolN > 0 && g_allBlockedSamples.load() > 0) cls.push_back("all-workers-in-wait");
    for (int k = 1; k < kNumKinds; ++k)
      if (prog.kindsUsed & (1 << k)) cls.push_back(std::string("kind:") + kKindNames[k]);
    if (perturb > 0) cls.push_back("perturbed");
    if (futexSpur > 0) cls.push_back("futex-spurious");
    vrt::FutexStats fs = vrt::futexStats();
    bool nt = prog.depth >= 2 && g_waits.load() >= 2;
    vrt::caseEnd(J().kv("nodes", static_cast<long>(prog.nodes.size())).kv("depth", prog.depth).kv("waits", g_waits.load()).kv("maxNest", g_maxNest.load()).kv("maxWorkersInWait", g_maxWorkersInWait.load())
                     .kv("allBlockedSamples", g_allBlockedSamples.load()).kv("futexWaits", static_cast<long>(fs.waits)).kv("futexWakes", static_cast<long>(fs.wakes)),
                 nt ? spec.str() + "#" + std::to_string(idx) : "", cls);
  }
}

int main(int argc, char** argv) {
  vrt::init(argc, argv);
  const std::string& p = vrt::g_args.prop;
  if (p == "C06") runC06();
  else if (p == "C16") runC16();
  else if (p == "C46") runC46();
  else {
    fprintf(stderr, "h_nest: unknown property %s\n", p.c_str());
    return 2;
  }
  return vrt::finish();
}
