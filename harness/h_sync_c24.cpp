// C24 — AsyncRequest delivers each update at most once.
//
// Every thread logs (call stamp, return stamp, result) into its own pre-sized log; the logs are
// merged after join and checked as a history:
//  * a returned value must be the payload of a successful tryEmplaceUpdate (payloads are long
//    strings derived from a unique tag, so a moved-from husk or a torn value is recognisable);
//  * a tag is returned by at most one getUpdate, and not before its emplace began;
//  * two successful emplaces i, j with ret(i) < call(j) need a getUpdate that returned tag i and
//    began before j returned, and a requestUpdate between that consumption and j's return;
//  * successes <= requestUpdate calls.
#include <dispenso/async_request.h>

#include <map>

#include "h_sync_common.h"

namespace {

struct Spec {
  int consumers = 1, producers = 1, requesters = 0;
  bool consumerRequests = true;
  bool producerChecksFirst = false;
  long opsPerThread = 200;
  int rounds = 1;
  double hookP = 0;
  J json() const {
    return J().kv("consumers", consumers).kv("producers", producers).kv("requesters", requesters).kv("consumerRequests", consumerRequests)
        .kv("producerChecksFirst", producerChecksFirst).kv("opsPerThread", opsPerThread).kv("rounds", rounds).kv("hookP", hookP);
  }
};

enum RecKind : uint8_t { kReq, kEmplace, kGet };
struct Rec {
  uint64_t call, ret;
  long tag; // emplace: attempted tag; get: parsed tag (-1 none, -2 corrupt)
  int round;
  uint8_t kind;
  bool ok; // emplace succeeded / get returned a value
};

std::string payloadFor(long tag) {
  std::string s = "T" + std::to_string(tag) + ":";
  uint64_t h = vrt::mix(static_cast<uint64_t>(tag), 0x5EED);
  while (s.size() < 72) {
    s += static_cast<char>('a' + (h % 26));
    h = vrt::mix(h, s.size());
  }
  return s;
}
// returns tag, or -2 if the string is not exactly a payload
long parsePayload(const std::string& s) {
  if (s.size() < 3 || s[0] != 'T') return -2;
  size_t c = s.find(':');
  if (c == std::string::npos || c < 2 || c > 20) return -2;
  long tag = 0;
  for (size_t i = 1; i < c; ++i) {
    if (s[i] < '0' || s[i] > '9') return -2;
    tag = tag * 10 + (s[i] - '0');
  }
  return payloadFor(tag) == s ? tag : -2;
}

std::atomic<long> g_ops{0};
std::string dumpState() {
  return J().kv("opsDone", g_ops.load()).str();
}

struct Obs {
  long successes = 0, returned = 0, requests = 0, violations = 0, roundsWithUpdates = 0;
};

using AR = dispenso::AsyncRequest<std::string>;

// history check of one AsyncRequest object (one round)
void checkHistory(const std::vector<const Rec*>& recs, int round, Obs& o, long& reported) {
  std::map<long, Rec> emplaced; // successful emplaces by tag
  std::vector<Rec> gets, reqs;
  for (const Rec* rp : recs) {
    const Rec& rec = *rp;
    if (rec.kind == kEmplace && rec.ok) emplaced[rec.tag] = rec;
    else if (rec.kind == kGet && rec.ok) gets.push_back(rec);
    else if (rec.kind == kReq) reqs.push_back(rec);
  }
  o.successes += static_cast<long>(emplaced.size());
  o.returned += static_cast<long>(gets.size());
  o.requests += static_cast<long>(reqs.size());
  if (emplaced.size() >= 2) ++o.roundsWithUpdates;
  auto viol = [&](const std::string& msg, J d, const char* sub) {
    ++o.violations;
    if (reported++ < 4) vrt::violation(msg, d.kv("round", round), sub);
  };
  std::map<long, Rec> consumedBy; // tag -> first get that returned it
  for (auto& g : gets) {
    if (g.tag < 0) {
      viol("getUpdate() returned a value that no successful tryEmplaceUpdate() produced (moved-from or torn payload)", J().kv("getCall", g.call), "bad-value");
      continue;
    }
    auto e = emplaced.find(g.tag);
    if (e == emplaced.end()) {
      viol("getUpdate() returned a tag whose tryEmplaceUpdate() did not report success on this object", J().kv("tag", g.tag), "bad-value");
      continue;
    }
    if (g.ret < e->second.call) {
      viol("getUpdate() returned a value before its tryEmplaceUpdate() began", J().kv("tag", g.tag), "order");
    }
    if (!consumedBy.emplace(g.tag, g).second) {
      viol("one emplaced value was returned by two getUpdate() calls", J().kv("tag", g.tag), "duplicate");
    }
  }
  if (emplaced.size() > reqs.size()) {
    viol("more successful tryEmplaceUpdate() calls than requestUpdate() calls", J().kv("successes", emplaced.size()).kv("requests", reqs.size()), "unrequested");
  }
  // successes sorted by call; suffix minimum of ret
  std::vector<Rec> succ;
  for (auto& kv : emplaced) succ.push_back(kv.second);
  std::sort(succ.begin(), succ.end(), [](const Rec& a, const Rec& b) { return a.call < b.call; });
  std::vector<size_t> sufMin(succ.size() + 1, succ.size());
  for (size_t k = succ.size(); k-- > 0;) {
    sufMin[k] = (sufMin[k + 1] == succ.size() || succ[k].ret < succ[sufMin[k + 1]].ret) ? k : sufMin[k + 1];
  }
  for (auto& si : succ) {
    // first success whose call is after si returned
    size_t lo = static_cast<size_t>(std::upper_bound(succ.begin(), succ.end(), si.ret, [](uint64_t v, const Rec& b) { return v < b.call; }) - succ.begin());
    if (lo >= succ.size()) continue;
    const Rec& sj = succ[sufMin[lo]];
    auto c = consumedBy.find(si.tag);
    if (c == consumedBy.end() || c->second.call > sj.ret) {
      viol("tryEmplaceUpdate() succeeded although the previous update had not been consumed",
           J().kv("firstTag", si.tag).kv("firstRet", si.ret).kv("secondTag", sj.tag).kv("secondCall", sj.call).kv("secondRet", sj.ret).kv("consumed", c != consumedBy.end()),
           "double-emplace");
      continue;
    }
    bool requested = false;
    for (auto& rq : reqs) {
      if (rq.ret > c->second.call && rq.call < sj.ret) {
        requested = true;
        break;
      }
    }
    if (!requested) {
      viol("tryEmplaceUpdate() succeeded although no requestUpdate() was made after the previous update was consumed",
           J().kv("firstTag", si.tag).kv("secondTag", sj.tag), "unrequested");
    }
  }
}

// One case = one set of threads running `rounds` histories, each on a fresh AsyncRequest; the
// threads meet at a relaxed spin barrier before every round so that they really overlap (thread
// creation on a loaded machine takes longer than a whole history).
Obs runCase(const Spec& s, long idx) {
  Obs o;
  const int nthreads = s.consumers + s.producers + s.requesters;
  std::vector<std::unique_ptr<hs::AlignedBox<AR>>> ars;
  std::vector<std::unique_ptr<hs::SpinStart>> barriers;
  for (int r = 0; r < s.rounds; ++r) {
    ars.emplace_back(new hs::AlignedBox<AR>());
    barriers.emplace_back(new hs::SpinStart(nthreads));
  }
  std::vector<std::vector<Rec>> logs(static_cast<size_t>(nthreads) + 1);
  for (auto& l : logs) l.reserve(static_cast<size_t>(s.opsPerThread) * 2 * static_cast<size_t>(s.rounds) + 4);
  if (s.hookP > 0) {
    vrt::hookProb(V::kAsyncGetAfterStateLoad, s.hookP);
    vrt::hookProb(V::kAsyncEmplaceAfterCas, s.hookP);
  }
  g_ops = 0;
  auto doGet = [&](AR& ar, int round, std::vector<Rec>& log, bool always) {
    Rec rec{};
    rec.kind = kGet;
    rec.round = round;
    rec.call = vrt::stamp();
    auto res = ar.getUpdate();
    rec.ret = vrt::stamp();
    rec.ok = static_cast<bool>(res);
    if (!rec.ok && !always) return;
    rec.tag = rec.ok ? parsePayload(res.value()) : -1;
    log.push_back(rec);
  };
  auto doReq = [&](AR& ar, int round, std::vector<Rec>& log) {
    Rec rec{};
    rec.kind = kReq;
    rec.round = round;
    rec.call = vrt::stamp();
    ar.requestUpdate();
    rec.ret = vrt::stamp();
    log.push_back(rec);
  };
  auto body = [&](int t) {
    std::vector<Rec>& log = logs[static_cast<size_t>(t)];
    vrt::Rng r = vrt::caseRng(idx, 1000 + static_cast<uint64_t>(t));
    vrt::progress();
    for (int round = 0; round < s.rounds; ++round) {
      AR& ar = **ars[static_cast<size_t>(round)];
      barriers[static_cast<size_t>(round)]->arriveAndWait();
      for (long k = 0; k < s.opsPerThread; ++k) {
        if (t < s.consumers) {
          if (s.consumerRequests && r.chance(0.6)) doReq(ar, round, log);
          doGet(ar, round, log, false);
        } else if (t < s.consumers + s.producers) {
          if (s.producerChecksFirst && !ar.updateRequested()) {
            // nothing to do
          } else {
            Rec rec{};
            rec.kind = kEmplace;
            rec.round = round;
            rec.tag = static_cast<long>(round) * 100000000 + static_cast<long>(t) * 1000000 + k;
            std::string p = payloadFor(rec.tag);
            rec.call = vrt::stamp();
            rec.ok = ar.tryEmplaceUpdate(std::move(p));
            rec.ret = vrt::stamp();
            if (rec.ok) log.push_back(rec);
          }
        } else {
          doReq(ar, round, log);
        }
        if (r.chance(0.01)) std::this_thread::yield();
      }
      g_ops.fetch_add(s.opsPerThread, std::memory_order_relaxed);
      vrt::progress();
    }
  };
  std::vector<std::thread> th;
  for (int t = 0; t < nthreads; ++t) th.emplace_back(body, t);
  for (auto& t : th) t.join();
  vrt::hooksReset();
  // drain what is still stored
  for (int round = 0; round < s.rounds; ++round) doGet(**ars[static_cast<size_t>(round)], round, logs[static_cast<size_t>(nthreads)], false);

  long reported = 0;
  std::vector<std::vector<const Rec*>> byRound(static_cast<size_t>(s.rounds));
  for (auto& l : logs) {
    for (auto& rec : l) byRound[static_cast<size_t>(rec.round)].push_back(&rec);
  }
  for (int round = 0; round < s.rounds; ++round) checkHistory(byRound[static_cast<size_t>(round)], round, o, reported);
  return o;
}

} // namespace

void runC24() {
  const long n = vrt::g_args.getInt("n", vrt::thorough() ? 3000 : 160);
  vrt::setStateDumper(dumpState);
  for (long idx = 0; idx < n; ++idx) {
    if (!vrt::selected(idx)) continue;
    vrt::Rng r = vrt::caseRng(idx);
    Spec s;
    // multi-consumer scenarios are a fixed fifth of the cases
    s.consumers = (idx % 5) == 4 ? static_cast<int>(r.range(2, 3)) : 1;
    s.producers = static_cast<int>(r.range(1, 3));
    s.requesters = static_cast<int>(r.below(3));
    s.consumerRequests = s.requesters == 0 || r.chance(0.5);
    s.producerChecksFirst = r.chance(0.5);
    s.rounds = static_cast<int>(r.range(4, vrt::g_args.getInt("rounds", vrt::thorough() ? 40 : 16)));
    s.opsPerThread = r.range(50, vrt::g_args.getInt("ops", vrt::thorough() ? 2000 : 600));
    if (r.chance(0.5)) s.hookP = r.pick(std::vector<double>{0.02, 0.1, 0.5});
    std::string key = std::string(s.consumers == 1 ? "one-consumer" : "multi-consumer") + "/" + (s.producers == 1 ? "one-producer" : "multi-producer") + "/" +
        (s.requesters == 0 ? "consumer-requests" : (s.consumerRequests ? "mixed-requesters" : "separate-requesters"));
    vrt::caseBegin(idx, key, s.json());
    vrt::watchdogArm();
    Obs o = runCase(s, idx);
    vrt::watchdogDisarm();
    std::vector<std::string> cls;
    cls.push_back(s.consumers == 1 ? "one-consumer" : "multi-consumer");
    cls.push_back(s.producers == 1 ? "one-producer" : "multi-producer");
    cls.push_back(s.requesters == 0 ? "consumer-requests" : "separate-requesters");
    if (s.hookP > 0) cls.push_back("perturbed");
    if (o.successes >= 20) cls.push_back("many-updates");
    bool nt = o.successes >= 2 && o.returned >= 2;
    vrt::caseEnd(J().kv("roundsWithUpdates", o.roundsWithUpdates).kv("successes", o.successes).kv("returned", o.returned).kv("requests", o.requests).kv("violations", o.violations), nt ? s.json().str() : "", cls);
  }
}
