// C32 instantiations for trait combination inl-compact-full (see h_seq_cv_impl.h)
#include "h_seq_cv_impl.h"

HSEQ_CV_INSTANCE(t5_0, vrt::TrackedT<32>, "e32", true, false, kFullBufferAhead, "inl-compact-full")
HSEQ_CV_INSTANCE(t5_1, vrt::TrackedT<64>, "e64", true, false, kFullBufferAhead, "inl-compact-full")
HSEQ_CV_INSTANCE(t5_2, vrt::TrackedT<128>, "e128", true, false, kFullBufferAhead, "inl-compact-full")
