#pragma once
// Shared declarations for engine h_future: C18 (functor runs once, every getter sees the result),
// C19 (continuations and combinators respect readiness), C20 (timed waits).
#include <dispenso/completion_event.h>
#include <dispenso/future.h>
#include <dispenso/schedulable.h>
#include <dispenso/task_set.h>
#include <dispenso/thread_pool.h>

#include <algorithm>
#include <chrono>
#include <memory>
#include <string>
#include <thread>
#include <tuple>
#include <vector>

#include <unistd.h>

#include "verif_rt.h"

using vrt::J;
namespace V = dispenso::verif;

// What the calling thread is doing for the harness right now. Thread-local, so reading it inside a
// future's functor tells who ended up running the functor without any shared state.
enum Role : int {
  kRoleOther = 0, // pool worker / NewThreadInvoker thread
  kRoleWaiter = 1, // harness thread calling get/wait/wait_for/... on a copy
  kRoleCtor = 2, // harness thread inside the Future constructor / then() / when_*() call
  kRoleDrain = 3, // harness thread inside TaskSet::wait / pool teardown at the end of the case
  kRoleRunner = 4, // harness thread invoking a ManualInvoker slot
  kRoleRegistrar = 5, // harness thread registering continuations
};
extern thread_local int tl_role;
extern thread_local int tl_inTimedWait; // >0 while the thread is inside wait_for / wait_until

struct RoleScope {
  int prev;
  explicit RoleScope(int r) : prev(tl_role) {
    tl_role = r;
  }
  ~RoleScope() {
    tl_role = prev;
  }
};

// Result value: owns heap memory (a skipped destructor is an LSan leak in the asan configs) and a
// Tracked member (double destruction / use after destruction show up in the lifetime registry).
struct Payload {
  long tag;
  std::unique_ptr<long> heap;
  vrt::Tracked tr;
  explicit Payload(long t) : tag(t), heap(new long(t)), tr(t) {}
  Payload(Payload&& o) noexcept : tag(o.tag), heap(std::move(o.heap)), tr(std::move(o.tr)) {
    o.tag = -1;
  }
  Payload(const Payload& o) : tag(o.tag), heap(o.heap ? new long(*o.heap) : nullptr), tr(o.tr) {}
  Payload& operator=(const Payload&) = delete;
  bool sane(long expect) const {
    return tag == expect && heap && *heap == expect && tr.magic == vrt::Tracked::kAlive && tr.value == expect;
  }
};

struct CaseEx {
  long id;
};

// State every functor carries: heap + Tracked so that a functor that is never destroyed (or is
// destroyed twice) is visible.
struct FnGuts {
  std::unique_ptr<long> heap;
  vrt::Tracked tr;
  FnGuts() : heap(new long(7)), tr(7) {}
  FnGuts(FnGuts&&) = default;
  FnGuts(const FnGuts& o) : heap(new long(7)), tr(o.tr) {}
};

// A Schedulable that only stores what it is given; the harness decides when and where each stored
// function runs (the Future constructor accepts any type with schedule(f) / schedule(f, tag)).
// Distinct pre-sized slots + relaxed index: no locks, so it adds no happens-before edges.
struct ManualInvoker {
  static constexpr int kCap = 32;
  dispenso::OnceFunction slots[kCap];
  std::atomic<int> n{0};
  bool done[kCap] = {false}; // written by the (single) harness thread that runs the slot; read after join
  void schedule(dispenso::OnceFunction f) {
    int i = n.fetch_add(1, std::memory_order_relaxed);
    if (i < kCap) {
      slots[i] = std::move(f);
    } else {
      f();
    }
  }
  void schedule(dispenso::OnceFunction f, dispenso::ForceQueuingTag) {
    schedule(std::move(f));
  }
  int size() const {
    int v = n.load(std::memory_order_relaxed);
    return v < kCap ? v : kCap;
  }
  void run(int i) {
    done[i] = true;
    slots[i]();
  }
  // Runs every stored function that has not been run yet (call only when no other thread can be
  // inside run()); functions stored while this runs are picked up too.
  int runPending() {
    int k = 0;
    for (int i = 0; i < size(); ++i) {
      if (!done[i]) {
        run(i);
        ++k;
      }
    }
    return k;
  }
};

// Occupies every worker of a pool until released, so that work submitted meanwhile stays queued.
struct PoolGate {
  std::atomic<int> started{0};
  std::atomic<bool> open{false};
  int n = 0;
  void block(dispenso::ThreadPool& pool, int threads) {
    n = threads;
    for (int i = 0; i < threads; ++i) {
      pool.schedule(
          [this]() {
            started.fetch_add(1, std::memory_order_relaxed);
            while (!open.load(std::memory_order_relaxed)) {
              usleep(20);
            }
          },
          dispenso::ForceQueuingTag());
    }
    while (started.load(std::memory_order_relaxed) < threads) {
      usleep(20);
    }
    vrt::progress();
  }
  void release() {
    open.store(true, std::memory_order_relaxed);
  }
  bool active() const {
    return n > 0 && !open.load(std::memory_order_relaxed);
  }
};

static inline void applyPerturb(int level, bool spurious, bool prewait) {
  vrt::hooksReset();
  vrt::futexReset();
  if (level == 1) {
    vrt::hookProbAll(0.03);
    vrt::hookProb(V::kFutureRunAfterCas, 0.2);
    vrt::hookProb(V::kFutureRunAfterNotify, 0.2);
    vrt::hookProb(V::kFutureThenAfterReadyTest, 0.2);
    vrt::hookProb(V::kFutureThenAfterPush, 0.2);
    vrt::hookProb(V::kFutureDecRefBeforeDestroy, 0.1);
    vrt::hookProb(V::kEventBeforeFutexWait, 0.2);
  } else if (level == 2) {
    vrt::hookProbAll(0.1);
    vrt::hookProb(V::kFutureRunAfterCas, 0.6);
    vrt::hookProb(V::kFutureRunAfterNotify, 0.6);
    vrt::hookProb(V::kFutureThenAfterReadyTest, 0.6);
    vrt::hookProb(V::kFutureThenAfterPush, 0.6);
    vrt::hookProb(V::kFutureDecRefBeforeDestroy, 0.4);
    vrt::hookProb(V::kEventBeforeFutexWait, 0.6);
  }
  if (spurious) vrt::futexSpurious(0.25);
  if (prewait) vrt::futexPreWaitDelay(0.3, 200);
}
static inline void clearPerturb() {
  vrt::hooksReset();
  vrt::futexReset();
}

static inline const char* schedName(int s) {
  static const char* n[] = {"pool", "taskset", "ctaskset", "immediate", "newthread", "manual"};
  return n[s];
}
enum Sched : int { kSPool = 0, kSTaskSet = 1, kSCTaskSet = 2, kSImmediate = 3, kSNewThread = 4, kSManual = 5 };

static inline std::launch asyncPol(bool a) {
  return a ? std::launch::async : dispenso::kNotAsync;
}
static inline std::launch deferredPol(bool d) {
  return d ? std::launch::deferred : dispenso::kNotDeferred;
}

// Lifetime verdict shared by the engines: after every Future, pool, task set and helper thread of
// the case is gone, no tracked object may be alive and none may have been destroyed twice / used
// after destruction. Leaks are reported for C11 (by-catch), corrupted lifetimes for `prop`.
static inline bool lifeVerdict(const char* where) {
  auto& l = vrt::life();
  bool bad = false;
  if (l.destroyDead.load() || l.constructOverLive.load() || l.useDead.load()) {
    vrt::violation(std::string("tracked object destroyed twice / constructed over a live one / used after destruction (") + where + ")", vrt::lifeJson(), "lifetime");
    bad = true;
  }
  if (l.live() != 0) {
    vrt::violation(std::string("tracked objects still alive after the case was torn down (") + where + ")", vrt::lifeJson(), "leak", l.live() > 0 ? "C11" : nullptr);
    bad = bad || l.live() < 0;
  }
  return !bad;
}

void runC18(long base);
void runC19Then(long base, long n);
void runC19Comb(long base, long n);
void runC19Var(long base, long n);
void runC19Stress(long base, long n);
void runC20(long base);
