// Engine h_parfor: C12 (exact coverage), C13 (granularity contract), C14 (state exclusivity),
// C15 (for_each), C17 (static chunking arithmetic), C48 (maxThreads bound).
// The per-index-type instantiations of the call under test live in h_parfor_t<N>.cpp so that the
// engine compiles in parallel.
#include "h_parfor_common.h"

ChunkRec* g_log = new ChunkRec[kLogCap];
std::atomic<size_t> g_logN{0};
size_t g_logLimit = kLogCap;
std::atomic<long> g_inflight{0}, g_maxInflight{0};
std::atomic<long> g_stateOverlap{0};
static std::atomic<bool> g_storm{false};
std::atomic<int> g_dwellUs{0};
std::vector<std::atomic<int>>* g_elem = nullptr;
i128 g_elemStart = 0;
std::atomic<long> g_elemOutside{0};

void storm(const char* what) {
  bool exp = false;
  if (g_storm.compare_exchange_strong(exp, true)) {
    vrt::violation(std::string("body storm: ") + what, J().kv("invocations", g_logN.load()).kv("limit", g_logLimit));
    _exit(5);
  }
  for (;;) pause();
}

void resetMonitors(size_t limit, int dwellUs) {
  g_logN = 0;
  g_logLimit = std::min(limit, kLogCap - 1);
  g_inflight = 0;
  g_maxInflight = 0;
  g_stateOverlap = 0;
  g_dwellUs = dwellUs;
  g_elemOutside = 0;
}

static Obs runSpec(const Spec& s) {
  switch (s.type) {
    case 0: return runSpec_t0(s);
    case 1: return runSpec_t1(s);
    case 2: return runSpec_t2(s);
    case 3: return runSpec_t3(s);
    case 4: return runSpec_t4(s);
    case 5: return runSpec_t5(s);
    case 6: return runSpec_t6(s);
    default: return runSpec_t7(s);
  }
}

static i128 typeMin(int t) {
  switch (t) {
    case 0: return tmin<int8_t>();
    case 1: return 0;
    case 2: return tmin<int16_t>();
    case 3: return 0;
    case 4: return tmin<int32_t>();
    case 5: return 0;
    case 6: return tmin<int64_t>();
    default: return 0;
  }
}
static i128 typeMax(int t) {
  switch (t) {
    case 0: return tmax<int8_t>();
    case 1: return tmax<uint8_t>();
    case 2: return tmax<int16_t>();
    case 3: return tmax<uint16_t>();
    case 4: return tmax<int32_t>();
    case 5: return tmax<uint32_t>();
    case 6: return tmax<int64_t>();
    default: return tmax<uint64_t>();
  }
}

static std::string rangeClass(const Spec& s) {
  i128 size = s.end - s.start;
  std::string c;
  if (size == 0) return "empty";
  // near-max: a chunk-sized step past `end` could leave the type's range
  i128 margin = size > 100000 ? size : 100000;
  bool nearMax = typeMax(s.type) - s.end < margin;
  bool nearMin = typeMin(s.type) < 0 && s.start - typeMin(s.type) < 100000;
  if (size > (static_cast<i128>(1) << 40)) c = "huge";
  else c = "normal";
  if (nearMax) c += "+near-max";
  if (nearMin) c += "+near-min";
  return c;
}
static const char* typeClass(int t) {
  static const char* c[] = {"8", "8", "16", "16", "32", "32", "64", "64"};
  return c[t];
}

// Randomise the non-range axes.
static void fillOptions(vrt::Rng& r, Spec& s, bool allowElementwise) {
  i128 size = s.end - s.start;
  s.pool = static_cast<int>(r.range(0, 9));
  s.chunking = static_cast<int>(r.below(3));
  s.api = static_cast<int>(r.below(4));
  if (s.api == 2 && (!allowElementwise || size > 65536)) s.api = 0;
  if (s.api >= 2 && s.chunking == 2) s.chunking = static_cast<int>(r.below(2));
  if (s.chunking == 2) {
    i128 tm = typeMax(s.type);
    i128 choices[] = {1, 2, 3, 7, size, size + 1, size / 2 + 1, size / 3 + 1, tm - 1, 16};
    i128 c = choices[r.below(10)];
    if (c < 1) c = 1;
    if (c >= tm) c = tm - 1; // == max means "static" by the API's own encoding
    if (c < 1) c = 1;
    if (size / c > 100000) c = size / 1000 + 1;
    if (c >= tm) c = tm - 1;
    s.chunk = c;
  }
  long mts[] = {-1, -1, -1, 0, 1, 2, 3, s.pool, s.pool + 1, s.pool + 2};
  s.maxThreads = mts[r.below(10)];
  if (r.chance(0.05)) {
    long huge[] = {2147483647L, 2147483648L, 4294967295L};
    s.maxThreads = huge[r.below(3)];
  }
  s.minItems = r.chance(0.25) ? static_cast<unsigned>(r.range(2, 40)) : 1;
  s.gran = r.chance(0.3) ? static_cast<unsigned>(r.range(2, 64)) : 1;
  s.wait = !r.chance(0.3);
  s.reuse = r.chance(0.3);
  s.tsKind = static_cast<int>(r.below(2));
  s.ctx = r.chance(0.2) ? static_cast<int>(r.range(1, 2)) : 0;
  s.container = static_cast<int>(r.below(3));
  s.perturb = r.chance(0.3) ? 0.05 : 0.0;
}

static std::string c12Key(const Spec& s) {
  const char* ck[] = {"static", "adaptive", "explicit"};
  const char* ap[] = {"chunked", "stateful", "elementwise", "range"};
  std::string c = ck[s.chunking];
  // an explicit chunk so large that size + chunk leaves the 64-bit size type is its own scenario
  if (s.chunking == 2 && s.chunk > typeMax(s.type) - (s.end - s.start)) c += "-hugechunk";
  return c + "/" + typeClass(s.type) + "/" + ap[s.api] + "/" + (s.wait ? "wait" : "nowait") + "/" + rangeClass(s);
}

// ------------------------------------------------------------------ C12
static const i128 kTwo62 = static_cast<i128>(1) << 62;

static bool genWideRange(vrt::Rng& r, Spec& s) {
  // types 2..7, edge-biased
  s.type = static_cast<int>(r.range(2, 7));
  i128 lo = typeMin(s.type), hi = typeMax(s.type);
  i128 anchors[] = {lo, 0, hi};
  i128 sizes[] = {0, 1, 2, 3, 5, 8, 17, 64, 100, 1000, 1003, 4097, 65536, 70001, 1000003};
  i128 size;
  if (r.chance(0.8)) size = sizes[r.below(15)];
  else {
    int bits = static_cast<int>(r.range(20, 62));
    size = (static_cast<i128>(1) << bits) + static_cast<i128>(r.range(-3, 3));
  }
  if (size > hi - lo) size = hi - lo;
  if (size > kTwo62) size = kTwo62;
  i128 a = anchors[r.below(3)];
  i128 start;
  int mode = static_cast<int>(r.below(4));
  if (mode == 0) start = a - size + static_cast<i128>(r.range(-70000, 70000));  // ends near anchor
  else if (mode == 1) start = a + static_cast<i128>(r.range(-70000, 70000)); // starts near anchor
  else if (mode == 2) start = hi - size - static_cast<i128>(r.below(3)); // touches max
  else start = lo + static_cast<i128>(r.below(3)); // touches min
  if (start < lo) start = lo;
  if (start + size > hi) start = hi - size;
  s.start = start;
  s.end = start + size;
  return true;
}

static void checkAndReport(const Spec& s, const Obs& o, const char* forProp) {
  std::string p = forProp;
  if (p == "C12") {
    if (!o.partitionOk) vrt::violation("not an exact partition: " + o.partitionMsg, J().kv("spec", s.json()).kv("chunks", o.chunks));
    if (o.inflightAtReturn != 0) vrt::violation("bodies still running at return / after wait()", J().kv("inflight", o.inflightAtReturn), "completion");
  } else if (p == "C13") {
    if (s.gran > 1 && s.chunking != 2 && o.partitionOk) {
      if (o.nonMultiple > 1 || (o.nonMultiple == 1 && !o.nonMultipleEndsAtEnd)) {
        vrt::violation("granularity contract broken", J().kv("nonMultipleChunks", o.nonMultiple).kv("endsAtRangeEnd", o.nonMultipleEndsAtEnd).kv("spec", s.json()));
      }
    }
  } else if (p == "C14") {
    if (o.overlaps) vrt::violation("one state object used by two invocations at once", J().kv("overlaps", o.overlaps).kv("spec", s.json()));
  } else if (p == "C48") {
    long bound = s.maxThreads < 0 ? s.pool + 1 : std::max<long>(1, s.maxThreads);
    if (o.maxInflight > bound) vrt::violation("more concurrent body invocations than maxThreads", J().kv("max", o.maxInflight).kv("bound", bound).kv("spec", s.json()));
  }
}

static void runC12() {
  const bool th = vrt::thorough();
  const long pairSlots = 2 * 32896; // (type in {i8,u8}) x ordered pairs start<=end
  const long stride = vrt::g_args.getInt("stride", th ? 1 : 16);
  const long rot = th ? 3 : 1;
  const long blockA = (pairSlots / stride) * rot;
  const long blockB = vrt::g_args.getInt("wide", th ? 60000 : 3000);
  for (long idx = 0; idx < blockA + blockB; ++idx) {
    if (!vrt::selected(idx)) continue;
    vrt::Rng r = vrt::caseRng(idx);
    Spec s;
    if (idx < blockA) {
      long within = idx % (pairSlots / stride);
      long slot = within * stride + static_cast<long>(vrt::g_args.seed % static_cast<uint64_t>(stride));
      s.type = slot >= 32896 ? 1 : 0;
      long pi = slot % 32896;
      // enumerate pairs (a<=b) over 256 values: row a has 256-a entries
      long a = 0;
      while (pi >= 256 - a) {
        pi -= 256 - a;
        ++a;
      }
      long b = a + pi;
      s.start = typeMin(s.type) + a;
      s.end = typeMin(s.type) + b;
      // b ranges over a..a+(255-a) => end up to min+255 = max: ok
      if (s.end > typeMax(s.type)) s.end = typeMax(s.type);
    } else {
      genWideRange(r, s);
    }
    fillOptions(r, s, true);
    if (idx >= blockA && r.chance(0.12)) {
      // few items relative to the pool, called from a pool worker: the chunk count is clamped by the
      // range, and the caller's own ring index may lie beyond it
      s.ctx = 1;
      s.pool = static_cast<int>(r.range(2, 9));
      i128 sz = r.range(1, s.pool);
      if (s.start + sz <= typeMax(s.type)) s.end = s.start + sz;
      if (s.chunking == 2) s.chunk = 1 + static_cast<long>(r.below(3));
      if (s.api == 2) s.api = 0;
    }
    vrt::caseBegin(idx, c12Key(s), s.json());
    vrt::watchdogArm();
    Obs o = runSpec(s);
    vrt::watchdogDisarm();
    checkAndReport(s, o, "C12");
    bool nt = (s.end - s.start) >= 2 && o.chunks >= 2;
    std::vector<std::string> cls;
    cls.push_back(std::string("chunking:") + (s.chunking == 0 ? "static" : s.chunking == 1 ? "adaptive" : "explicit"));
    cls.push_back(std::string("type:") + kTypeNames[s.type]);
    if (!s.wait) cls.push_back("nowait");
    if (s.ctx) cls.push_back(s.ctx == 1 ? "from-pool-task" : "nested");
    if (s.pool == 0) cls.push_back("pool0");
    if (o.chunks >= 2) cls.push_back("split");
    vrt::caseEnd(J().kv("chunks", o.chunks).kv("ok", o.partitionOk).kv("maxInflight", o.maxInflight), nt ? s.sig() : "", cls);
  }
}

// ------------------------------------------------------------------ C13
static void runC13() {
  const long n = vrt::g_args.getInt("n", vrt::thorough() ? 60000 : 6000);
  for (long idx = 0; idx < n; ++idx) {
    if (!vrt::selected(idx)) continue;
    vrt::Rng r = vrt::caseRng(idx);
    Spec s;
    s.type = static_cast<int>(r.range(2, 7));
    fillOptions(r, s, false);
    s.gran = static_cast<unsigned>(r.range(2, 64));
    s.chunking = static_cast<int>(r.below(2));
    if (s.api == 2) s.api = 0;
    s.pool = static_cast<int>(r.range(1, 9));
    s.minItems = r.chance(0.2) ? static_cast<unsigned>(r.range(2, 40)) : 1;
    unsigned g = s.gran;
    long workers = s.pool + 1;
    long mult = r.range(0, 40);
    long base;
    switch (r.below(4)) {
      case 0: base = static_cast<long>(g) * mult; break;
      case 1: base = static_cast<long>(g) * workers * mult; break;
      case 2: base = r.range(0, 3000); break;
      default: base = static_cast<long>(g) * r.range(1, 2000); break;
    }
    long size = std::max<long>(0, base + r.range(-2, static_cast<long>(g)));
    i128 lo = typeMin(s.type), hi = typeMax(s.type);
    if (size > hi - lo) size = static_cast<long>(hi - lo);
    long start = r.range(-200, 200);
    if (r.chance(0.3)) start = r.range(0, 3) * static_cast<long>(g); // aligned starts
    if (start < lo) start = static_cast<long>(lo);
    if (static_cast<i128>(start) + size > hi) start = static_cast<long>(hi - size);
    s.start = start;
    s.end = static_cast<i128>(start) + size;
    bool aligned = (((start % static_cast<long>(g)) + g) % g) == 0;
    const char* ck[] = {"static", "adaptive"};
    std::string key = std::string(ck[s.chunking]) + "/g/" + (aligned ? "start-aligned" : "start-unaligned") + "/" + (s.wait ? "wait" : "nowait");
    vrt::caseBegin(idx, key, s.json());
    vrt::watchdogArm();
    Obs o = runSpec(s);
    vrt::watchdogDisarm();
    checkAndReport(s, o, "C13");
    if (!o.partitionOk) vrt::violation("not an exact partition: " + o.partitionMsg, J().kv("spec", s.json()), "", "C12");
    bool nt = o.chunks >= 2;
    std::vector<std::string> cls;
    cls.push_back(std::string("chunking:") + ck[s.chunking]);
    cls.push_back(aligned ? "start-aligned" : "start-unaligned");
    if (o.nonMultiple == 1) cls.push_back("tail-chunk-seen");
    if (!s.wait) cls.push_back("nowait");
    vrt::caseEnd(J().kv("chunks", o.chunks).kv("nonMultiple", o.nonMultiple), nt ? s.sig() : "", cls);
  }
}

// ------------------------------------------------------------------ C14 / C48 (dwelling bodies)
static void runC14orC48(const char* prop) {
  const bool is14 = std::string(prop) == "C14";
  const long n = vrt::g_args.getInt("n", vrt::thorough() ? 20000 : 2400);
  for (long idx = 0; idx < n; ++idx) {
    if (!vrt::selected(idx)) continue;
    vrt::Rng r = vrt::caseRng(idx);
    Spec s;
    s.type = static_cast<int>(r.range(4, 7));
    fillOptions(r, s, false);
    s.ctx = 0;
    s.pool = static_cast<int>(r.range(1, 9));
    // C14: a third of the calls are made by a worker of the same pool (the caller's ring index
    // selects which chunk / state the static path gives the calling thread)
    if (is14 && r.chance(0.33)) s.ctx = 1;
    if (is14) s.api = 1;
    else if (s.api == 2) s.api = static_cast<int>(r.below(2));
    if (s.api >= 2 && s.chunking == 2) s.chunking = 0;
    s.wait = !r.chance(0.5);
    s.gran = r.chance(0.6) ? static_cast<unsigned>(r.range(2, 16)) : 1;
    long size = r.range(1, 400);
    if (r.chance(0.5)) size = static_cast<long>(s.gran) * r.range(1, 40) + (r.chance(0.7) ? r.range(1, std::max<long>(1, s.gran - 1)) : 0);
    s.start = r.range(-50, 50);
    if (s.start < typeMin(s.type)) s.start = typeMin(s.type);
    s.end = s.start + size;
    if (s.chunking == 2) {
      s.chunk = std::max<long>(1, size / r.range(1, 20));
    }
    if (!is14) {
      long mts[] = {0, 1, 2, 3, s.pool, s.pool + 1, s.pool - 1, -1};
      s.maxThreads = mts[r.below(8)];
    }
    s.dwellUs = static_cast<int>(r.range(50, 250));
    // C48 only: an explicit chunk size on a range no larger than the pool (+ the caller) takes its own
    // branch of the thread-count computation; long dwells so that every allowed body overlaps
    bool smallExplicit = false;
    if (!is14 && s.pool >= 2 && r.chance(0.12)) {
      smallExplicit = true;
      s.chunking = 2;
      s.api = static_cast<int>(r.below(2));
      s.minItems = 1;
      s.gran = 1;
      size = r.range(2, s.pool + (s.wait ? 1 : 0));
      s.end = s.start + size;
      s.chunk = r.chance(0.7) ? 1 : 2;
      long mts[] = {0, 1, 2, 3};
      s.maxThreads = mts[r.below(4)];
      s.dwellUs = static_cast<int>(r.range(800, 2000));
    }
    bool tail = s.gran > 1 && s.chunking != 2 && (size % s.gran) != 0 && size > static_cast<long>(s.gran);
    const char* ck[] = {"static", "adaptive", "explicit"};
    const char* cont[] = {"vector", "deque", "list"};
    std::string key;
    if (is14) key = std::string(ck[s.chunking]) + "/" + (s.wait ? "wait" : "nowait") + "/" + (tail ? "tail" : "notail") + "/" + cont[s.container];
    else key = std::string("parfor/") + ck[s.chunking] + "/" + (s.wait ? "wait" : "nowait") + "/" + (tail ? "tail" : "notail");
    vrt::caseBegin(idx, key, s.json());
    vrt::watchdogArm();
    Obs o = runSpec(s);
    vrt::watchdogDisarm();
    checkAndReport(s, o, prop);
    if (!o.partitionOk) vrt::violation("not an exact partition: " + o.partitionMsg, J().kv("spec", s.json()), "", "C12");
    long bound = s.maxThreads < 0 ? s.pool + 1 : std::max<long>(1, s.maxThreads);
    std::vector<std::string> cls;
    cls.push_back(std::string("chunking:") + ck[s.chunking]);
    cls.push_back(s.wait ? "wait" : "nowait");
    if (tail) cls.push_back("tail");
    if (s.ctx == 1) cls.push_back("from-pool-worker");
    if (o.maxInflight >= 2) cls.push_back("concurrent-bodies");
    if (!is14 && o.maxInflight == bound && bound >= 2) cls.push_back("bound-reached");
    if (!is14 && (s.maxThreads == 0 || s.maxThreads == 1)) cls.push_back("serial-requested");
    if (smallExplicit) cls.push_back("explicit-small-range");
    bool nt = o.chunks >= 2 && (is14 ? true : true);
    vrt::caseEnd(J().kv("chunks", o.chunks).kv("maxInflight", o.maxInflight).kv("bound", bound).kv("overlaps", o.overlaps), nt ? s.sig() : "", cls);
  }
}

// ------------------------------------------------------------------ C48 for for_each + C15
template <typename Cont>
static void fillCont(Cont& c, long n);
template <>
void fillCont(std::vector<long>& c, long n) {
  for (long i = 0; i < n; ++i) c.push_back(i);
}
template <>
void fillCont(std::list<long>& c, long n) {
  for (long i = 0; i < n; ++i) c.push_back(i);
}
template <>
void fillCont(std::forward_list<long>& c, long n) {
  for (long i = n - 1; i >= 0; --i) c.push_front(i);
}

struct FeSpec {
  int cont = 0; // 0 vector 1 list 2 forward_list
  long total = 0, n = 0;
  bool useN = false; // for_each_n with n < total
  long maxThreads = -1;
  bool wait = true;
  int pool = 4;
  int tsKind = 0;
  int dwellUs = 0;
  J json() const {
    const char* c[] = {"vector", "list", "forward_list"};
    return J().kv("container", c[cont]).kv("total", total).kv("n", n).kv("for_each_n", useN).kv("maxThreads", maxThreads).kv("wait", wait).kv("pool", pool).kv("ts", tsKind ? "CTS" : "TS").kv("dwellUs", dwellUs);
  }
};
struct FeObs {
  long bad = 0, inflightAtReturn = 0, maxInflight = 0;
};

template <typename Cont, typename TS>
static FeObs runForEachT(const FeSpec& s) {
  FeObs o;
  std::vector<std::atomic<int>> counts(static_cast<size_t>(s.total));
  for (auto& c : counts) c.store(0);
  resetMonitors(static_cast<size_t>(s.total) + 2, s.dwellUs);
  Cont cont;
  fillCont(cont, s.total);
  {
    dispenso::ThreadPool pool(static_cast<size_t>(s.pool));
    TS ts(pool);
    dispenso::ForEachOptions opt;
    if (s.maxThreads >= 0) opt.maxThreads = static_cast<uint32_t>(s.maxThreads);
    opt.wait = s.wait;
    auto f = [&counts](long& v) {
      enterBody();
      if (g_logN.fetch_add(1, std::memory_order_relaxed) >= g_logLimit) storm("for_each applied more often than there are elements");
      counts[static_cast<size_t>(v)].fetch_add(1, std::memory_order_relaxed);
      leaveBody();
    };
    if (s.useN) dispenso::for_each_n(ts, cont.begin(), static_cast<size_t>(s.n), f, opt);
    else dispenso::for_each(ts, cont.begin(), cont.end(), f, opt);
    if (s.wait) o.inflightAtReturn = g_inflight.load();
    ts.wait();
    if (!s.wait) o.inflightAtReturn = g_inflight.load();
  }
  long expectN = s.useN ? s.n : s.total;
  for (long i = 0; i < s.total; ++i) {
    int c = counts[static_cast<size_t>(i)].load();
    if (c != (i < expectN ? 1 : 0)) ++o.bad;
  }
  o.maxInflight = g_maxInflight.load();
  return o;
}

static FeObs runForEach(const FeSpec& s) {
  if (s.tsKind == 0) {
    if (s.cont == 0) return runForEachT<std::vector<long>, dispenso::TaskSet>(s);
    if (s.cont == 1) return runForEachT<std::list<long>, dispenso::TaskSet>(s);
    return runForEachT<std::forward_list<long>, dispenso::TaskSet>(s);
  }
  if (s.cont == 0) return runForEachT<std::vector<long>, dispenso::ConcurrentTaskSet>(s);
  if (s.cont == 1) return runForEachT<std::list<long>, dispenso::ConcurrentTaskSet>(s);
  return runForEachT<std::forward_list<long>, dispenso::ConcurrentTaskSet>(s);
}

static FeSpec genForEach(vrt::Rng& r, bool dwell) {
  FeSpec s;
  s.cont = static_cast<int>(r.below(3));
  s.total = r.chance(0.05) ? 10000 : r.range(0, 130);
  s.useN = r.chance(0.4);
  s.n = s.useN ? r.range(0, s.total) : s.total;
  s.pool = static_cast<int>(r.range(0, 9));
  long mts[] = {-1, -1, 0, 1, 2, s.pool, s.pool + 1, 3};
  s.maxThreads = mts[r.below(8)];
  // the option is a uint32_t that the implementation narrows: values around the int32 limit and
  // the "no limit" spelling UINT32_MAX
  if (r.chance(0.08)) {
    long huge[] = {2147483647L, 2147483648L, 4294967295L, 4294967294L, 2147483649L};
    s.maxThreads = huge[r.below(5)];
  }
  s.wait = !r.chance(0.4);
  s.tsKind = static_cast<int>(r.below(2));
  s.dwellUs = dwell ? static_cast<int>(r.range(30, 150)) : 0;
  return s;
}

static std::string feKey(const FeSpec& s) {
  const char* c[] = {"random-access", "bidirectional", "forward"};
  std::string mt = s.maxThreads < 0 ? "mt-default" : s.maxThreads == 0 ? "mt0" : s.maxThreads == 1 ? "mt1" : s.maxThreads >= 2147483647L ? "mt-huge" : "mtN";
  return std::string(c[s.cont]) + "/" + (s.wait ? "wait" : "nowait") + "/" + (s.pool == 0 ? "pool0" : "poolN") + "/" + mt + "/" + (s.n == 0 ? "n0" : "nPos");
}

static void runC15() {
  const long n = vrt::g_args.getInt("n", vrt::thorough() ? 80000 : 8000);
  for (long idx = 0; idx < n; ++idx) {
    if (!vrt::selected(idx)) continue;
    vrt::Rng r = vrt::caseRng(idx);
    FeSpec s = genForEach(r, false);
    vrt::caseBegin(idx, feKey(s), s.json());
    vrt::watchdogArm();
    FeObs o = runForEach(s);
    vrt::watchdogDisarm();
    if (o.bad) vrt::violation("for_each application count wrong for " + std::to_string(o.bad) + " elements", J().kv("spec", s.json()));
    if (o.inflightAtReturn) vrt::violation("applications still running at return / after wait()", J().kv("inflight", o.inflightAtReturn), "completion");
    const char* c[] = {"random-access", "bidirectional", "forward"};
    std::vector<std::string> cls{std::string("iter:") + c[s.cont], s.wait ? "wait" : "nowait"};
    if (s.pool == 0) cls.push_back("pool0");
    if (s.useN) cls.push_back("for_each_n");
    if (s.maxThreads == 0 || s.maxThreads == 1) cls.push_back("serial-requested");
    if (s.maxThreads >= 2147483647L) cls.push_back("mt-huge");
    vrt::caseEnd(J().kv("n", s.n).kv("bad", o.bad).kv("maxInflight", o.maxInflight), s.n >= 2 ? s.json().str() : "", cls);
  }
}

static void runC48ForEach(long base, long n) {
  for (long k = 0; k < n; ++k) {
    long idx = base + k;
    if (!vrt::selected(idx)) continue;
    vrt::Rng r = vrt::caseRng(idx);
    FeSpec s = genForEach(r, true);
    if (s.total > 200) s.total = 200;
    if (s.n > s.total) s.n = s.total;
    s.pool = static_cast<int>(r.range(1, 9));
    std::string key = std::string("for_each/") + (s.wait ? "wait" : "nowait");
    vrt::caseBegin(idx, key, s.json());
    vrt::watchdogArm();
    FeObs o = runForEach(s);
    vrt::watchdogDisarm();
    long bound = s.maxThreads < 0 ? s.pool + 1 : std::max<long>(1, s.maxThreads);
    if (o.maxInflight > bound) vrt::violation("for_each ran more concurrent applications than maxThreads", J().kv("max", o.maxInflight).kv("bound", bound).kv("spec", s.json()));
    if (o.bad) vrt::violation("for_each application count wrong", J().kv("spec", s.json()), "", "C15");
    std::vector<std::string> cls{"for_each", s.wait ? "wait" : "nowait"};
    if (o.maxInflight >= 2) cls.push_back("concurrent-bodies");
    if (o.maxInflight == bound && bound >= 2) cls.push_back("bound-reached");
    if (s.maxThreads == 0 || s.maxThreads == 1) cls.push_back("serial-requested");
    vrt::caseEnd(J().kv("n", s.n).kv("maxInflight", o.maxInflight).kv("bound", bound), s.n >= 2 ? s.json().str() : "", cls);
  }
}

// ------------------------------------------------------------------ C17
struct C17Counts {
  unsigned long long evals = 0, nontrivial = 0;
};
static bool checkTriple(i128 items, i128 chunks, i128 g, C17Counts& cnt, std::string& why) {
  ++cnt.evals;
  if (items >= chunks * g && chunks >= 2) ++cnt.nontrivial;
  dispenso::detail::StaticChunking c = g == 1
      ? dispenso::detail::staticChunkSize(static_cast<ssize_t>(items), static_cast<ssize_t>(chunks))
      : dispenso::detail::staticChunkSizeGranular(static_cast<ssize_t>(items), static_cast<ssize_t>(chunks), static_cast<uint32_t>(g));
  i128 ceil = c.ceilChunkSize, trans = c.transitionTaskIndex;
  i128 small = ceil - g;
  if (trans < 0 || trans > chunks) {
    why = "transitionTaskIndex outside [0, chunks]";
    return false;
  }
  if (ceil < 0 || (trans < chunks && small < 0)) {
    why = "negative chunk size";
    return false;
  }
  if (ceil % g != 0) {
    why = "chunk size not a multiple of granularity";
    return false;
  }
  i128 sum = trans * ceil + (chunks - trans) * small;
  if (sum != items) {
    why = "chunk sizes sum to " + s128(sum) + " instead of " + s128(items);
    return false;
  }
  if (items > 0 && trans == 0) {
    why = "no chunk has the ceil size although items > 0";
    return false;
  }
  return true;
}

template <typename T>
static bool checkMapper(i128 start, i128 items, i128 chunks, i128 g, std::string& why) {
  // mirrors how parallel_for_staticImpl derives its mapper
  using size_type = typename dispenso::ChunkedRange<T>::size_type;
  dispenso::detail::StaticChunking c = g == 1
      ? dispenso::detail::staticChunkSize(static_cast<ssize_t>(items), static_cast<ssize_t>(chunks))
      : dispenso::detail::staticChunkSizeGranular(static_cast<ssize_t>(items), static_cast<ssize_t>(chunks), static_cast<uint32_t>(g));
  size_type numThreads = static_cast<size_type>(chunks);
  T chunkSize = static_cast<T>(c.ceilChunkSize);
  bool perfect = static_cast<size_type>(c.transitionTaskIndex) == numThreads;
  T step = static_cast<T>(g);
  T smallChunk = static_cast<T>(chunkSize - (perfect ? T{0} : step));
  dispenso::detail::StaticChunkMapper<T> m{numThreads, chunkSize, smallChunk,
                                          perfect ? numThreads : static_cast<size_type>(c.transitionTaskIndex),
                                          static_cast<T>(start), static_cast<T>(start + items)};
  i128 cur = start;
  for (size_type i = 0; i < numThreads; ++i) {
    auto be = m(i);
    if (static_cast<i128>(be.first) != cur) {
      why = "mapper chunk " + std::to_string(static_cast<unsigned long long>(i)) + " starts at " + s128(be.first) + " expected " + s128(cur);
      return false;
    }
    i128 expectSize = static_cast<i128>(i) < static_cast<i128>(c.transitionTaskIndex) ? static_cast<i128>(c.ceilChunkSize) : static_cast<i128>(c.ceilChunkSize) - g;
    if (static_cast<i128>(be.second) - static_cast<i128>(be.first) != expectSize) {
      why = "mapper chunk size mismatch at " + std::to_string(static_cast<unsigned long long>(i));
      return false;
    }
    cur = be.second;
  }
  if (cur != start + items) {
    why = "mapper ends at " + s128(cur);
    return false;
  }
  return true;
}

static void runC17() {
  const bool th = vrt::thorough();
  const long gs[] = {1, 2, 3, 4, 7, 8, 16, 64};
  const long maxChunks = 512;
  const long maxItems = th ? 4096 : 1024;
  // block A: exhaustive small box, one case per chunk count
  long idx = 0;
  for (long chunks = 1; chunks <= maxChunks; ++chunks, ++idx) {
    if (!vrt::selected(idx)) continue;
    vrt::caseBegin(idx, "box", J().kv("chunks", chunks).kv("maxItems", maxItems));
    C17Counts cnt;
    std::string why;
    long bad = 0;
    for (long gi = 0; gi < 8; ++gi) {
      long g = gs[gi];
      for (long units = 0; units * g <= maxItems; ++units) {
        long items = units * g;
        if (!checkTriple(items, chunks, g, cnt, why)) {
          if (!bad++) vrt::violation("static chunking arithmetic: " + why, J().kv("items", items).kv("chunks", chunks).kv("g", g));
        }
        if ((items % 5) == 0 && chunks <= items / std::max<long>(1, g) + 1 && items > 0 && chunks <= 127) {
          std::string w2;
          long st = (items % 3) - 1;
          bool ok = checkMapper<int32_t>(st, items, chunks, g, w2) && checkMapper<uint64_t>(st + 1, items, chunks, g, w2);
          if (items + st <= 32767 && items <= 32000) ok = ok && checkMapper<int16_t>(st, items, chunks, g, w2);
          if (!ok && !bad++) vrt::violation("StaticChunkMapper: " + w2, J().kv("items", items).kv("chunks", chunks).kv("g", g), "mapper");
        }
      }
    }
    vrt::caseEnd(J().kv("_evals", cnt.evals).kv("_nt", cnt.nontrivial).kv("bad", bad), "box/" + std::to_string(chunks), {"box"});
  }
  // block B: random 63-bit triples, edge biased
  const long blocks = th ? 400 : 64;
  const long per = th ? 25000 : 16000;
  for (long b = 0; b < blocks; ++b, ++idx) {
    if (!vrt::selected(idx)) continue;
    vrt::Rng r = vrt::caseRng(idx);
    vrt::caseBegin(idx, "random63", J().kv("block", b).kv("triples", per));
    C17Counts cnt;
    long bad = 0;
    std::string firstSample;
    for (long k = 0; k < per; ++k) {
      i128 g = r.chance(0.5) ? 1 : static_cast<i128>(r.chance(0.5) ? gs[r.below(8)] : r.range(2, 1 << 20));
      i128 chunks;
      switch (r.below(4)) {
        case 0: chunks = r.range(1, 64); break;
        case 1: chunks = (static_cast<i128>(1) << r.range(0, 40)) + r.range(-1, 1); break;
        case 2: chunks = r.range(1, 1000000); break;
        default: chunks = static_cast<i128>(r.next() >> r.range(1, 62)) + 1; break;
      }
      if (chunks < 1) chunks = 1;
      i128 lim = (static_cast<i128>(1) << 63) - 1;
      i128 units;
      switch (r.below(4)) {
        case 0: units = (static_cast<i128>(1) << r.range(0, 62)) + r.range(-2, 2); break;
        case 1: units = chunks * r.range(0, 1000) + r.range(-2, 2); break;
        case 2: units = static_cast<i128>(r.next() >> r.range(1, 63)); break;
        default: units = r.range(0, 100000); break;
      }
      if (units < 0) units = 0;
      // domain: everything the functions compute must fit ssize_t: (units + chunks) * g < 2^63
      if ((units + chunks) > lim / g) {
        units = lim / g - chunks - 1;
        if (units < 0) {
          chunks = 1;
          units = lim / g - 2;
        }
      }
      i128 items = units * g;
      std::string why;
      if (!checkTriple(items, chunks, g, cnt, why)) {
        if (!bad++) vrt::violation("static chunking arithmetic: " + why, J().kv("items", s128(items)).kv("chunks", s128(chunks)).kv("g", s128(g)), "random63");
      }
      if (k == 0) firstSample = s128(items) + "/" + s128(chunks) + "/" + s128(g);
    }
    vrt::caseEnd(J().kv("_evals", cnt.evals).kv("_nt", cnt.nontrivial).kv("bad", bad).kv("first", firstSample), "rnd/" + std::to_string(b), {"random63"});
  }
}

int main(int argc, char** argv) {
  vrt::init(argc, argv);
  const std::string& p = vrt::g_args.prop;
  if (p == "C12") runC12();
  else if (p == "C13") runC13();
  else if (p == "C14") runC14orC48("C14");
  else if (p == "C48") {
    runC14orC48("C48");
    long n = vrt::g_args.getInt("n", vrt::thorough() ? 20000 : 2400);
    runC48ForEach(n, n / 2);
  } else if (p == "C15") runC15();
  else if (p == "C17") runC17();
  else {
    fprintf(stderr, "h_parfor: unknown property %s\n", p.c_str());
    return 2;
  }
  return vrt::finish();
}
