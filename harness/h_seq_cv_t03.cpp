// C32 instantiations for trait combination inl-compact-asneeded (see h_seq_cv_impl.h)
#include "h_seq_cv_impl.h"

HSEQ_CV_INSTANCE(t3_0, vrt::TrackedT<32>, "e32", true, false, kAsNeeded, "inl-compact-asneeded")
HSEQ_CV_INSTANCE(t3_1, vrt::TrackedT<64>, "e64", true, false, kAsNeeded, "inl-compact-asneeded")
HSEQ_CV_INSTANCE(t3_2, vrt::TrackedT<128>, "e128", true, false, kAsNeeded, "inl-compact-asneeded")
