#include "h_parfor_impl.h"

Obs runSpec_t5(const Spec& s) {
  return runSpecT<uint32_t>(s);
}
