// C38 instantiations for element alignment 64 (see h_seq_sv_impl.h)
#include "h_seq_sv_impl.h"

HSEQ_SV_INSTANCE(a64_n1, vrt::TrackedT<64>, 1)
HSEQ_SV_INSTANCE(a64_n2, vrt::TrackedT<64>, 2)
HSEQ_SV_INSTANCE(a64_n4, vrt::TrackedT<64>, 4)
HSEQ_SV_INSTANCE(a64_n8, vrt::TrackedT<64>, 8)
HSEQ_SV_INSTANCE(a64_n64, vrt::TrackedT<64>, 64)
