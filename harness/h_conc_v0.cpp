#include "h_conc_vec_impl.h"
// ConcurrentVector instantiations for trait combinations 0 and 1 (x 4 element sizes)
VecOut runVec_t0(const VecSpec& s) {
  using Tr = VTraits<true, dispenso::ConcurrentVectorReallocStrategy::kFullBufferAhead, true>;
  switch (s.sizeIdx) {
    case 0: return runVecT<Tr, VElem<32>>(s);
    case 1: return runVecT<Tr, VElem<64>>(s);
    case 2: return runVecT<Tr, VElem<128>>(s);
    default: return runVecT<Tr, VElem<256>>(s);
  }
}
VecOut runVec_t1(const VecSpec& s) {
  using Tr = VTraits<true, dispenso::ConcurrentVectorReallocStrategy::kFullBufferAhead, false>;
  switch (s.sizeIdx) {
    case 0: return runVecT<Tr, VElem<32>>(s);
    case 1: return runVecT<Tr, VElem<64>>(s);
    case 2: return runVecT<Tr, VElem<128>>(s);
    default: return runVecT<Tr, VElem<256>>(s);
  }
}
