#pragma once
// Engine h_pipeline: C27 (exactly-once delivery through every stage), C28 (stage concurrency
// limits), C29 (exceptions: clean termination, rethrow, no duplicates, generator stops, no leaks,
// pool reusable).  Shared monitor state, item type and stage functors.  The pipeline template
// instantiations ("shapes") live in h_pipeline_s<N>.cpp so that the engine compiles in parallel.
//
// Monitor-lite rule: everything touched from inside stage functions is a relaxed atomic in a
// pre-sized array (or the calling thread's own item), so the same monitors are used under TSan.
#include <dispenso/pipeline.h>
#include <dispenso/task_set.h>
#include <dispenso/thread_pool.h>

#include <atomic>
#include <memory>
#include <optional>
#include <string>
#include <vector>

#include <unistd.h>

#include "verif_rt.h"

using vrt::J;
namespace V = dispenso::verif;

constexpr int kMaxStages = 5;
constexpr long kMaxTags = 1l << 17;
constexpr int kMaxThrowRecs = 1024;
constexpr long kPostThrowGenCap = 20000;

struct PipeErr {
  long id; // stage * 1000000 + tag
};

struct ThrowRec {
  std::atomic<uint64_t> stamp{0};
  std::atomic<long> id{-1};
};

struct Ctx {
  // ---- configuration of the running pipeline (written before the pipeline starts)
  int nStages = 0;
  long n = 0; // items the generator hands out (ignored when unbounded)
  bool unbounded = false;
  long limit[kMaxStages] = {1, 1, 1, 1, 1}; // as passed to stage(); plain functions: 1
  int dwellUs[kMaxStages] = {0, 0, 0, 0, 0};
  bool yieldInStage = false;
  uint32_t filtT[kMaxStages] = {0, 0, 0, 0, 0}; // 0..65536, only for filter-capable stages
  bool canFilter[kMaxStages] = {false, false, false, false, false};
  uint64_t salt = 0;
  // throw spec: stage k throws for tags in [throwLo[k], throwHi[k]] (hi < lo: never)
  long throwLo[kMaxStages] = {0, 0, 0, 0, 0};
  long throwHi[kMaxStages] = {-1, -1, -1, -1, -1};
  // slow tail: stage slowStage sleeps ~slowUs for tags >= slowFrom (-1: off)
  int slowStage = -1;
  long slowFrom = 0;
  int slowUs = 0;

  // ---- monitors
  std::atomic<long> next{0};
  std::atomic<long> inflight[kMaxStages], maxInflight[kMaxStages], calls[kMaxStages];
  std::atomic<long> gInflight{0}, gMax{0};
  std::atomic<long> chainBad{0}, chainBadTag{-1}, chainBadStage{-1}, chainBadWhat{0};
  std::atomic<long> late{0}, lateStage{-1};
  std::atomic<int> returned{0};
  std::atomic<long> payloadMade{0}, payloadDead{0};
  std::atomic<long> throwN{0};
  ThrowRec throwRecs[kMaxThrowRecs];
  std::atomic<long> postThrowGen{0};
  std::atomic<int> genNotStopped{0};
  std::atomic<long> tagOverflow{0};
};
extern Ctx g;
extern std::atomic<uint8_t>* g_cnt[kMaxStages]; // [stage][tag] invocation counts
extern std::atomic<uint8_t>* g_dead; // [tag] payload destructions

// value chain
static inline uint64_t chainV0(long tag) {
  return vrt::mix(g.salt, static_cast<uint64_t>(tag) + 1);
}
static inline uint64_t chainStep(uint64_t v, int k) {
  return vrt::mix(v, static_cast<uint64_t>(k) * 0x9E37u + 11);
}
static inline uint64_t chainAfter(long tag, int k) { // value an item carries after stage k
  uint64_t v = chainV0(tag);
  for (int i = 1; i <= k; ++i) v = chainStep(v, i);
  return v;
}
static inline bool filteredAt(int k, long tag) {
  if (!g.canFilter[k] || !g.filtT[k]) return false;
  return (vrt::mix(g.salt ^ (0x51EDull * static_cast<uint64_t>(k + 1)), static_cast<uint64_t>(tag)) & 0xFFFF) < g.filtT[k];
}
static inline bool throwsAt(int k, long tag) {
  return tag >= g.throwLo[k] && tag <= g.throwHi[k];
}

struct Payload {
  long tag;
  long hops = 0; // plain field, written by every stage: an unsynchronised hand-off is a TSan race
  char pad[40];
  explicit Payload(long t) : tag(t) {
    pad[0] = 0;
    g.payloadMade.fetch_add(1, std::memory_order_relaxed);
  }
  ~Payload() {
    g.payloadDead.fetch_add(1, std::memory_order_relaxed);
    if (tag >= 0 && tag < kMaxTags) g_dead[tag].fetch_add(1, std::memory_order_relaxed);
  }
  Payload(const Payload&) = delete;
  Payload& operator=(const Payload&) = delete;
};

struct Item {
  long tag = -1;
  uint64_t value = 0;
  int lastStage = -1;
  std::unique_ptr<Payload> p;
  Item() = default;
  Item(long t, uint64_t v, int ls, std::unique_ptr<Payload> pp) : tag(t), value(v), lastStage(ls), p(std::move(pp)) {}
  Item(Item&&) = default;
  Item& operator=(Item&&) = default;
  Item(const Item&) = delete;
  Item& operator=(const Item&) = delete;
};

void genStorm(); // reports "generator not stopped" once

struct InflightScope {
  int k;
  explicit InflightScope(int kk) : k(kk) {
    long now = g.inflight[k].fetch_add(1, std::memory_order_relaxed) + 1;
    long mx = g.maxInflight[k].load(std::memory_order_relaxed);
    while (now > mx && !g.maxInflight[k].compare_exchange_weak(mx, now, std::memory_order_relaxed)) {
    }
    long gn = g.gInflight.fetch_add(1, std::memory_order_relaxed) + 1;
    long gm = g.gMax.load(std::memory_order_relaxed);
    while (gn > gm && !g.gMax.compare_exchange_weak(gm, gn, std::memory_order_relaxed)) {
    }
    g.calls[k].fetch_add(1, std::memory_order_relaxed);
    if (g.returned.load(std::memory_order_relaxed)) {
      g.late.fetch_add(1, std::memory_order_relaxed);
      g.lateStage.store(k, std::memory_order_relaxed);
    }
  }
  ~InflightScope() {
    g.gInflight.fetch_sub(1, std::memory_order_relaxed);
    g.inflight[k].fetch_sub(1, std::memory_order_relaxed);
    vrt::progress();
  }
};

static inline void dwell(int k, long tag) {
  int d = g.dwellUs[k];
  if (d) {
    // jitter 50..150 %
    int j = d / 2 + static_cast<int>(vrt::mix(g.salt + 77, static_cast<uint64_t>(tag) * 8 + static_cast<uint64_t>(k)) % static_cast<uint64_t>(d + 1));
    vrt::spinFor(j);
  }
  if (g.yieldInStage && ((tag + k) & 3) == 0) std::this_thread::yield();
  if (k == g.slowStage && tag >= g.slowFrom && g.slowUs > 0) {
    // 60..140 % so that two slow items do not finish in lock-step
    int us = g.slowUs * 6 / 10 + static_cast<int>(vrt::mix(g.salt + 991, static_cast<uint64_t>(tag)) % static_cast<uint64_t>(g.slowUs * 8 / 10 + 1));
    usleep(static_cast<useconds_t>(us));
  }
}

static inline void chainFail(int k, long tag, long what) {
  if (g.chainBad.fetch_add(1, std::memory_order_relaxed) == 0) {
    g.chainBadTag.store(tag, std::memory_order_relaxed);
    g.chainBadStage.store(k, std::memory_order_relaxed);
    g.chainBadWhat.store(what, std::memory_order_relaxed);
  }
}

static inline void doThrow(int k, long tag) {
  long id = static_cast<long>(k) * 1000000 + tag;
  long i = g.throwN.fetch_add(1, std::memory_order_relaxed);
  if (i < kMaxThrowRecs) {
    g.throwRecs[i].id.store(id, std::memory_order_relaxed);
    g.throwRecs[i].stamp.store(vrt::stamp(), std::memory_order_relaxed);
  }
  throw PipeErr{id};
}

// Common body of transform / sink stage k (k >= 1). Returns false if the item is to be filtered.
static inline bool stageBody(int k, Item& it) {
  InflightScope sc(k);
  long tag = it.tag;
  if (tag < 0 || tag >= kMaxTags) {
    chainFail(k, tag, 1);
    return false;
  }
  g_cnt[k][tag].fetch_add(1, std::memory_order_relaxed);
  if (it.value != chainAfter(tag, k - 1)) chainFail(k, tag, 2);
  if (it.lastStage != k - 1) chainFail(k, tag, 3);
  if (!it.p || it.p->tag != tag) {
    chainFail(k, tag, 4);
  } else {
    it.p->hops++;
    if (it.p->hops != k) chainFail(k, tag, 5);
  }
  dwell(k, tag);
  if (throwsAt(k, tag)) doThrow(k, tag);
  it.value = chainStep(it.value, k);
  it.lastStage = k;
  return !filteredAt(k, tag);
}

// Body of a sink that takes its input by const reference: the item (and its payload) is still owned
// by the pipeline's closure while the stage runs and when it throws.
static inline void stageBodyConst(int k, const Item& it) {
  InflightScope sc(k);
  long tag = it.tag;
  if (tag < 0 || tag >= kMaxTags) {
    chainFail(k, tag, 1);
    return;
  }
  g_cnt[k][tag].fetch_add(1, std::memory_order_relaxed);
  if (it.value != chainAfter(tag, k - 1)) chainFail(k, tag, 2);
  if (it.lastStage != k - 1) chainFail(k, tag, 3);
  if (!it.p || it.p->tag != tag) {
    chainFail(k, tag, 4);
  } else {
    it.p->hops++;
    if (it.p->hops != k) chainFail(k, tag, 5);
  }
  dwell(k, tag);
  if (throwsAt(k, tag)) doThrow(k, tag);
}

// Generator body. Returns false when exhausted.
static inline bool genBody(Item& out) {
  InflightScope sc(0);
  if (g.throwN.load(std::memory_order_relaxed) > 0) {
    long pt = g.postThrowGen.fetch_add(1, std::memory_order_relaxed);
    if (pt > 1000) usleep(200); // give the thrower's thread every chance to publish the exception
    if (pt > kPostThrowGenCap) {
      genStorm();
      return false;
    }
  }
  long t = g.next.fetch_add(1, std::memory_order_relaxed);
  if (t >= kMaxTags - 1) {
    g.tagOverflow.fetch_add(1, std::memory_order_relaxed);
    return false;
  }
  if (t >= g.n) return false; // 'unbounded' generators get a far-away n as a safety net
  g_cnt[0][t].fetch_add(1, std::memory_order_relaxed);
  dwell(0, t);
  if (throwsAt(0, t)) doThrow(0, t);
  out = Item(t, chainV0(t), 0, std::unique_ptr<Payload>(new Payload(t)));
  return true;
}

struct GenOpt {
  std::optional<Item> operator()() {
    Item it;
    if (!genBody(it)) return std::nullopt;
    return std::optional<Item>(std::move(it));
  }
};
struct GenOp {
  dispenso::OpResult<Item> operator()() {
    Item it;
    if (!genBody(it)) return dispenso::OpResult<Item>();
    return dispenso::OpResult<Item>(std::move(it));
  }
};
struct XVal {
  int k;
  Item operator()(Item in) {
    stageBody(k, in); // value transforms cannot filter
    return in;
  }
};
struct XOpt {
  int k;
  std::optional<Item> operator()(Item in) {
    if (!stageBody(k, in)) return std::nullopt;
    return std::optional<Item>(std::move(in));
  }
};
struct XOp {
  int k;
  dispenso::OpResult<Item> operator()(Item in) {
    if (!stageBody(k, in)) return dispenso::OpResult<Item>();
    return dispenso::OpResult<Item>(std::move(in));
  }
};
struct Sink {
  int k;
  void operator()(Item in) {
    stageBody(k, in);
  }
};
// const-reference sink and rvalue-reference transform: nothing is moved out of the pipeline's
// closure before a throw
struct SinkCR {
  int k;
  void operator()(const Item& in) {
    stageBodyConst(k, in);
  }
};
struct XValRR {
  int k;
  Item operator()(Item&& in) {
    stageBody(k, in); // may throw: `in` still lives in the caller's closure
    return std::move(in);
  }
};
struct Single {
  bool operator()() {
    InflightScope sc(0);
    long t = g.next.fetch_add(1, std::memory_order_relaxed);
    if (t >= kMaxTags - 1 || t >= g.n) return false;
    g_cnt[0][t].fetch_add(1, std::memory_order_relaxed);
    dwell(0, t);
    if (throwsAt(0, t)) doThrow(0, t);
    return true;
  }
};

// ------------------------------------------------------------------ shapes
// kind per stage: 'g' GenOpt, 'r' GenOp (OpResult), 'v' XVal, 'o' XOpt, 'p' XOp (OpResult), 's' Sink, 'x' Single,
// 'c' SinkCR (const Item&), 'w' XValRR (Item&&)
// upper case = wrapped with dispenso::stage(f, limit); lower case = passed as a plain function (serial).
struct ShapeInfo {
  const char* code; // e.g. "GvS"
};
extern const ShapeInfo kShapes[];
extern const int kNumShapes;
// Runs shape `shape` on `pool` with the limits in g.limit[]. Exceptions propagate.
void runShape(int shape, dispenso::ThreadPool& pool);
void runShapes_g0(int shape, dispenso::ThreadPool& pool);
void runShapes_g1(int shape, dispenso::ThreadPool& pool);
void runShapes_g2(int shape, dispenso::ThreadPool& pool);
void runShapes_g3(int shape, dispenso::ThreadPool& pool);
void runShapes_g4(int shape, dispenso::ThreadPool& pool);
void runShapes_g5(int shape, dispenso::ThreadPool& pool);
void runShapes_g6(int shape, dispenso::ThreadPool& pool);
