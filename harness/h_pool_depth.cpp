// Engine h_pool, C02 class "inline-depth-cap": recursion that really nests inline past
// detail::kMaxInlineDepth on a pool thread of an overloaded pool, then schedules slow leaves (and the rest of
// the chain) through the "cannot inline any more, must queue" branches of ConcurrentTaskSet::schedule /
// schedulePlaced / scheduleBulkImpl* / ThreadPool::schedule. Oracle: the usual barrier (done == sched after
// wait / tryWait()==true / destructor), tryWait(0) polled by the owner while leaves run, exactly-once counts.
#include <new>

#include "h_pool_run.h"

using dispenso::ConcurrentTaskSet;
using dispenso::TaskSet;
using dispenso::ThreadPool;
using dispenso::detail::PerPoolPerThreadInfo;

namespace {
DepthSpec D; // written before any task of the case is scheduled
int D_ownerOrd = -1; // TaskSet variant: ordinal of the owning (pool) thread, written by the owner before it schedules
std::atomic<long> d_maxNest{0}, d_maxDepth{0}, d_capHits{0}, d_tw0Polls{0}, d_tw0True{0};
std::atomic<int> d_ownerDone{0};

void atomicMax(std::atomic<long>& a, long v) {
  long cur = a.load(std::memory_order_relaxed);
  while (v > cur && !a.compare_exchange_weak(cur, v, std::memory_order_relaxed)) {
  }
}

void intoSet(SetMon* m, const Task& t) {
  if (m->kind == 1) subTs(*static_cast<TaskSet*>(m->set), t);
  else subTs(*static_cast<ConcurrentTaskSet*>(m->set), t);
}
// one scheduleBulk(n, gen) call: product 0 is the next chain level, the others are quick side leaves
template <typename TS>
void chainBulkT(TS& ts, SetMon* m, uint32_t base, uint32_t n, const Task& parent) {
  SubmitScope sc(base, base + n, false);
  uint16_t k = static_cast<uint16_t>(parent.k - 1), dep = static_cast<uint16_t>(parent.depth + 1);
  uint32_t pid = parent.id;
  ts.scheduleBulk(n, [=](size_t i) {
    return i == 0 ? mkTask(base, A_CHAIN, F_CHILD, k, 0, m, pid, dep)
                  : mkTask(base + static_cast<uint32_t>(i), A_NONE, F_CHILD, 0, 30, m, pid, dep);
  });
}
void chainBulk(SetMon* m, uint32_t base, uint32_t n, const Task& parent) {
  if (m->kind == 1) chainBulkT(*static_cast<TaskSet*>(m->set), m, base, n, parent);
  else chainBulkT(*static_cast<ConcurrentTaskSet*>(m->set), m, base, n, parent);
}
} // namespace

J DepthSpec::json() const {
  return J().kv("N", N).kv("set", setKind).kv("via", via ? "bulk" : "schedule").kv("bulkN", bulkN).kv("chainLen", chainLen).kv("leaves", leaves)
      .kv("leafDwellUs", leafDwellUs).kv("stealMult", stealMult).kv("fillers", fillers).kv("finish", finish);
}

// One level of the chain. k = levels still to go.
void runChain(const Task& t) {
  if (t.flags & F_ROOT) {
    while (g.phase.load(std::memory_order_relaxed) < 1) dispenso::detail::cpuRelax(); // until the fillers are queued
  }
  int nest = ++tl.chainNest;
  atomicMax(d_maxNest, nest);
  atomicMax(d_maxDepth, PerPoolPerThreadInfo::inlineDepth());
  SetMon* m = t.note;
  // a TaskSet may only be used by its owner thread: a level that was queued and runs elsewhere stops there
  bool mayUse = m && m->set && (m->kind != 1 || vrt::threadOrdinal() == D_ownerOrd);
  if (mayUse) {
    if (!PerPoolPerThreadInfo::canInlineSchedule()) {
      // at the cap: everything scheduled from here has to take the must-queue branches
      d_capHits.fetch_add(1, std::memory_order_relaxed);
      g.phasedKidQueued.store(1, std::memory_order_relaxed);
      for (int i = 0; i < D.leaves; ++i) {
        m->sched.fetch_add(1, std::memory_order_relaxed);
        uint32_t b = newIds(1);
        intoSet(m, mkTask(b, A_NONE, F_CHILD, 0, static_cast<uint16_t>(D.leafDwellUs), m, t.id, static_cast<uint16_t>(t.depth + 1)));
      }
    }
    if (t.k > 0) {
      if (D.via == 0) {
        m->sched.fetch_add(1, std::memory_order_relaxed);
        uint32_t b = newIds(1);
        intoSet(m, mkTask(b, A_CHAIN, F_CHILD, static_cast<uint16_t>(t.k - 1), 0, m, t.id, static_cast<uint16_t>(t.depth + 1)));
      } else {
        uint32_t n = static_cast<uint32_t>(D.bulkN);
        m->sched.fetch_add(n, std::memory_order_relaxed);
        uint32_t b = newIds(n);
        chainBulk(m, b, n, t);
      }
    }
  }
  --tl.chainNest;
}

// TaskSet variant: this pool task owns the set, starts the chain in it, polls tryWait(0) and finishes.
void runTsChainOwner(const Task& t) {
  while (g.phase.load(std::memory_order_relaxed) < 1) dispenso::detail::cpuRelax();
  SetMon mon;
  mon.kind = 1;
  {
    TaskSet ts(*g.pool, static_cast<ssize_t>(D.stealMult));
    mon.set = &ts;
    D_ownerOrd = vrt::threadOrdinal();
    mon.sched.fetch_add(1, std::memory_order_relaxed);
    uint32_t b = newIds(1);
    subTs(ts, mkTask(b, A_CHAIN, 0, static_cast<uint16_t>(D.chainLen), 0, &mon, t.id, 1));
    // nothing can have completed the set while leaves are queued behind this thread
    for (int i = 0; i < 20; ++i) {
      bool r;
      {
        WaitScope w;
        r = ts.tryWait(0);
      }
      d_tw0Polls.fetch_add(1, std::memory_order_relaxed);
      if (r) {
        d_tw0True.fetch_add(1, std::memory_order_relaxed);
        checkBarrier(mon, 2);
        break;
      }
    }
    if (D.finish == 0) {
      {
        WaitScope w;
        ts.wait();
      }
      checkBarrier(mon, 1);
    } else if (D.finish == 1) {
      for (;;) {
        bool r;
        {
          WaitScope w;
          r = ts.tryWait(3);
        }
        if (r) break;
        sched_yield();
      }
      checkBarrier(mon, 2);
    }
    ++tl.inWait;
  }
  --tl.inWait;
  checkBarrier(mon, 3);
  d_ownerDone.store(1, std::memory_order_relaxed);
}

DepthObs runDepthCap(const DepthSpec& s) {
  DepthObs o;
  monReset();
  D = s;
  D_ownerOrd = -1;
  d_maxNest = 0;
  d_maxDepth = 0;
  d_capHits = 0;
  d_tw0Polls = 0;
  d_tw0True = 0;
  d_ownerDone = 0;
  ThreadPool* pool = new ThreadPool(static_cast<size_t>(s.N), 32);
  g.pool = pool;
  vrt::progress();
  int gates = s.N - 1;
  for (int i = 0; i < gates; ++i) {
    uint32_t id = newIds(1);
    subPoolFQ(*pool, mkTask(id, A_GATE, static_cast<uint8_t>(F_GATE | F_FQ), 0, 0, nullptr, kNoParent, 0));
  }
  while (g.gatesStarted.load(std::memory_order_relaxed) < gates) usleep(50);
  vrt::progress();

  alignas(64) unsigned char ctsBuf[sizeof(ConcurrentTaskSet)];
  ConcurrentTaskSet* cts = nullptr;
  SetMon& mon = g.ctsMon;
  if (s.setKind >= 2) {
    cts = new (ctsBuf) ConcurrentTaskSet(*pool, s.setKind == 2 ? dispenso::TaskCost::kHeavy : dispenso::TaskCost::kLightweight, static_cast<ssize_t>(s.stealMult));
    mon.set = cts;
    mon.kind = s.setKind;
    mon.sched.fetch_add(1, std::memory_order_relaxed);
    uint32_t b = newIds(1);
    // force-queued: the root has to start on a pool thread
    subTsFQ(*cts, mkTask(b, A_CHAIN, static_cast<uint8_t>(F_ROOT | F_FQ), static_cast<uint16_t>(s.chainLen), 0, &mon, kNoParent, 0));
  } else {
    uint32_t b = newIds(1);
    subPoolFQ(*pool, mkTask(b, A_TS_CHAIN_OWNER, F_FQ, 0, 0, nullptr, kNoParent, 0));
  }
  // fillers keep workRemaining_ above numThreads * 1.5 while the chain runs (nobody else dequeues: the other
  // workers are gated, the owner only polls tryWait(0))
  for (int i = 0; i < s.fillers; ++i) {
    uint32_t b = newIds(1);
    subPoolFQ(*pool, mkTask(b, A_NONE, F_FQ, 0, 0, nullptr, kNoParent, 0));
  }
  g.phase.store(1, std::memory_order_relaxed);

  if (cts) {
    long after = 0;
    for (long i = 0; i < 400000; ++i) {
      bool r;
      {
        WaitScope w;
        r = cts->tryWait(0);
      }
      d_tw0Polls.fetch_add(1, std::memory_order_relaxed);
      if (r) {
        d_tw0True.fetch_add(1, std::memory_order_relaxed);
        checkBarrier(mon, 2);
        break;
      }
      if (g.phasedKidQueued.load(std::memory_order_relaxed) && ++after >= 40) break;
      usleep(100);
      if ((i & 511) == 511) vrt::progress();
    }
    g.release.store(1, std::memory_order_relaxed);
    if (s.finish == 0) {
      {
        WaitScope w;
        cts->wait();
      }
      checkBarrier(mon, 1);
    } else if (s.finish == 1) {
      for (;;) {
        bool r;
        {
          WaitScope w;
          r = cts->tryWait(2);
        }
        if (r) break;
        // leaves may still be running elsewhere: tryWait(0) must keep saying no until they are done
        sched_yield();
      }
      checkBarrier(mon, 2);
    }
    ++tl.inWait;
    cts->~ConcurrentTaskSet();
    --tl.inWait;
    checkBarrier(mon, 3);
  } else {
    for (long i = 0; i < 400000 && !g.phasedKidQueued.load(std::memory_order_relaxed) && !d_ownerDone.load(std::memory_order_relaxed); ++i) {
      usleep(100);
      if ((i & 511) == 511) vrt::progress();
    }
    g.release.store(1, std::memory_order_relaxed);
    while (!d_ownerDone.load(std::memory_order_relaxed)) usleep(100); // under the watchdog
  }
  vrt::progress();
  g.poolDying.store(true, std::memory_order_relaxed);
  ++tl.inDtor;
  delete pool;
  --tl.inDtor;
  g.poolDead.store(true, std::memory_order_relaxed);
  vrt::progress();
  o.maxNest = d_maxNest.load();
  o.maxInlineDepth = d_maxDepth.load();
  o.capHits = d_capHits.load();
  o.tryWait0Polls = d_tw0Polls.load();
  o.tryWait0True = d_tw0True.load();
  // CaseObs via the shared collector
  extern void collectCounts(CaseObs&);
  collectCounts(o.c);
  g.pool = nullptr;
  monRemember();
  return o;
}
