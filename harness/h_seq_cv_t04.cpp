// C32 instantiations for trait combination inl-compact-half (see h_seq_cv_impl.h)
#include "h_seq_cv_impl.h"

HSEQ_CV_INSTANCE(t4_0, vrt::TrackedT<32>, "e32", true, false, kHalfBufferAhead, "inl-compact-half")
HSEQ_CV_INSTANCE(t4_1, vrt::TrackedT<64>, "e64", true, false, kHalfBufferAhead, "inl-compact-half")
HSEQ_CV_INSTANCE(t4_2, vrt::TrackedT<128>, "e128", true, false, kHalfBufferAhead, "inl-compact-half")
