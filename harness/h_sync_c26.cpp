// C26 — TimedTask run count, cancellation and teardown.
//
// Monitor: every invocation of the user function takes a slot in an invocation log (start stamp,
// end stamp, dispenso::getTime() at entry) and maintains an in-flight counter. Checked:
//  * invocations <= timesToRun; invocations that start after the function returned false are
//    bounded by the number of wrappers that can be past their cancelled-test at that moment
//    (0 for ImmediateInvoker and a one-thread pool, N-1 for an N-thread pool);
//  * no invocation earlier than the first scheduled time (same clock as the scheduler: getTime());
//  * cancel(): only in scenarios where the test-then-call window is closed by construction:
//    (a) cancel() returned (by getTime()) before the next kick-off can be due, (b) every pool
//    worker is occupied by a harness task until cancel() has returned;
//  * a non-detached destructor returns with nothing in flight and nothing starts afterwards.
// Two scripted scenarios park the scheduler thread at the hook between the cancelled test and the
// inProgress increment while (1) the TimedTask is destroyed, (2) a running invocation returns false.
#include <dispenso/schedulable.h>
#include <dispenso/thread_pool.h>
#include <dispenso/timed_task.h>

#include "h_sync_common.h"

namespace {

constexpr long kMaxInv = 4096;
struct Inv {
  uint64_t startStamp = 0, endStamp = 0;
  double t = 0;
};
Inv g_inv[kMaxInv];
std::atomic<long> g_started{0}, g_finished{0}, g_inflight{0}, g_maxInflight{0}, g_deadFunctor{0};
std::atomic<uint64_t> g_falseStamp{0};
std::atomic<int> g_gateSeen{0}, g_gateArmed{0};

struct FnCfg {
  long falseAt = -1; // invocation index (0-based) from which the function returns false
  int dwellUs = 0;
  int mode = 0; // 1: invocations arm the gate at the cancelled-test site, wait until a later kick-off is parked there, then return false
};
FnCfg g_cfg;

struct Canary {
  static constexpr uint32_t kAlive = 0xCA11AB1Eu;
  uint32_t magic = kAlive;
  std::unique_ptr<long> heap{new long(26)};
  ~Canary() {
    magic = 0xDEAD;
  }
};

struct Fn {
  std::shared_ptr<Canary> canary;
  bool operator()() const {
    long k = g_started.fetch_add(1, std::memory_order_relaxed);
    uint64_t st = vrt::stamp();
    double t = dispenso::getTime();
    long now = g_inflight.fetch_add(1, std::memory_order_relaxed) + 1;
    long mx = g_maxInflight.load(std::memory_order_relaxed);
    while (now > mx && !g_maxInflight.compare_exchange_weak(mx, now, std::memory_order_relaxed)) {
    }
    if (k >= kMaxInv - 1) {
      vrt::violation("runaway: the timed function keeps being invoked", J().kv("invocations", k + 1), "storm");
      _exit(5);
    }
    g_inv[k].startStamp = st;
    g_inv[k].t = t;
    if (canary->magic != Canary::kAlive) g_deadFunctor.fetch_add(1, std::memory_order_relaxed);
    if (g_cfg.mode == 1) {
      // the first invocation to get here arms the gate (its own kick-off has left the site by now);
      // every invocation then waits until a later kick-off is parked there, and only then returns false
      if (!g_gateArmed.exchange(1, std::memory_order_relaxed)) vrt::gateArm(V::kTimedAfterCancelTest);
      bool seen = vrt::gateWaitArrived(V::kTimedAfterCancelTest, 4000);
      if (seen) g_gateSeen.store(1, std::memory_order_relaxed);
      else {
        int z = 0;
        g_gateSeen.compare_exchange_strong(z, 2, std::memory_order_relaxed);
      }
    }
    if (g_cfg.dwellUs) vrt::spinFor(g_cfg.dwellUs);
    bool ret = !(g_cfg.falseAt >= 0 && k >= g_cfg.falseAt);
    g_inflight.fetch_sub(1, std::memory_order_relaxed);
    uint64_t en = vrt::stamp();
    g_inv[k].endStamp = en;
    if (!ret) {
      uint64_t z = 0;
      g_falseStamp.compare_exchange_strong(z, en, std::memory_order_relaxed);
    }
    g_finished.fetch_add(1, std::memory_order_relaxed);
    vrt::progress();
    return ret;
  }
};

enum Scen { kRun, kCancelBeforeDue, kCancelMid, kCancelGatedPool, kDtorRandom, kDtorGated, kRetFalseGated };

struct Spec {
  int scen = kRun;
  int sched = 0; // 0 ImmediateInvoker, N>0: ThreadPool(N)
  long times = 1;
  double periodMs = 1, firstMs = 1;
  bool steady = false;
  bool periodic = false;
  long falseAt = -1;
  int dwellUs = 0;
  int api = 0; // 0 absolute double, 1 duration(s), 2 time_point(s)
  bool detach = false;
  bool moveHandle = false;
  double hookP = 0;
  long cancelAfter = 0; // kCancelMid: invocations to wait for before cancel
  int dtorAfterUs = 0; // kDtorRandom
  J json() const {
    static const char* sn[] = {"run", "cancel-before-due", "cancel-mid-run", "cancel-gated-pool", "dtor-random", "dtor-gated", "retfalse-gated"};
    return J().kv("scenario", sn[scen]).kv("sched", sched == 0 ? std::string("immediate") : "pool" + std::to_string(sched)).kv("times", times).kv("periodMs", periodMs)
        .kv("firstMs", firstMs).kv("steady", steady).kv("periodic", periodic).kv("falseAt", falseAt).kv("dwellUs", dwellUs).kv("api", api).kv("detach", detach)
        .kv("moveHandle", moveHandle).kv("hookP", hookP).kv("cancelAfter", cancelAfter).kv("dtorAfterUs", dtorAfterUs);
  }
};

std::string dumpState() {
  return J().kv("started", g_started.load()).kv("finished", g_finished.load()).kv("inflight", g_inflight.load()).str();
}

void sleepUntil(double tAbs) {
  for (;;) {
    double now = dispenso::getTime();
    if (now >= tAbs) return;
    double d = tAbs - now;
    usleep(static_cast<useconds_t>(std::min(d, 0.002) * 1e6) + 1);
  }
}
bool waitStarted(long k, double deadlineAbs) {
  while (g_started.load(std::memory_order_relaxed) < k) {
    if (dispenso::getTime() > deadlineAbs) return false;
    usleep(100);
  }
  return true;
}

struct Obs {
  long started = 0;
  bool windowClosed = false;
  bool gateReached = false;
  bool completed = false;
  double minSlackUs = 1e9;
  long afterFalse = 0;
  long kickoffs = 0;
  long maxInflight = 0;
  bool inflightAtDtorChecked = false;
  bool dtorBeforeGateOpen = false;
};

template <typename Sched>
dispenso::TimedTask doSchedule(dispenso::TimedTaskScheduler& tts, Sched& sched, const Spec& s, double& lowerBoundFirst) {
  Fn fn{std::make_shared<Canary>()};
  auto type = s.steady ? dispenso::TimedTaskType::kSteady : dispenso::TimedTaskType::kNormal;
  using dms = std::chrono::duration<double, std::milli>;
  double t0 = dispenso::getTime();
  lowerBoundFirst = t0 + s.firstMs * 1e-3;
  if (s.api == 0) {
    return tts.schedule(sched, std::move(fn), lowerBoundFirst, s.periodMs * 1e-3, static_cast<size_t>(s.times), type);
  } else if (s.api == 1) {
    if (!s.periodic) return tts.schedule(sched, std::move(fn), dms(s.firstMs));
    return tts.schedule(sched, std::move(fn), dms(s.firstMs), dms(s.periodMs), static_cast<size_t>(s.times), type);
  } else {
    auto tp = std::chrono::steady_clock::now() + std::chrono::duration_cast<std::chrono::steady_clock::duration>(dms(s.firstMs));
    // duration_cast truncates towards zero: the scheduled time can be up to 1ns earlier than firstMs
    if (!s.periodic) return tts.schedule(sched, std::move(fn), tp);
    return tts.schedule(sched, std::move(fn), tp, dms(s.periodMs), static_cast<size_t>(s.times), type);
  }
}

Obs runCase(const Spec& s) {
  Obs o;
  g_started = 0;
  g_finished = 0;
  g_inflight = 0;
  g_maxInflight = 0;
  g_deadFunctor = 0;
  g_falseStamp = 0;
  g_gateSeen = 0;
  g_gateArmed = 0;
  g_cfg.falseAt = s.falseAt;
  g_cfg.dwellUs = s.dwellUs;
  g_cfg.mode = s.scen == kRetFalseGated ? 1 : 0;
  // the site's hit counter (= kick-offs that passed the cancelled test) only counts while hooks are on
  vrt::hookProb(V::kTimedAfterCancelTest, std::max(s.hookP, 1.0 / 65536.0));
  const uint64_t hits0 = vrt::hookHits(V::kTimedAfterCancelTest);
  const double period = s.periodMs * 1e-3;
  const double kTolFirst = 300e-6;

  std::unique_ptr<dispenso::ThreadPool> pool;
  if (s.sched > 0) pool.reset(new dispenso::ThreadPool(static_cast<size_t>(s.sched)));
  std::unique_ptr<dispenso::TimedTaskScheduler> tts(new dispenso::TimedTaskScheduler());
  dispenso::ImmediateInvoker imm;

  std::atomic<int> blockersRunning{0}, releaseBlockers{0};
  bool blockersOk = true;
  if (s.scen == kCancelGatedPool) {
    for (int i = 0; i < s.sched; ++i) {
      pool->schedule(
          [&blockersRunning, &releaseBlockers] {
            blockersRunning.fetch_add(1, std::memory_order_relaxed);
            unsigned spins = 0;
            while (!releaseBlockers.load(std::memory_order_relaxed)) {
              if (++spins % 256 == 0) std::this_thread::yield();
            }
          },
          dispenso::ForceQueuingTag());
    }
    blockersOk = hs::pollUntil([&] { return blockersRunning.load(std::memory_order_relaxed) >= s.sched; }, 3000);
  }

  double firstLB = 0;
  uint64_t dtorRetStamp = 0;
  long inflightAtDtor = 0;
  uint64_t cancelRetStamp = 0;
  bool dtorHandled = false;
  long allowedAfterCancel = -1; // >= 0: closed window established, at most this many invocations may ever start
  {
    dispenso::TimedTask task = s.sched > 0 ? doSchedule(*tts, *pool, s, firstLB) : doSchedule(*tts, imm, s, firstLB);
    std::unique_ptr<dispenso::TimedTask> moved;
    dispenso::TimedTask* tp = &task;
    if (s.moveHandle) {
      moved.reset(new dispenso::TimedTask(std::move(task))); // `task` is empty now: its destructor must do nothing
      tp = moved.get();
    }
    const long expected = s.falseAt >= 0 ? std::min(s.times, s.falseAt + 1) : s.times;
    const double endOfSchedule = firstLB + static_cast<double>(s.times) * period;
    switch (s.scen) {
      case kRun: {
        if (s.detach) tp->detach();
        o.completed = waitStarted(expected, endOfSchedule + 3.0);
        // grace: a further (excess) invocation would be due one period later
        sleepUntil(dispenso::getTime() + 3 * period + 1e-3);
        // let running invocations finish before the handle goes away in the detached case
        while (s.detach && g_finished.load(std::memory_order_relaxed) < g_started.load(std::memory_order_relaxed)) usleep(100);
        break;
      }
      case kCancelBeforeDue: {
        tp->cancel();
        double tc = dispenso::getTime();
        cancelRetStamp = vrt::stamp();
        if (tc < firstLB - 200e-6) {
          o.windowClosed = true;
          allowedAfterCancel = 0;
        }
        sleepUntil(firstLB + 3 * period + 3e-3);
        break;
      }
      case kCancelMid: {
        waitStarted(s.cancelAfter, endOfSchedule + 3.0);
        tp->cancel();
        double tc = dispenso::getTime();
        cancelRetStamp = vrt::stamp();
        long k = static_cast<long>(vrt::hookHits(V::kTimedAfterCancelTest) - hits0);
        // kick-off number k (0-based) cannot happen before firstLB + k*period - (k+1)*10us
        if (tc < firstLB + static_cast<double>(k) * period - 200e-6 - 10e-6 * static_cast<double>(k + 1)) {
          o.windowClosed = true;
          allowedAfterCancel = k;
        }
        o.kickoffs = k;
        sleepUntil(dispenso::getTime() + 3 * period + 2e-3);
        break;
      }
      case kCancelGatedPool: {
        // wrappers can only run on pool workers, and all of them are busy until after cancel() returned
        hs::pollUntil([&] { return vrt::hookHits(V::kTimedAfterCancelTest) - hits0 >= 1; }, 1000);
        o.kickoffs = static_cast<long>(vrt::hookHits(V::kTimedAfterCancelTest) - hits0);
        long startedBefore = g_started.load(std::memory_order_relaxed);
        tp->cancel();
        cancelRetStamp = vrt::stamp();
        if (blockersOk && startedBefore == 0) {
          o.windowClosed = true;
          allowedAfterCancel = 0;
        }
        releaseBlockers.store(1, std::memory_order_relaxed);
        // a kick-off that raced with cancel() itself leaves the scheduler before the handle is destroyed
        sleepUntil(dispenso::getTime() + 2 * period + 1e-3);
        break;
      }
      case kDtorRandom: {
        if (s.dtorAfterUs > 0) sleepUntil(dispenso::getTime() + s.dtorAfterUs * 1e-6);
        break;
      }
      case kDtorGated: {
        // armed only after schedule() returned, so only the scheduler thread can be caught
        vrt::gateArm(V::kTimedAfterCancelTest);
        o.gateReached = vrt::gateWaitArrived(V::kTimedAfterCancelTest, 3000);
        if (!o.gateReached) vrt::inconclusive("gate not reached");
        const long startedBefore = g_started.load(std::memory_order_relaxed);
        // The handle is cancelled and destroyed on a helper thread: a destructor that (rightly) waits
        // for the parked kick-off must not keep the harness from opening the gate.
        std::unique_ptr<dispenso::TimedTask> victim(new dispenso::TimedTask(std::move(*tp)));
        moved.reset();
        std::atomic<int> cancelDone{0}, dtorDone{0};
        std::thread helper([&] {
          victim->cancel();
          cancelDone.store(1, std::memory_order_relaxed);
          vrt::progress();
          victim.reset();
          inflightAtDtor = g_inflight.load(std::memory_order_relaxed);
          dtorRetStamp = vrt::stamp();
          dtorDone.store(1, std::memory_order_relaxed);
          vrt::progress();
        });
        while (!cancelDone.load(std::memory_order_relaxed)) usleep(50);
        // the only kick-off so far is parked before its wrapper exists, and cancel() has returned:
        // every wrapper's test comes later
        // (exactly one kick-off has passed the cancelled test since the case began: the parked one. On a
        // loaded machine an earlier kick-off can slip through before the gate is armed; its wrapper may
        // legitimately have tested the flag before cancel())
        o.kickoffs = static_cast<long>(vrt::hookHits(V::kTimedAfterCancelTest) - hits0);
        if (o.gateReached && startedBefore == 0 && o.kickoffs == 1) allowedAfterCancel = 0;
        o.dtorBeforeGateOpen = hs::pollUntil([&] { return dtorDone.load(std::memory_order_relaxed) != 0; }, 20);
        vrt::gateOpen(V::kTimedAfterCancelTest);
        helper.join();
        o.inflightAtDtorChecked = true;
        dtorHandled = true;
        break;
      }
      case kRetFalseGated: {
        double dl = dispenso::getTime() + 8.0;
        while ((g_finished.load(std::memory_order_relaxed) < 1 || tp->calls() < 1) && dispenso::getTime() < dl) usleep(100);
        o.gateReached = g_gateSeen.load(std::memory_order_relaxed) == 1;
        if (!o.gateReached) vrt::inconclusive("gate not reached");
        vrt::gateOpen(V::kTimedAfterCancelTest);
        sleepUntil(dispenso::getTime() + 2 * period + 1e-3);
        break;
      }
    }
    // Scenarios that are not about the destructor's timing stop the scheduler thread first: on the
    // unchanged tree a kick-off that is preempted between its cancelled test and its inProgress
    // increment lets ~TimedTask free the closure under it (known finding, scripted in dtor-gated and
    // left to chance only in dtor-random); on a loaded machine that preemption can last many periods.
    if (s.scen == kCancelBeforeDue || s.scen == kCancelMid || s.scen == kCancelGatedPool) tts.reset();
    moved.reset();
    if (!dtorHandled && s.moveHandle && !s.detach) {
      dtorRetStamp = vrt::stamp();
      inflightAtDtor = g_inflight.load(std::memory_order_relaxed);
      o.inflightAtDtorChecked = true;
    }
  } // ~TimedTask
  if (!dtorHandled && !s.moveHandle && !s.detach) {
    inflightAtDtor = g_inflight.load(std::memory_order_relaxed);
    dtorRetStamp = vrt::stamp();
    o.inflightAtDtorChecked = true;
  }
  if (s.scen == kDtorGated) vrt::gateOpen(V::kTimedAfterCancelTest);
  if (s.scen == kDtorRandom || s.scen == kDtorGated) {
    // anything that would (wrongly) still start needs a moment to show up
    sleepUntil(dispenso::getTime() + 2 * period + 1e-3);
  }
  releaseBlockers.store(1, std::memory_order_relaxed);
  tts.reset(); // joins the scheduler thread
  pool.reset(); // drains and joins the workers
  vrt::hooksReset();

  // ---- verdicts (everything is quiescent now)
  const long started = g_started.load();
  o.started = started;
  o.maxInflight = g_maxInflight.load();
  if (started > s.times) {
    vrt::violation("the timed function was invoked more often than timesToRun", J().kv("invocations", started).kv("timesToRun", s.times), "count");
  }
  const uint64_t fs = g_falseStamp.load();
  if (fs) {
    for (long k = 0; k < started && k < kMaxInv; ++k) {
      if (g_inv[k].startStamp > fs) ++o.afterFalse;
    }
    long allowed = s.sched <= 1 ? 0 : s.sched - 1;
    if (o.afterFalse > allowed) {
      vrt::violation("the timed function was invoked again after it had returned false", J().kv("startsAfterFalseReturn", o.afterFalse).kv("allowedByWrappersInFlight", allowed), "after-false");
    }
  }
  for (long k = 0; k < started && k < kMaxInv; ++k) {
    double slack = (g_inv[k].t - firstLB) * 1e6;
    o.minSlackUs = std::min(o.minSlackUs, slack);
  }
  if (started > 0 && o.minSlackUs < -kTolFirst * 1e6) {
    vrt::violation("the timed function was invoked before its first scheduled time", J().kv("earlyByUs", -o.minSlackUs).kv("firstMs", s.firstMs), "early");
  }
  if (allowedAfterCancel >= 0 && started > allowedAfterCancel) {
    vrt::violation("an invocation started although cancel() had returned before its wrapper could test the flag",
                   J().kv("invocations", started).kv("possibleBeforeCancel", allowedAfterCancel).kv("kickoffsBeforeCancel", o.kickoffs), "after-cancel");
  }
  if (o.inflightAtDtorChecked) {
    if (inflightAtDtor != 0) {
      vrt::violation("~TimedTask returned while an invocation was in progress", J().kv("inflight", inflightAtDtor), "dtor-inflight");
    }
    long late = 0;
    for (long k = 0; k < started && k < kMaxInv; ++k) {
      if (g_inv[k].startStamp > dtorRetStamp) ++late;
    }
    if (late) vrt::violation("an invocation started after ~TimedTask had returned", J().kv("lateStarts", late), "late-start");
  }
  if (g_deadFunctor.load()) {
    vrt::violation("the user functor was already destroyed when it was invoked", J().kv("n", g_deadFunctor.load()), "dead-functor", "C11");
  }
  (void)cancelRetStamp;
  return o;
}

const char* schedName(int s) {
  return s == 0 ? "immediate" : s == 1 ? "pool1" : "poolN";
}

} // namespace

void runC26() {
  const long n = vrt::g_args.getInt("n", vrt::thorough() ? 8000 : 640);
  vrt::setStateDumper(dumpState);
  (void)dispenso::getTime(); // calibrate the clock before the first case
  for (long idx = 0; idx < n; ++idx) {
    if (!vrt::selected(idx)) continue;
    vrt::Rng r = vrt::caseRng(idx);
    Spec s;
    long sel = (idx + idx / 16) % 16; // decorrelated from the 16-way sharding
    s.sched = static_cast<int>(r.pick(std::vector<int>{0, 0, 1, 1, 2, 3, 4}));
    s.periodic = r.chance(0.75);
    s.times = s.periodic ? r.range(1, 20) : 1;
    s.periodMs = r.pick(std::vector<double>{0.2, 0.3, 0.5, 1.0, 2.0, 5.0});
    if (s.times > 8 && s.periodMs > 1.0) s.periodMs = 1.0;
    s.firstMs = r.pick(std::vector<double>{0.0, 0.0, 0.3, 1.0, 3.0, 8.0, 20.0});
    s.steady = r.chance(0.5);
    s.api = static_cast<int>(r.below(3));
    // small on purpose: a delay at this site is exactly what widens the (known) teardown window; the
    // window itself is exercised deterministically by the gated scenarios
    if (r.chance(0.4)) s.hookP = r.pick(std::vector<double>{0.02, 0.05});
    s.moveHandle = r.chance(0.2);
    std::string key;
    if (sel < 6) {
      s.scen = kRun;
      s.detach = r.chance(0.15);
      // false returns only where wrappers are serialised with each other AND with the scheduler's next kick-off
      if (s.sched == 0 && r.chance(0.5)) s.falseAt = r.range(0, s.times - 1);
      else if (s.sched == 1 && r.chance(0.3)) s.falseAt = s.times - 1;
      s.dwellUs = r.chance(0.5) ? static_cast<int>(r.range(10, 400)) : 0;
      const char* rf = s.falseAt < 0 ? "rf-none" : (s.falseAt == s.times - 1 ? "rf-last" : "rf-mid");
      key = std::string("run/") + schedName(s.sched) + "/" + (s.periodic ? (s.steady ? "periodic-steady" : "periodic-normal") : "once") + "/" + rf + (s.detach ? "/detached" : "");
    } else if (sel < 8) {
      s.scen = kCancelBeforeDue;
      s.firstMs = static_cast<double>(r.range(25, 60));
      if (s.periodMs > 2.0) s.periodMs = 2.0;
      key = std::string("cancel/before-due/") + schedName(s.sched);
    } else if (sel < 10) {
      s.scen = kCancelMid;
      s.periodic = true;
      s.times = r.range(6, 20);
      s.periodMs = r.pick(std::vector<double>{2.0, 3.0, 5.0});
      s.cancelAfter = r.range(1, 4);
      s.firstMs = r.pick(std::vector<double>{0.0, 1.0, 5.0});
      s.dwellUs = r.chance(0.3) ? static_cast<int>(r.range(10, 200)) : 0;
      key = std::string("cancel/mid-run/") + schedName(s.sched);
    } else if (sel < 12) {
      s.scen = kCancelGatedPool;
      s.sched = static_cast<int>(r.range(1, 3));
      s.periodic = true;
      s.times = r.range(2, 6);
      s.periodMs = r.pick(std::vector<double>{0.3, 0.5, 1.0});
      s.firstMs = r.pick(std::vector<double>{0.0, 0.5, 2.0});
      key = std::string("cancel/gated-pool/") + schedName(s.sched);
    } else if (sel < 15) {
      s.scen = kDtorRandom;
      s.periodic = true;
      s.times = r.range(3, 20);
      s.periodMs = r.pick(std::vector<double>{0.2, 0.3, 0.5, 1.0});
      s.firstMs = r.pick(std::vector<double>{0.0, 0.0, 0.3, 1.0});
      s.dwellUs = static_cast<int>(r.range(20, 500));
      s.dtorAfterUs = static_cast<int>(r.range(0, static_cast<long>((s.firstMs + 3 * s.periodMs) * 1000)));
      key = std::string("dtor/random/") + schedName(s.sched);
    } else {
      long which = (idx / 16) % 3; // idx/16 advances once per round of scenarios
      // The pool variants read a freed closure on the unchanged tree (known finding). Only the
      // sanitizer builds turn that into a well-defined report; a plain build would just run on into
      // undefined behaviour (lost wrapper, wild call), so it scripts the harmless ImmediateInvoker variant.
      if (!(VRT_ASAN || VRT_TSAN)) which = 0;
      s.periodic = true;
      s.hookP = 0;
      s.moveHandle = false;
      s.times = r.range(2, 5);
      s.periodMs = 1.0;
      if (which < 2) {
        s.scen = kDtorGated;
        s.sched = which == 0 ? 0 : static_cast<int>(r.range(1, 2));
        s.firstMs = 20.0;
        key = std::string("dtor/gated-after-cancel-test/") + (s.sched == 0 ? "immediate" : "pool");
      } else {
        s.scen = kRetFalseGated;
        s.sched = static_cast<int>(r.range(1, 2));
        s.firstMs = 1.0;
        s.falseAt = 0;
        s.times = 50; // plenty of later kick-offs, one of which must find the gate armed
        s.periodMs = 2.0;
        key = "retfalse/gated-next-kickoff/pool";
      }
    }
    vrt::caseBegin(idx, key, s.json());
    vrt::watchdogArm();
    Obs o = runCase(s);
    vrt::watchdogDisarm();
    std::vector<std::string> cls;
    static const char* sn[] = {"run", "cancel-before-due", "cancel-mid-run", "cancel-gated-pool", "dtor-random", "dtor-gated", "retfalse-gated"};
    cls.push_back(std::string("scenario:") + sn[s.scen]);
    cls.push_back(std::string("sched:") + schedName(s.sched));
    if (s.scen == kRun && o.completed) cls.push_back("run:completed");
    if (s.scen == kRun && s.falseAt >= 0 && s.falseAt < s.times - 1) cls.push_back("run:false-before-last");
    if (s.scen == kRun && s.steady && s.periodic) cls.push_back("run:steady");
    if (s.scen == kRun && s.detach) cls.push_back("run:detached");
    if (s.scen == kCancelBeforeDue && o.windowClosed) cls.push_back("cancel-before-due:window-closed");
    if (s.scen == kCancelMid && o.windowClosed && o.kickoffs >= 1) cls.push_back("cancel-mid-run:window-closed");
    if (s.scen == kCancelGatedPool && o.windowClosed && o.kickoffs >= 1) cls.push_back("cancel-gated-pool:wrapper-queued-before-cancel");
    if (s.scen == kDtorRandom && o.started >= 1) cls.push_back("dtor-random:after-some-invocations");
    if ((s.scen == kDtorGated || s.scen == kRetFalseGated) && o.gateReached) cls.push_back(std::string(sn[s.scen]) + ":gate-reached");
    if (s.scen == kDtorGated && o.gateReached) cls.push_back(o.dtorBeforeGateOpen ? "dtor-gated:dtor-returned-while-parked" : "dtor-gated:dtor-waited-for-parked-kickoff");
    if (o.maxInflight >= 2) cls.push_back("overlapping-invocations");
    if (s.moveHandle) cls.push_back("moved-handle");
    bool nt = o.started >= 1 || o.windowClosed || o.gateReached;
    vrt::caseEnd(J().kv("invocations", o.started).kv("minSlackUs", o.started ? o.minSlackUs : 0.0).kv("windowClosed", o.windowClosed).kv("kickoffs", o.kickoffs)
                     .kv("startsAfterFalse", o.afterFalse).kv("maxInflight", o.maxInflight).kv("gateReached", o.gateReached),
                 nt ? s.json().str() : "", cls);
  }
}
