// C07 submission paths that instantiate the heavy templates: non-waiting parallel_for (static and
// adaptive chunking), non-waiting for_each, pool-bound Future.
#include <dispenso/for_each.h>
#include <dispenso/future.h>
#include <dispenso/parallel_for.h>

#include "h_wake_common.h"

namespace hw {

namespace {
struct LoopOwner : PathOwner {
  std::unique_ptr<dispenso::TaskSet> ts;
  std::vector<long> vec;
  std::vector<dispenso::Future<int>> futs;
  void help() override {
    if (ts) ts->tryWait(64);
  }
  void finish() override {
    if (ts) ts->wait();
    for (auto& f : futs) f.wait();
    futs.clear();
  }
  long outstanding() override {
    return ts ? static_cast<long>(ts->verifOutstanding()) : -1;
  }
};
} // namespace

std::unique_ptr<PathOwner> submitLoops(int path, dispenso::ThreadPool& pool, int N, int k, long& totalUnits) {
  std::unique_ptr<LoopOwner> o(new LoopOwner);
  (void)N;
  switch (path) {
    case kParforStatic: {
      // k chunks of one item each: maxThreads = k, static chunking, wait = false
      o->ts.reset(new dispenso::TaskSet(pool));
      dispenso::ParForOptions opt;
      opt.maxThreads = static_cast<uint32_t>(k);
      opt.wait = false;
      totalUnits = k;
      dispenso::parallel_for(
          *o->ts,
          dispenso::makeChunkedRange(0, k, dispenso::ParForChunking::kStatic),
          [](int b, int e) {
            for (int i = b; i < e; ++i) unitBody(i);
          },
          opt);
      break;
    }
    case kParforAdaptive: {
      o->ts.reset(new dispenso::TaskSet(pool));
      dispenso::ParForOptions opt;
      opt.maxThreads = static_cast<uint32_t>(k);
      opt.wait = false;
      const int items = 64 * k;
      totalUnits = items;
      dispenso::parallel_for(
          *o->ts,
          dispenso::makeChunkedRange(0, items, dispenso::ParForChunking::kAdaptive),
          [](int b, int e) {
            for (int i = b; i < e; ++i) unitBody(i);
          },
          opt);
      break;
    }
    case kForEach: {
      o->ts.reset(new dispenso::TaskSet(pool));
      o->vec.resize(static_cast<size_t>(k));
      for (int i = 0; i < k; ++i) o->vec[static_cast<size_t>(i)] = i;
      dispenso::ForEachOptions opt;
      opt.maxThreads = static_cast<uint32_t>(k);
      opt.wait = false;
      totalUnits = k;
      dispenso::for_each(*o->ts, o->vec.begin(), o->vec.end(), [](long& v) { unitBody(static_cast<int>(v)); }, opt);
      break;
    }
    case kFuture: {
      totalUnits = k;
      for (int i = 0; i < k; ++i) {
        o->futs.emplace_back(
            [i, p = payload(i)]() {
              unitBody(i);
              return i;
            },
            pool);
      }
      break;
    }
    case kFutureAsync: {
      totalUnits = k;
      for (int i = 0; i < k; ++i) {
        o->futs.emplace_back(
            [i, p = payload(i)]() {
              unitBody(i);
              return i;
            },
            pool, std::launch::async, dispenso::kNotDeferred);
      }
      break;
    }
    default:
      totalUnits = 0;
      break;
  }
  return std::unique_ptr<PathOwner>(o.release());
}

} // namespace hw
