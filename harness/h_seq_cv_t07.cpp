// C32 instantiations for trait combination heap-fast-half (see h_seq_cv_impl.h)
#include "h_seq_cv_impl.h"

HSEQ_CV_INSTANCE(t7_0, vrt::TrackedT<32>, "e32", false, true, kHalfBufferAhead, "heap-fast-half")
HSEQ_CV_INSTANCE(t7_1, vrt::TrackedT<64>, "e64", false, true, kHalfBufferAhead, "heap-fast-half")
HSEQ_CV_INSTANCE(t7_2, vrt::TrackedT<128>, "e128", false, true, kHalfBufferAhead, "heap-fast-half")
