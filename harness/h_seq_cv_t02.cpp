// C32 instantiations for trait combination inl-fast-full (see h_seq_cv_impl.h)
#include "h_seq_cv_impl.h"

HSEQ_CV_INSTANCE(t2_0, vrt::TrackedT<32>, "e32", true, true, kFullBufferAhead, "inl-fast-full")
HSEQ_CV_INSTANCE(t2_1, vrt::TrackedT<64>, "e64", true, true, kFullBufferAhead, "inl-fast-full")
HSEQ_CV_INSTANCE(t2_2, vrt::TrackedT<128>, "e128", true, true, kFullBufferAhead, "inl-fast-full")
