// Engine h_nest, C46: serial pipelines with many queued items and deep graph chains.
#include "h_nest_c46.h"

#include <dispenso/graph.h>
#include <dispenso/graph_executor.h>
#include <dispenso/pipeline.h>

namespace {
Obs46 collectB() {
  Obs46 o;
  o.maxStack = g_dm.maxStack.load(std::memory_order_relaxed);
  o.maxNest = g_dm.maxNest.load(std::memory_order_relaxed);
  o.bodies = g_dm.bodies.load(std::memory_order_relaxed);
  return o;
}
} // namespace

// ------------------------------------------------------------------ pipeline
Obs46 runPipe(const Spec46& s) {
  g_dm.reset();
  g_ngates.reset();
  {
    dispenso::ThreadPool pool(static_cast<size_t>(s.pool), static_cast<size_t>(s.mult));
    g_curPool.store(&pool);
    dispenso::ConcurrentTaskSet aux(pool, dispenso::TaskCost::kLightweight); // central queue: every worker looks there (placed work can sit in another group's steal ring)
    // the generator is much faster than the serial stages, so items pile up in the stage queues
    long next = 0;
    const long n = s.n;
    auto gen = [&next, n]() -> dispenso::OpResult<long> {
      if (next >= n) return {};
      return next++;
    };
    auto slow = [](long v) {
      BodyScope b;
      if ((v & 63) == 0) vrt::spinFor(3);
      return v + 1;
    };
    auto slow2 = [](long v) {
      BodyScope b;
      return v + 1;
    };
    std::atomic<long> sunk{0};
    auto sink = [&sunk](long) {
      BodyScope b;
      sunk.fetch_add(1, std::memory_order_relaxed);
    };
    int v = s.variant % 3;
    if (v == 0) {
      dispenso::pipeline(pool, gen, slow, sink);
    } else if (v == 1) {
      dispenso::pipeline(pool, gen, slow, slow2, sink);
    } else {
      dispenso::pipeline(pool, gen, dispenso::stage([](long v) {
        BodyScope b;
        if ((v & 63) == 0) vrt::spinFor(3);
        return v + 1;
      }, 2), sink);
    }
    if (sunk.load() != n) vrt::violation("pipeline delivered " + std::to_string(sunk.load()) + " of " + std::to_string(n) + " items", J(), "items", "C27");
    aux.wait();
    g_curPool.store(nullptr);
  }
  return collectB();
}

// ------------------------------------------------------------------ graph
Obs46 runGraph(const Spec46& s) {
  g_dm.reset();
  g_ngates.reset();
  {
    dispenso::ThreadPool pool(static_cast<size_t>(s.pool), static_cast<size_t>(s.mult));
    g_curPool.store(&pool);
    dispenso::ConcurrentTaskSet aux(pool, dispenso::TaskCost::kLightweight); // central queue: every worker looks there (placed work can sit in another group's steal ring)
    dispenso::Graph g;
    const long n = s.n;
    int v = s.variant % 4;
    std::vector<dispenso::Node*> chain;
    chain.reserve(static_cast<size_t>(n));
    auto body = []() { BodyScope b; };
    if (v == 0) {
      for (long i = 0; i < n; ++i) {
        dispenso::Node& nd = g.addNode(body);
        if (i) nd.dependsOn(*chain.back());
        chain.push_back(&nd);
      }
    } else if (v == 1 || v == 2) {
      // comb: every second node is a leaf hanging off the spine. The order in which the dependents
      // were registered decides which one the executor continues with inline and which one it schedules.
      long spine = (n + 1) / 2;
      dispenso::Node* prev = nullptr;
      long made = 0;
      for (long i = 0; i < spine && made < n; ++i) {
        dispenso::Node& sp = g.addNode(body);
        ++made;
        if (prev) {
          if (v == 1 && made < n) {
            dispenso::Node& leaf = g.addNode(body);
            ++made;
            leaf.dependsOn(*prev);
            sp.dependsOn(*prev);
          } else if (made < n) {
            sp.dependsOn(*prev);
            dispenso::Node& leaf = g.addNode(body);
            ++made;
            leaf.dependsOn(*prev);
          } else {
            sp.dependsOn(*prev);
          }
        }
        prev = &sp;
      }
      while (made < n) {
        g.addNode(body);
        ++made;
      }
    } else {
      // ladder: two parallel chains with rungs (each node has two dependents, each dependent two predecessors)
      dispenso::Node* a = nullptr;
      dispenso::Node* b = nullptr;
      for (long i = 0; i + 1 < n || i == 0; i += 2) {
        dispenso::Node& na = g.addNode(body);
        dispenso::Node& nb = g.addNode(body);
        if (a) {
          na.dependsOn(*a, *b);
          nb.dependsOn(*a, *b);
        }
        a = &na;
        b = &nb;
      }
      if (n % 2) g.addNode(body);
    }
    dispenso::ConcurrentTaskSet cts(pool);
    if (s.load) c46Overload(pool, aux, s.pool, s.mult);
    dispenso::ConcurrentTaskSetExecutor exec;
    exec(cts, g, false);
    g_ngates.open();
    cts.wait();
    aux.wait();
    g_curPool.store(nullptr);
  }
  return collectB();
}
