// Engine h_wake: C07 (h_wake_c07*.cpp) and C09 (h_wake_c09.cpp). This TU: shared monitors,
// /proc helpers, pool-state helpers, main().
#include "h_wake_common.h"

#include <dirent.h>
#include <fcntl.h>
#include <sys/syscall.h>

#include <algorithm>

namespace hw {

std::atomic<int> g_unitStarted[kMaxUnits];
std::atomic<int> g_unitTid[kMaxUnits];
std::atomic<long> g_unitsTotal{0};
std::atomic<long> g_unitsDone{0};
std::atomic<int> g_dwellUs{0};
std::atomic<int> g_holdFlag{0};
std::atomic<long> g_holdersIn{0};

const char* const kPathNames[kNumPaths] = {
    "pool-schedule",      "pool-schedule-fq",      "pool-bulk",      "ts-schedule",        "ts-schedule-fq", "ts-bulk",
    "ts-bulk-fq",         "cts-heavy-schedule",    "cts-heavy-schedule-fq", "cts-heavy-bulk", "cts-light-schedule",
    "cts-light-bulk",     "parfor-static",         "parfor-adaptive", "foreach",           "future",         "future-async"};

int myTid() {
  static thread_local int t = static_cast<int>(::syscall(SYS_gettid));
  return t;
}

void resetUnits() {
  for (int i = 0; i < kMaxUnits; ++i) {
    g_unitStarted[i].store(0, std::memory_order_relaxed);
    g_unitTid[i].store(0, std::memory_order_relaxed);
  }
  g_unitsTotal.store(0, std::memory_order_relaxed);
  g_unitsDone.store(0, std::memory_order_relaxed);
  g_holdFlag.store(0, std::memory_order_relaxed);
  g_holdersIn.store(0, std::memory_order_relaxed);
}

void unitBody(int i) {
  if (i >= 0 && i < kMaxUnits) {
    g_unitStarted[i].fetch_add(1, std::memory_order_relaxed);
    g_unitTid[i].store(myTid(), std::memory_order_relaxed);
  }
  g_unitsTotal.fetch_add(1, std::memory_order_relaxed);
  vrt::progress();
  int d = g_dwellUs.load(std::memory_order_relaxed);
  if (d > 0) vrt::spinFor(d);
  g_unitsDone.fetch_add(1, std::memory_order_relaxed);
}

void holderBody() {
  g_holdersIn.fetch_add(1, std::memory_order_relaxed);
  vrt::progress();
  while (g_holdFlag.load(std::memory_order_relaxed)) {
    vrt::spinFor(5);
  }
}

std::vector<int> listTids() {
  std::vector<int> out;
  DIR* d = opendir("/proc/self/task");
  if (!d) return out;
  while (struct dirent* e = readdir(d)) {
    if (e->d_name[0] < '0' || e->d_name[0] > '9') continue;
    out.push_back(atoi(e->d_name));
  }
  closedir(d);
  std::sort(out.begin(), out.end());
  return out;
}

TidStat tidStat(int tid) {
  TidStat r;
  char path[64];
  snprintf(path, sizeof path, "/proc/self/task/%d/stat", tid);
  int fd = open(path, O_RDONLY | O_CLOEXEC);
  if (fd < 0) return r;
  char buf[768];
  ssize_t n = read(fd, buf, sizeof buf - 1);
  close(fd);
  if (n <= 0) return r;
  buf[n] = 0;
  const char* p = strrchr(buf, ')');
  if (!p || p[1] != ' ' || !p[2]) {
    r.state = '?';
    return r;
  }
  r.state = p[2];
  // fields after the state: ppid pgrp session tty tpgid flags minflt cminflt majflt cmajflt utime stime
  const char* q = p + 3;
  // ... cutime cstime priority nice num_threads itrealvalue starttime
  long long v[19] = {0};
  int got = 0;
  while (*q && got < 19) {
    while (*q == ' ') ++q;
    char* end = nullptr;
    v[got++] = strtoll(q, &end, 10);
    if (end == q) break;
    q = end;
  }
  if (got >= 12) r.ticks = static_cast<long>(v[10] + v[11]);
  if (got >= 19) r.start = v[18];
  return r;
}

char tidState(int tid) {
  return tidStat(tid).state;
}

std::vector<int> minusTids(const std::vector<int>& a, const std::vector<int>& b) {
  std::vector<int> out;
  std::set_difference(a.begin(), a.end(), b.begin(), b.end(), std::back_inserter(out));
  return out;
}

bool allAsleep(const std::vector<int>& workerTids) {
  for (int t : workerTids) {
    if (tidState(t) != 'S') return false;
  }
  return true;
}

bool waitAllParked(dispenso::ThreadPool& pool, const std::vector<int>& workerTids, double guardSeconds, bool sleepFlags) {
  const int N = static_cast<int>(workerTids.size());
  if (N <= 0) return true;
  double t0 = vrt::nowSeconds();
  int stable = 0;
  uint64_t lastWaits = ~0ull, lastExits = ~0ull;
  while (vrt::nowSeconds() - t0 < guardSeconds) {
    vrt::FutexStats fs = vrt::futexStats();
    // counters first, then the kernel's view: a worker that a previous wake already made runnable
    // but that has not run yet still counts as "in wait" for the interposer; /proc shows it as R
    bool c = fs.inTimedWaitNow == N && (!sleepFlags || pool.verifNumSleeping() == N) && allAsleep(workerTids);
    if (c) {
      vrt::FutexStats fs2 = vrt::futexStats();
      c = fs2.waits == fs.waits && fs2.waitExits == fs.waitExits && fs2.inTimedWaitNow == N;
    }
    if (c && fs.waits == lastWaits && fs.waitExits == lastExits) {
      if (++stable >= 3) return true;
    } else {
      stable = 0;
    }
    lastWaits = fs.waits;
    lastExits = fs.waitExits;
    vrt::progress(); // the harness itself is polling: not a hang of the code under test
    vrt::sleepUs(c ? 120 : 60);
  }
  return false;
}

int waitFlagOrStranded(std::atomic<int>& flag, dispenso::ThreadPool& pool, const std::vector<int>& workerTids, double guardSeconds, bool sleepFlags) {
  const int N = static_cast<int>(workerTids.size());
  double t0 = vrt::nowSeconds(), nextSample = t0 + 0.05;
  int samples = 0;
  uint64_t lastExits = ~0ull;
  while (!flag.load(std::memory_order_relaxed)) {
    double now = vrt::nowSeconds();
    if (now - t0 > guardSeconds) return -1;
    if (now >= nextSample) {
      nextSample = now + 0.1;
      vrt::FutexStats fs = vrt::futexStats();
      bool asleep = allAsleep(workerTids);
      if (!asleep) vrt::progress();
      bool c = asleep && fs.inTimedWaitNow == N && (!sleepFlags || pool.verifNumSleeping() == N);
      if (c && (samples == 0 || fs.waitExits == lastExits)) ++samples;
      else samples = c ? 1 : 0;
      lastExits = fs.waitExits;
      if (samples >= 3 && !flag.load(std::memory_order_relaxed)) return 0;
    }
    vrt::sleepUs(50);
  }
  return 1;
}

J poolJson(dispenso::ThreadPool& pool) {
  J j;
  j.kv("numThreads", static_cast<long>(pool.numThreads()))
      .kv("workRemaining", static_cast<long>(pool.verifWorkRemaining()))
      .kv("numSleeping", static_cast<long>(pool.verifNumSleeping()))
      .kv("numNotWorking", static_cast<long>(pool.verifNumNotWorking()));
#if !VRT_TSAN
  j.kv("queuedApprox", static_cast<long>(pool.verifQueuedApprox()));
#endif
  return j;
}

} // namespace hw

int main(int argc, char** argv) {
  vrt::init(argc, argv);
  const std::string& p = vrt::g_args.prop;
  if (p == "C07") hw::runC07();
  else if (p == "C09") hw::runC09();
  else {
    fprintf(stderr, "h_wake: unknown property %s\n", p.c_str());
    return 2;
  }
  return vrt::finish();
}
