// C38 instantiations for element alignment 32 (see h_seq_sv_impl.h)
#include "h_seq_sv_impl.h"

HSEQ_SV_INSTANCE(a32_n1, vrt::TrackedT<32>, 1)
HSEQ_SV_INSTANCE(a32_n2, vrt::TrackedT<32>, 2)
HSEQ_SV_INSTANCE(a32_n4, vrt::TrackedT<32>, 4)
HSEQ_SV_INSTANCE(a32_n8, vrt::TrackedT<32>, 8)
HSEQ_SV_INSTANCE(a32_n64, vrt::TrackedT<32>, 64)
