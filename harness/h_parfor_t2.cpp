#include "h_parfor_impl.h"

Obs runSpec_t2(const Spec& s) {
  return runSpecT<int16_t>(s);
}
