// C32 instantiations for trait combination heap-fast-asneeded (see h_seq_cv_impl.h)
#include "h_seq_cv_impl.h"

HSEQ_CV_INSTANCE(t6_0, vrt::TrackedT<32>, "e32", false, true, kAsNeeded, "heap-fast-asneeded")
HSEQ_CV_INSTANCE(t6_1, vrt::TrackedT<64>, "e64", false, true, kAsNeeded, "heap-fast-asneeded")
HSEQ_CV_INSTANCE(t6_2, vrt::TrackedT<128>, "e128", false, true, kAsNeeded, "heap-fast-asneeded")
