// C39 callable instantiations, part 0 (see h_seq_once_impl.h)
#include "h_seq_once_impl.h"

namespace hs {
HSEQ_ONCE_TYPES_0(HSEQ_ONCE_INSTANCE)
}
