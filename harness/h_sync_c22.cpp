// C22 — RWLock, C23 — DistributedRWLock: mutual exclusion and progress.
//
// Monitor: occupancy counters that are only touched while the thread owns the lock in the
// corresponding mode (writers++ must see writers==0 and readers==0; readers++ must see
// writers==0); upgrade/downgrade move the thread's own contribution while it still holds the
// stronger right, so a correct lock can never trip them. A plain (non-atomic) variable is written
// under exclusive and read under shared ownership: under TSan an overlap is a data race report.
// Progress: bounded programs must terminate (watchdog: parked writers / spinning readers); at
// quiescence the lock must be free again (try_lock and try_lock_shared succeed), which is how a
// failed try_* that left a trace is seen.
#include <dispenso/distributed_rw_lock.h>
#include <dispenso/rw_lock.h>

#include "h_sync_common.h"

namespace {

enum Kind : uint8_t { kW, kTW, kR, kTR, kWD, kTWD, kUD, kUU, kNumKinds };
const char* kKindName[] = {"lock", "try_lock", "lock_shared", "try_lock_shared", "lock+downgrade", "try_lock+downgrade", "shared+upgrade+downgrade", "shared+upgrade+unlock"};

struct Op {
  uint8_t kind;
  uint8_t slot;
  uint8_t dwellIn, dwellIn2, dwellOut;
};

struct Spec {
  int lockType = 0; // 0 RWLock, 1 UnalignedRWLock, 2 DistributedRWLockImpl<N> (explicit slots), 3 DistributedRWLock<N> (public)
  int N = 1;
  int threads = 2;
  int slotMap = 0; // 0 all on one slot, 1 thread i -> slot i, 2 random per op
  bool upgrade = false; // thread 0 is the single upgrader; all write attempts are serialised by a harness token
  bool othersReadOnly = false; // upgrade programs: the other threads never write
  double hookP = 0;
  double preWaitP = 0;
  int preWaitUs = 0;
  std::vector<std::vector<Op>> prog;
  J json() const {
    static const char* lt[] = {"RWLock", "UnalignedRWLock", "DistributedRWLockImpl", "DistributedRWLock"};
    J j;
    j.kv("lock", lt[lockType]).kv("N", N).kv("threads", threads).kv("slotMap", slotMap).kv("upgrade", upgrade).kv("othersReadOnly", othersReadOnly);
    j.kv("hookP", hookP).kv("preWaitP", preWaitP);
    std::string p = "[";
    for (size_t t = 0; t < prog.size(); ++t) {
      if (t) p += ",";
      p += "\"";
      for (auto& op : prog[t]) {
        p += static_cast<char>('a' + op.kind);
        if (lockType >= 2) p += std::to_string(static_cast<int>(op.slot));
      }
      p += "\"";
    }
    p += "]";
    j.raw("prog", p);
    return j;
  }
};

struct Mon {
  std::atomic<int> writers{0}, readers{0};
  std::atomic<long> bad{0};
  long plainShared = 0;
  std::atomic<long> sink{0};

  void report(const char* what, int w, int r) {
    if (bad.fetch_add(1, std::memory_order_relaxed) < 3) {
      vrt::violation(what, J().kv("writersInside", w).kv("readersInside", r), "exclusion");
    }
  }
  void enterW(const char* how) {
    int w = writers.fetch_add(1, std::memory_order_relaxed);
    int r = readers.load(std::memory_order_relaxed);
    if (w != 0 || r != 0) report(how, w + 1, r);
    plainShared = plainShared + 1;
  }
  void exitW() {
    plainShared = plainShared + 1;
    writers.fetch_sub(1, std::memory_order_relaxed);
  }
  void enterR(const char* how) {
    int r = readers.fetch_add(1, std::memory_order_relaxed);
    int w = writers.load(std::memory_order_relaxed);
    if (w != 0) report(how, w, r + 1);
    sink.fetch_add(plainShared & 1, std::memory_order_relaxed);
  }
  void exitR() {
    sink.fetch_add(plainShared & 1, std::memory_order_relaxed);
    readers.fetch_sub(1, std::memory_order_relaxed);
  }
  // writer -> reader, called while still exclusive
  void downgrade() {
    plainShared = plainShared + 1;
    readers.fetch_add(1, std::memory_order_relaxed);
    writers.fetch_sub(1, std::memory_order_relaxed);
  }
  // reader -> writer, called after lock_upgrade() returned
  void upgraded() {
    readers.fetch_sub(1, std::memory_order_relaxed);
    int w = writers.fetch_add(1, std::memory_order_relaxed);
    int r = readers.load(std::memory_order_relaxed);
    if (w != 0 || r != 0) report("lock_upgrade() returned while another thread is inside", w + 1, r);
    plainShared = plainShared + 1;
  }
};

// ---------------------------------------------------------------- adapters
template <typename L>
struct AdRW {
  static constexpr bool kUpgrade = true;
  L l;
  void lock() { l.lock(); }
  bool try_lock() { return l.try_lock(); }
  void unlock() { l.unlock(); }
  void lock_shared(size_t) { l.lock_shared(); }
  bool try_lock_shared(size_t) { return l.try_lock_shared(); }
  void unlock_shared(size_t) { l.unlock_shared(); }
  void lock_upgrade() { l.lock_upgrade(); }
  void lock_downgrade() { l.lock_downgrade(); }
};
template <size_t N>
struct AdImpl {
  static constexpr bool kUpgrade = false;
  dispenso::detail::DistributedRWLockImpl<N> l;
  void lock() { l.lock(); }
  bool try_lock() { return l.try_lock(); }
  void unlock() { l.unlock(); }
  void lock_shared(size_t s) { l.lock_shared(s); }
  bool try_lock_shared(size_t s) { return l.try_lock_shared(s); }
  void unlock_shared(size_t s) { l.unlock_shared(s); }
  void lock_upgrade() {}
  void lock_downgrade() {}
};
template <size_t N>
struct AdPub {
  static constexpr bool kUpgrade = false;
  dispenso::DistributedRWLock<N> l;
  void lock() { l.lock(); }
  bool try_lock() { return l.try_lock(); }
  void unlock() { l.unlock(); }
  void lock_shared(size_t) { l.lock_shared(); }
  bool try_lock_shared(size_t) { return l.try_lock_shared(); }
  void unlock_shared(size_t) { l.unlock_shared(); }
  void lock_upgrade() {}
  void lock_downgrade() {}
};

struct Counts {
  long ops = 0, tryW_ok = 0, tryW_fail = 0, tryR_ok = 0, tryR_fail = 0, upgrades = 0, downgrades = 0;
  char pad[64];
};

struct Obs {
  Counts c;
  long bad = 0;
  long futexWaits = 0;
  bool freeAtEnd = true;
};

std::atomic<long> g_opsDone{0};
std::atomic<int> g_threadsDone{0};
std::atomic<Mon*> g_mon{nullptr};
std::string dumpState() {
  J j;
  j.kv("opsDone", g_opsDone.load()).kv("threadsDone", g_threadsDone.load());
  // (the monitor object outlives the armed watchdog: it is unpublished before the case ends)
  Mon* m = g_mon.load(std::memory_order_relaxed);
  if (m) j.kv("writersInside", m->writers.load()).kv("readersInside", m->readers.load());
  return j.str();
}

template <typename Ad>
Obs runProg(const Spec& s) {
  Obs o;
  Ad ad; // on the stack: alignas(64) types are honoured there in C++14
  Mon mon;
  g_mon = &mon;
  g_opsDone = 0;
  g_threadsDone = 0;
  std::atomic<int> token{0};
  std::vector<Counts> counts(static_cast<size_t>(s.threads));
  if (s.hookP > 0) {
    vrt::hookProb(V::kRwTryLockAfterFetchOr, s.hookP);
    vrt::hookProb(V::kRwSharedAfterFetchAdd, s.hookP);
    vrt::hookProb(V::kRwLockAfterWriteBit, s.hookP);
    vrt::hookProb(V::kDrwTryLockBetweenSlots, s.hookP);
    vrt::hookProb(V::kEventBeforeFutexWait, s.hookP);
  }
  if (s.preWaitP > 0) vrt::futexPreWaitDelay(s.preWaitP, s.preWaitUs);
  vrt::FutexStats f0 = vrt::futexStats();
  hs::SpinStart start(s.threads);
  auto body = [&](int t) {
    Counts& c = counts[static_cast<size_t>(t)];
    start.arriveAndWait();
    const bool useToken = s.upgrade && !s.othersReadOnly;
    auto takeToken = [&] {
      if (!useToken) return;
      unsigned spins = 0;
      while (token.exchange(1, std::memory_order_relaxed)) {
        if (++spins % 64 == 0) std::this_thread::yield();
      }
    };
    auto dropToken = [&] {
      if (useToken) token.store(0, std::memory_order_relaxed);
    };
    for (const Op& op : s.prog[static_cast<size_t>(t)]) {
      switch (op.kind) {
        case kW:
        case kWD:
          takeToken();
          ad.lock();
          mon.enterW("lock() returned while another thread is inside");
          vrt::spinFor(op.dwellIn);
          if (op.kind == kWD) {
            mon.downgrade();
            ad.lock_downgrade();
            ++c.downgrades;
            vrt::spinFor(op.dwellIn2);
            mon.exitR();
            ad.unlock_shared(op.slot);
          } else {
            mon.exitW();
            ad.unlock();
          }
          dropToken();
          break;
        case kTW:
        case kTWD:
          takeToken();
          if (ad.try_lock()) {
            ++c.tryW_ok;
            mon.enterW("try_lock() succeeded while another thread is inside");
            vrt::spinFor(op.dwellIn);
            if (op.kind == kTWD) {
              mon.downgrade();
              ad.lock_downgrade();
              ++c.downgrades;
              vrt::spinFor(op.dwellIn2);
              mon.exitR();
              ad.unlock_shared(op.slot);
            } else {
              mon.exitW();
              ad.unlock();
            }
          } else {
            ++c.tryW_fail;
          }
          dropToken();
          break;
        case kR:
          ad.lock_shared(op.slot);
          mon.enterR("lock_shared() returned while a writer is inside");
          vrt::spinFor(op.dwellIn);
          mon.exitR();
          ad.unlock_shared(op.slot);
          break;
        case kTR:
          if (ad.try_lock_shared(op.slot)) {
            ++c.tryR_ok;
            mon.enterR("try_lock_shared() succeeded while a writer is inside");
            vrt::spinFor(op.dwellIn);
            mon.exitR();
            ad.unlock_shared(op.slot);
          } else {
            ++c.tryR_fail;
          }
          break;
        case kUD:
        case kUU:
          takeToken();
          ad.lock_shared(op.slot);
          mon.enterR("lock_shared() returned while a writer is inside");
          vrt::spinFor(op.dwellIn);
          ad.lock_upgrade();
          mon.upgraded();
          ++c.upgrades;
          vrt::spinFor(op.dwellIn2);
          if (op.kind == kUD) {
            mon.downgrade();
            ad.lock_downgrade();
            ++c.downgrades;
            vrt::spinFor(op.dwellIn);
            mon.exitR();
            ad.unlock_shared(op.slot);
          } else {
            mon.exitW();
            ad.unlock();
          }
          dropToken();
          break;
        default:
          break;
      }
      ++c.ops;
      g_opsDone.fetch_add(1, std::memory_order_relaxed);
      vrt::progress();
      if (op.dwellOut) vrt::spinFor(op.dwellOut);
    }
    g_threadsDone.fetch_add(1, std::memory_order_relaxed);
  };
  std::vector<std::thread> th;
  for (int t = 0; t < s.threads; ++t) th.emplace_back(body, t);
  for (auto& t : th) t.join();
  vrt::hooksReset();
  vrt::futexReset();
  // quiescence: nothing may be left behind by failed try_* / roll-backs
  if (!ad.try_lock()) {
    o.freeAtEnd = false;
    vrt::violation("lock is not free at quiescence: try_lock() fails although every thread has released", J(), "residue");
  } else {
    mon.enterW("final try_lock");
    mon.exitW();
    ad.unlock();
    size_t slots = s.lockType >= 2 ? static_cast<size_t>(s.N) : 1;
    for (size_t i = 0; i < slots; ++i) {
      if (!ad.try_lock_shared(i)) {
        o.freeAtEnd = false;
        vrt::violation("lock is not free at quiescence: try_lock_shared() fails although no writer holds it", J().kv("slot", i), "residue");
      } else {
        ad.unlock_shared(i);
      }
    }
    if (!ad.try_lock()) {
      o.freeAtEnd = false;
      vrt::violation("lock is not free at quiescence: second try_lock() fails (reader count left behind)", J(), "residue");
    } else {
      ad.unlock();
    }
  }
  vrt::progress();
  for (auto& c : counts) {
    o.c.ops += c.ops;
    o.c.tryW_ok += c.tryW_ok;
    o.c.tryW_fail += c.tryW_fail;
    o.c.tryR_ok += c.tryR_ok;
    o.c.tryR_fail += c.tryR_fail;
    o.c.upgrades += c.upgrades;
    o.c.downgrades += c.downgrades;
  }
  o.bad = mon.bad.load();
  o.futexWaits = static_cast<long>(vrt::futexStats().waits - f0.waits);
  g_mon = nullptr;
  return o;
}

Obs dispatch(const Spec& s) {
  switch (s.lockType) {
    case 0: return runProg<AdRW<dispenso::RWLock>>(s);
    case 1: return runProg<AdRW<dispenso::UnalignedRWLock>>(s);
    case 2:
      switch (s.N) {
        case 1: return runProg<AdImpl<1>>(s);
        case 2: return runProg<AdImpl<2>>(s);
        case 4: return runProg<AdImpl<4>>(s);
        default: return runProg<AdImpl<16>>(s);
      }
    default:
      switch (s.N) {
        case 1: return runProg<AdPub<1>>(s);
        case 2: return runProg<AdPub<2>>(s);
        case 4: return runProg<AdPub<4>>(s);
        default: return runProg<AdPub<16>>(s);
      }
  }
}

void genProg(vrt::Rng& r, Spec& s, bool dist) {
  const long maxOps = vrt::g_args.getInt("ops", vrt::thorough() ? 200 : 80);
  const int dwellMax = static_cast<int>(r.pick(std::vector<int>{0, 2, 10, 50}));
  s.prog.resize(static_cast<size_t>(s.threads));
  // per-thread bias so that some threads are mostly writers, some mostly readers
  for (int t = 0; t < s.threads; ++t) {
    long nops = r.range(maxOps / 4, maxOps);
    double wBias = r.pick(std::vector<double>{0.1, 0.3, 0.5, 0.9});
    double tryBias = r.pick(std::vector<double>{0.2, 0.5, 0.8});
    bool readOnly = s.upgrade && s.othersReadOnly && t != 0;
    for (long k = 0; k < nops; ++k) {
      Op op{};
      bool w = !readOnly && r.chance(wBias);
      bool tr = r.chance(tryBias);
      if (w) {
        if (!dist && s.upgrade && t == 0 && r.chance(0.5)) op.kind = r.chance(0.7) ? kUD : kUU;
        else if (!dist && r.chance(0.25)) op.kind = tr ? kTWD : kWD;
        else op.kind = tr ? kTW : kW;
      } else {
        op.kind = tr ? kTR : kR;
      }
      if (s.slotMap == 0) op.slot = 0;
      else if (s.slotMap == 1) op.slot = static_cast<uint8_t>(t % std::max(1, s.N));
      else op.slot = static_cast<uint8_t>(r.below(static_cast<uint64_t>(std::max(1, s.N))));
      op.dwellIn = static_cast<uint8_t>(r.below(static_cast<uint64_t>(dwellMax) + 1));
      op.dwellIn2 = static_cast<uint8_t>(r.below(static_cast<uint64_t>(dwellMax) + 1));
      op.dwellOut = r.chance(0.3) ? static_cast<uint8_t>(r.below(static_cast<uint64_t>(dwellMax) + 1)) : 0;
      s.prog[static_cast<size_t>(t)].push_back(op);
    }
  }
  if (r.chance(0.5)) s.hookP = r.pick(std::vector<double>{0.05, 0.2, 0.5});
  if (r.chance(0.3)) {
    s.preWaitP = 0.5;
    s.preWaitUs = static_cast<int>(r.range(10, 200));
  }
}

void finishCase(const Spec& s, const Obs& o, std::vector<std::string> cls) {
  if (o.c.tryW_ok) cls.push_back("try_lock-succeeded");
  if (o.c.tryW_fail) cls.push_back("try_lock-failed");
  if (o.c.tryR_ok) cls.push_back("try_lock_shared-succeeded");
  if (o.c.tryR_fail) cls.push_back("try_lock_shared-failed");
  if (o.c.upgrades) cls.push_back("upgrade");
  if (o.c.downgrades) cls.push_back("downgrade");
  if (o.futexWaits) cls.push_back("writer-parked");
  if (s.hookP > 0) cls.push_back("perturbed");
  bool nt = o.c.ops >= 4 && s.threads >= 2;
  vrt::caseEnd(J().kv("ops", o.c.ops)
                   .kv("tryW_ok", o.c.tryW_ok)
                   .kv("tryW_fail", o.c.tryW_fail)
                   .kv("tryR_ok", o.c.tryR_ok)
                   .kv("tryR_fail", o.c.tryR_fail)
                   .kv("upgrades", o.c.upgrades)
                   .kv("downgrades", o.c.downgrades)
                   .kv("futexWaits", o.futexWaits)
                   .kv("overlaps", o.bad),
               nt ? s.json().str() : "", cls);
}

} // namespace

void runC22() {
  const long n = vrt::g_args.getInt("n", vrt::thorough() ? 6000 : 400);
  vrt::setStateDumper(dumpState);
  for (long idx = 0; idx < n; ++idx) {
    if (!vrt::selected(idx)) continue;
    vrt::Rng r = vrt::caseRng(idx);
    Spec s;
    s.lockType = r.chance(0.75) ? 0 : 1;
    s.threads = r.chance(0.7) ? static_cast<int>(r.range(2, 4)) : static_cast<int>(r.range(5, 8));
    s.upgrade = (idx % 3) == 0;
    s.othersReadOnly = s.upgrade && r.chance(0.4);
    genProg(r, s, false);
    std::string key = std::string("rwlock/") + (s.lockType == 0 ? "aligned" : "unaligned") + "/" +
        (s.upgrade ? (s.othersReadOnly ? "upgrader+readers" : "upgrader+serialised-writers") : "no-upgrade") + "/" + (s.threads <= 4 ? "t2-4" : "t5-8");
    vrt::caseBegin(idx, key, s.json());
    vrt::watchdogArm();
    Obs o = dispatch(s);
    vrt::watchdogDisarm();
    std::vector<std::string> cls;
    cls.push_back(s.lockType == 0 ? "RWLock" : "UnalignedRWLock");
    cls.push_back(s.upgrade ? "upgrade-program" : "plain-program");
    cls.push_back(s.threads <= 4 ? "t2-4" : "t5-8");
    finishCase(s, o, cls);
  }
}

void runC23() {
  const long n = vrt::g_args.getInt("n", vrt::thorough() ? 6000 : 400);
  vrt::setStateDumper(dumpState);
  static const int kNs[] = {1, 2, 4, 16};
  for (long idx = 0; idx < n; ++idx) {
    if (!vrt::selected(idx)) continue;
    vrt::Rng r = vrt::caseRng(idx);
    Spec s;
    s.lockType = (idx % 3) == 2 ? 3 : 2;
    s.N = kNs[(idx / 3) % 4];
    s.threads = r.chance(0.6) ? static_cast<int>(r.range(2, 4)) : static_cast<int>(r.range(5, 8));
    s.slotMap = s.lockType == 3 ? 1 : static_cast<int>(r.below(3));
    genProg(r, s, true);
    static const char* mapName[] = {"one-slot", "slot-per-thread", "random-slots"};
    std::string key = std::string("dist/") + (s.lockType == 2 ? "impl" : "public") + "/N" + std::to_string(s.N) + "/" + (s.lockType == 3 ? "threadId-slots" : mapName[s.slotMap]);
    vrt::caseBegin(idx, key, s.json());
    vrt::watchdogArm();
    Obs o = dispatch(s);
    vrt::watchdogDisarm();
    std::vector<std::string> cls;
    cls.push_back("N=" + std::to_string(s.N));
    cls.push_back(s.lockType == 2 ? "explicit-slots" : "public-api");
    if (s.lockType == 2) cls.push_back(std::string("map:") + mapName[s.slotMap]);
    cls.push_back(s.threads <= 4 ? "t2-4" : "t5-8");
    finishCase(s, o, cls);
  }
}
