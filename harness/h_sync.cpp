// Engine h_sync: C21 (CompletionEvent / Latch), C22 (RWLock), C23 (DistributedRWLock),
// C24 (AsyncRequest), C25 (ResourcePool), C26 (TimedTask), C45 (threadId).
// Each property lives in its own translation unit h_sync_c<NN>.cpp.
#include <sys/syscall.h>

#include "h_sync_common.h"

int main(int argc, char** argv) {
  vrt::init(argc, argv);
  // Resolve the runtime's futex interposer once, single-threaded: its lazily initialised pointer to
  // the real syscall() is guarded by a function-local static, and libstdc++ waits on a contended
  // guard through syscall(SYS_futex) - which is the interposer again. Several threads making the
  // process's first futex call together can recurse there until the stack is exhausted.
  (void)syscall(SYS_getpid);
  const std::string& p = vrt::g_args.prop;
  if (p == "C21") runC21();
  else if (p == "C22") runC22();
  else if (p == "C23") runC23();
  else if (p == "C24") runC24();
  else if (p == "C25") runC25();
  else if (p == "C26") runC26();
  else if (p == "C45") runC45();
  else {
    fprintf(stderr, "h_sync: unknown property %s\n", p.c_str());
    return 2;
  }
  return vrt::finish();
}
