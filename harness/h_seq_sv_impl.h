#pragma once
// Interpreter of C38 programs on one SmallVector<T, N> instantiation (see h_seq_common.h).
#include <dispenso/small_vector.h>

#include "h_seq_common.h"

namespace hs {

template <typename T, size_t N>
class SvRunner : public SvRunnerBase {
  using Vec = dispenso::SmallVector<T, N>;
  struct Store {
    alignas(Vec) unsigned char a[sizeof(Vec)];
    alignas(Vec) unsigned char b[sizeof(Vec)];
  };

 public:
  SvRunner() : store_(new Store) {
    inlineCap = N;
    align = alignof(T);
  }

  SeqResult run(const Program& p) override {
    res_ = SeqResult();
    vrt::lifeReset();
    ctr_ = 0;
    misSeen_ = 0;
    v_[0] = new (store_->a) Vec();
    v_[1] = new (store_->b) Vec();
    r_[0].clear();
    r_[1].clear();
    stepNo_ = 0;
    if (verify("setup", "-")) {
      for (size_t i = 0; i < p.size(); ++i) {
        stepNo_ = static_cast<int>(i);
        if (!step(p[i])) break;
        ++res_.opsRun;
        vrt::progress();
      }
    }
    v_[0]->~Vec();
    v_[1]->~Vec();
    if (res_.ok) {
      r_[0].clear();
      r_[1].clear();
      stepNo_ = static_cast<int>(p.size());
      lifeCheck("dtor", "-");
    }
    return res_;
  }

 private:
  std::unique_ptr<Store> store_;
  Vec* v_[2];
  std::vector<long> r_[2];
  long ctr_ = 0;
  long misSeen_ = 0;
  int stepNo_ = 0;
  SeqResult res_;

  long nv() {
    return ++ctr_;
  }
  static size_t cnt(long a) {
    const size_t tab[16] = {0, 1, 2, 3, N > 1 ? N - 1 : 1, N, N + 1, 2 * N - 1, 2 * N, 2 * N + 1, 3 * N, 4 * N + 1, 5, 7, N / 2 + 1, 5 * N + 3};
    return tab[static_cast<size_t>(a) % 16];
  }
  bool onHeap(const Vec& v) const {
    const unsigned char* d = reinterpret_cast<const unsigned char*>(v.data());
    const unsigned char* o = reinterpret_cast<const unsigned char*>(&v);
    return !(d >= o && d < o + sizeof(Vec));
  }
  bool fail(const char* op, const std::string& cls, const char* kind, const std::string& msg) {
    if (!res_.ok) return false;
    res_.ok = false;
    res_.failStep = stepNo_;
    res_.subkey = std::string(op) + "/" + cls + "/" + kind;
    res_.msg = msg;
    return false;
  }
  bool lifeCheck(const char* op, const std::string& cls) {
    LifeSnap s = lifeSnap();
    long expect = static_cast<long>(r_[0].size() + r_[1].size());
    if (s.col) return fail(op, cls, "life", "element constructed over a live element (" + std::to_string(s.col) + ")");
    if (s.dd) return fail(op, cls, "life", "destructor run on a dead element (" + std::to_string(s.dd) + ")");
    if (s.ud) return fail(op, cls, "life", "dead element read or assigned (" + std::to_string(s.ud) + ")");
    if (s.constructed - s.destroyed != expect)
      return fail(op, cls, "life", "live elements " + std::to_string(s.constructed - s.destroyed) + " but the containers hold " + std::to_string(expect));
    return true;
  }
  bool verify(const char* op, const std::string& cls) {
    for (int k = 0; k < 2; ++k) {
      Vec& v = *v_[k];
      const Vec& cv = v;
      const std::vector<long>& r = r_[k];
      if (v.size() != r.size()) return fail(op, cls, "size", "size " + std::to_string(v.size()) + " expected " + std::to_string(r.size()));
      if (v.empty() != r.empty()) return fail(op, cls, "size", "empty() disagrees with size()");
      if (v.capacity() < v.size()) return fail(op, cls, "capacity", "capacity() < size()");
      for (size_t i = 0; i < r.size(); ++i) {
        const T& e = (stepNo_ & 1) ? cv[i] : v[i];
        if (e.magic != T::kAlive || e.value != r[i])
          return fail(op, cls, "content", "element " + std::to_string(i) + " is " + (e.magic != T::kAlive ? std::string("not a live object") : std::to_string(e.value)) + " expected " + std::to_string(r[i]));
        // every element at an address aligned for its type (soft: does not invalidate the state)
        if (reinterpret_cast<uintptr_t>(&e) % alignof(T)) noteMisaligned(op, v);
      }
      bool heap = onHeap(v);
      (heap ? res_.heapSeen : res_.inlineSeen) = true;
      res_.maxSize = std::max(res_.maxSize, r.size());
    }
    // constructor-time alignment as seen by the registry (covers temporaries inside growToHeap as well)
    long mis = vrt::life().misaligned.load();
    if (mis != misSeen_) {
      misSeen_ = mis;
      noteMisaligned(op, onHeap(*v_[0]) ? *v_[0] : *v_[1]);
    }
    return lifeCheck(op, cls);
  }
  void noteMisaligned(const char* op, const Vec& v) {
    std::string sub = std::string(op) + "/" + (onHeap(v) ? "heap" : "inline") + "/align";
    for (auto& s : res_.soft)
      if (s.first == sub) return;
    res_.soft.emplace_back(sub, "element stored at an address that is not a multiple of alignof(T)=" + std::to_string(alignof(T)));
  }

  bool step(const Op& o) {
    int t = o.t & 1;
    Vec*& x = v_[t];
    Vec*& y = v_[1 - t];
    std::vector<long>& rx = r_[t];
    std::vector<long>& ry = r_[1 - t];
    const char* name = kSvOpNames[o.code];
    std::string cls = onHeap(*x) ? "heap" : "inline";
    const size_t old = rx.size();
    void* where = x;
    bool mutating = true;
    switch (o.code) {
      case kSvCtorDefault:
        x->~Vec();
        x = new (where) Vec();
        rx.clear();
        break;
      case kSvCtorCount: {
        size_t n = cnt(o.a);
        x->~Vec();
        x = new (where) Vec(n);
        rx.assign(n, 0);
        break;
      }
      case kSvCtorCountValue: {
        size_t n = cnt(o.a);
        long v = nv();
        x->~Vec();
        {
          T val(v);
          x = new (where) Vec(n, val);
        }
        rx.assign(n, v);
        break;
      }
      case kSvCtorIlist: {
        long a = nv(), b = nv(), c = nv();
        x->~Vec();
        switch (o.a % 4) {
          case 0: x = new (where) Vec(std::initializer_list<T>{}); rx.clear(); break;
          case 1: x = new (where) Vec({T(a)}); rx = {a}; break;
          case 2: x = new (where) Vec({T(a), T(b)}); rx = {a, b}; break;
          default: x = new (where) Vec({T(a), T(b), T(c)}); rx = {a, b, c}; break;
        }
        break;
      }
      case kSvCopyCtor:
        x->~Vec();
        x = new (where) Vec(static_cast<const Vec&>(*y));
        rx = ry;
        break;
      case kSvMoveCtor:
        x->~Vec();
        x = new (where) Vec(std::move(*y));
        rx = ry;
        ry.clear();
        break;
      case kSvCopyAssign:
        *x = static_cast<const Vec&>(*y);
        rx = ry;
        break;
      case kSvMoveAssign:
        *x = std::move(*y);
        rx = ry;
        y->clear();
        ry.clear();
        break;
      case kSvSelfAssign: {
        const Vec& alias = *x;
        *x = alias;
        break;
      }
      case kSvPushBackCopy: {
        long v = nv();
        T val(v);
        x->push_back(val);
        rx.push_back(v);
        break;
      }
      case kSvPushBackMove: {
        long v = nv();
        T val(v);
        x->push_back(std::move(val));
        rx.push_back(v);
        break;
      }
      case kSvEmplaceBack: {
        long v = nv();
        T& ref = x->emplace_back(v);
        rx.push_back(v);
        if (&ref != &x->back() || ref.value != v) return fail(name, cls, "retpos", "emplace_back did not return the new element");
        break;
      }
      case kSvPushBackAlias: {
        if (old == 0) break;
        size_t i = static_cast<size_t>(o.a) % old;
        cls += (old == x->capacity()) ? "-realloc" : "-noreloc";
        x->push_back((*x)[i]);
        rx.push_back(rx[i]);
        break;
      }
      case kSvPopBack:
        if (old == 0) return true;
        x->pop_back();
        rx.pop_back();
        break;
      case kSvResize:
      case kSvResizeValue: {
        size_t n = cnt(o.a);
        cls += n > old ? "-grow" : (n < old ? "-shrink" : "-same");
        if (o.code == kSvResize) {
          x->resize(n);
          rx.resize(n, 0);
        } else {
          long v = nv();
          T val(v);
          x->resize(n, val);
          rx.resize(n, v);
        }
        break;
      }
      case kSvErase: {
        if (old == 0) return true;
        size_t i = static_cast<size_t>(o.b) % old;
        if (o.b % 5 == 0) i = old - 1;
        if (o.b % 5 == 1) i = 0;
        cls += (i == old - 1) ? "-last" : "-mid";
        auto it = x->erase(x->cbegin() + i);
        size_t exp = static_cast<size_t>(rx.erase(rx.begin() + static_cast<ssize_t>(i)) - rx.begin());
        if (static_cast<size_t>(it - x->begin()) != exp) return fail(name, cls, "retpos", "erase returned the wrong position");
        break;
      }
      case kSvReserve: {
        size_t n = cnt(o.a);
        x->reserve(n);
        if (x->capacity() < n) return fail(name, cls, "capacity", "capacity() " + std::to_string(x->capacity()) + " after reserve(" + std::to_string(n) + ")");
        break;
      }
      case kSvClear:
        x->clear();
        rx.clear();
        break;
      case kSvObserve: {
        mutating = false;
        const Vec& cx = *x;
        size_t k = 0;
        for (auto it = x->begin(); it != x->end(); ++it, ++k)
          if (k >= old || it->value != rx[k]) return fail(name, cls, "content", "iteration diverges at " + std::to_string(k));
        if (k != old) return fail(name, cls, "size", "iteration visited " + std::to_string(k) + " of " + std::to_string(old));
        k = 0;
        for (const T& e : cx) {
          if (k >= old || e.value != rx[k]) return fail(name, cls, "content", "const iteration diverges at " + std::to_string(k));
          ++k;
        }
        if (k != old || static_cast<size_t>(cx.cend() - cx.cbegin()) != old) return fail(name, cls, "size", "const iteration length");
        if (old) {
          if (x->front().value != rx.front() || cx.front().value != rx.front() || x->back().value != rx.back() || cx.back().value != rx.back()) return fail(name, cls, "content", "front()/back()");
          if (x->data() != &(*x)[0] || cx.data() != &cx[0]) return fail(name, cls, "content", "data() != &v[0]");
        }
        if (!onHeap(*x) && x->capacity() != N) return fail(name, cls, "capacity", "inline capacity is not N");
        break;
      }
      default: break;
    }
    if (!verify(name, cls)) return false;
    if (mutating && old) ++res_.mutatingOnNonEmpty;
    res_.opMask |= (uint64_t{1} << o.code);
    return true;
  }
};

} // namespace hs

#define HSEQ_SV_INSTANCE(id, ELEM, N) static hs::SvRegistrar hseq_sv_reg_##id(new hs::SvRunner<ELEM, N>());
