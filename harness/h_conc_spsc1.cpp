#include "h_conc_ring.h"
// SPSCRingBuffer instantiations 4..7
template <size_t Cap, bool Round>
using SR = dispenso::SPSCRingBuffer<Item, Cap, Round>;
RingOutcome runSpsc_4(const RingSpec& s) { return runRingT<SR<4, false>, SpscOps<SR<4, false>>>(s); }
RingOutcome runSpsc_5(const RingSpec& s) { return runRingT<SR<16, true>, SpscOps<SR<16, true>>>(s); }
RingOutcome runSpsc_6(const RingSpec& s) { return runRingT<SR<100, false>, SpscOps<SR<100, false>>>(s); }
RingOutcome runSpsc_7(const RingSpec& s) { return runRingT<SR<100, true>, SpscOps<SR<100, true>>>(s); }
