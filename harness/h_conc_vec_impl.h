#pragma once
// C33: concurrent growth of ConcurrentVector is exact. One instantiation per (traits, element size);
// the instantiations are spread over h_conc_v*.cpp.
#include "h_conc_common.h"

#include <dispenso/concurrent_vector.h>

struct VecSpec {
  int traits = 0; // 0..11: inline(2) x strategy(3) x fast-iterator(2)
  int sizeIdx = 0; // element size 32/64/128/256 -> first bucket 8/4/2/1
  long reserve = -1; // >= 0: reserving constructor
  long prefill = 0;
  int growers = 2, readers = 0;
  long opsPer = 20;
  double hookP = 0;
  int amountMode = 0;
  uint64_t salt = 0;
  J json() const {
    return J().kv("traits", traits).kv("elemSize", 32L << sizeIdx).kv("reserve", reserve).kv("prefill", prefill).kv("growers", growers).kv("readers", readers)
        .kv("opsPer", opsPer).kv("hookP", hookP).kv("amountMode", amountMode).kv("salt", static_cast<unsigned long long>(salt));
  }
};
struct VecOut {
  long size = 0, ops = 0, buckets = 0, readerReads = 0, maxBoundariesCrossed = 0;
  long firstBucket = 0;
  bool usedAllOps = false;
};

constexpr uint64_t kVDefaultTag = 0xDEFA017DEFA017ull;
constexpr uint32_t kVAlive = 0x11FEu;

template <size_t Size>
struct VElem {
  uint64_t tag;
  uint32_t magic;
  uint32_t pad0;
  char pad[Size - 16];
  VElem() : tag(kVDefaultTag), magic(kVAlive), pad0(0) {
    vrt::lifeOnConstruct(this, alignof(VElem));
  }
  explicit VElem(uint64_t t) : tag(t), magic(kVAlive), pad0(0) {
    vrt::lifeOnConstruct(this, alignof(VElem));
  }
  VElem(const VElem& o) : tag(o.tag), magic(kVAlive), pad0(0) {
    vrt::lifeOnConstruct(this, alignof(VElem));
  }
  VElem(VElem&& o) noexcept : tag(o.tag), magic(kVAlive), pad0(1) {
    vrt::lifeOnConstruct(this, alignof(VElem));
  }
  VElem& operator=(const VElem& o) {
    tag = o.tag;
    return *this;
  }
  ~VElem() {
    vrt::lifeOnDestroy(this);
    magic = 0xDEADu;
  }
};

template <bool Inline, dispenso::ConcurrentVectorReallocStrategy S, bool Fast>
struct VTraits {
  static constexpr bool kPreferBuffersInline = Inline;
  static constexpr dispenso::ConcurrentVectorReallocStrategy kReallocStrategy = S;
  static constexpr bool kIteratorPreferSpeed = Fast;
};

inline uint64_t vTag(int g, long op, long i) {
  return (static_cast<uint64_t>(g + 1) << 40) | (static_cast<uint64_t>(op) << 16) | static_cast<uint64_t>(i & 0xFFFF);
}

enum VOp { kPushCopy, kPushMove, kEmplace, kGrowVal, kGrowDefault, kGrowGen, kGrowRange, kGrowInit, kGtaDefault, kGtaVal, kNumVOps };

template <typename Vec>
struct VOpRec {
  int kind;
  long k; // elements added (known kinds); for grow_to_at_least: requested extra over the size seen
  long opIdx;
  long startIdx; // ret - begin() at the time of the call
  typename Vec::iterator it;
  typename Vec::value_type* addr;
  uint64_t target; // grow_to_at_least: n
};

inline long vecAmount(TRng& r, long fb, int mode) {
  switch (mode) {
    case 0: return 1 + static_cast<long>(r.below(3));
    case 1: {
      static const long mul[] = {1, 1, 2, 3, 7};
      long base = fb * mul[r.below(5)];
      return std::max<long>(1, base + static_cast<long>(r.below(3)) - 1);
    }
    case 2: return 1 + static_cast<long>(r.below(static_cast<uint64_t>(4 * fb + 2)));
    default: return r.chance(0.5) ? 1 : std::max<long>(1, fb * (1 + static_cast<long>(r.below(15))) + static_cast<long>(r.below(3)) - 1);
  }
}

template <typename Traits, typename Elem>
static VecOut runVecT(const VecSpec& s) {
  using Vec = dispenso::ConcurrentVector<Elem, Traits>;
  using Rec = VOpRec<Vec>;
  VecOut o;
  vrt::lifeReset();
  std::vector<std::vector<Rec>> recs(static_cast<size_t>(s.growers) + 1);
  std::vector<long> midBad(static_cast<size_t>(s.growers), 0), postBad(static_cast<size_t>(s.growers), 0);
  std::vector<long> readerBad(static_cast<size_t>(std::max(1, s.readers)), 0), readerReads(static_cast<size_t>(std::max(1, s.readers)), 0);
  {
    // the vector is over-aligned (its iterators pack the bucket number into the low bits of its
    // address); C++14 operator new does not honour that, so place it in aligned storage
    struct AlignedVec {
      void* mem = nullptr;
      Vec* v = nullptr;
      AlignedVec() {
        if (posix_memalign(&mem, alignof(Vec) > 64 ? alignof(Vec) : 64, (sizeof(Vec) + 63) / 64 * 64) != 0) abort();
      }
      ~AlignedVec() {
        if (v) v->~Vec();
        free(mem);
      }
    } holder;
    holder.v = s.reserve >= 0 ? new (holder.mem) Vec(static_cast<size_t>(s.reserve), dispenso::ReserveTag) : new (holder.mem) Vec();
    Vec& v = *holder.v;
    const long fb = static_cast<long>(v.default_capacity() / 2);
    o.firstBucket = fb;
    if (s.hookP > 0) {
      vrt::hookProb(V::kCVecAllocBeforeStore, s.hookP);
      vrt::hookMaxSleepUs(80);
    }
    // one growth operation; returns false if the harness' own sanity (tags fit) would break
    auto doOp = [&](int g, long opIdx, int kind, long k, TRng& rng, std::vector<Rec>& out, long& bad) {
      Rec r;
      r.kind = kind;
      r.k = k;
      r.opIdx = opIdx;
      r.target = 0;
      typename Vec::iterator it;
      switch (kind) {
        case kPushCopy: {
          Elem e(vTag(g, opIdx, 0));
          it = v.push_back(e);
          r.k = 1;
          break;
        }
        case kPushMove: {
          Elem e(vTag(g, opIdx, 0));
          it = v.push_back(std::move(e));
          r.k = 1;
          break;
        }
        case kEmplace:
          it = v.emplace_back(vTag(g, opIdx, 0));
          r.k = 1;
          break;
        case kGrowVal: {
          Elem e(vTag(g, opIdx, 0xFFFF));
          it = v.grow_by(static_cast<size_t>(k), e);
          break;
        }
        case kGrowDefault: {
          it = v.grow_by(static_cast<size_t>(k));
          auto w = it;
          for (long i = 0; i < k; ++i, ++w) {
            if (w->tag != kVDefaultTag || w->magic != kVAlive) ++bad; // default-constructed by the vector
            w->tag = vTag(g, opIdx, i);
          }
          break;
        }
        case kGrowGen: {
          long i = 0;
          it = v.grow_by_generator(static_cast<size_t>(k), [&]() { return Elem(vTag(g, opIdx, i++)); });
          break;
        }
        case kGrowRange: {
          std::vector<Elem> src;
          src.reserve(static_cast<size_t>(k));
          for (long i = 0; i < k; ++i) src.emplace_back(vTag(g, opIdx, i));
          it = v.grow_by(src.begin(), src.end());
          break;
        }
        case kGrowInit: {
          it = v.grow_by({Elem(vTag(g, opIdx, 0)), Elem(vTag(g, opIdx, 1)), Elem(vTag(g, opIdx, 2))});
          r.k = 3;
          break;
        }
        case kGtaDefault: {
          size_t n = v.size() + static_cast<size_t>(k);
          r.target = n;
          it = v.grow_to_at_least(n);
          if (v.size() < n) ++bad;
          break;
        }
        default: {
          size_t n = v.size() + static_cast<size_t>(k);
          r.target = n;
          Elem e(vTag(g, opIdx, 0xFFFF));
          it = v.grow_to_at_least(n, e);
          if (v.size() < n) ++bad;
          break;
        }
      }
      r.it = it;
      // grow_to_at_least may return an iterator to element n-1 that another thread is still adding
      // (size() already counts it): that element is not published to this thread, so it is not touched
      r.addr = (kind == kGtaDefault || kind == kGtaVal) ? nullptr : &*it;
      r.startIdx = static_cast<long>(it - v.begin());
      out.push_back(r);
      (void)rng;
    };
    auto expectTag = [](int g, const Rec& r, long i) -> uint64_t {
      if (r.kind == kGrowVal || r.kind == kGtaVal) return vTag(g, r.opIdx, 0xFFFF);
      return vTag(g, r.opIdx, i);
    };
    // ---- sequential prefill by the main thread (slot index = growers)
    {
      TRng rng(vrt::mix(s.salt, 5));
      long bad = 0;
      long opIdx = 0;
      while (static_cast<long>(v.size()) < s.prefill) {
        long k = std::min<long>(s.prefill - static_cast<long>(v.size()), vecAmount(rng, fb, 1));
        static const int kinds[] = {kPushCopy, kEmplace, kGrowVal, kGrowGen, kGrowRange};
        doOp(s.growers, opIdx++, kinds[rng.below(5)], k, rng, recs[static_cast<size_t>(s.growers)], bad);
      }
      if (bad) flag("sequential growth produced elements that are not default-constructed", J().kv("count", bad), "default-init");
    }
    const long published = static_cast<long>(v.size());
    std::vector<uint64_t> prefixTags(static_cast<size_t>(published));
    for (long i = 0; i < published; ++i) prefixTags[static_cast<size_t>(i)] = v[static_cast<size_t>(i)].tag;
    // ---- concurrent phase
    std::atomic<bool> stop{false};
    HBarrier start(s.growers + s.readers);
    std::vector<std::thread> gs, rs;
    for (int g = 0; g < s.growers; ++g) {
      gs.emplace_back([&, g]() {
        TRng rng(vrt::mix(s.salt, 100 + static_cast<uint64_t>(g)));
        auto& mine = recs[static_cast<size_t>(g)];
        mine.reserve(static_cast<size_t>(s.opsPer));
        start.wait();
        for (long op = 0; op < s.opsPer; ++op) {
          int kind = static_cast<int>(rng.below(kNumVOps));
          long k = vecAmount(rng, fb, s.amountMode);
          if (k > 60000) k = 60000;
          doOp(g, op, kind, k, rng, mine, midBad[static_cast<size_t>(g)]);
          vrt::progress();
          if (rng.chance(0.3)) {
            // elements this thread added earlier are still reachable through the iterator and the
            // reference obtained then (iterators and references stay valid under growth)
            const Rec& r = mine[rng.below(mine.size())];
            if (r.kind != kGtaDefault && r.kind != kGtaVal && r.k > 0) {
              long i = static_cast<long>(rng.below(static_cast<uint64_t>(r.k)));
              if (r.addr->tag != expectTag(g, r, 0)) ++midBad[static_cast<size_t>(g)];
              if ((r.it + i)->tag != expectTag(g, r, i)) ++midBad[static_cast<size_t>(g)];
              if (r.it[i].tag != expectTag(g, r, i)) ++midBad[static_cast<size_t>(g)];
              if (v[static_cast<size_t>(r.startIdx + i)].tag != expectTag(g, r, i)) ++midBad[static_cast<size_t>(g)];
            }
          }
        }
      });
    }
    for (int q = 0; q < s.readers; ++q) {
      rs.emplace_back([&, q]() {
        TRng rng(vrt::mix(s.salt, 900 + static_cast<uint64_t>(q)));
        start.wait();
        long reads = 0, bad = 0;
        const Vec& cv = v;
        while (!stop.load(std::memory_order_relaxed)) {
          if (published > 0) {
            size_t i = static_cast<size_t>(rng.below(static_cast<uint64_t>(published)));
            uint64_t want = prefixTags[i];
            switch (rng.below(4)) {
              case 0: bad += v[i].tag != want; break;
              case 1: bad += cv.at(i).tag != want; break;
              case 2: bad += (v.begin() + static_cast<ssize_t>(i))->tag != want; break;
              default: {
                auto it = cv.begin() + static_cast<ssize_t>(i);
                size_t lim = std::min<size_t>(static_cast<size_t>(published), i + 12);
                for (size_t j = i; j < lim; ++j, ++it) bad += it->tag != prefixTags[j];
                break;
              }
            }
            ++reads;
          }
          (void)v.size();
          (void)v.empty();
          if ((reads & 31) == 0) std::this_thread::yield();
        }
        readerBad[static_cast<size_t>(q)] = bad;
        readerReads[static_cast<size_t>(q)] = reads;
      });
    }
    for (auto& t : gs) t.join();
    stop.store(true, std::memory_order_relaxed);
    for (auto& t : rs) t.join();
    vrt::hooksReset();
    // ---- quiescent checks
    const long size = static_cast<long>(v.size());
    o.size = size;
    std::vector<int> cover(static_cast<size_t>(size), 0);
    long knownTotal = 0, rangeBad = 0, itBad = 0, addrBad = 0, outOfRange = 0, gtaBad = 0;
    bool anyGtaDefault = false;
    J example;
    for (int g = 0; g <= s.growers; ++g) {
      for (const Rec& r : recs[static_cast<size_t>(g)]) {
        ++o.ops;
        if (r.kind == kGtaDefault) {
          anyGtaDefault = true;
          continue;
        }
        if (r.kind == kGtaVal) {
          // the elements carrying this call's value are the ones it added: contiguous, starting at the returned iterator
          uint64_t want = vTag(g, r.opIdx, 0xFFFF);
          long cnt = 0, first = -1, last = -1;
          for (long i = 0; i < size; ++i) {
            if (v[static_cast<size_t>(i)].tag == want) {
              if (first < 0) first = i;
              last = i;
              ++cnt;
            }
          }
          if (cnt > 0) {
            if (last - first + 1 != cnt || first != r.startIdx) ++gtaBad;
            for (long i = first; i <= last; ++i) ++cover[static_cast<size_t>(i)];
            knownTotal += cnt;
          }
          continue;
        }
        knownTotal += r.k;
        if (r.startIdx < 0 || r.startIdx + r.k > size) {
          ++outOfRange;
          continue;
        }
        if (r.k > 0 && &v[static_cast<size_t>(r.startIdx)] != r.addr) ++addrBad;
        auto it = r.it;
        for (long i = 0; i < r.k; ++i, ++it) {
          ++cover[static_cast<size_t>(r.startIdx + i)];
          uint64_t want = expectTag(g, r, i);
          if (v[static_cast<size_t>(r.startIdx + i)].tag != want) {
            if (!rangeBad++) {
              example = J().kv("thread", g).kv("op", r.opIdx).kv("kind", r.kind).kv("k", r.k).kv("start", r.startIdx).kv("offset", i)
                            .kv("found", static_cast<unsigned long long>(v[static_cast<size_t>(r.startIdx + i)].tag)).kv("expected", static_cast<unsigned long long>(want));
            }
          }
          if (it->tag != want || it->magic != kVAlive) ++itBad;
        }
        // boundaries crossed by this range (first bucket and bucket 1 have the same length)
        long a = r.startIdx, b = r.startIdx + r.k - 1, crossed = 0;
        for (long edge = fb; edge <= b; edge *= 2) {
          if (edge > a) ++crossed;
        }
        o.maxBoundariesCrossed = std::max(o.maxBoundariesCrossed, crossed);
      }
    }
    long uncovered = 0, doubly = 0, defaultLeft = 0;
    for (long i = 0; i < size; ++i) {
      if (cover[static_cast<size_t>(i)] > 1) ++doubly;
      if (cover[static_cast<size_t>(i)] == 0) {
        if (v[static_cast<size_t>(i)].tag == kVDefaultTag && v[static_cast<size_t>(i)].magic == kVAlive && anyGtaDefault) ++defaultLeft;
        else ++uncovered;
      }
    }
    if (outOfRange) flag("a growth call returned a range that is not inside [0, size())", J().kv("count", outOfRange).kv("size", size), "ranges");
    if (rangeBad) flag("a range returned by a growth call does not hold that call's values in order (element lost or overwritten)", J().kv("count", rangeBad).kv("example", example), "ranges");
    if (doubly) flag("two growth calls were given the same index", J().kv("indices", doubly), "ranges");
    if (uncovered) flag("final size exceeds the total growth: elements that no growth call produced", J().kv("count", uncovered).kv("size", size).kv("knownGrowth", knownTotal), "size");
    if (!anyGtaDefault && knownTotal != size) flag("final size differs from the total growth", J().kv("size", size).kv("growth", knownTotal), "size");
    if (anyGtaDefault && knownTotal + defaultLeft != size) flag("final size differs from the total growth", J().kv("size", size).kv("growth", knownTotal + defaultLeft), "size");
    if (gtaBad) flag("grow_to_at_least(n, value): the added elements are not contiguous from the returned iterator", J().kv("count", gtaBad), "ranges");
    if (itBad) flag("iterator obtained from a growth call no longer walks over that call's elements", J().kv("count", itBad), "iterators");
    if (addrBad) flag("reference obtained from a growth call no longer refers to the element at its index", J().kv("count", addrBad), "iterators");
    long mid = 0, rb = 0;
    for (long x : midBad) mid += x;
    for (size_t q = 0; q < static_cast<size_t>(s.readers); ++q) {
      rb += readerBad[q];
      o.readerReads += readerReads[q];
    }
    if (mid) flag("during growth: an element added earlier by the same thread read back wrong through its iterator / reference / index (or a grown element was not default-constructed, or size() < n after grow_to_at_least)", J().kv("count", mid), "iterators");
    if (rb) flag("a reader of already-published elements saw a wrong value while others were growing the vector", J().kv("count", rb), "readers");
    // whole-vector iteration, both ways, agrees with indexing
    {
      long i = 0, walkBad = 0;
      for (auto it = v.begin(); it != v.end(); ++it, ++i) walkBad += &*it != &v[static_cast<size_t>(i)];
      if (i != size) ++walkBad;
      i = size;
      for (auto it = v.rbegin(); it != v.rend(); ++it) {
        --i;
        walkBad += &*it != &v[static_cast<size_t>(i)];
      }
      if (walkBad) flag("iteration over the final vector disagrees with indexing", J().kv("count", walkBad), "iterators");
    }
    o.buckets = 1;
    for (long cap = fb; cap < size; cap *= 2) ++o.buckets;
    recs.clear(); // iterators into the vector go first
  }
  // ---- lifetimes (every element and every temporary is gone now)
  vrt::LifeStats& ls = vrt::life();
  if (ls.constructOverLive.load()) flag("an element was constructed over a live element (two growth calls got the same slot)", vrt::lifeJson(), "lifetime");
  if (ls.destroyDead.load()) flag("an element was destroyed twice", vrt::lifeJson(), "lifetime");
  if (ls.live() != 0) flag("elements constructed and destroyed do not balance after the vector was destroyed", vrt::lifeJson(), "lifetime");
  return o;
}
