// Engine h_pool: futures / continuations / when_all registered with pools and task sets, and static
// parallel_for through a task set. See h_pool_common.h.
#include <dispenso/future.h>
#include <dispenso/parallel_for.h>

#include "h_pool_common.h"

using dispenso::ConcurrentTaskSet;
using dispenso::TaskSet;
using dispenso::ThreadPool;

struct FutBox {
  std::vector<dispenso::Future<void>> setBound; // registered with the program's local set since its last barrier
  std::vector<dispenso::Future<std::vector<dispenso::Future<void>>>> setBoundAll;
  std::vector<dispenso::Future<void>> other; // pool-bound or bound to the global set: only kept alive
};

FutBox* futBoxNew() {
  return new FutBox;
}
void futBoxFree(FutBox* b) {
  delete b;
}
long futBoxNotReady(FutBox& b) {
  long n = 0;
  for (auto& f : b.setBound) n += f.is_ready() ? 0 : 1;
  for (auto& f : b.setBoundAll) n += f.is_ready() ? 0 : 1;
  return n;
}
long futBoxSetBound(FutBox& b) {
  return static_cast<long>(b.setBound.size() + b.setBoundAll.size());
}
void futBoxClearSetBound(FutBox& b) {
  for (auto& f : b.setBound) b.other.push_back(std::move(f));
  b.setBound.clear();
  b.setBoundAll.clear();
}

void subFutPool(ThreadPool& p, FutBox& b, const Task& t, bool forceAsync) {
  SubmitScope s(t.id, t.id + 1, forceAsync);
  if (forceAsync) b.other.emplace_back(dispenso::async(p, std::launch::async, Task(t)));
  else b.other.emplace_back(dispenso::async(p, Task(t)));
}

template <typename TS>
static void subFutTsT(TS& ts, FutBox& b, const Task& t) {
  SubmitScope s(t.id, t.id + 1, false);
  bool local = t.note != &g.ctsMon;
  auto f = dispenso::async(ts, Task(t));
  if (local) b.setBound.emplace_back(std::move(f));
  else b.other.emplace_back(std::move(f));
}
void subFutTs(TaskSet& s, FutBox& b, const Task& t) {
  subFutTsT(s, b, t);
}
void subFutTs(ConcurrentTaskSet& s, FutBox& b, const Task& t) {
  subFutTsT(s, b, t);
}

template <typename TS>
static void subThenTsT(TS& ts, FutBox& b, const Task& a, const Task& c) {
  SubmitScope s(a.id, a.id + 2, false);
  auto fa = dispenso::async(ts, Task(a));
  Task cc = c;
  auto fc = fa.then([cc](dispenso::Future<void>&&) { cc(); }, ts);
  b.setBound.emplace_back(std::move(fa));
  b.setBound.emplace_back(std::move(fc));
}
void subThenTs(TaskSet& s, FutBox& b, const Task& a, const Task& c) {
  subThenTsT(s, b, a, c);
}
void subThenTs(ConcurrentTaskSet& s, FutBox& b, const Task& a, const Task& c) {
  subThenTsT(s, b, a, c);
}

template <typename TS>
static bool subWhenAllTsT(TS& ts, FutBox& b) {
  if (b.setBound.empty()) return false;
  SubmitScope s(0, 0, false);
  b.setBoundAll.emplace_back(dispenso::when_all(ts, b.setBound.begin(), b.setBound.end()));
  return true;
}
bool subWhenAllTs(TaskSet& s, FutBox& b) {
  return subWhenAllTsT(s, b);
}
bool subWhenAllTs(ConcurrentTaskSet& s, FutBox& b) {
  return subWhenAllTsT(s, b);
}

template <typename TS>
static void subParForT(TS& ts, uint32_t base, uint32_t n, const Task& proto, bool wait) {
  SubmitScope s(base, base + n, false);
  dispenso::ParForOptions opt;
  opt.wait = wait;
  opt.defaultChunking = dispenso::ParForChunking::kStatic;
  Task p = proto;
  dispenso::parallel_for(
      ts, uint32_t{0}, n,
      [base, p](uint32_t i) {
        Task t = mkTask(base + i, A_NONE, p.flags, 0, p.dwellUs, p.note, kNoParent, 0);
        t();
      },
      opt);
}
void subParFor(TaskSet& s, uint32_t base, uint32_t n, const Task& proto, bool wait) {
  if (wait) {
    WaitScope w; // a waiting parallel_for runs chunks on the caller as part of its own wait
    subParForT(s, base, n, proto, wait);
  } else {
    subParForT(s, base, n, proto, wait);
  }
}
void subParFor(ConcurrentTaskSet& s, uint32_t base, uint32_t n, const Task& proto, bool wait) {
  if (wait) {
    WaitScope w;
    subParForT(s, base, n, proto, wait);
  } else {
    subParForT(s, base, n, proto, wait);
  }
}
