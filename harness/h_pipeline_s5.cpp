#include "h_pipeline_impl.h"
void runShapes_g5(int shape, dispenso::ThreadPool& pool) {
  switch (shape) {
    case 21: runCodes<'G', 'v', 'O', 'V', 's'>(pool); break;
    case 22: runCodes<'G', 'O', 'O', 'O', 'S'>(pool); break;
    default: break;
  }
}
