#pragma once
// Shared declarations for engine h_parfor (see h_parfor.cpp)
// Engine h_parfor: C12 (exact coverage), C13 (granularity contract), C14 (state exclusivity),
// C15 (for_each), C17 (static chunking arithmetic), C48 (maxThreads bound).
#include <dispenso/for_each.h>
#include <dispenso/parallel_for.h>
#include <dispenso/task_set.h>
#include <dispenso/thread_pool.h>

#include <algorithm>
#include <deque>
#include <forward_list>
#include <list>
#include <memory>
#include <string>
#include <vector>

#include <unistd.h>

#include "verif_rt.h"

using vrt::J;
using i128 = __int128;
namespace V = dispenso::verif;

static inline std::string s128(i128 v) {
  if (v == 0) return "0";
  bool neg = v < 0;
  unsigned __int128 u = neg ? static_cast<unsigned __int128>(-(v + 1)) + 1 : static_cast<unsigned __int128>(v);
  std::string s;
  while (u) {
    s += static_cast<char>('0' + static_cast<int>(u % 10));
    u /= 10;
  }
  if (neg) s += '-';
  std::reverse(s.begin(), s.end());
  return s;
}


struct ChunkRec {
  i128 b, e;
};
static constexpr size_t kLogCap = 1u << 20;
extern ChunkRec* g_log;
extern std::atomic<size_t> g_logN;
extern size_t g_logLimit;
extern std::atomic<long> g_inflight, g_maxInflight;
extern std::atomic<long> g_stateOverlap;
extern std::atomic<int> g_dwellUs;
extern std::vector<std::atomic<int>>* g_elem;
extern i128 g_elemStart;
extern std::atomic<long> g_elemOutside;
void storm(const char* what);
void resetMonitors(size_t limit, int dwellUs);

static inline void enterBody() {
  long now = g_inflight.fetch_add(1, std::memory_order_relaxed) + 1;
  long mx = g_maxInflight.load(std::memory_order_relaxed);
  while (now > mx && !g_maxInflight.compare_exchange_weak(mx, now, std::memory_order_relaxed)) {
  }
  int d = g_dwellUs.load(std::memory_order_relaxed);
  if (d) vrt::spinFor(d);
}
static inline void leaveBody() {
  g_inflight.fetch_sub(1, std::memory_order_relaxed);
  vrt::progress();
}
template <typename T>
static inline void recordChunk(T b, T e) {
  size_t i = g_logN.fetch_add(1, std::memory_order_relaxed);
  if (i < kLogCap) g_log[i] = ChunkRec{static_cast<i128>(b), static_cast<i128>(e)};
  if (i >= g_logLimit) storm("more chunk invocations than the range allows");
}

struct StateInner {
  std::atomic<int> inUse{0};
  long plain = 0; // plain field: a concurrent use is a TSan-visible race
};
struct State {
  std::unique_ptr<StateInner> p{new StateInner};
};

// ------------------------------------------------------------------ spec
static const char* const kTypeNames[] = {"i8", "u8", "i16", "u16", "i32", "u32", "i64", "u64"};
struct Spec {
  int type = 4;
  i128 start = 0, end = 0;
  int chunking = 0; // 0 static, 1 adaptive, 2 explicit
  i128 chunk = 0;
  int api = 0; // 0 chunked stateless, 1 chunked stateful, 2 element-wise, 3 (start,end) with f(b,e)
  int pool = 4;
  long maxThreads = -1; // -1 default
  unsigned minItems = 1, gran = 1;
  bool wait = true, reuse = false;
  int tsKind = 0; // 0 TaskSet, 1 ConcurrentTaskSet
  int ctx = 0; // 0 caller is an external thread, 1 a pool task, 2 nested inside a parallel_for body
  int container = 0; // 0 vector, 1 deque, 2 list
  int dwellUs = 0;
  double perturb = 0;
  J json() const {
    const char* ck[] = {"static", "adaptive", "explicit"};
    const char* ap[] = {"chunked", "stateful", "elementwise", "range"};
    J j;
    j.kv("type", kTypeNames[type]).kv("start", s128(start)).kv("end", s128(end)).kv("chunking", ck[chunking]);
    if (chunking == 2) j.kv("chunk", s128(chunk));
    j.kv("api", ap[api]).kv("pool", pool).kv("maxThreads", maxThreads).kv("minItems", minItems).kv("gran", gran);
    j.kv("wait", wait).kv("reuse", reuse).kv("ts", tsKind ? "CTS" : "TS").kv("ctx", ctx).kv("container", container);
    j.kv("dwellUs", dwellUs).kv("perturb", perturb);
    return j;
  }
  std::string sig() const {
    return json().str();
  }
};

template <typename T>
static i128 tmin() {
  return static_cast<i128>(std::numeric_limits<T>::min());
}
template <typename T>
static i128 tmax() {
  return static_cast<i128>(std::numeric_limits<T>::max());
}


struct Obs {
  size_t chunks = 0;
  long inflightAtReturn = 0, maxInflight = 0, overlaps = 0;
  bool partitionOk = true;
  std::string partitionMsg;
  long nonMultiple = 0;
  bool nonMultipleEndsAtEnd = true;
  long elemBad = 0;
};
Obs runSpec_t0(const Spec&);
Obs runSpec_t1(const Spec&);
Obs runSpec_t2(const Spec&);
Obs runSpec_t3(const Spec&);
Obs runSpec_t4(const Spec&);
Obs runSpec_t5(const Spec&);
Obs runSpec_t6(const Spec&);
Obs runSpec_t7(const Spec&);
