#include "h_pipeline_impl.h"
// shapes whose stages take the item by const reference / rvalue reference
void runShapes_g6(int shape, dispenso::ThreadPool& pool) {
  switch (shape) {
    case 25: runCodes<'G', 'C'>(pool); break;
    case 26: runCodes<'g', 'c'>(pool); break;
    case 27: runCodes<'G', 'W', 'C'>(pool); break;
    case 28: runCodes<'G', 'w', 'S'>(pool); break;
    case 29: runCodes<'G', 'V', 'C'>(pool); break;
    default: break;
  }
}
