#include "h_parfor_impl.h"

Obs runSpec_t3(const Spec& s) {
  return runSpecT<uint16_t>(s);
}
