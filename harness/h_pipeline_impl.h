#pragma once
// Template side of engine h_pipeline: builds the stage objects of one shape and calls
// dispenso::pipeline(). Included by h_pipeline_s<N>.cpp only.
#include "h_pipeline_common.h"

#include <utility>

template <char C>
struct Mk;
template <>
struct Mk<'x'> {
  static auto make(int) { return Single{}; }
};
template <>
struct Mk<'X'> {
  static auto make(int k) { return dispenso::stage(Single{}, g.limit[k]); }
};
template <>
struct Mk<'g'> {
  static auto make(int) { return GenOpt{}; }
};
template <>
struct Mk<'G'> {
  static auto make(int k) { return dispenso::stage(GenOpt{}, g.limit[k]); }
};
template <>
struct Mk<'r'> {
  static auto make(int) { return GenOp{}; }
};
template <>
struct Mk<'R'> {
  static auto make(int k) { return dispenso::stage(GenOp{}, g.limit[k]); }
};
template <>
struct Mk<'v'> {
  static auto make(int k) { return XVal{k}; }
};
template <>
struct Mk<'V'> {
  static auto make(int k) { return dispenso::stage(XVal{k}, g.limit[k]); }
};
template <>
struct Mk<'o'> {
  static auto make(int k) { return XOpt{k}; }
};
template <>
struct Mk<'O'> {
  static auto make(int k) { return dispenso::stage(XOpt{k}, g.limit[k]); }
};
template <>
struct Mk<'p'> {
  static auto make(int k) { return XOp{k}; }
};
template <>
struct Mk<'P'> {
  static auto make(int k) { return dispenso::stage(XOp{k}, g.limit[k]); }
};
template <>
struct Mk<'s'> {
  static auto make(int k) { return Sink{k}; }
};
template <>
struct Mk<'S'> {
  static auto make(int k) { return dispenso::stage(Sink{k}, g.limit[k]); }
};

template <>
struct Mk<'c'> {
  static auto make(int k) { return SinkCR{k}; }
};
template <>
struct Mk<'C'> {
  static auto make(int k) { return dispenso::stage(SinkCR{k}, g.limit[k]); }
};
template <>
struct Mk<'w'> {
  static auto make(int k) { return XValRR{k}; }
};
template <>
struct Mk<'W'> {
  static auto make(int k) { return dispenso::stage(XValRR{k}, g.limit[k]); }
};

template <char... Cs, size_t... Is>
static void runCodesImpl(dispenso::ThreadPool& pool, std::index_sequence<Is...>) {
  dispenso::pipeline(pool, Mk<Cs>::make(static_cast<int>(Is))...);
}
template <char... Cs>
static void runCodes(dispenso::ThreadPool& pool) {
  runCodesImpl<Cs...>(pool, std::make_index_sequence<sizeof...(Cs)>{});
}
