#pragma once
// C46 (bounded inline nesting): shared declarations between h_nest_c46a.cpp (driver, then-chains,
// recursive task-set scheduling) and h_nest_c46b.cpp (pipelines, graphs).
#include "h_nest_common.h"

struct Spec46 {
  int shape = 0;   // 0 then-chain, 1 recursive ConcurrentTaskSet scheduling, 2 serial pipeline, 3 graph
  int variant = 0; // shape specific
  int pool = 2;
  int mult = 32;
  int load = 0;    // 1: workers held + pool pushed over its load factor while the work is submitted
  bool rootOnPool = false;
  long n = 300;
};

struct Obs46 {
  long maxStack = 0, maxNest = 0, bodies = 0;
};

struct DepthMon {
  std::atomic<long> maxStack{0}, maxNest{0}, bodies{0};
  std::atomic<long> capStack{512 * 1024}, capNest{80}, hardStop{5 * 1024 * 1024};
  std::atomic<int> tripped{0};
  void reset() {
    maxStack.store(0, std::memory_order_relaxed);
    maxNest.store(0, std::memory_order_relaxed);
    bodies.store(0, std::memory_order_relaxed);
  }
};
extern DepthMon g_dm;
extern thread_local int tl_bodyNest;
long stackDepthHere(const void* probe);
void depthCapExceeded(long stack, long nest);

// Placed first in every monitored body.
struct BodyScope {
  BodyScope() {
    char probe;
    long d = stackDepthHere(&probe);
    int nest = ++tl_bodyNest;
    relaxedMax(g_dm.maxStack, d);
    relaxedMax(g_dm.maxNest, nest);
    g_dm.bodies.fetch_add(1, std::memory_order_relaxed);
    vrt::progress();
    if (d > g_dm.capStack.load(std::memory_order_relaxed) || nest > g_dm.capNest.load(std::memory_order_relaxed)) depthCapExceeded(d, nest);
  }
  ~BodyScope() {
    --tl_bodyNest;
  }
};

Obs46 runThenChain(const Spec46& s);
Obs46 runCtsRec(const Spec46& s);
Obs46 runPipe(const Spec46& s);
Obs46 runGraph(const Spec46& s);

// helpers shared by the shapes: hold workers / overload the pool through an auxiliary set
void c46Overload(dispenso::ThreadPool& pool, dispenso::ConcurrentTaskSet& aux, int hold, int mult);
