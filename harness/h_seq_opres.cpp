// C40: dispenso::detail::OpResult against std::optional (the engine is C++17 for this reference only).
#include <dispenso/util.h>

#include <optional>

#include "h_seq_common.h"

namespace hs {

enum OrOp : int {
  kOrCtorDefault = 0,
  kOrCtorValueCopy,
  kOrCtorValueMove,
  kOrCtorFromLong,
  kOrCopyCtor,
  kOrMoveCtor,
  kOrCopyAssign,
  kOrMoveAssign,
  kOrSelfCopyAssign,
  kOrSelfMoveAssign,
  kOrAssignValue,
  kOrAssignValueRv,
  kOrEmplace,
  kOrDestroy,
  kOrObserve,
  kOrNumOps
};
static const char* const kOrOpNames[kOrNumOps] = {"ctor_default", "ctor_value_copy", "ctor_value_move", "ctor_from_long", "copy_ctor", "move_ctor", "copy_assign", "move_assign", "self_copy_assign", "self_move_assign", "assign_value", "assign_value_rv", "emplace", "destroy", "observe"};

template <typename T>
class OrRunner {
  using OR = dispenso::detail::OpResult<T>;
  static constexpr int kSlots = 3;
  struct alignas(alignof(OR)) Slot {
    unsigned char b[sizeof(OR)];
  };

 public:
  SeqResult run(const Program& p) {
    res_ = SeqResult();
    vrt::lifeReset();
    ctr_ = 0;
    for (int i = 0; i < kSlots; ++i) {
      present_[i] = false;
      ref_[i].reset();
    }
    // start state: slot 0 engaged, slot 1 disengaged, slot 2 absent
    {
      long v = nv();
      T val(v);
      new (slot(0)) OR(val);
      present_[0] = true;
      ref_[0] = v;
      new (slot(1)) OR();
      present_[1] = true;
    }
    stepNo_ = 0;
    if (verify("setup", "-")) {
      for (size_t i = 0; i < p.size(); ++i) {
        stepNo_ = static_cast<int>(i);
        if (!step(p[i])) break;
        ++res_.opsRun;
      }
    }
    for (int i = 0; i < kSlots; ++i) {
      if (present_[i]) at(i)->~OR();
      present_[i] = false;
      ref_[i].reset();
    }
    if (res_.ok) {
      stepNo_ = static_cast<int>(p.size());
      lifeCheck("dtor", "-");
    }
    return res_;
  }

 private:
  Slot store_[kSlots];
  bool present_[kSlots];
  std::optional<long> ref_[kSlots];
  long ctr_ = 0;
  int stepNo_ = 0;
  SeqResult res_;

  void* slot(int i) {
    return store_[i].b;
  }
  OR* at(int i) {
    return reinterpret_cast<OR*>(store_[i].b);
  }
  long nv() {
    return ++ctr_;
  }
  bool fail(const char* op, const std::string& cls, const char* kind, const std::string& msg) {
    if (!res_.ok) return false;
    res_.ok = false;
    res_.failStep = stepNo_;
    res_.subkey = std::string(op) + "/" + cls + "/" + kind;
    res_.msg = msg;
    return false;
  }
  bool lifeCheck(const char* op, const std::string& cls) {
    LifeSnap s = lifeSnap();
    long expect = 0;
    for (int i = 0; i < kSlots; ++i) expect += (present_[i] && ref_[i].has_value()) ? 1 : 0;
    if (s.col) return fail(op, cls, "life", "object constructed over a live object (" + std::to_string(s.col) + ")");
    if (s.dd) return fail(op, cls, "life", "destructor run on a dead object (" + std::to_string(s.dd) + ")");
    if (s.ud) return fail(op, cls, "life", "dead object read or assigned (" + std::to_string(s.ud) + ")");
    if (s.constructed - s.destroyed != expect)
      return fail(op, cls, "life", "live contained objects " + std::to_string(s.constructed - s.destroyed) + " but " + std::to_string(expect) + " results are engaged");
    if (s.mis) return fail(op, cls, "align", "contained object at a misaligned address");
    return true;
  }
  bool verify(const char* op, const std::string& cls) {
    for (int i = 0; i < kSlots; ++i) {
      if (!present_[i]) continue;
      OR& r = *at(i);
      const OR& cr = r;
      if (cr.has_value() != ref_[i].has_value() || static_cast<bool>(cr) != ref_[i].has_value())
        return fail(op, cls, "engaged", "slot " + std::to_string(i) + " has_value()=" + (cr.has_value() ? "true" : "false") + " but std::optional says " + (ref_[i].has_value() ? "true" : "false"));
      if (ref_[i].has_value()) {
        T& v = r.value();
        if (v.magic != T::kAlive || v.value != *ref_[i])
          return fail(op, cls, "content", "slot " + std::to_string(i) + " holds " + (v.magic != T::kAlive ? std::string("a dead object") : std::to_string(v.value)) + " expected " + std::to_string(*ref_[i]));
        if (reinterpret_cast<uintptr_t>(&v) % alignof(T)) return fail(op, cls, "align", "value() misaligned");
      }
    }
    return lifeCheck(op, cls);
  }
  // first slot >= start (cyclic) whose presence equals `want`; -1 if none
  int findSlot(long start, bool want, int exclude = -1) const {
    for (int k = 0; k < kSlots; ++k) {
      int i = static_cast<int>((static_cast<size_t>(start) + static_cast<size_t>(k)) % kSlots);
      if (i != exclude && present_[i] == want) return i;
    }
    return -1;
  }
  // after moving from slot j: std::optional leaves the source engaged holding a moved-from value, OpResult is
  // documented nowhere; either is accepted, the reference follows what the source reports (the lifetime
  // balance is checked against that report).
  void syncMovedFrom(int j) {
    if (!ref_[j].has_value()) return;
    if (at(j)->has_value()) {
      ref_[j] = at(j)->value().value;
    } else {
      ref_[j].reset();
    }
  }

  bool step(const Op& o) {
    const char* name = kOrOpNames[o.code];
    std::string cls = "-";
    auto eng = [&](int i) { return ref_[i].has_value() ? "e" : "d"; };
    bool mutating = true;
    switch (o.code) {
      case kOrCtorDefault:
      case kOrCtorValueCopy:
      case kOrCtorValueMove:
      case kOrCtorFromLong: {
        int i = findSlot(o.a, false);
        if (i < 0) return true;
        if (o.code == kOrCtorDefault) {
          new (slot(i)) OR();
          ref_[i].reset();
        } else {
          long v = nv();
          if (o.code == kOrCtorValueCopy) {
            T val(v);
            new (slot(i)) OR(static_cast<const T&>(val));
          } else if (o.code == kOrCtorValueMove) {
            T val(v);
            new (slot(i)) OR(std::move(val));
          } else {
            new (slot(i)) OR(v);
          }
          ref_[i] = v;
        }
        present_[i] = true;
        break;
      }
      case kOrCopyCtor:
      case kOrMoveCtor: {
        int i = findSlot(o.a, false);
        int j = findSlot(o.b, true);
        if (i < 0 || j < 0) return true;
        cls = std::string("src-") + eng(j);
        if (o.code == kOrCopyCtor) {
          new (slot(i)) OR(static_cast<const OR&>(*at(j)));
          ref_[i] = ref_[j];
        } else {
          new (slot(i)) OR(std::move(*at(j)));
          ref_[i] = ref_[j];
          syncMovedFrom(j);
        }
        present_[i] = true;
        break;
      }
      case kOrCopyAssign:
      case kOrMoveAssign: {
        int i = findSlot(o.a, true);
        int j = i < 0 ? -1 : findSlot(o.b, true, i);
        if (i < 0 || j < 0) return true;
        cls = std::string("src-") + eng(j) + "-dst-" + eng(i);
        if (o.code == kOrCopyAssign) {
          *at(i) = static_cast<const OR&>(*at(j));
          ref_[i] = ref_[j];
        } else {
          *at(i) = std::move(*at(j));
          ref_[i] = ref_[j];
          syncMovedFrom(j);
        }
        break;
      }
      case kOrSelfCopyAssign:
      case kOrSelfMoveAssign: {
        int i = findSlot(o.a, true);
        if (i < 0) return true;
        cls = std::string("dst-") + eng(i);
        OR& alias = *at(i);
        if (o.code == kOrSelfCopyAssign) *at(i) = static_cast<const OR&>(alias);
        else *at(i) = std::move(alias);
        break;
      }
      case kOrAssignValue:
      case kOrAssignValueRv: {
        int i = findSlot(o.a, true);
        if (i < 0) return true;
        cls = std::string("dst-") + eng(i);
        long v = nv();
        T val(v);
        if (o.code == kOrAssignValue) *at(i) = static_cast<const T&>(val);
        else *at(i) = std::move(val);
        ref_[i] = v;
        break;
      }
      case kOrEmplace: {
        int i = findSlot(o.a, true);
        if (i < 0) return true;
        cls = std::string("dst-") + eng(i);
        long v = nv();
        T& r = at(i)->emplace(v);
        ref_[i].emplace(v);
        if (&r != &at(i)->value()) return fail(name, cls, "retpos", "emplace did not return the contained object");
        break;
      }
      case kOrDestroy: {
        int i = findSlot(o.a, true);
        if (i < 0) return true;
        cls = std::string("dst-") + eng(i);
        at(i)->~OR();
        present_[i] = false;
        ref_[i].reset();
        break;
      }
      default: mutating = false; break; // observe: verify() does the reading
    }
    if (!verify(name, cls)) return false;
    if (mutating) ++res_.mutatingOnNonEmpty;
    res_.opMask |= (uint64_t{1} << o.code);
    return true;
  }
};

static std::map<std::string, int>& reported() {
  static std::map<std::string, int> m;
  return m;
}

template <typename T>
static void runBlock(OrRunner<T>& runner, const std::vector<Program>& progs, long& nt, std::map<std::string, long>& fails, uint64_t& opMask) {
  for (const Program& p : progs) {
    SeqResult r = runner.run(p);
    opMask |= r.opMask;
    if (r.opsRun >= 2 && r.mutatingOnNonEmpty >= 1) ++nt;
    if (!r.ok) {
      ++fails[r.subkey];
      if (reported()[vrt::currentCaseKey() + "/" + r.subkey]++ < 3) {
        vrt::violation(r.msg, J().kv("step", r.failStep).kv("program", programJson(p, kOrOpNames)).raw("life", vrt::lifeJson().str()), r.subkey);
      }
    }
  }
}

void runC40() {
  const bool th = vrt::thorough();
  vrt::leakCheckEvery(16);
  // concrete alphabet: every (op, a, b) with a, b in 0..2 (b only matters for binary ops)
  std::vector<Op> alpha;
  for (int c = 0; c < kOrNumOps; ++c) {
    bool binary = c == kOrCopyCtor || c == kOrMoveCtor || c == kOrCopyAssign || c == kOrMoveAssign;
    for (long a = 0; a < 3; ++a)
      for (long b = 0; b < (binary ? 3 : 1); ++b) {
        Op o;
        o.code = c;
        o.a = a;
        o.b = b;
        alpha.push_back(o);
      }
  }
  const long K = static_cast<long>(alpha.size());
  const long exhaustiveCases = 2 * K; // (type, first op)
  const long randomCases = vrt::g_args.getInt("n", th ? 4000 : 400);
  const long perRandom = 50;
  static OrRunner<vrt::Tracked> r8;
  static OrRunner<vrt::TrackedT<64>>* r64 = new OrRunner<vrt::TrackedT<64>>();
  for (long idx = 0; idx < exhaustiveCases + randomCases; ++idx) {
    if (!vrt::selected(idx)) continue;
    int type = static_cast<int>(idx % 2);
    std::vector<Program> progs;
    std::string mode;
    J spec;
    if (idx < exhaustiveCases) {
      long f = idx / 2;
      mode = th ? "all-triples" : "all-pairs";
      for (long s = 0; s < K; ++s) {
        if (th) {
          for (long t = 0; t < K; ++t) progs.push_back({alpha[f], alpha[s], alpha[t]});
        } else {
          progs.push_back({alpha[f], alpha[s]});
        }
      }
      progs.push_back({alpha[f]});
      spec.kv("mode", mode).kv("first", std::string(kOrOpNames[alpha[f].code]) + "(" + std::to_string(alpha[f].a) + "," + std::to_string(alpha[f].b) + ")").kv("programs", static_cast<long>(progs.size()));
    } else {
      mode = "random";
      vrt::Rng r = vrt::caseRng(idx);
      // per case: a random subset of the alphabet, so that operations with known defects do not cut every sequence short
      uint32_t mask = static_cast<uint32_t>(r.next());
      if (r.chance(0.3)) mask = ~0u;
      mask |= 1u << kOrObserve;
      for (long k = 0; k < perRandom; ++k) {
        Program p;
        long len = r.range(2, 30);
        for (long i = 0; i < len; ++i) {
          Op o;
          do {
            o.code = static_cast<int>(r.below(kOrNumOps));
          } while (!(mask & (1u << o.code)));
          o.a = static_cast<long>(r.below(3));
          o.b = static_cast<long>(r.below(3));
          p.push_back(o);
        }
        progs.push_back(p);
      }
      spec.kv("mode", mode).kv("opMask", static_cast<uint64_t>(mask)).kv("programs", perRandom);
    }
    std::string key = std::string("opres/") + (type ? "a64" : "a8");
    vrt::caseBegin(idx, key, spec);
    vrt::watchdogArm(30);
    long nt = 0;
    uint64_t opMask = 0;
    std::map<std::string, long> fails;
    if (type == 0) runBlock(r8, progs, nt, fails, opMask);
    else runBlock(*r64, progs, nt, fails, opMask);
    vrt::watchdogDisarm();
    std::vector<std::string> cls{mode, type ? "align64" : "align8"};
    if (mode == "all-triples") cls.push_back("all-pairs");
    for (int c = 0; c < kOrNumOps; ++c)
      if (opMask & (uint64_t{1} << c)) cls.push_back(std::string("op:") + kOrOpNames[c]);
    J st;
    st.kv("_evals", static_cast<long>(progs.size())).kv("_nt", nt);
    long nf = 0;
    for (auto& f : fails) nf += f.second;
    st.kv("diverged", nf);
    vrt::caseEnd(st, nt ? key + "#" + std::to_string(idx) : "", cls);
  }
}

} // namespace hs
