// Engine h_graph: C30 (graph executors respect dependencies and run each node once) and
// C31 (partial re-evaluation runs exactly the propagated closure).  See h_graph_common.h.
// The BiPropGraph instantiation of the interpreter lives in h_graph_bp.cpp.
#include "h_graph_impl.h"

std::atomic<uint64_t> g_totalRuns{0};
uint64_t g_runLimit = 1u << 20;
std::atomic<long> g_inflight{0}, g_maxInflight{0};
int g_dwellMode = 0;
uint32_t g_execSalt = 0;
const char* const kExecNames[kNumExec] = {"single", "parfor-ts", "parfor-cts", "ctsx-wait", "ctsx-nowait"};
static std::atomic<bool> g_storm{false};

// The node functor.  Relaxed atomics only (no happens-before edges of its own), plus the plain field.
void bodyRun(MNode* m) {
  const uint32_t r = m->runs.fetch_add(1, std::memory_order_relaxed);
  const uint64_t s = vrt::stamp();
  if (r == 0) m->start.store(s, std::memory_order_relaxed);
  if (m->throwNow) { // throwing step: the body ends here, by exception
    m->end.store(vrt::stamp(), std::memory_order_relaxed);
    vrt::progress();
    throw GraphThrow{m->id};
  }
  const long now = g_inflight.fetch_add(1, std::memory_order_relaxed) + 1;
  long mx = g_maxInflight.load(std::memory_order_relaxed);
  while (now > mx && !g_maxInflight.compare_exchange_weak(mx, now, std::memory_order_relaxed)) {
  }
  if (g_totalRuns.fetch_add(1, std::memory_order_relaxed) > g_runLimit) {
    bool exp = false;
    if (g_storm.compare_exchange_strong(exp, true)) {
      vrt::violation("node body storm: far more node invocations than nodes", J().kv("limit", g_runLimit));
      _exit(5);
    }
    for (;;) pause();
  }
  long acc = m->id;
  for (MNode* q : m->preds) acc += q->plain; // every predecessor's output must be visible here
  m->plain = acc;
  if (g_dwellMode) {
    const uint32_t h = static_cast<uint32_t>(vrt::mix(m->salt, g_execSalt));
    const uint32_t sel = h & 15u;
    if (sel == 0 || (g_dwellMode == 2 && sel < 6)) vrt::spinFor(1 + static_cast<int>((h >> 4) % (g_dwellMode == 2 ? 60u : 15u)));
    else if (sel == 6) std::this_thread::yield();
    else if (sel == 7 && ((h >> 4) & 7u) == 0) vrt::sleepUs(20 + static_cast<int>((h >> 8) % 60u));
  }
  g_inflight.fetch_sub(1, std::memory_order_relaxed);
  m->end.store(vrt::stamp(), std::memory_order_relaxed);
  vrt::progress();
}

J CaseParams::json() const {
  static const char* themes[] = {"basic", "clear", "add", "move", "graph-clear", "mix", "throw"};
  return J()
      .kv("graph", biprop ? "BiPropGraph" : "Graph")
      .kv("n", n)
      .kv("subgraphs", nsg)
      .kv("window", window)
      .kv("pBi", pBi)
      .kv("pDup", pDup)
      .kv("hub", hub)
      .kv("pool", pool)
      .kv("executor", exec < 0 ? "per-step" : kExecNames[exec])
      .kv("theme", themes[theme])
      .kv("steps", steps)
      .kv("dwell", dwell)
      .kv("perturb", perturb)
      .kv("futexMode", futexMode)
      .kv("cost", cost ? "light" : "heavy")
      .kv("mult", mult)
      .kv("loadFactor", lf)
      .kv("freshExecutors", fresh)
      .kv("firstByFP", firstByFP)
      .kv("allowMerge", allowMerge)
      .kv("graphHooks", graphHooks);
}

template void runProgram<dispenso::Graph>(vrt::Rng&, const CaseParams&, bool, StepStats&, bool);

static CaseParams genParams(vrt::Rng& r, bool prop31) {
  const bool th = vrt::thorough();
  CaseParams p;
  p.biprop = prop31 ? r.chance(0.75) : r.chance(0.5);
  uint64_t c = r.below(100);
  if (c < 40) p.n = static_cast<int>(r.range(1, 12));
  else if (c < 85) p.n = static_cast<int>(r.range(13, 60));
  else p.n = static_cast<int>(r.range(61, th ? 300 : 150));
  p.nsg = r.chance(0.3) ? 1 : static_cast<int>(r.range(2, 6));
  const int windows[] = {0, 0, 1, 2, 4, 16};
  p.window = windows[r.below(6)];
  if (p.biprop) {
    const double pb[] = {0.0, 0.05, 0.15, 0.3, 0.6};
    p.pBi = pb[r.below(5)];
    if (prop31 && p.pBi == 0.0) p.pBi = 0.1;
  }
  p.pDup = r.chance(0.3) ? 0.3 : 0.0;
  p.hub = r.chance(0.2);
  {
    const int pools[] = {0, 1, 2, 2, 3, 3, 4, 4, 5, 6, 7, 8, 9};
    p.pool = pools[r.below(13)];
  }
  p.exec = r.chance(0.75) ? static_cast<int>(r.below(kNumExec)) : -1;
  if (prop31) p.theme = 0;
  else {
    const int themes[] = {0, 0, 1, 1, 1, 2, 3, 4, 5, 5, 6, 6, 6};
    p.theme = themes[r.below(13)];
  }
  p.steps = static_cast<int>(prop31 ? r.range(3, th ? 12 : 8) : r.range(1, th ? 10 : 5));
  p.dwell = static_cast<int>(r.below(3));
  p.perturb = r.chance(0.2) ? (r.chance(0.5) ? 0.03 : 0.1) : 0.0;
  p.futexMode = r.chance(0.15) ? static_cast<int>(r.range(1, 2)) : 0;
  p.cost = r.chance(0.3) ? 1 : 0;
  const long mults[] = {4, 4, 1, 64};
  p.mult = mults[r.below(4)];
  const double lfs[] = {3.0, 3.0, 1.0, 0.0, 100.0};
  p.lf = lfs[r.below(5)];
  p.fresh = r.chance(0.3);
  p.firstByFP = r.chance(0.2);
  // C30: most BiProp cases keep every propagation set's member list in one piece (an edge that would
  // join two existing sets is declared as a plain dependency instead); the rest, and all of C31, may join sets
  p.allowMerge = prop31 || r.chance(0.35);
  p.graphHooks = r.chance(0.25);
  return p;
}

static std::string poolClass(int pool) {
  return pool == 0 ? "pool0" : pool == 1 ? "pool1" : "poolN";
}

static void runCases(bool prop31) {
  const long n = vrt::g_args.getInt("n", prop31 ? (vrt::thorough() ? 40000 : 2400) : (vrt::thorough() ? 40000 : 2400));
  static const char* themes[] = {"basic", "clear", "add", "move", "graph-clear", "mix", "throw"};
  for (long idx = 0; idx < n; ++idx) {
    if (!vrt::selected(idx)) continue;
    vrt::Rng r = vrt::caseRng(idx);
    CaseParams p = genParams(r, prop31);
    std::string key = std::string(p.biprop ? "biprop" : "graph") + "/" + (p.exec < 0 ? "per-step" : kExecNames[p.exec]) + "/" + poolClass(p.pool);
    if (!prop31) key += std::string("/") + themes[p.theme];
    bool dryDangling = false;
    uint64_t dryEnd = 0;
    if (!prop31 && p.biprop) {
      // model-only pass (no dispenso call): does this program make ForwardPropagator meet a member
      // list that still names nodes destroyed by Subgraph::clear()?  That scenario gets its own key.
      vrt::Rng rd = r;
      StepStats sd;
      runProgram<dispenso::BiPropGraph>(rd, p, false, sd, true);
      dryDangling = sd.dangling;
      dryEnd = rd.s;
      if (dryDangling) key += "/sets-dangling";
    }
    vrt::caseBegin(idx, key, p.json());
    vrt::lifeReset();
    vrt::hooksReset();
    vrt::futexReset();
    if (p.perturb > 0) vrt::hookProbAll(p.perturb);
    if (p.graphHooks) { // the windows between Node::run() and the dependents' counter decrements
      vrt::hookProb(V::kGraphAfterNodeRun, 0.3);
      vrt::hookProb(V::kGraphBetweenDependents, 0.3);
    }
    if (p.futexMode == 1) vrt::futexPreWaitDelay(0.3, 200);
    else if (p.futexMode == 2) vrt::futexSpurious(0.1);
    g_dwellMode = p.dwell;
    StepStats st;
    vrt::watchdogArm();
    const long violBefore = vrt::violationsSeen();
    if (p.biprop) runProgram<dispenso::BiPropGraph>(r, p, prop31, st, false);
    else runProgram<dispenso::Graph>(r, p, prop31, st, false);
    vrt::watchdogDisarm();
    if (!prop31 && p.biprop && vrt::violationsSeen() == violBefore && (dryEnd != r.s || dryDangling != st.dangling)) {
      vrt::inconclusive("harness: model-only pass and real pass diverged");
    }
    vrt::hooksReset();
    vrt::futexReset();
    std::vector<std::string> cls(st.classes.begin(), st.classes.end());
    cls.push_back(p.biprop ? "biprop" : "graph");
    cls.push_back(p.pool == 0 ? "pool0" : "poolN");
    if (st.maxInflight >= 2) cls.push_back("concurrent-bodies");
    if (p.pDup > 0) cls.push_back("dup-edges");
    if (p.nsg > 1) cls.push_back("subgraphs");
    if (st.dangling) cls.push_back("sets-dangling");
    // non-trivial: at least two node bodies ran and at least one dependency between nodes that
    // both ran had to be enforced (C31: additionally a strictly partial re-evaluation happened)
    bool nt = st.nodesRun >= 2 && st.edgesEnforced >= 1 && (!prop31 || st.strictPartial >= 1);
    std::string sig = p.json().str() + "#" + std::to_string(st.progHash);
    vrt::caseEnd(J().kv("execs", st.execs).kv("nodesRun", st.nodesRun).kv("edgesEnforced", st.edgesEnforced).kv("strictPartial", st.strictPartial).kv("maxInflight", st.maxInflight),
                 nt ? sig : "", cls);
  }
}

int main(int argc, char** argv) {
  vrt::init(argc, argv);
  const std::string& p = vrt::g_args.prop;
  if (p == "C30") runCases(false);
  else if (p == "C31") runCases(true);
  else {
    fprintf(stderr, "h_graph: unknown property %s\n", p.c_str());
    return 2;
  }
  const int rc = vrt::finish();
#if VRT_TSAN
  // The runtime's watchdog thread is still alive while main's static destructors run; leave
  // without running them so that TSan does not report that (runtime-internal) exit race.
  fflush(nullptr);
  _exit(rc);
#endif
  return rc;
}
