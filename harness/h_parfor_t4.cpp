#include "h_parfor_impl.h"

Obs runSpec_t4(const Spec& s) {
  return runSpecT<int32_t>(s);
}
