#pragma once
// Shared declarations for engine h_seq: C32 (ConcurrentVector vs std::vector, sequential),
// C38 (SmallVector), C39 (OnceFunction), C40 (OpResult).
//
// All four are sequential differential checks: a generated program (sequence of operations with
// integer arguments) is interpreted on the real dispenso type and on a reference model
// (std::vector<long> / std::optional<long>); after EVERY operation sizes, contents, returned
// positions and the lifetime registry (vrt::life(): live count, construct-over-live, destroy-dead,
// use-dead, misaligned) are compared. A sequence stops at its first divergence (the state is no
// longer trustworthy); the divergence is keyed "<caseKey>/<op>/<argument class>/<kind>".
#include <algorithm>
#include <cstdint>
#include <cstring>
#include <list>
#include <map>
#include <memory>
#include <string>
#include <vector>

#include "verif_rt.h"

using vrt::J;

namespace hs {

struct Op {
  int code = 0;
  long a = 0, b = 0, c = 0;
  int t = 0; // which of the two containers is the primary one for this op
};
using Program = std::vector<Op>;

struct SeqResult {
  bool ok = true;
  int failStep = -1;
  std::string subkey; // "<op>/<class>/<kind>"
  std::string msg;
  long opsRun = 0;
  long mutatingOnNonEmpty = 0;
  size_t maxSize = 0;
  bool crossedBuckets = false;
  bool heapSeen = false, inlineSeen = false;
  uint64_t opMask = 0; // bit per op code that ran to completion
  // violations that do not invalidate the state (alignment): reported, sequence continues
  std::vector<std::pair<std::string, std::string>> soft;
};

std::string programJson(const Program& p, const char* const* names);

// ------------------------------------------------------------------ ConcurrentVector (C32)
enum CvOp : int {
  kCvCtorDefault = 0,
  kCvCtorReserve,
  kCvCtorSize,
  kCvCtorSizeValue,
  kCvCtorRangeVec,
  kCvCtorRangeList,
  kCvCtorSizeRange,
  kCvCtorIlist,
  kCvCopyCtor,
  kCvMoveCtor,
  kCvCopyAssign,
  kCvMoveAssign,
  kCvSelfAssign,
  kCvAssignNV,
  kCvAssignRange,
  kCvPushBackCopy,
  kCvPushBackMove,
  kCvEmplaceBack,
  kCvPushBackAlias,
  kCvGrowBy,
  kCvGrowByValue,
  kCvGrowByRange,
  kCvGrowByIlist,
  kCvGrowByGenerator,
  kCvGrowToAtLeast,
  kCvGrowToAtLeastValue,
  kCvInsertCopy,
  kCvInsertMove,
  kCvInsertNV,
  kCvInsertRange,
  kCvInsertIlist,
  kCvErasePos,
  kCvEraseRange,
  kCvResize,
  kCvResizeValue,
  kCvReserve,
  kCvPopBack,
  kCvClear,
  kCvShrinkToFit,
  kCvSwapMember,
  kCvSwapFree,
  kCvCompare,
  kCvIterForward,
  kCvIterBackward,
  kCvIterArith,
  kCvAtFrontBack,
  kCvNumOps
};
extern const char* const kCvOpNames[kCvNumOps];

struct CvRunnerBase {
  virtual ~CvRunnerBase() {}
  virtual SeqResult run(const Program& p) = 0;
  virtual size_t firstBucket() const = 0;
  std::string traitName; // e.g. "inl-fast-asneeded"
  std::string elemName; // e.g. "e128"
};
// every h_seq_cv_t<N>.cpp registers its instantiations here
std::vector<CvRunnerBase*>& cvRunners();
struct CvRegistrar {
  explicit CvRegistrar(CvRunnerBase* r) {
    cvRunners().push_back(r);
  }
};
// force-link hooks (static initialisers in otherwise unreferenced objects are still linked because
// the objects are given to the linker directly, but keep an explicit anchor per TU anyway)
#define HSEQ_CV_ANCHOR(n) int hseq_cv_anchor_##n = 0;

// ------------------------------------------------------------------ SmallVector (C38)
enum SvOp : int {
  kSvCtorDefault = 0,
  kSvCtorCount,
  kSvCtorCountValue,
  kSvCtorIlist,
  kSvCopyCtor,
  kSvMoveCtor,
  kSvCopyAssign,
  kSvMoveAssign,
  kSvSelfAssign,
  kSvPushBackCopy,
  kSvPushBackMove,
  kSvEmplaceBack,
  kSvPushBackAlias,
  kSvPopBack,
  kSvResize,
  kSvResizeValue,
  kSvErase,
  kSvReserve,
  kSvClear,
  kSvObserve,
  kSvNumOps
};
extern const char* const kSvOpNames[kSvNumOps];

struct SvRunnerBase {
  virtual ~SvRunnerBase() {}
  virtual SeqResult run(const Program& p) = 0;
  size_t inlineCap = 0;
  size_t align = 0;
};
std::vector<SvRunnerBase*>& svRunners();
struct SvRegistrar {
  explicit SvRegistrar(SvRunnerBase* r) {
    svRunners().push_back(r);
  }
};

// ------------------------------------------------------------------ helpers shared by the runners
struct LifeSnap {
  long constructed, destroyed, col, dd, ud, mis;
};
inline LifeSnap lifeSnap() {
  vrt::LifeStats& l = vrt::life();
  return {l.constructed.load(), l.destroyed.load(), l.constructOverLive.load(), l.destroyDead.load(), l.useDead.load(), l.misaligned.load()};
}

// C39 / C40 entry points (own TUs)
void runC39();
void runC40();

} // namespace hs
