// C32 instantiations for trait combination inl-fast-half (see h_seq_cv_impl.h)
#include "h_seq_cv_impl.h"

HSEQ_CV_INSTANCE(t1_0, vrt::TrackedT<32>, "e32", true, true, kHalfBufferAhead, "inl-fast-half")
HSEQ_CV_INSTANCE(t1_1, vrt::TrackedT<64>, "e64", true, true, kHalfBufferAhead, "inl-fast-half")
HSEQ_CV_INSTANCE(t1_2, vrt::TrackedT<128>, "e128", true, true, kHalfBufferAhead, "inl-fast-half")
