// C45 — threadId() is stable per thread and unique across threads.
//
// Each case creates waves of threads (a wave is joined before the next starts, so ids of dead
// threads are compared with ids of later threads as well). Threads of a wave are released together
// by a spin barrier and call threadId() repeatedly; the first call of each thread races with the
// first calls of the others. Values are written to per-thread slots and checked after join:
// constant per thread, pairwise distinct over every thread of the case (plus the main thread, plus
// - as a by-catch across cases - every id this process has seen before).
#include <dispenso/thread_id.h>
#include <dispenso/thread_pool.h>

#include <pthread.h>

#include <set>
#include <unordered_map>
#include <unordered_set>

#include "h_sync_common.h"

namespace {

struct Spec {
  std::vector<int> waves;
  int calls = 100;
  int poolThreads = 0; // additionally: ids observed inside a dispenso::ThreadPool's workers
  J json() const {
    return J().arr("waves", waves).kv("calls", calls).kv("poolThreads", poolThreads);
  }
};

struct Slot {
  uint64_t first = 0;
  uint64_t other = 0; // a differing later value, if any
  bool unstable = false;
  char pad[40];
};

std::unordered_set<uint64_t>& processIds() {
  static std::unordered_set<uint64_t> s;
  return s;
}

} // namespace

void runC45() {
  // Thread creation under TSan costs ~0.2 s per thread on the shared machine: TSan builds use small waves.
  const long n = vrt::g_args.getInt("n", VRT_TSAN ? (vrt::thorough() ? 200 : 32) : (vrt::thorough() ? 3200 : 160));
  const int maxWave = static_cast<int>(vrt::g_args.getInt("maxwave", VRT_TSAN ? 16 : 64));
  const uint64_t mainId = dispenso::threadId();
  for (long idx = 0; idx < n; ++idx) {
    if (!vrt::selected(idx)) continue;
    vrt::Rng r = vrt::caseRng(idx);
    Spec s;
    int nw;
    if (!VRT_TSAN && (idx + idx / 32) % 32 == 31) {
      // many threads over the life of one case: id reuse / narrow counters
      nw = static_cast<int>(r.range(5, 9));
      for (int w = 0; w < nw; ++w) s.waves.push_back(64);
    } else {
      nw = static_cast<int>(r.range(1, 3));
      for (int w = 0; w < nw; ++w) s.waves.push_back(static_cast<int>(r.chance(0.3) ? maxWave : r.range(1, maxWave)));
    }
    s.calls = r.chance(0.2) ? 1 : 100;
    s.poolThreads = r.chance(0.25) ? static_cast<int>(r.range(1, 8)) : 0;
    int total = 0;
    for (int w : s.waves) total += w;
    std::string key = std::string(total > 256 ? "many-waves" : (s.waves.size() > 1 ? "waves" : "one-wave")) + (s.poolThreads ? "+pool" : "");
    vrt::caseBegin(idx, key, s.json());
    vrt::watchdogArm();
    std::vector<uint64_t> ids; // one per thread of the case
    long unstable = 0;
    for (int w : s.waves) {
      std::vector<Slot> slots(static_cast<size_t>(w));
      hs::SleepStart start(w);
      std::vector<std::thread> th;
      for (int t = 0; t < w; ++t) {
        th.emplace_back([&, t] {
          Slot& sl = slots[static_cast<size_t>(t)];
          vrt::progress(); // the thread exists and runs
          start.arriveAndWait();
          uint64_t first = dispenso::threadId();
          sl.first = first;
          for (int k = 1; k < s.calls; ++k) {
            uint64_t v = dispenso::threadId();
            if (v != first) {
              sl.unstable = true;
              sl.other = v;
            }
            if (k == s.calls / 2) std::this_thread::yield();
          }
          vrt::progress();
        });
      }
      for (auto& t : th) t.join();
      for (auto& sl : slots) {
        ids.push_back(sl.first);
        if (sl.unstable) {
          ++unstable;
          if (unstable <= 3) vrt::violation("threadId() changed its value within one thread", J().kv("first", sl.first).kv("later", sl.other), "unstable");
        }
      }
    }
    if (s.poolThreads) {
      // ids seen inside pool workers: stable across tasks of the same worker, distinct between workers
      struct PRec {
        std::atomic<uint64_t> tid{0}, id{0};
      };
      const int tasks = s.poolThreads * 8;
      std::vector<PRec> recs(static_cast<size_t>(tasks));
      std::atomic<int> done{0};
      {
        dispenso::ThreadPool pool(static_cast<size_t>(s.poolThreads));
        for (int k = 0; k < tasks; ++k) {
          pool.schedule(
              [&recs, &done, k] {
                recs[static_cast<size_t>(k)].tid.store(static_cast<uint64_t>(pthread_self()), std::memory_order_relaxed);
                recs[static_cast<size_t>(k)].id.store(dispenso::threadId(), std::memory_order_relaxed);
                vrt::spinFor(20);
                done.fetch_add(1, std::memory_order_relaxed);
                vrt::progress();
              },
              dispenso::ForceQueuingTag());
        }
        while (done.load(std::memory_order_relaxed) < tasks) usleep(100);
      } // the pool's destructor joins the workers: that is the edge for reading recs
      std::unordered_map<uint64_t, uint64_t> byThread;
      for (auto& pr : recs) {
        uint64_t tid = pr.tid.load(), id = pr.id.load();
        auto it = byThread.find(tid);
        if (it == byThread.end()) {
          byThread[tid] = id;
          ids.push_back(id);
        } else if (it->second != id) {
          ++unstable;
          vrt::violation("threadId() changed its value within one pool worker thread", J().kv("first", it->second).kv("later", id), "unstable");
        }
      }
    }
    // uniqueness inside the case (plus main thread)
    long dups = 0;
    {
      std::set<uint64_t> seen;
      seen.insert(mainId);
      for (uint64_t v : ids) {
        if (!seen.insert(v).second) {
          if (++dups <= 3) vrt::violation("two distinct threads got the same threadId()", J().kv("id", v).kv("threadsInCase", ids.size()), "duplicate");
        }
      }
    }
    if (dispenso::threadId() != mainId) vrt::violation("threadId() of the main thread changed", J(), "unstable");
    // by-catch across cases of this process (depends on which cases this process ran before)
    long crossDups = 0;
    if (dups == 0) {
      for (uint64_t v : ids) {
        if (!processIds().insert(v).second) ++crossDups;
      }
      if (crossDups) vrt::violation("a threadId() value of an earlier case's thread was handed out again", J().kv("count", crossDups), "duplicate-across-cases");
    }
    vrt::watchdogDisarm();
    std::vector<std::string> cls;
    cls.push_back(s.waves.size() > 1 ? "multi-wave" : "one-wave");
    if (total > 256) cls.push_back("more-than-256-threads");
    for (int w : s.waves) {
      if (w == 64) {
        cls.push_back("wave-of-64");
        break;
      }
    }
    for (int w : s.waves) {
      if (w == 1) {
        cls.push_back("wave-of-1");
        break;
      }
    }
    if (s.poolThreads) cls.push_back("pool-workers");
    bool nt = ids.size() >= 2;
    vrt::caseEnd(J().kv("threads", ids.size()).kv("duplicates", dups).kv("unstable", unstable), nt ? s.json().str() : "", cls);
  }
}
