// Engine h_seq: sequential differential checks with lifetime accounting.
//   C32 ConcurrentVector vs std::vector        (h_seq_cv_impl.h, h_seq_cv_t*.cpp: one TU per trait combination)
//   C38 SmallVector vs std::vector + alignment (h_seq_sv_impl.h, h_seq_sv_t*.cpp)
//   C39 OnceFunction exactly-once              (h_seq_once_impl.h, h_seq_once_t*.cpp)
//   C40 OpResult vs std::optional              (h_seq_opres.cpp)
#include "h_seq_common.h"
#include "h_seq_once_impl.h"

namespace hs {

const char* const kCvOpNames[kCvNumOps] = {
    "ctor_default", "ctor_reserve", "ctor_size", "ctor_size_value", "ctor_range", "ctor_range_list", "ctor_size_range", "ctor_ilist",
    "copy_ctor", "move_ctor", "copy_assign", "move_assign", "self_assign", "assign_n_value", "assign_range",
    "push_back_copy", "push_back_move", "emplace_back", "push_back_alias",
    "grow_by", "grow_by_value", "grow_by_range", "grow_by_ilist", "grow_by_generator", "grow_to_at_least", "grow_to_at_least_value",
    "insert_copy", "insert_move", "insert_n_value", "insert_range", "insert_ilist", "erase_pos", "erase_range",
    "resize", "resize_value", "reserve", "pop_back", "clear", "shrink_to_fit", "swap_member", "swap_free",
    "compare", "iterate_forward", "iterate_backward", "iterator_arithmetic", "at_front_back"};

const char* const kSvOpNames[kSvNumOps] = {
    "ctor_default", "ctor_count", "ctor_count_value", "ctor_ilist", "copy_ctor", "move_ctor", "copy_assign", "move_assign", "self_assign",
    "push_back_copy", "push_back_move", "emplace_back", "push_back_alias", "pop_back", "resize", "resize_value", "erase", "reserve", "clear", "observe"};

std::string programJson(const Program& p, const char* const* names) {
  std::string s;
  for (size_t i = 0; i < p.size(); ++i) {
    if (i) s += ";";
    s += std::string(names[p[i].code]) + "(" + std::to_string(p[i].a) + "," + std::to_string(p[i].b) + "," + std::to_string(p[i].c) + ")@" + std::to_string(p[i].t);
  }
  return s;
}

// the registries are never destroyed: their runners must stay reachable for LeakSanitizer's at-exit check
std::vector<CvRunnerBase*>& cvRunners() {
  static std::vector<CvRunnerBase*>* v = new std::vector<CvRunnerBase*>();
  return *v;
}
std::vector<SvRunnerBase*>& svRunners() {
  static std::vector<SvRunnerBase*>* v = new std::vector<SvRunnerBase*>();
  return *v;
}
OnceRunnerBase*& onceRunner(int idx) {
  static OnceRunnerBase* tab[HSEQ_ONCE_NUM_TYPES] = {};
  return tab[idx];
}
OnceMon& onceMon() {
  static OnceMon m;
  return m;
}

// Hang verdict after 30 s without progress (60 s thorough): every program is a few microseconds of sequential code,
// but a sanitizer report that is being symbolised on a loaded machine stalls the process for many seconds.
static const int kFlatSeconds = 30;

// at most 3 reports per violation key and process; the rest is only counted
static bool firstFew(const std::string& fullKey) {
  static std::map<std::string, int> seen;
  return seen[fullKey]++ < 3;
}

static Op mk(int code, long a = 0, long b = 0, long c = 0, int t = 0) {
  Op o;
  o.code = code;
  o.a = a;
  o.b = b;
  o.c = c;
  o.t = t;
  return o;
}

// ------------------------------------------------------------------ C32
static std::vector<Op> cvAlphabet() {
  std::vector<Op> v = {
      mk(kCvCtorDefault), mk(kCvCtorReserve, 10), mk(kCvCtorSize, 6), mk(kCvCtorSizeValue, 3), mk(kCvCtorRangeVec, 6), mk(kCvCtorRangeList, 3),
      mk(kCvCtorSizeRange, 6), mk(kCvCtorIlist, 3), mk(kCvCopyCtor), mk(kCvMoveCtor), mk(kCvMoveCtor, 0, 0, 0, 1), mk(kCvCopyAssign), mk(kCvCopyAssign, 0, 0, 0, 1),
      mk(kCvMoveAssign), mk(kCvSelfAssign), mk(kCvAssignNV, 9), mk(kCvAssignRange, 6, 1), mk(kCvAssignRange, 2, 0),
      mk(kCvPushBackCopy), mk(kCvPushBackCopy, 0, 0, 0, 1), mk(kCvPushBackMove), mk(kCvEmplaceBack), mk(kCvPushBackAlias, 0),
      mk(kCvGrowBy, 6), mk(kCvGrowBy, 0), mk(kCvGrowByValue, 9), mk(kCvGrowByRange, 3, 0), mk(kCvGrowByRange, 6, 1), mk(kCvGrowByIlist, 2),
      mk(kCvGrowByGenerator, 11), mk(kCvGrowToAtLeast, 10), mk(kCvGrowToAtLeast, 1), mk(kCvGrowToAtLeastValue, 8),
      mk(kCvInsertCopy, 0, 0), mk(kCvInsertCopy, 0, 1), mk(kCvInsertCopy, 0, 6), mk(kCvInsertMove, 0, 6), mk(kCvInsertMove, 0, 1),
      mk(kCvInsertNV, 2, 6), mk(kCvInsertNV, 6, 0), mk(kCvInsertNV, 0, 6), mk(kCvInsertNV, 3, 1), mk(kCvInsertRange, 3, 6, 0), mk(kCvInsertRange, 2, 1, 1), mk(kCvInsertIlist, 0, 6),
      mk(kCvErasePos, 0, 0), mk(kCvErasePos, 0, 1), mk(kCvErasePos, 0, 6), mk(kCvEraseRange, 0, 0, 1), mk(kCvEraseRange, 0, 6, 1), mk(kCvEraseRange, 0, 0, 6),
      mk(kCvEraseRange, 0, 6, 10), mk(kCvEraseRange, 0, 6, 6),
      mk(kCvResize, 1), mk(kCvResize, 9), mk(kCvResizeValue, 9), mk(kCvResizeValue, 0), mk(kCvReserve, 15), mk(kCvPopBack), mk(kCvClear), mk(kCvClear, 0, 0, 0, 1),
      mk(kCvShrinkToFit), mk(kCvSwapMember), mk(kCvSwapFree), mk(kCvCompare), mk(kCvIterForward), mk(kCvIterBackward), mk(kCvIterArith, 1), mk(kCvAtFrontBack)};
  return v;
}

static Program cvRandomProgram(vrt::Rng& r, uint64_t mask) {
  Program p;
  long len = r.range(3, 60);
  for (long i = 0; i < len; ++i) {
    Op o;
    do {
      o.code = static_cast<int>(r.below(kCvNumOps));
    } while (!(mask & (uint64_t{1} << o.code)));
    o.a = static_cast<long>(r.below(1000));
    o.b = static_cast<long>(r.below(1000));
    o.c = static_cast<long>(r.below(64));
    if (o.c == 77) o.c = 0;
    o.t = r.chance(0.25) ? 1 : 0;
    p.push_back(o);
  }
  return p;
}

static void runC32() {
  const bool th = vrt::thorough();
  vrt::leakCheckEvery(16); // elements own no heap memory; the per-case LeakSanitizer pass is the dominant cost under ASan
  std::vector<CvRunnerBase*> runners = cvRunners();
  std::sort(runners.begin(), runners.end(), [](CvRunnerBase* a, CvRunnerBase* b) { return a->traitName + a->elemName < b->traitName + b->elemName; });
  const long R = static_cast<long>(runners.size());
  const std::vector<Op> alpha = cvAlphabet();
  const long K = static_cast<long>(alpha.size());
  const long blockA = R * K; // (runner, first op) x every second (x every third) op
  const long randomPerRunner = vrt::g_args.getInt("n", th ? 200 : 16);
  const long perRandom = 40;
  const long blockB = R * randomPerRunner;
  // dedicated cases for the zero-length request grow_to_at_least(0): it has no std::vector counterpart that could
  // misbehave, and a sanitizer abort inside it must not cost the rest of a block
  const long blockC = vrt::g_args.getInt("gtal0", 1) != 0 ? R : 0;
  const uint64_t growOps = (uint64_t{1} << kCvPushBackCopy) | (uint64_t{1} << kCvGrowByValue) | (uint64_t{1} << kCvGrowByGenerator) | (uint64_t{1} << kCvEmplaceBack);
  const uint64_t cutShort = (uint64_t{1} << kCvInsertCopy) | (uint64_t{1} << kCvInsertMove) | (uint64_t{1} << kCvErasePos) | (uint64_t{1} << kCvEraseRange);
  for (long idx = 0; idx < blockA + blockB + blockC; ++idx) {
    if (!vrt::selected(idx)) continue;
    CvRunnerBase* run = runners[static_cast<size_t>(idx % R)];
    std::vector<Program> progs;
    J spec;
    std::string mode;
    std::string key = "cv/" + run->traitName + "/" + run->elemName;
    if (idx >= blockA + blockB) {
      mode = "edge";
      key += "/grow_to_at_least-n0";
      progs.push_back({mk(kCvGrowToAtLeast, 0, 0, 77)});
      progs.push_back({mk(kCvGrowByGenerator, 6), mk(kCvGrowToAtLeast, 0, 0, 77), mk(kCvGrowToAtLeastValue, 0, 0, 77), mk(kCvPushBackCopy)});
      spec.kv("mode", mode).kv("programs", 2);
    } else if (idx < blockA) {
      const Op f = alpha[static_cast<size_t>(idx / R)];
      // fixed prefix: a gets first-bucket+1 elements (spans two buckets), b gets two
      const Program prefix = {mk(kCvGrowByGenerator, 6), mk(kCvPushBackCopy, 0, 0, 0, 1), mk(kCvEmplaceBack, 0, 0, 0, 1)};
      mode = th ? "all-triples" : "all-pairs";
      for (long s = 0; s < K; ++s) {
        Program p = prefix;
        p.push_back(f);
        p.push_back(alpha[static_cast<size_t>(s)]);
        if (th) {
          for (long t = 0; t < K; ++t) {
            Program q = p;
            q.push_back(alpha[static_cast<size_t>(t)]);
            progs.push_back(q);
          }
        } else {
          progs.push_back(p);
        }
      }
      spec.kv("mode", mode).kv("first", programJson({f}, kCvOpNames)).kv("programs", static_cast<long>(progs.size()));
    } else {
      mode = "random";
      vrt::Rng r = vrt::caseRng(idx);
      // a random subset of the alphabet per case, so that operations that diverge do not cut every sequence short
      uint64_t mask = r.next() | r.next();
      if (r.chance(0.5)) mask &= ~cutShort;
      if (r.chance(0.2)) mask = ~uint64_t{0};
      mask |= growOps;
      for (long k = 0; k < perRandom; ++k) progs.push_back(cvRandomProgram(r, mask));
      spec.kv("mode", mode).kv("opMask", mask & ((uint64_t{1} << kCvNumOps) - 1)).kv("programs", perRandom);
    }
    vrt::caseBegin(idx, key, spec);
    if (mode != "edge") vrt::watchdogArm(kFlatSeconds); // a sanitizer report being symbolised is not a hang
    long nt = 0, diverged = 0, ops = 0;
    uint64_t attempted = 0;
    bool crossed = false;
    for (const Program& p : progs) {
      SeqResult res = run->run(p);
      ops += res.opsRun;
      attempted |= res.opMask;
      if (!res.ok && res.failStep >= 0 && res.failStep < static_cast<int>(p.size())) attempted |= uint64_t{1} << p[static_cast<size_t>(res.failStep)].code;
      crossed = crossed || res.crossedBuckets;
      if (res.opsRun >= 2 && res.mutatingOnNonEmpty >= 1) ++nt;
      for (auto& s : res.soft)
        if (firstFew(key + "/" + s.first)) vrt::violation(s.second, J().kv("step", res.failStep).kv("firstBucket", static_cast<long>(run->firstBucket())).kv("program", programJson(p, kCvOpNames)), s.first);
      if (!res.ok) {
        ++diverged;
        if (!res.subkey.empty() && firstFew(key + "/" + res.subkey))
          vrt::violation(res.msg, J().kv("step", res.failStep).kv("firstBucket", static_cast<long>(run->firstBucket())).kv("program", programJson(p, kCvOpNames)).raw("life", vrt::lifeJson().str()), res.subkey);
      }
    }
    vrt::watchdogDisarm();
    std::vector<std::string> cls{"mode:" + mode, "trait:" + run->traitName, "elem:" + run->elemName};
    if (mode == "all-triples") cls.push_back("mode:all-pairs"); // every pair is the prefix of a triple and is checked after each operation
    if (crossed) cls.push_back("bucket-cross");
    for (int c = 0; c < kCvNumOps; ++c)
      if (attempted & (uint64_t{1} << c)) cls.push_back(std::string("op:") + kCvOpNames[c]);
    vrt::caseEnd(J().kv("_evals", static_cast<long>(progs.size())).kv("_nt", nt).kv("diverged", diverged).kv("ops", ops), nt ? key + "#" + std::to_string(idx) : "", cls);
  }
}

// ------------------------------------------------------------------ C38
static std::vector<Op> svAlphabet() {
  return {mk(kSvCtorDefault), mk(kSvCtorCount, 2), mk(kSvCtorCount, 6), mk(kSvCtorCountValue, 5), mk(kSvCtorCountValue, 9), mk(kSvCtorIlist, 3), mk(kSvCtorIlist, 1),
          mk(kSvCopyCtor), mk(kSvCopyCtor, 0, 0, 0, 1), mk(kSvMoveCtor), mk(kSvMoveCtor, 0, 0, 0, 1), mk(kSvCopyAssign), mk(kSvCopyAssign, 0, 0, 0, 1), mk(kSvMoveAssign), mk(kSvMoveAssign, 0, 0, 0, 1),
          mk(kSvSelfAssign), mk(kSvPushBackCopy), mk(kSvPushBackCopy, 0, 0, 0, 1), mk(kSvPushBackMove), mk(kSvEmplaceBack), mk(kSvPopBack),
          mk(kSvResize, 1), mk(kSvResize, 6), mk(kSvResize, 9), mk(kSvResizeValue, 5), mk(kSvResizeValue, 8), mk(kSvResizeValue, 0),
          mk(kSvErase, 0, 0), mk(kSvErase, 0, 1), mk(kSvErase, 0, 7), mk(kSvReserve, 2), mk(kSvReserve, 6), mk(kSvReserve, 11), mk(kSvClear), mk(kSvClear, 0, 0, 0, 1), mk(kSvObserve)};
}

static void runC38() {
  const bool th = vrt::thorough();
  vrt::leakCheckEvery(16);
  std::vector<SvRunnerBase*> runners = svRunners();
  std::sort(runners.begin(), runners.end(), [](SvRunnerBase* a, SvRunnerBase* b) { return a->align != b->align ? a->align < b->align : a->inlineCap < b->inlineCap; });
  const long R = static_cast<long>(runners.size());
  const std::vector<Op> alpha = svAlphabet();
  const long K = static_cast<long>(alpha.size());
  // prefixes: empty / inline and full / on heap; for both vectors
  const std::vector<Program> prefixes = {
      {},
      {mk(kSvCtorCountValue, 5), mk(kSvPushBackCopy, 0, 0, 0, 1)},
      {mk(kSvCtorCountValue, 6), mk(kSvCtorCount, 9, 0, 0, 1)},
  };
  const long P = static_cast<long>(prefixes.size());
  const long blockA = R * P * K;
  const long randomPerRunner = vrt::g_args.getInt("n", th ? 300 : 24);
  const long perRandom = 40;
  const long blockB = R * randomPerRunner;
  // push_back(v[i]) (a reference to an own element) gets one-program cases: a reallocation there can end the
  // process under ASan, which must not cost the rest of a block
  const bool alias = vrt::g_args.getInt("alias", 1) != 0;
  const long blockC = alias ? R * P * K : 0;
  const long aliasStride = std::max<long>(1, vrt::g_args.getInt("aliasstride", 1)); // ASan runs take a sample: every abort costs a process
  for (long idx = 0; idx < blockA + blockB + blockC; ++idx) {
    if (!vrt::selected(idx)) continue;
    if (idx >= blockA + blockB && ((idx - blockA - blockB) / R) % aliasStride != static_cast<long>(vrt::g_args.seed % static_cast<uint64_t>(aliasStride))) continue;
    SvRunnerBase* run = runners[static_cast<size_t>(idx % R)];
    std::vector<Program> progs;
    J spec;
    std::string mode;
    std::string key = "sv/N" + std::to_string(run->inlineCap) + "/a" + std::to_string(run->align);
    if (idx >= blockA + blockB) {
      long rest = (idx - blockA - blockB) / R;
      mode = "alias";
      key += "/alias";
      Program p = prefixes[static_cast<size_t>(rest % P)];
      p.push_back(alpha[static_cast<size_t>(rest / P)]);
      p.push_back(mk(kSvPushBackAlias, rest));
      p.push_back(mk(kSvObserve));
      progs.push_back(p);
      spec.kv("mode", mode).kv("program", programJson(p, kSvOpNames));
    } else if (idx < blockA) {
      long rest = idx / R;
      const Program& prefix = prefixes[static_cast<size_t>(rest % P)];
      const Op f = alpha[static_cast<size_t>(rest / P)];
      mode = th ? "all-triples" : "all-pairs";
      for (long s = 0; s < K; ++s) {
        Program p = prefix;
        p.push_back(f);
        p.push_back(alpha[static_cast<size_t>(s)]);
        if (th) {
          for (long t = 0; t < K; ++t) {
            Program q = p;
            q.push_back(alpha[static_cast<size_t>(t)]);
            progs.push_back(q);
          }
        } else {
          progs.push_back(p);
        }
      }
      spec.kv("mode", mode).kv("prefix", rest % P).kv("first", programJson({f}, kSvOpNames)).kv("programs", static_cast<long>(progs.size()));
    } else {
      mode = "random";
      vrt::Rng r = vrt::caseRng(idx);
      uint64_t mask = r.next() | r.next();
      if (r.chance(0.3)) mask = ~uint64_t{0};
      mask &= ~(uint64_t{1} << kSvPushBackAlias); // only in the dedicated one-program cases below
      mask |= (uint64_t{1} << kSvPushBackCopy) | (uint64_t{1} << kSvEmplaceBack) | (uint64_t{1} << kSvObserve);
      for (long k = 0; k < perRandom; ++k) {
        Program p;
        long len = r.range(3, 60);
        for (long i = 0; i < len; ++i) {
          Op o;
          do {
            o.code = static_cast<int>(r.below(kSvNumOps));
          } while (!(mask & (uint64_t{1} << o.code)));
          o.a = static_cast<long>(r.below(1000));
          o.b = static_cast<long>(r.below(1000));
          o.t = r.chance(0.25) ? 1 : 0;
          p.push_back(o);
        }
        progs.push_back(p);
      }
      spec.kv("mode", mode).kv("opMask", mask & ((uint64_t{1} << kSvNumOps) - 1)).kv("programs", perRandom);
    }
    vrt::caseBegin(idx, key, spec);
    if (mode != "alias") vrt::watchdogArm(kFlatSeconds);
    long nt = 0, diverged = 0, ops = 0, misaligned = 0;
    uint64_t attempted = 0;
    bool heap = false, inl = false;
    for (const Program& p : progs) {
      SeqResult res = run->run(p);
      ops += res.opsRun;
      attempted |= res.opMask;
      if (!res.ok && res.failStep >= 0 && res.failStep < static_cast<int>(p.size())) attempted |= uint64_t{1} << p[static_cast<size_t>(res.failStep)].code;
      heap = heap || res.heapSeen;
      inl = inl || res.inlineSeen;
      if (res.opsRun >= 2 && res.mutatingOnNonEmpty >= 1) ++nt;
      for (auto& s : res.soft) {
        ++misaligned;
        if (firstFew(key + "/" + s.first)) vrt::violation(s.second, J().kv("program", programJson(p, kSvOpNames)).raw("life", vrt::lifeJson().str()), s.first);
      }
      if (!res.ok) {
        ++diverged;
        if (firstFew(key + "/" + res.subkey))
          vrt::violation(res.msg, J().kv("step", res.failStep).kv("program", programJson(p, kSvOpNames)).raw("life", vrt::lifeJson().str()), res.subkey);
      }
    }
    vrt::watchdogDisarm();
    std::vector<std::string> cls{"mode:" + mode, "N:" + std::to_string(run->inlineCap), "align:" + std::to_string(run->align)};
    if (mode == "all-triples") cls.push_back("mode:all-pairs");
    if (heap) cls.push_back("storage:heap");
    if (inl) cls.push_back("storage:inline");
    for (int c = 0; c < kSvNumOps; ++c)
      if (attempted & (uint64_t{1} << c)) cls.push_back(std::string("op:") + kSvOpNames[c]);
    vrt::caseEnd(J().kv("_evals", static_cast<long>(progs.size())).kv("_nt", nt).kv("diverged", diverged).kv("misalignedReports", misaligned).kv("ops", ops), nt ? key + "#" + std::to_string(idx) : "", cls);
  }
}

// ------------------------------------------------------------------ C39
void runC39() {
  const bool th = vrt::thorough();
  const long T = HSEQ_ONCE_NUM_TYPES;
  const long blocksPerType = vrt::g_args.getInt("n", th ? 60 : 6);
  const long perBlock = 16;
  vrt::watchdogIdleFlatIsHang(true);
  vrt::leakCheckEvery(2);
  for (long idx = 0; idx < T * blocksPerType; ++idx) {
    if (!vrt::selected(idx)) continue;
    OnceRunnerBase* run = onceRunner(static_cast<int>(idx % T));
    vrt::Rng r = vrt::caseRng(idx);
    std::vector<OnceScenario> scs;
    for (long k = 0; k < perBlock; ++k) {
      OnceScenario s;
      s.ctorKind = static_cast<int>(r.below(3));
      s.chainLen = static_cast<int>(r.below(6));
      s.chainBits = static_cast<unsigned>(r.below(64));
      s.finish = r.chance(0.4) ? 1 : 0;
      s.via = r.chance(0.6) ? 0 : static_cast<int>(r.range(1, 5));
      if (k == 0 && idx / T == 0) { // every type sees the two plain scenarios
        s.via = 0;
        s.chainLen = 0;
        s.finish = 0;
      }
      if (k == 1 && idx / T == 0) {
        s.via = 0;
        s.chainLen = 3;
        s.finish = 1;
      }
      scs.push_back(s);
    }
    std::string key = std::string("once/") + run->storage() + "/s" + std::to_string(run->size) + "/a" + std::to_string(run->align);
    std::vector<J> sj;
    for (auto& s : scs) sj.push_back(s.json());
    vrt::caseBegin(idx, key, J().kv("size", static_cast<long>(run->size)).kv("align", static_cast<long>(run->align)).arr("scenarios", sj));
    vrt::watchdogArm(kFlatSeconds);
    long bad = 0;
    std::vector<std::string> cls{std::string("storage:") + run->storage(), "align:" + std::to_string(run->align)};
    auto addCls = [&](const std::string& c) {
      if (std::find(cls.begin(), cls.end(), c) == cls.end()) cls.push_back(c);
    };
    for (auto& s : scs) {
      OnceOutcome o = run->run(s);
      const char* vk[] = {"direct", "pool1-forcequeue", "pool2", "pool0", "taskset", "concurrent-taskset"};
      addCls(std::string("via:") + vk[s.via]);
      if (s.via == 0) {
        addCls(s.finish ? "finish:cleanupNotRun" : "finish:invoke");
        addCls("chain:" + std::to_string(s.chainLen));
      }
      if (!o.ok) {
        ++bad;
        std::string sub = s.subkey() + "/" + o.kind;
        if (firstFew(key + "/" + sub)) vrt::violation(o.msg, J().kv("scenario", s.json()).kv("size", static_cast<long>(run->size)).kv("align", static_cast<long>(run->align)), sub);
      }
    }
    vrt::watchdogDisarm();
    vrt::caseEnd(J().kv("_evals", perBlock).kv("_nt", perBlock).kv("bad", bad), key + "#" + std::to_string(idx), cls);
  }
}

} // namespace hs

int main(int argc, char** argv) {
  vrt::init(argc, argv);
  const std::string& p = vrt::g_args.prop;
  if (p == "C32") hs::runC32();
  else if (p == "C38") hs::runC38();
  else if (p == "C39") hs::runC39();
  else if (p == "C40") hs::runC40();
  else {
    fprintf(stderr, "h_seq: unknown property %s\n", p.c_str());
    return 2;
  }
  return vrt::finish();
}
