#include "h_pipeline_impl.h"
void runShapes_g3(int shape, dispenso::ThreadPool& pool) {
  switch (shape) {
    case 14: runCodes<'g', 'v', 'v', 's'>(pool); break;
    case 15: runCodes<'R', 'P', 'O', 's'>(pool); break;
    case 16: runCodes<'G', 'o', 'O', 'S'>(pool); break;
    case 17: runCodes<'G', 'V', 'V', 'V', 'S'>(pool); break;
    default: break;
  }
}
