#pragma once
// Interpreter of C32 programs on one ConcurrentVector instantiation (see h_seq_common.h).
#include <dispenso/concurrent_vector.h>

#include <stdexcept>

#include "h_seq_common.h"

namespace hs {

template <bool kInline, bool kFast, dispenso::ConcurrentVectorReallocStrategy kStrat>
struct CvTraits {
  static constexpr bool kPreferBuffersInline = kInline;
  static constexpr dispenso::ConcurrentVectorReallocStrategy kReallocStrategy = kStrat;
  static constexpr bool kIteratorPreferSpeed = kFast;
};

template <typename Vec>
class CvRunner : public CvRunnerBase {
  using T = typename Vec::value_type;
  using It = typename Vec::iterator;
  using CIt = typename Vec::const_iterator;

  struct alignas(64) Store {
    alignas(64) unsigned char a[sizeof(Vec)];
    alignas(64) unsigned char b[sizeof(Vec)];
  };

 public:
  CvRunner(const char* trait, const char* elem) : store_(new Store) {
    traitName = trait;
    elemName = elem;
    Vec probe;
    fb_ = probe.default_capacity() / 2;
  }
  size_t firstBucket() const override {
    return fb_;
  }

  SeqResult run(const Program& p) override {
    res_ = SeqResult();
    vrt::lifeReset();
    ctr_ = 0;
    v_[0] = new (store_->a) Vec();
    v_[1] = new (store_->b) Vec();
    r_[0].clear();
    r_[1].clear();
    stepNo_ = 0;
    if (verify("setup", "-")) {
      for (size_t i = 0; i < p.size(); ++i) {
        stepNo_ = static_cast<int>(i);
        if (!step(p[i])) break;
        ++res_.opsRun;
        vrt::progress();
      }
    }
    // teardown: both vectors destroyed, nothing may stay alive
    v_[0]->~Vec();
    v_[1]->~Vec();
    if (res_.ok) {
      r_[0].clear();
      r_[1].clear();
      stepNo_ = static_cast<int>(p.size());
      lifeCheck("dtor", "-");
    }
    return res_;
  }

 private:
  std::unique_ptr<Store> store_;
  Vec* v_[2];
  std::vector<long> r_[2];
  long ctr_ = 0;
  size_t fb_ = 0;
  int stepNo_ = 0;
  SeqResult res_;

  long nv() {
    return ++ctr_;
  }
  size_t cnt(long a, size_t cur) const {
    const size_t f = fb_;
    const size_t tab[16] = {0, 1, 2, 3, f > 1 ? f - 1 : 1, f, f + 1, 2 * f - 1, 2 * f, 2 * f + 1, 3 * f, 4 * f + 1, 5, 7, f / 2 + 1, 6 * f};
    size_t n = tab[static_cast<size_t>(a) % 16];
    const size_t cap = 40 * f + 8;
    if (cur + n > cap) n = cur < cap ? (cap - cur) % 4 : 0;
    return n;
  }
  static size_t pos(long b, size_t n) {
    if (b % 4 == 0) return 0;
    if (b % 4 == 1) return n;
    return static_cast<size_t>(b / 4) % (n + 1);
  }
  static const char* posClass(size_t i, size_t n) {
    if (i == n) return "end";
    if (i == 0) return "begin";
    return "mid";
  }

  bool fail(const char* op, const std::string& cls, const char* kind, const std::string& msg) {
    if (!res_.ok) return false;
    res_.ok = false;
    res_.failStep = stepNo_;
    res_.subkey = std::string(op) + "/" + cls + "/" + kind;
    res_.msg = msg;
    return false;
  }

  bool lifeCheck(const char* op, const std::string& cls) {
    LifeSnap s = lifeSnap();
    long expect = static_cast<long>(r_[0].size() + r_[1].size());
    if (s.col) return fail(op, cls, "life", "element constructed over a live element (" + std::to_string(s.col) + ")");
    if (s.dd) return fail(op, cls, "life", "destructor run on a dead element (" + std::to_string(s.dd) + ")");
    if (s.ud) return fail(op, cls, "life", "dead element read or assigned (" + std::to_string(s.ud) + ")");
    if (s.constructed - s.destroyed != expect)
      return fail(op, cls, "life", "live elements " + std::to_string(s.constructed - s.destroyed) + " but the containers hold " + std::to_string(expect));
    if (s.mis) return fail(op, cls, "align", "element constructed at a misaligned address");
    return true;
  }

  bool verify(const char* op, const std::string& cls) {
    for (int k = 0; k < 2; ++k) {
      Vec& v = *v_[k];
      const Vec& cv = v;
      const std::vector<long>& r = r_[k];
      if (v.size() != r.size()) return fail(op, cls, "size", "size " + std::to_string(v.size()) + " expected " + std::to_string(r.size()));
      if (v.empty() != r.empty()) return fail(op, cls, "size", "empty() disagrees with size()");
      if (v.capacity() < v.size()) return fail(op, cls, "capacity", "capacity() < size()");
      for (size_t i = 0; i < r.size(); ++i) {
        const T& e = (stepNo_ & 1) ? cv[i] : v[i];
        if (e.magic != T::kAlive || e.value != r[i])
          return fail(op, cls, "content", "element " + std::to_string(i) + " is " + (e.magic != T::kAlive ? std::string("not a live object") : std::to_string(e.value)) + " expected " + std::to_string(r[i]));
      }
      res_.maxSize = std::max(res_.maxSize, r.size());
      if (r.size() > 2 * fb_) res_.crossedBuckets = true;
    }
    return lifeCheck(op, cls);
  }

  bool retpos(const char* op, const std::string& cls, Vec& v, const It& it, size_t expect) {
    ssize_t got = it - v.begin();
    // soft: the contents and lifetimes of the same operation are still checked before the sequence stops
    if (got != static_cast<ssize_t>(expect)) res_.soft.emplace_back(std::string(op) + "/" + cls + "/retpos", "returned iterator at index " + std::to_string(got) + ", std::vector returns index " + std::to_string(expect));
    return true;
  }

  std::vector<T> mkSrc(size_t n, std::vector<long>& vals) {
    std::vector<T> s;
    s.reserve(n);
    for (size_t i = 0; i < n; ++i) {
      vals.push_back(nv());
      s.emplace_back(vals.back());
    }
    return s;
  }

  bool step(const Op& o);
  bool stepCtor(const Op& o, Vec*& x, Vec*& y, std::vector<long>& rx, std::vector<long>& ry, std::string& cls);
  bool stepGrow(const Op& o, Vec& x, std::vector<long>& rx, std::string& cls);
  bool stepInsertErase(const Op& o, Vec& x, std::vector<long>& rx, std::string& cls);
  bool stepObserve(const Op& o, Vec& x, Vec& y, const std::vector<long>& rx, const std::vector<long>& ry, std::string& cls);
};

template <typename Vec>
bool CvRunner<Vec>::stepCtor(const Op& o, Vec*& x, Vec*& y, std::vector<long>& rx, std::vector<long>& ry, std::string& cls) {
  void* where = x;
  switch (o.code) {
    case kCvCtorDefault:
      x->~Vec();
      x = new (where) Vec();
      rx.clear();
      break;
    case kCvCtorReserve: {
      size_t n = cnt(o.a, 0);
      x->~Vec();
      x = new (where) Vec(n, dispenso::ReserveTag);
      rx.clear();
      if (x->capacity() < n) return fail(kCvOpNames[o.code], cls, "capacity", "capacity below the reserved amount");
      break;
    }
    case kCvCtorSize: {
      size_t n = cnt(o.a, 0);
      x->~Vec();
      x = new (where) Vec(n);
      rx.assign(n, 0);
      break;
    }
    case kCvCtorSizeValue: {
      size_t n = cnt(o.a, 0);
      long v = nv();
      x->~Vec();
      {
        T val(v);
        x = new (where) Vec(n, val);
      }
      rx.assign(n, v);
      break;
    }
    case kCvCtorRangeVec: {
      size_t n = cnt(o.a, 0);
      std::vector<long> vals;
      x->~Vec();
      {
        std::vector<T> src = mkSrc(n, vals);
        x = new (where) Vec(src.begin(), src.end());
      }
      rx = vals;
      break;
    }
    case kCvCtorRangeList: {
      size_t n = cnt(o.a, 0);
      std::vector<long> vals;
      x->~Vec();
      {
        std::vector<T> s0 = mkSrc(n, vals);
        std::list<T> src(s0.begin(), s0.end());
        x = new (where) Vec(src.begin(), src.end());
      }
      rx = vals;
      break;
    }
    case kCvCtorSizeRange: {
      size_t n = cnt(o.a, 0);
      std::vector<long> vals;
      x->~Vec();
      {
        std::vector<T> src = mkSrc(n, vals);
        x = new (where) Vec(n, src.begin(), src.end());
      }
      rx = vals;
      break;
    }
    case kCvCtorIlist: {
      long a = nv(), b = nv(), c = nv();
      x->~Vec();
      switch (o.a % 4) {
        case 0: x = new (where) Vec(std::initializer_list<T>{}); rx.clear(); break;
        case 1: x = new (where) Vec({T(a)}); rx = {a}; break;
        case 2: x = new (where) Vec({T(a), T(b)}); rx = {a, b}; break;
        default: x = new (where) Vec({T(a), T(b), T(c)}); rx = {a, b, c}; break;
      }
      break;
    }
    case kCvCopyCtor:
      x->~Vec();
      x = new (where) Vec(static_cast<const Vec&>(*y));
      rx = ry;
      break;
    case kCvMoveCtor:
      x->~Vec();
      x = new (where) Vec(std::move(*y));
      rx = ry;
      ry.clear(); // std::vector guarantees an empty source after move construction
      break;
    case kCvCopyAssign:
      *x = static_cast<const Vec&>(*y);
      rx = ry;
      break;
    case kCvMoveAssign:
      *x = std::move(*y);
      rx = ry;
      // the source is only "valid but unspecified": bring it to a known state through its own API
      y->clear();
      ry.clear();
      break;
    case kCvSelfAssign: {
      const Vec& alias = *x;
      *x = alias;
      break;
    }
    case kCvAssignNV: {
      size_t n = cnt(o.a, 0);
      long v = nv();
      {
        T val(v);
        x->assign(n, val);
      }
      rx.assign(n, v);
      break;
    }
    case kCvAssignRange: {
      size_t n = cnt(o.a, 0);
      std::vector<long> vals;
      {
        std::vector<T> s0 = mkSrc(n, vals);
        if (o.b & 1) {
          std::list<T> src(s0.begin(), s0.end());
          x->assign(src.begin(), src.end());
        } else {
          x->assign(s0.begin(), s0.end());
        }
      }
      rx = vals;
      break;
    }
    default: break;
  }
  return true;
}

template <typename Vec>
bool CvRunner<Vec>::stepGrow(const Op& o, Vec& x, std::vector<long>& rx, std::string& cls) {
  const char* name = kCvOpNames[o.code];
  const size_t old = rx.size();
  switch (o.code) {
    case kCvPushBackCopy: {
      long v = nv();
      T val(v);
      It it = x.push_back(val);
      rx.push_back(v);
      if (!retpos(name, cls, x, it, old)) return false;
      if (it->value != v) return fail(name, cls, "retpos", "returned iterator does not refer to the new element");
      break;
    }
    case kCvPushBackMove: {
      long v = nv();
      T val(v);
      It it = x.push_back(std::move(val));
      rx.push_back(v);
      if (!retpos(name, cls, x, it, old)) return false;
      break;
    }
    case kCvEmplaceBack: {
      long v = nv();
      It it = x.emplace_back(v);
      rx.push_back(v);
      if (!retpos(name, cls, x, it, old)) return false;
      if ((*it).value != v) return fail(name, cls, "retpos", "returned iterator does not refer to the new element");
      break;
    }
    case kCvPushBackAlias: {
      if (old == 0) return true;
      size_t i = static_cast<size_t>(o.a) % old;
      It it = x.push_back(x[i]);
      rx.push_back(rx[i]);
      if (!retpos(name, cls, x, it, old)) return false;
      break;
    }
    case kCvGrowBy: {
      size_t n = cnt(o.a, old);
      cls = n ? "n+" : "n0";
      It it = x.grow_by(n);
      rx.resize(old + n, 0);
      if (!retpos(name, cls, x, it, old)) return false;
      break;
    }
    case kCvGrowByValue: {
      size_t n = cnt(o.a, old);
      cls = n ? "n+" : "n0";
      long v = nv();
      T val(v);
      It it = x.grow_by(n, val);
      rx.resize(old + n, v);
      if (!retpos(name, cls, x, it, old)) return false;
      break;
    }
    case kCvGrowByRange: {
      size_t n = cnt(o.a, old);
      cls = n ? "n+" : "n0";
      std::vector<long> vals;
      std::vector<T> s0 = mkSrc(n, vals);
      It it;
      if (o.b & 1) {
        std::list<T> src(s0.begin(), s0.end());
        it = x.grow_by(src.begin(), src.end());
      } else {
        it = x.grow_by(s0.begin(), s0.end());
      }
      rx.insert(rx.end(), vals.begin(), vals.end());
      if (!retpos(name, cls, x, it, old)) return false;
      break;
    }
    case kCvGrowByIlist: {
      long a = nv(), b = nv(), c = nv();
      It it;
      switch (o.a % 3) {
        case 0: it = x.grow_by({T(a)}); rx.push_back(a); break;
        case 1: it = x.grow_by({T(a), T(b)}); rx.push_back(a); rx.push_back(b); break;
        default: it = x.grow_by({T(a), T(b), T(c)}); rx.push_back(a); rx.push_back(b); rx.push_back(c); break;
      }
      if (!retpos(name, cls, x, it, old)) return false;
      break;
    }
    case kCvGrowByGenerator: {
      size_t n = cnt(o.a, old);
      cls = n ? "n+" : "n0";
      std::vector<long> vals;
      for (size_t i = 0; i < n; ++i) vals.push_back(nv());
      size_t k = 0;
      It it = x.grow_by_generator(n, [&]() { return T(vals[k++]); });
      if (k != n) return fail(name, cls, "content", "generator invoked " + std::to_string(k) + " times for " + std::to_string(n) + " elements");
      rx.insert(rx.end(), vals.begin(), vals.end());
      if (!retpos(name, cls, x, it, old)) return false;
      break;
    }
    case kCvGrowToAtLeast:
    case kCvGrowToAtLeastValue: {
      size_t n = cnt(o.a, 0);
      if (o.c == 77) n = 0; // the dedicated zero-length request
      if (n > 40 * fb_ + 8) n = 40 * fb_ + 8;
      if (n == 0 && o.c != 77) n = 1;
      cls = n == 0 ? "n0" : (n > old ? "grow" : "nogrow");
      long v = 0;
      It it;
      if (o.code == kCvGrowToAtLeast) {
        it = x.grow_to_at_least(n);
      } else {
        v = nv();
        T val(v);
        it = x.grow_to_at_least(n, val);
      }
      if (n > old) rx.resize(n, v);
      // std::vector has no counterpart for the returned position; only require that it refers to an element
      if (n > 0) {
        ssize_t got = it - x.begin();
        if (got < 0 || got >= static_cast<ssize_t>(rx.size())) return fail(name, cls, "retpos", "returned iterator outside [0, size())");
      }
      break;
    }
    case kCvResize:
    case kCvResizeValue: {
      size_t n = cnt(o.a, 0);
      cls = n > old ? "grow" : (n < old ? "shrink" : "same");
      if (o.code == kCvResize) {
        x.resize(static_cast<ssize_t>(n));
        rx.resize(n, 0);
      } else {
        long v = nv();
        T val(v);
        x.resize(static_cast<ssize_t>(n), val);
        rx.resize(n, v);
      }
      break;
    }
    case kCvReserve: {
      size_t n = cnt(o.a, 0);
      x.reserve(static_cast<ssize_t>(n));
      if (x.capacity() < n) return fail(name, cls, "capacity", "capacity() " + std::to_string(x.capacity()) + " after reserve(" + std::to_string(n) + ")");
      break;
    }
    case kCvPopBack:
      if (old == 0) return true;
      x.pop_back();
      rx.pop_back();
      break;
    case kCvClear:
      x.clear();
      rx.clear();
      break;
    case kCvShrinkToFit:
      x.shrink_to_fit();
      break;
    default: break;
  }
  return true;
}

template <typename Vec>
bool CvRunner<Vec>::stepInsertErase(const Op& o, Vec& x, std::vector<long>& rx, std::string& cls) {
  const char* name = kCvOpNames[o.code];
  const size_t old = rx.size();
  switch (o.code) {
    case kCvInsertCopy:
    case kCvInsertMove: {
      size_t i = pos(o.b, old);
      cls = posClass(i, old);
      long v = nv();
      T val(v);
      It it = o.code == kCvInsertCopy ? x.insert(x.cbegin() + static_cast<ssize_t>(i), val) : x.insert(x.cbegin() + static_cast<ssize_t>(i), std::move(val));
      auto rit = rx.insert(rx.begin() + static_cast<ssize_t>(i), v);
      size_t exp = static_cast<size_t>(rit - rx.begin());
      if (!retpos(name, cls, x, it, exp)) return false;
      break;
    }
    case kCvInsertNV: {
      size_t i = pos(o.b, old);
      size_t n = cnt(o.a, old) % (fb_ + 3);
      cls = std::string(posClass(i, old)) + (n ? "" : "-n0");
      long v = nv();
      T val(v);
      It it = x.insert(x.cbegin() + static_cast<ssize_t>(i), n, val);
      auto rit = rx.insert(rx.begin() + static_cast<ssize_t>(i), n, v);
      size_t exp = static_cast<size_t>(rit - rx.begin());
      if (!retpos(name, cls, x, it, exp)) return false;
      break;
    }
    case kCvInsertRange: {
      size_t i = pos(o.b, old);
      size_t n = cnt(o.a, old) % (fb_ + 3);
      cls = std::string(posClass(i, old)) + (n ? "" : "-n0");
      std::vector<long> vals;
      std::vector<T> s0 = mkSrc(n, vals);
      It it;
      if (o.c & 1) {
        std::list<T> src(s0.begin(), s0.end());
        it = x.insert(x.cbegin() + static_cast<ssize_t>(i), src.begin(), src.end());
      } else {
        it = x.insert(x.cbegin() + static_cast<ssize_t>(i), s0.begin(), s0.end());
      }
      auto rit = rx.insert(rx.begin() + static_cast<ssize_t>(i), vals.begin(), vals.end());
      size_t exp = static_cast<size_t>(rit - rx.begin());
      if (!retpos(name, cls, x, it, exp)) return false;
      break;
    }
    case kCvInsertIlist: {
      size_t i = pos(o.b, old);
      cls = posClass(i, old);
      long a = nv(), b = nv();
      It it = x.insert(x.cbegin() + static_cast<ssize_t>(i), {T(a), T(b)});
      auto rit = rx.insert(rx.begin() + static_cast<ssize_t>(i), {a, b});
      size_t exp = static_cast<size_t>(rit - rx.begin());
      if (!retpos(name, cls, x, it, exp)) return false;
      break;
    }
    case kCvErasePos: {
      if (old == 0) return true;
      size_t i = pos(o.b, old - 1);
      cls = (i == old - 1) ? "last" : "mid";
      It it = x.erase(x.cbegin() + static_cast<ssize_t>(i));
      auto rit = rx.erase(rx.begin() + static_cast<ssize_t>(i));
      size_t exp = static_cast<size_t>(rit - rx.begin());
      if (!retpos(name, cls, x, it, exp)) return false;
      break;
    }
    case kCvEraseRange: {
      size_t i = pos(o.b, old), j = pos(o.c, old);
      if (i > j) std::swap(i, j);
      cls = (i == j) ? "empty" : (j == old ? "to-end" : "mid");
      It it = x.erase(x.cbegin() + static_cast<ssize_t>(i), x.cbegin() + static_cast<ssize_t>(j));
      auto rit = rx.erase(rx.begin() + static_cast<ssize_t>(i), rx.begin() + static_cast<ssize_t>(j));
      size_t exp = static_cast<size_t>(rit - rx.begin());
      if (!retpos(name, cls, x, it, exp)) return false;
      break;
    }
    default: break;
  }
  return true;
}

template <typename Vec>
bool CvRunner<Vec>::stepObserve(const Op& o, Vec& x, Vec& y, const std::vector<long>& rx, const std::vector<long>& ry, std::string& cls) {
  const char* name = kCvOpNames[o.code];
  const Vec& cx = x;
  const size_t n = rx.size();
  switch (o.code) {
    case kCvCompare: {
      const Vec& cy = y;
      bool ok = (cx == cy) == (rx == ry) && (cx != cy) == (rx != ry) && (cx < cy) == (rx < ry) && (cx > cy) == (rx > ry) && (cx <= cy) == (rx <= ry) && (cx >= cy) == (rx >= ry);
      if (!ok) return fail(name, cls, "content", "comparison operators disagree with std::vector");
      Vec copy(cx);
      if (!(copy == cx) || (copy != cx) || (copy < cx) || (cx < copy)) return fail(name, cls, "content", "a copy does not compare equal");
      break;
    }
    case kCvIterForward: {
      size_t k = 0;
      for (It it = x.begin(); it != x.end(); ++it, ++k) {
        if (k >= n || it->value != rx[k]) return fail(name, cls, "content", "forward iteration diverges at step " + std::to_string(k));
      }
      if (k != n) return fail(name, cls, "size", "forward iteration visited " + std::to_string(k) + " of " + std::to_string(n));
      k = 0;
      for (CIt it = cx.cbegin(); it != cx.cend(); it++, ++k) {
        if (k >= n || (*it).value != rx[k]) return fail(name, cls, "content", "const forward iteration diverges at step " + std::to_string(k));
      }
      if (k != n) return fail(name, cls, "size", "const iteration visited " + std::to_string(k) + " of " + std::to_string(n));
      k = 0;
      for (const T& e : cx) {
        if (k >= n || e.value != rx[k]) return fail(name, cls, "content", "range-for diverges at step " + std::to_string(k));
        ++k;
      }
      if (k != n) return fail(name, cls, "size", "range-for visited " + std::to_string(k) + " of " + std::to_string(n));
      break;
    }
    case kCvIterBackward: {
      size_t k = n;
      It it = x.end();
      while (it != x.begin()) {
        --it;
        if (k == 0) return fail(name, cls, "size", "backward iteration did not stop at begin()");
        --k;
        if (it->value != rx[k]) return fail(name, cls, "content", "backward iteration diverges at index " + std::to_string(k));
      }
      if (k != 0) return fail(name, cls, "size", "backward iteration stopped early");
      k = n;
      for (auto rit = x.rbegin(); rit != x.rend(); ++rit) {
        if (k == 0) return fail(name, cls, "size", "reverse iteration too long");
        --k;
        if (rit->value != rx[k]) return fail(name, cls, "content", "reverse iteration diverges at index " + std::to_string(k));
      }
      if (k != 0) return fail(name, cls, "size", "reverse iteration stopped early");
      k = n;
      for (auto rit = cx.rbegin(); rit != cx.rend(); rit++) {
        if (k == 0) return fail(name, cls, "size", "const reverse iteration too long");
        --k;
        if ((*rit).value != rx[k]) return fail(name, cls, "content", "const reverse iteration diverges at index " + std::to_string(k));
      }
      if (k != 0) return fail(name, cls, "size", "const reverse iteration stopped early");
      // postfix decrement
      if (n) {
        CIt c = cx.cend();
        c--;
        if (c->value != rx[n - 1]) return fail(name, cls, "content", "postfix decrement from end()");
      }
      break;
    }
    case kCvIterArith: {
      if (x.end() - x.begin() != static_cast<ssize_t>(n)) return fail(name, cls, "retpos", "end() - begin() != size()");
      vrt::Rng r(static_cast<uint64_t>(o.a) * 77 + 5);
      for (int rep = 0; rep < 12; ++rep) {
        ssize_t i = static_cast<ssize_t>(r.below(n + 1)), j = static_cast<ssize_t>(r.below(n + 1));
        if (rep == 0) i = 0, j = static_cast<ssize_t>(n);
        if (rep == 1) i = static_cast<ssize_t>(n), j = 0;
        It a = x.begin() + i;
        It b = x.begin();
        b += j;
        CIt ca = a;
        if ((a - x.begin()) != i || (b - x.begin()) != j || (b - a) != j - i || (ca - cx.cbegin()) != i) return fail(name, cls, "retpos", "iterator difference wrong for " + std::to_string(i) + "," + std::to_string(j));
        if ((a == b) != (i == j) || (a != b) != (i != j) || (a < b) != (i < j) || (a <= b) != (i <= j) || (a > b) != (i > j) || (a >= b) != (i >= j)) return fail(name, cls, "retpos", "iterator comparison wrong for " + std::to_string(i) + "," + std::to_string(j));
        It c = a + (j - i);
        if (!(c == b) || (c - x.begin()) != j) return fail(name, cls, "retpos", "it + n lands on the wrong element");
        It d = b - (j - i);
        if (!(d == a)) return fail(name, cls, "retpos", "it - n lands on the wrong element");
        It e = b;
        e -= (j - i);
        if (!(e == a)) return fail(name, cls, "retpos", "it -= n lands on the wrong element");
        if (static_cast<size_t>(j) < n) {
          if (a[j - i].value != rx[static_cast<size_t>(j)] || ca[j - i].value != rx[static_cast<size_t>(j)] || (*b).value != rx[static_cast<size_t>(j)]) return fail(name, cls, "content", "it[n] reads the wrong element");
        }
        if (static_cast<size_t>(i) < n) {
          It f = a;
          ++f;
          if ((f - x.begin()) != i + 1) return fail(name, cls, "retpos", "++it index");
          --f;
          if (!(f == a)) return fail(name, cls, "retpos", "--it after ++it");
        }
      }
      if (!(x.begin() + static_cast<ssize_t>(n) == x.end())) return fail(name, cls, "retpos", "begin() + size() != end()");
      break;
    }
    case kCvAtFrontBack: {
      for (size_t i = 0; i < n; i += (n / 7 + 1)) {
        if (x.at(i).value != rx[i] || cx.at(i).value != rx[i]) return fail(name, cls, "content", "at(" + std::to_string(i) + ")");
      }
      bool threw = false;
      try {
        (void)cx.at(n);
      } catch (const std::out_of_range&) {
        threw = true;
      }
      if (!threw) return fail(name, cls, "content", "at(size()) did not throw");
      threw = false;
      try {
        (void)x.at(n + 1000000);
      } catch (const std::out_of_range&) {
        threw = true;
      }
      if (!threw) return fail(name, cls, "content", "at(far) did not throw");
      if (n) {
        if (x.front().value != rx.front() || cx.front().value != rx.front() || x.back().value != rx.back() || cx.back().value != rx.back()) return fail(name, cls, "content", "front()/back()");
      }
      // max_size() is not called: it does not compile (it names Traits::kMaxVectorSize, which lives in SizeTraits)
      break;
    }
    default: break;
  }
  return true;
}

template <typename Vec>
bool CvRunner<Vec>::step(const Op& o) {
  int t = o.t & 1;
  Vec*& x = v_[t];
  Vec*& y = v_[1 - t];
  std::vector<long>& rx = r_[t];
  std::vector<long>& ry = r_[1 - t];
  const char* name = kCvOpNames[o.code];
  std::string cls = "-";
  const bool nonEmptyBefore = !rx.empty();
  bool mutating = true;
  bool ok = true;
  if (o.code <= kCvAssignRange) {
    ok = stepCtor(o, x, y, rx, ry, cls);
  } else if (o.code <= kCvGrowToAtLeastValue || (o.code >= kCvResize && o.code <= kCvShrinkToFit)) {
    ok = stepGrow(o, *x, rx, cls);
  } else if (o.code <= kCvEraseRange) {
    ok = stepInsertErase(o, *x, rx, cls);
  } else if (o.code == kCvSwapMember) {
    x->swap(*y);
    rx.swap(ry);
  } else if (o.code == kCvSwapFree) {
    using std::swap;
    swap(*x, *y);
    rx.swap(ry);
  } else {
    mutating = false;
    ok = stepObserve(o, *x, *y, rx, ry, cls);
  }
  if (!ok) return false;
  bool v = verify(name, cls);
  if (!res_.soft.empty()) {
    if (res_.ok) {
      res_.ok = false;
      res_.failStep = stepNo_;
      res_.subkey.clear();
    }
    return false;
  }
  if (!v) return false;
  if (mutating && nonEmptyBefore) ++res_.mutatingOnNonEmpty;
  res_.opMask |= (uint64_t{1} << o.code);
  return true;
}

} // namespace hs

#define HSEQ_CV_INSTANCE(id, ELEM, ELEMNAME, INL, FAST, STRAT, TRAITNAME)                                                  \
  static hs::CvRegistrar hseq_cv_reg_##id(                                                                                  \
      new hs::CvRunner<dispenso::ConcurrentVector<ELEM, hs::CvTraits<INL, FAST, dispenso::ConcurrentVectorReallocStrategy::STRAT>>>( \
          TRAITNAME, ELEMNAME));
