#pragma once
// Shared declarations for engine h_nest: C06 (nested waits terminate), C16 (parallel_invoke runs each
// functor exactly once), C46 (bounded inline nesting).
#include <dispenso/task_set.h>
#include <dispenso/thread_pool.h>

#include <algorithm>
#include <memory>
#include <string>
#include <thread>
#include <vector>

#include <pthread.h>
#include <unistd.h>

#include "verif_rt.h"

using vrt::J;
namespace V = dispenso::verif;

#if VRT_TSAN
#define HS_ACQ std::memory_order_relaxed
#define HS_REL std::memory_order_relaxed
#else
#define HS_ACQ std::memory_order_acquire
#define HS_REL std::memory_order_release
#endif

void runC06();
void runC16();
void runC46();

// Gate tasks: hold a worker until released. Static storage only (see h_cancel.cpp Shared04).
struct NGates {
  std::atomic<int> arrived{0}, release{0}, exited{0};
  void reset() {
    arrived.store(0, std::memory_order_relaxed);
    release.store(0, std::memory_order_relaxed);
    exited.store(0, std::memory_order_relaxed);
  }
  void body() {
    arrived.fetch_add(1, HS_REL);
    vrt::progress();
    while (!release.load(HS_ACQ)) vrt::sleepUs(30);
    exited.fetch_add(1, HS_REL);
    vrt::progress();
  }
  void open() {
    release.store(1, HS_REL);
  }
  void waitArrived(int n) {
    while (arrived.load(HS_ACQ) < n) vrt::sleepUs(30);
  }
};
extern NGates g_ngates;

// Current pool for hang witnesses (set/cleared by the case driver on the main thread).
extern std::atomic<dispenso::ThreadPool*> g_curPool;
void installStateDumper();
// extra numbers for the hang witness
extern std::atomic<long> g_nodesDone, g_nodesTotal, g_workersInWait, g_threadsInWait;

static inline bool onPoolThread(dispenso::ThreadPool& p) {
  return dispenso::detail::PerPoolPerThreadInfo::isPoolRecursive(&p);
}

static inline void relaxedMax(std::atomic<long>& a, long v) {
  long cur = a.load(std::memory_order_relaxed);
  while (v > cur && !a.compare_exchange_weak(cur, v, std::memory_order_relaxed)) {
  }
}
