// C37: ConcurrentObjectArena growth and copies are exact.
//  kind A: concurrent grow_by from 1..4 threads (+ optional reader of a published prefix): returned
//          ranges pairwise disjoint with union [0,size()), every new element default-constructed,
//          early references still valid.
//  kind B: sequential build to exactly n buffers (1..9), then copy construction / copy assignment /
//          move assignment / swap compared element-wise with a snapshot.
#include "h_conc_common.h"

#include <dispenso/concurrent_object_arena.h>

namespace {

constexpr uint64_t kInitV = 0xC0FFEE00D15EA5E5ull;
constexpr uint32_t kInitA = 0xABCD1234u;
struct Cell {
  uint64_t v = kInitV;
  uint32_t a = kInitA;
  uint32_t owner = 0;
};
static_assert(std::is_trivially_copyable<Cell>::value, "arena copy needs a trivially copyable element");

inline uint64_t cellTag(int g, long op, long off) {
  return (static_cast<uint64_t>(g + 1) << 48) ^ (static_cast<uint64_t>(op) << 24) ^ static_cast<uint64_t>(off);
}

struct RangeRec {
  uint64_t idx, delta;
  int g;
  long op;
  Cell* first;
};

struct GrowSpec {
  int indexType = 0; // 0 size_t, 1 uint32_t
  long minBuf = 4;
  long initial = 0;
  int growers = 2;
  long opsPer = 50;
  int deltaMode = 0;
  bool reader = false;
  double hookP = 0;
  uint64_t salt = 0;
  J json() const {
    return J().kv("index", indexType ? "uint32" : "size_t").kv("minBuf", minBuf).kv("initial", initial).kv("growers", growers).kv("opsPer", opsPer)
        .kv("deltaMode", deltaMode).kv("reader", reader).kv("hookP", hookP).kv("salt", static_cast<unsigned long long>(salt));
  }
};
struct GrowOut {
  long ranges = 0, total = 0, buffers = 0, notDefault = 0, staleRef = 0, readerBad = 0, readerReads = 0;
  bool multiBufferDelta = false, exactFill = false;
};

long pow2ceil(long v) {
  long p = 1;
  while (p < v) p <<= 1;
  return p;
}

long pickDelta(TRng& r, long buf, int mode) {
  switch (mode) {
    case 0: return 1;
    case 1: return static_cast<long>(r.below(4));
    case 2: {
      static const long k[] = {-1, 0, 1};
      long c = static_cast<long>(r.below(5));
      if (c == 0) return std::max<long>(0, buf + k[r.below(3)]);
      if (c == 1) return 2 * buf + static_cast<long>(r.below(4));
      return 1 + static_cast<long>(r.below(static_cast<uint64_t>(buf)));
    }
    default: return static_cast<long>(r.below(static_cast<uint64_t>(3 * buf + 2)));
  }
}

template <typename Index>
GrowOut runGrow(const GrowSpec& s) {
  using Arena = dispenso::ConcurrentObjectArena<Cell, Index>;
  GrowOut o;
  const long buf = pow2ceil(s.minBuf);
  Arena arena(static_cast<Index>(s.minBuf), static_cast<Index>(s.initial));
  // the initial elements are published before any thread starts
  long initBad = 0;
  for (long i = 0; i < s.initial; ++i) {
    Cell& c = arena[static_cast<Index>(i)];
    if (c.v != kInitV || c.a != kInitA) ++initBad;
    c.v = cellTag(-1 + 100, 0, i);
    c.owner = 99;
  }
  if (initBad) flag("initial elements not default-constructed", J().kv("count", initBad), "default-init");
  if (static_cast<long>(arena.size()) != s.initial) flag("size() after construction differs from initialSize", J().kv("size", static_cast<long>(arena.size())), "ranges");
  if (s.hookP > 0) {
    vrt::hookProb(V::kArenaAfterCapacityTest, s.hookP);
    vrt::hookMaxSleepUs(50);
  }
  std::vector<std::vector<RangeRec>> recs(static_cast<size_t>(s.growers));
  std::vector<long> notDefault(static_cast<size_t>(s.growers), 0), stale(static_cast<size_t>(s.growers), 0);
  std::atomic<bool> stop{false};
  long readerBad = 0, readerReads = 0;
  HBarrier start(s.growers + (s.reader ? 1 : 0));
  std::vector<std::thread> ths;
  for (int g = 0; g < s.growers; ++g) {
    ths.emplace_back([&, g]() {
      TRng rng(vrt::mix(s.salt, 10 + static_cast<uint64_t>(g)));
      auto& mine = recs[static_cast<size_t>(g)];
      mine.reserve(static_cast<size_t>(s.opsPer));
      start.wait();
      for (long op = 0; op < s.opsPer; ++op) {
        long d = pickDelta(rng, buf, s.deltaMode);
        Index idx = arena.grow_by(static_cast<Index>(d));
        Cell* first = nullptr;
        for (long k = 0; k < d; ++k) {
          Cell& c = arena[static_cast<Index>(idx + static_cast<Index>(k))];
          if (!k) first = &c;
          if (c.v != kInitV || c.a != kInitA) ++notDefault[static_cast<size_t>(g)];
          c.v = cellTag(g, op, k);
          c.owner = static_cast<uint32_t>(g + 1);
        }
        mine.push_back({static_cast<uint64_t>(idx), static_cast<uint64_t>(d), g, op, first});
        vrt::progress();
        if (rng.chance(0.2) && !mine.empty()) {
          // references and indices obtained earlier still reach the same elements
          const RangeRec& rr = mine[rng.below(mine.size())];
          if (rr.delta) {
            if (rr.first->v != cellTag(g, rr.op, 0)) ++stale[static_cast<size_t>(g)];
            uint64_t k = rng.below(rr.delta);
            const Cell& c = arena[static_cast<Index>(rr.idx + k)];
            if (c.v != cellTag(g, rr.op, static_cast<long>(k)) || (k == 0 && &c != rr.first)) ++stale[static_cast<size_t>(g)];
          }
        }
      }
    });
  }
  std::thread rd;
  if (s.reader) {
    rd = std::thread([&]() {
      TRng rng(vrt::mix(s.salt, 999));
      start.wait();
      uint64_t lastSize = 0;
      while (!stop.load(std::memory_order_relaxed)) {
        if (s.initial > 0) {
          long i = static_cast<long>(rng.below(static_cast<uint64_t>(s.initial)));
          const Cell& c = arena[static_cast<Index>(i)];
          if (c.v != cellTag(99, 0, i) || c.owner != 99) ++readerBad;
          ++readerReads;
        }
        uint64_t sz = static_cast<uint64_t>(arena.size());
        if (sz < lastSize) ++readerBad; // size() never shrinks
        lastSize = sz;
        (void)arena.capacity();
        if ((readerReads & 63) == 0) std::this_thread::yield();
      }
    });
  }
  for (auto& t : ths) t.join();
  stop.store(true, std::memory_order_relaxed);
  if (s.reader) rd.join();
  vrt::hooksReset();
  // ---- quiescent checks
  std::vector<RangeRec> all;
  for (auto& v : recs) all.insert(all.end(), v.begin(), v.end());
  std::sort(all.begin(), all.end(), [](const RangeRec& a, const RangeRec& b) { return a.idx != b.idx ? a.idx < b.idx : a.delta < b.delta; });
  uint64_t expect = static_cast<uint64_t>(s.initial);
  long overlap = 0, gap = 0;
  for (const RangeRec& r : all) {
    if (r.delta == 0) continue; // empty ranges are disjoint from everything
    if (r.idx < expect) ++overlap;
    else if (r.idx > expect) ++gap;
    expect = std::max(expect, r.idx + r.delta);
    if (r.delta > static_cast<uint64_t>(buf)) o.multiBufferDelta = true;
  }
  uint64_t size = static_cast<uint64_t>(arena.size());
  if (overlap) flag("grow_by returned overlapping index ranges", J().kv("count", overlap), "ranges");
  if (gap) flag("grow_by ranges leave a gap", J().kv("count", gap), "ranges");
  if (expect != size) flag("union of the returned ranges is not [0, size())", J().kv("end", expect).kv("size", size), "ranges");
  long wrong = 0, moved = 0;
  for (const RangeRec& r : all) {
    for (uint64_t k = 0; k < r.delta && r.idx + k < size; ++k) {
      const Cell& c = arena[static_cast<Index>(r.idx + k)];
      if (c.v != cellTag(r.g, r.op, static_cast<long>(k)) || c.owner != static_cast<uint32_t>(r.g + 1)) ++wrong;
      if (k == 0 && &c != r.first) ++moved;
    }
  }
  for (long i = 0; i < s.initial; ++i) {
    const Cell& c = arena[static_cast<Index>(i)];
    if (c.v != cellTag(99, 0, i)) ++wrong;
  }
  if (wrong) flag("element does not hold what the owner of its range wrote (overwritten or shared)", J().kv("count", wrong), "ranges");
  if (moved) flag("reference to an existing element no longer refers to it after growth", J().kv("count", moved), "references");
  for (int g = 0; g < s.growers; ++g) {
    o.notDefault += notDefault[static_cast<size_t>(g)];
    o.staleRef += stale[static_cast<size_t>(g)];
  }
  if (o.notDefault) flag("element returned by grow_by was not default-constructed", J().kv("count", o.notDefault), "default-init");
  if (o.staleRef) flag("reference / index obtained earlier read a different value during growth", J().kv("count", o.staleRef), "references");
  if (readerBad) flag("reader of already-published elements saw a wrong value (or size() shrank)", J().kv("count", readerBad), "references");
  // scribble so that recycled memory does not look default-constructed to a later arena
  for (uint64_t i = 0; i < size; ++i) arena[static_cast<Index>(i)].a = 0;
  o.ranges = static_cast<long>(all.size());
  o.total = static_cast<long>(size);
  o.buffers = static_cast<long>(arena.numBuffers());
  o.readerBad = readerBad;
  o.readerReads = readerReads;
  return o;
}

// ------------------------------------------------------------------ kind B
struct CopySpec {
  int op = 0; // 0 copy-ctor 1 copy-assign 2 move-assign 3 swap
  int nbuf = 1; // buffers of the source
  int nbufOther = 1;
  long minBuf = 4;
  int indexType = 0;
  bool exactFill = false;
  uint64_t salt = 0;
  J json() const {
    static const char* ops[] = {"copy-ctor", "copy-assign", "move-assign", "swap"};
    return J().kv("op", ops[op]).kv("nbuf", nbuf).kv("nbufOther", nbufOther).kv("minBuf", minBuf).kv("index", indexType ? "uint32" : "size_t").kv("exactFill", exactFill)
        .kv("salt", static_cast<unsigned long long>(salt));
  }
};

template <typename Arena, typename Index>
void buildTo(Arena& a, int nbuf, long buf, TRng& rng, uint64_t stampBase, bool exactFill, std::vector<Cell>& snap) {
  // grow until the arena has exactly nbuf buffers (grow_by allocates when pos + delta >= capacity)
  int guard = 0;
  while (static_cast<int>(a.numBuffers()) < nbuf && guard++ < 10000) {
    long room = static_cast<long>(a.capacity()) - static_cast<long>(a.size());
    long d;
    if (static_cast<int>(a.numBuffers()) == nbuf - 1) d = room; // touching the capacity allocates exactly one more buffer
    else d = 1 + static_cast<long>(rng.below(static_cast<uint64_t>(std::min<long>(room, buf))));
    if (d < 1) d = 1;
    a.grow_by(static_cast<Index>(d));
  }
  // and some more inside the last buffer, without allocating another one
  long room = static_cast<long>(a.capacity()) - static_cast<long>(a.size()) - 1;
  if (room > 0) a.grow_by(static_cast<Index>(exactFill ? room : rng.below(static_cast<uint64_t>(room) + 1)));
  snap.clear();
  long notDefault = 0;
  for (uint64_t i = 0; i < static_cast<uint64_t>(a.size()); ++i) {
    Cell& c = a[static_cast<Index>(i)];
    if (c.v != kInitV || c.a != kInitA) ++notDefault;
    c.v = stampBase + i;
    c.owner = static_cast<uint32_t>(i * 7 + 1);
    snap.push_back(c);
  }
  if (notDefault) flag("element returned by grow_by was not default-constructed", J().kv("count", notDefault), "default-init");
}

template <typename Arena, typename Index>
long diffArena(const Arena& a, const std::vector<Cell>& snap) {
  if (static_cast<uint64_t>(a.size()) != snap.size()) return -1;
  long bad = 0;
  for (uint64_t i = 0; i < snap.size(); ++i) {
    const Cell& c = a[static_cast<Index>(i)];
    if (c.v != snap[i].v || c.a != snap[i].a || c.owner != snap[i].owner) ++bad;
  }
  return bad;
}

template <typename Index>
bool runCopy(const CopySpec& s, long& sizeOut) {
  using Arena = dispenso::ConcurrentObjectArena<Cell, Index>;
  TRng rng(s.salt);
  const long buf = pow2ceil(s.minBuf);
  Arena a(static_cast<Index>(s.minBuf));
  std::vector<Cell> snapA, snapB;
  buildTo<Arena, Index>(a, s.nbuf, buf, rng, 0x1000000, s.exactFill, snapA);
  if (static_cast<int>(a.numBuffers()) != s.nbuf) return false; // could not build the shape (not a verdict)
  sizeOut = static_cast<long>(a.size());
  auto report = [&](const char* what, long d, const char* sub) {
    if (d != 0) {
      flag(std::string(what) + (d < 0 ? ": size differs" : ": contents differ"), J().kv("elementsDifferent", d).kv("spec", s.json()), sub);
    }
  };
  if (s.op == 0) {
    Arena b(a);
    report("copy-constructed arena", diffArena<Arena, Index>(b, snapA), "copy");
    report("source changed by copy construction", diffArena<Arena, Index>(a, snapA), "copy");
    if (b.size() > 0 && &b[0] == &a[0]) flag("copy shares storage with its source", J(), "copy");
    // the copy is a working arena: it can grow, the source is unaffected
    Index at = b.grow_by(static_cast<Index>(buf + 1));
    if (static_cast<uint64_t>(at) != snapA.size()) flag("grow_by on a copy does not continue at its size", J().kv("at", static_cast<uint64_t>(at)).kv("size", static_cast<uint64_t>(snapA.size())), "copy");
    for (long k = 0; k < buf + 1; ++k) b[static_cast<Index>(at + static_cast<Index>(k))].v = 1;
    report("source changed by growing the copy", diffArena<Arena, Index>(a, snapA), "copy");
  } else {
    const long bufB = pow2ceil(std::max<long>(1, s.minBuf / 2 + static_cast<long>(rng.below(3))));
    Arena b(static_cast<Index>(bufB));
    buildTo<Arena, Index>(b, s.nbufOther, bufB, rng, 0x9000000, false, snapB);
    if (s.op == 1) {
      b = a;
      report("copy-assigned arena", diffArena<Arena, Index>(b, snapA), "copy");
      report("source changed by copy assignment", diffArena<Arena, Index>(a, snapA), "copy");
    } else if (s.op == 2) {
      b = std::move(a);
      report("move-assigned arena", diffArena<Arena, Index>(b, snapA), "move");
    } else {
      Cell* a0 = a.size() ? &a[0] : nullptr;
      swap(a, b);
      report("swap: lhs does not hold the former rhs", diffArena<Arena, Index>(a, snapB), "swap");
      report("swap: rhs does not hold the former lhs", diffArena<Arena, Index>(b, snapA), "swap");
      if (a0 && b.size() && &b[0] != a0) flag("swap moved the elements instead of exchanging the buffers", J(), "swap");
    }
    // both stay usable
    Index at = b.grow_by(static_cast<Index>(3));
    if (static_cast<uint64_t>(at) != static_cast<uint64_t>(b.size()) - 3) flag("grow_by after assignment/swap returned a wrong index", J(), "copy");
  }
  return true;
}

} // namespace

void runC37() {
  const bool th = vrt::thorough();
  const long nGrow = vrt::g_args.getInt("n", th ? 5000 : 400);
  const long nCopy = vrt::g_args.getInt("copies", th ? 1440 : 288);
  const long scale = vrt::g_args.getInt("scale", 100);
  for (long idx = 0; idx < nGrow + nCopy; ++idx) {
    if (!vrt::selected(idx)) continue;
    vrt::Rng r = vrt::caseRng(idx);
    g_flagged = 0;
    if (idx < nGrow) {
      GrowSpec s;
      s.indexType = static_cast<int>(r.below(2));
      static const long bufs[] = {1, 2, 3, 4, 5, 8, 16, 64};
      s.minBuf = bufs[r.below(8)];
      s.initial = r.chance(0.5) ? 0 : r.range(1, 3 * pow2ceil(s.minBuf));
      s.growers = static_cast<int>(r.range(1, 4));
      s.opsPer = (r.chance(0.7) ? r.range(5, 120) : r.range(120, th ? 5000 : 1500)) * scale / 100 + 2;
      s.deltaMode = static_cast<int>(r.below(4));
      s.reader = r.chance(0.4);
      static const double hooks[] = {0, 0.3, 0.8};
      s.hookP = hooks[r.below(3)];
      s.salt = r.next();
      long buf = pow2ceil(s.minBuf);
      std::string key = std::string("arena/grow/") + (s.indexType ? "u32" : "size_t") + "/buf" + std::to_string(buf) + "/g" + std::to_string(s.growers);
      vrt::caseBegin(idx, key, s.json());
      vrt::watchdogArm();
      GrowOut o = s.indexType ? runGrow<uint32_t>(s) : runGrow<size_t>(s);
      vrt::watchdogDisarm();
      std::vector<std::string> cls{"grow", "growers:" + std::to_string(s.growers), "buf:" + std::to_string(buf)};
      if (o.buffers >= 2) cls.push_back("multi-buffer");
      if (o.buffers >= 5) cls.push_back("pointer-array-regrown");
      if (o.multiBufferDelta) cls.push_back("delta-spans-buffers");
      if (s.reader && o.readerReads > 0) cls.push_back("concurrent-reader");
      if (s.hookP > 0) cls.push_back("perturbed");
      bool nt = o.ranges >= 2 && o.total >= 2;
      vrt::caseEnd(J().kv("ranges", o.ranges).kv("size", o.total).kv("buffers", o.buffers).kv("readerReads", o.readerReads), nt ? s.json().str() : "", cls);
    } else {
      long k = idx - nGrow;
      CopySpec s;
      s.op = static_cast<int>(k % 4);
      s.nbuf = static_cast<int>((k / 4) % 9) + 1;
      s.nbufOther = static_cast<int>(r.range(1, 9));
      static const long bufs[] = {1, 2, 3, 4, 8, 16};
      s.minBuf = bufs[r.below(6)];
      s.indexType = static_cast<int>(r.below(2));
      s.exactFill = r.chance(0.4);
      s.salt = r.next();
      static const char* ops[] = {"copy-ctor", "copy-assign", "move-assign", "swap"};
      std::string key = std::string("arena/") + ops[s.op] + "/nbuf" + std::to_string(s.nbuf);
      vrt::caseBegin(idx, key, s.json());
      vrt::watchdogArm();
      long size = 0;
      bool built = s.indexType ? runCopy<uint32_t>(s, size) : runCopy<size_t>(s, size);
      vrt::watchdogDisarm();
      std::vector<std::string> cls{std::string("op:") + ops[s.op], "nbuf:" + std::to_string(s.nbuf)};
      vrt::caseEnd(J().kv("built", built).kv("size", size), built && size >= 2 ? s.json().str() : "", cls);
    }
  }
}
