#include "h_parfor_impl.h"

Obs runSpec_t7(const Spec& s) {
  return runSpecT<uint64_t>(s);
}
