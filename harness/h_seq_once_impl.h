#pragma once
// C39: OnceFunction invokes and destroys its callable exactly once.
// Callables Fn<Size, Align> report construction / invocation / destruction to an id-keyed registry
// (OnceFunction relocates inline callables with memcpy, so an address-keyed registry would be wrong),
// check `this % Align` every time, carry a fill pattern over all their bytes (a relocation that drops
// bytes is seen) and, from 16 bytes up, own a heap cell (a skipped destructor is an LSan leak, a
// destructor after release an ASan report).
#include <dispenso/once_function.h>
#include <dispenso/task_set.h>
#include <dispenso/thread_pool.h>

#include "h_seq_common.h"
#include "h_seq_once_types.h"

namespace hs {

constexpr int kOnceMaxIds = 250; // ids must fit the single byte of Fn<1,1>
struct OnceRec {
  std::atomic<int> ctor{0}, dtor{0}, invoked{0};
};
struct OnceMon {
  OnceRec rec[kOnceMaxIds + 1];
  std::atomic<int> next{1};
  std::atomic<long> badId{0}, misaligned{0}, corrupt{0}, heapBad{0}, useAfterDtor{0};
  void reset() {
    for (auto& r : rec) {
      r.ctor.store(0, std::memory_order_relaxed);
      r.dtor.store(0, std::memory_order_relaxed);
      r.invoked.store(0, std::memory_order_relaxed);
    }
    next.store(1, std::memory_order_relaxed);
    badId = 0;
    misaligned = 0;
    corrupt = 0;
    heapBad = 0;
    useAfterDtor = 0;
  }
  long sumCtor() const {
    long s = 0;
    for (auto& r : rec) s += r.ctor.load(std::memory_order_relaxed);
    return s;
  }
  long sumDtor() const {
    long s = 0;
    for (auto& r : rec) s += r.dtor.load(std::memory_order_relaxed);
    return s;
  }
  long sumInvoked() const {
    long s = 0;
    for (auto& r : rec) s += r.invoked.load(std::memory_order_relaxed);
    return s;
  }
  int maxDtor() const {
    int m = 0;
    for (auto& r : rec) m = std::max(m, r.dtor.load(std::memory_order_relaxed));
    return m;
  }
  int maxInvoked() const {
    int m = 0;
    for (auto& r : rec) m = std::max(m, r.invoked.load(std::memory_order_relaxed));
    return m;
  }
};
OnceMon& onceMon();

template <size_t Size, size_t Align>
struct alignas(Align) Fn {
  static constexpr size_t kIdBytes = Size >= 4 ? 4 : Size;
  static constexpr bool kHeap = Size >= 16;
  unsigned char raw[Size];

  uint32_t id() const {
    uint32_t v = 0;
    std::memcpy(&v, raw, kIdBytes);
    return v;
  }
  int* heap() const {
    int* p = nullptr;
    if (kHeap) std::memcpy(&p, raw + 8, sizeof(p));
    return p;
  }
  void init() {
    OnceMon& m = onceMon();
    uint32_t i = static_cast<uint32_t>(m.next.fetch_add(1, std::memory_order_relaxed));
    if (i > static_cast<uint32_t>(kOnceMaxIds)) {
      m.badId.fetch_add(1, std::memory_order_relaxed);
      i = 0;
    }
    std::memset(raw, static_cast<int>(0x40 + (i & 0x3f)), Size);
    std::memcpy(raw, &i, kIdBytes);
    if (kHeap) {
      int* p = new int(static_cast<int>(i));
      std::memcpy(raw + 8, &p, sizeof(p));
    }
    if (reinterpret_cast<uintptr_t>(this) % Align) m.misaligned.fetch_add(1, std::memory_order_relaxed);
    m.rec[i].ctor.fetch_add(1, std::memory_order_relaxed);
  }
  // returns the id, or 0 after reporting if the bytes are not those of a live Fn
  uint32_t checkSelf() const {
    OnceMon& m = onceMon();
    uint32_t i = id();
    if (i == 0 || i > static_cast<uint32_t>(kOnceMaxIds)) {
      m.badId.fetch_add(1, std::memory_order_relaxed);
      return 0;
    }
    if (reinterpret_cast<uintptr_t>(this) % Align) m.misaligned.fetch_add(1, std::memory_order_relaxed);
    const unsigned char pat = static_cast<unsigned char>(0x40 + (i & 0x3f));
    for (size_t k = kIdBytes; k < Size; ++k) {
      if (kHeap && k >= 8 && k < 16) continue;
      if (raw[k] != pat) {
        m.corrupt.fetch_add(1, std::memory_order_relaxed);
        break;
      }
    }
    if (m.rec[i].dtor.load(std::memory_order_relaxed) != 0) m.useAfterDtor.fetch_add(1, std::memory_order_relaxed);
    if (kHeap) {
      int* p = heap();
      if (!p || *p != static_cast<int>(i)) m.heapBad.fetch_add(1, std::memory_order_relaxed);
    }
    return i;
  }

  Fn() {
    init();
  }
  Fn(const Fn& o) {
    o.checkSelf();
    init();
  }
  Fn(Fn&& o) noexcept {
    o.checkSelf();
    init();
  }
  Fn& operator=(const Fn&) = delete;
  ~Fn() {
    uint32_t i = checkSelf();
    OnceMon& m = onceMon();
    if (i) {
      if (kHeap) delete heap();
      m.rec[i].dtor.fetch_add(1, std::memory_order_relaxed);
    }
  }
  void operator()() const {
    uint32_t i = checkSelf();
    if (i) onceMon().rec[i].invoked.fetch_add(1, std::memory_order_relaxed);
    vrt::progress();
  }
};

struct OnceScenario {
  int ctorKind = 0; // 0 from rvalue, 1 from lvalue, 2 from const lvalue
  int chainLen = 0; // 0..5 moves
  unsigned chainBits = 0; // bit k: hop k is a move assignment (else move construction)
  int finish = 0; // 0 invoke, 1 cleanupNotRun
  int via = 0; // 0 direct, 1 pool(1)+ForceQueuing, 2 pool(2) schedule, 3 pool(0), 4 TaskSet, 5 ConcurrentTaskSet
  J json() const {
    const char* ck[] = {"rvalue", "lvalue", "const-lvalue"};
    const char* vk[] = {"direct", "pool1-forcequeue", "pool2", "pool0", "taskset", "concurrent-taskset"};
    return J().kv("ctor", ck[ctorKind]).kv("chain", chainLen).kv("assignBits", chainBits).kv("finish", finish ? "cleanupNotRun" : "invoke").kv("via", vk[via]);
  }
  std::string subkey() const {
    const char* vk[] = {"direct", "pool1-forcequeue", "pool2", "pool0", "taskset", "concurrent-taskset"};
    return std::string(vk[via]) + "/" + (via == 0 ? (finish ? "cleanup" : "invoke") : "invoke") + "/" + (chainLen ? "moved" : "unmoved");
  }
};

struct OnceOutcome {
  bool ok = true;
  std::string kind, msg;
};

struct OnceRunnerBase {
  virtual ~OnceRunnerBase() {}
  virtual OnceOutcome run(const OnceScenario& s) = 0;
  size_t size = 0, align = 0;
  const char* storage() const {
    if (size <= 56) return "inline";
    size_t blk = 1;
    while (blk < size) blk <<= 1;
    return blk <= 256 ? "spill-sba" : "spill-malloc";
  }
};
OnceRunnerBase*& onceRunner(int idx);

template <size_t S, size_t A>
struct OnceRunner : OnceRunnerBase {
  using F = Fn<S, A>;
  static_assert(sizeof(F) == S && alignof(F) == A, "grid entry must have size % align == 0");
  OnceRunner() {
    size = S;
    align = A;
  }

  static bool bad(OnceOutcome& o, const char* kind, const std::string& msg) {
    if (o.ok) {
      o.ok = false;
      o.kind = kind;
      o.msg = msg;
    }
    return false;
  }
  // monitor flags that are wrong at any time
  static bool flags(OnceOutcome& o, const char* when) {
    OnceMon& m = onceMon();
    std::string w = std::string(" (") + when + ")";
    if (m.misaligned.load()) return bad(o, "align", "callable constructed, invoked or destroyed at an address that is not a multiple of its alignment" + w);
    if (m.badId.load()) return bad(o, "life", "invocation or destructor on bytes that are not a live callable" + w);
    if (m.useAfterDtor.load()) return bad(o, "life", "callable used after its destructor ran" + w);
    if (m.corrupt.load()) return bad(o, "content", "callable bytes changed while stored" + w);
    if (m.heapBad.load()) return bad(o, "content", "callable's owned heap cell lost" + w);
    if (m.maxDtor() > 1) return bad(o, "life", "callable destroyed twice" + w);
    if (m.maxInvoked() > 1) return bad(o, "invoke", "callable invoked twice" + w);
    return true;
  }
  // live = constructed - destroyed
  static bool expect(OnceOutcome& o, const char* when, long live, long invoked) {
    OnceMon& m = onceMon();
    if (!flags(o, when)) return false;
    long l = m.sumCtor() - m.sumDtor();
    long iv = m.sumInvoked();
    if (iv != invoked) return bad(o, "invoke", std::string(when) + ": " + std::to_string(iv) + " invocations, expected " + std::to_string(invoked));
    if (l != live) return bad(o, "life", std::string(when) + ": " + std::to_string(l) + " callables alive, expected " + std::to_string(live));
    return true;
  }

  OnceOutcome run(const OnceScenario& s) override {
    OnceOutcome o;
    onceMon().reset();
    if (s.via == 0) {
      direct(s, o);
    } else {
      viaPool(s, o);
    }
    if (o.ok) expect(o, "after the scenario", 0, (s.via == 0 && s.finish == 1) ? 0 : 1);
    return o;
  }

  void direct(const OnceScenario& s, OnceOutcome& o) {
    F f;
    dispenso::OnceFunction chain[7];
    dispenso::OnceFunction* cur = &chain[0];
    switch (s.ctorKind) {
      case 0: new (cur) dispenso::OnceFunction(std::move(f)); break;
      case 1: new (cur) dispenso::OnceFunction(f); break;
      default: new (cur) dispenso::OnceFunction(static_cast<const F&>(f)); break;
    }
    if (!expect(o, "after construction", 2, 0)) return;
    for (int k = 0; k < s.chainLen; ++k) {
      dispenso::OnceFunction* nxt = &chain[k + 1];
      if (s.chainBits & (1u << k)) {
        *nxt = std::move(*cur); // nxt is default constructed: holds nothing
      } else {
        new (nxt) dispenso::OnceFunction(std::move(*cur));
      }
      cur = nxt;
      if (!expect(o, "after a move", 2, 0)) return;
    }
    if (s.finish == 0) {
      (*cur)();
      if (!expect(o, "after the call", 1, 1)) return;
    } else {
      cur->cleanupNotRun();
      if (!expect(o, "after cleanupNotRun", 1, 0)) return;
    }
  }

  void viaPool(const OnceScenario& s, OnceOutcome& o) {
    F f;
    {
      int threads = s.via == 1 ? 1 : (s.via == 3 ? 0 : 2);
      dispenso::ThreadPool pool(static_cast<size_t>(threads));
      if (s.via == 4) {
        dispenso::TaskSet ts(pool);
        if (s.ctorKind == 0) ts.schedule(std::move(f));
        else ts.schedule(f);
        ts.wait();
      } else if (s.via == 5) {
        dispenso::ConcurrentTaskSet ts(pool);
        if (s.ctorKind == 0) ts.schedule(std::move(f), dispenso::ForceQueuingTag());
        else ts.schedule(f);
        ts.wait();
      } else if (s.via == 1) {
        if (s.ctorKind == 0) pool.schedule(std::move(f), dispenso::ForceQueuingTag());
        else if (s.ctorKind == 1) pool.schedule(f, dispenso::ForceQueuingTag());
        else pool.schedule(static_cast<const F&>(f), dispenso::ForceQueuingTag());
      } else {
        if (s.ctorKind == 0) pool.schedule(std::move(f));
        else pool.schedule(f);
      }
    } // pool destructor: every queued task has run
    expect(o, "after the pool was destroyed", 1, 1);
  }
};

#define HSEQ_ONCE_INSTANCE(idx, S, A)                         \
  static struct OnceReg##idx {                               \
    OnceReg##idx() {                                         \
      onceRunner(idx) = new OnceRunner<S, A>();              \
    }                                                        \
  } hseq_once_reg_##idx;

} // namespace hs
