// C36: ChaseLevDeque delivers each element exactly once (owner LIFO, thieves FIFO, capacity bound,
// quiescent pop/steal succeed iff non-empty, forced last-element races).
#include "h_conc_common.h"

#include <dispenso/chase_lev_deque.h>

#include <deque>

namespace {

struct Pod {
  uint64_t tag;
  uint64_t chk;
};
inline Pod mkPod(uint64_t seq) {
  return Pod{seq, ~seq ^ 0x5A5A5A5A5A5A5A5Aull};
}
inline bool podOk(const Pod& p) {
  return p.chk == (~p.tag ^ 0x5A5A5A5A5A5A5A5Aull);
}

struct Take { // a successful pop / steal
  uint64_t seq, s0, s1;
  bool ok; // payload intact
  int who; // 0 owner pop, 1 owner steal, 2.. thief index + 2
};
struct PushEv {
  uint64_t s0, s1;
};

struct DqSpec {
  int capIdx = 0;
  int thieves = 1;
  int mode = 0; // 0 random history, 1 gate: thief wins, 2 gate: owner wins, 3 barrier race
  long ownerOps = 200;
  int rounds = 1;
  double hookP = 0, pause = 0;
  double pushBias = 0.55;
  uint64_t salt = 0;
  J json() const {
    static const char* m[] = {"random", "gate-thief-wins", "gate-owner-wins", "barrier-race"};
    return J().kv("capIdx", capIdx).kv("thieves", thieves).kv("mode", m[mode]).kv("ownerOps", ownerOps).kv("rounds", rounds).kv("hookP", hookP)
        .kv("pause", pause).kv("pushBias", pushBias).kv("salt", static_cast<unsigned long long>(salt));
  }
};

struct DqOutcome {
  long pushed = 0, ownerPops = 0, steals = 0, ownerSteals = 0, failedPops = 0, failedPush = 0;
  long maxOcc = 0;
  bool ownerWonLast = false, thiefWonLast = false, gateReached = true;
  long lastElementPops = 0;
  long quiescentOps = 0;
};

template <size_t Cap>
struct DqRun {
  using DQ = dispenso::ChaseLevDeque<Pod, Cap>;
  DQ dq;
  const DqSpec& spec;
  DqOutcome out;
  std::vector<PushEv> pushes; // index = seq
  std::vector<Take> ownerTakes;
  std::vector<std::vector<Take>> thiefTakes;
  std::deque<uint64_t> D; // owner's view: pushed and not popped by the owner, oldest first
  uint64_t nextSeq = 0;

  explicit DqRun(const DqSpec& s) : spec(s) {
    thiefTakes.resize(static_cast<size_t>(s.thieves));
  }

  // ---- owner operations (only ever called by the thread that currently is the owner)
  bool ownerPush() {
    Pod p = mkPod(nextSeq);
    uint64_t s0 = vrt::stamp();
    bool ok = dq.try_push(p);
    uint64_t s1 = vrt::stamp();
    if (ok) {
      pushes.push_back({s0, s1});
      D.push_back(nextSeq);
      ++nextSeq;
      ++out.pushed;
    } else {
      ++out.failedPush;
    }
    return ok;
  }
  bool ownerPop(bool into) {
    Pod p{0, 0};
    uint64_t s0 = vrt::stamp();
    bool ok;
    if (into) {
      alignas(Pod) char st[sizeof(Pod)];
      ok = dq.try_pop_into(reinterpret_cast<Pod*>(st));
      if (ok) p = *reinterpret_cast<Pod*>(st);
    } else {
      ok = dq.try_pop(p);
    }
    uint64_t s1 = vrt::stamp();
    if (ok) {
      ownerTakes.push_back({p.tag, s0, s1, podOk(p), 0});
      ++out.ownerPops;
      if (D.empty() || D.back() != p.tag) {
        flag("owner pop did not return the newest element the owner had pushed and not yet popped",
             J().kv("got", static_cast<unsigned long long>(p.tag)).kv("expected", D.empty() ? -1ll : static_cast<long long>(D.back())), "lifo");
        // resynchronise the model
        while (!D.empty() && D.back() != p.tag) D.pop_back();
      }
      if (!D.empty()) D.pop_back();
    } else {
      ++out.failedPops;
      D.clear(); // a failed pop means the deque was empty or its last element went to a thief
    }
    return ok;
  }
  bool ownerSteal(bool into) {
    Pod p{0, 0};
    uint64_t s0 = vrt::stamp();
    bool ok;
    if (into) {
      alignas(Pod) char st[sizeof(Pod)];
      ok = dq.try_steal_into(reinterpret_cast<Pod*>(st));
      if (ok) p = *reinterpret_cast<Pod*>(st);
    } else {
      ok = dq.try_steal(p);
    }
    uint64_t s1 = vrt::stamp();
    if (ok) {
      ownerTakes.push_back({p.tag, s0, s1, podOk(p), 1});
      ++out.ownerSteals;
      bool found = false;
      for (uint64_t v : D) found |= v == p.tag;
      if (!found) {
        flag("steal by the owner returned an element that is not inside from the owner's point of view", J().kv("got", static_cast<unsigned long long>(p.tag)), "exactly-once");
      } else {
        while (!D.empty() && D.front() != p.tag) D.pop_front(); // older ones went to thieves
        D.pop_front();
      }
    }
    return ok;
  }
  // one steal attempt by thief k
  bool thiefSteal(int k, bool into) {
    Pod p{0, 0};
    uint64_t s0 = vrt::stamp();
    bool ok;
    if (into) {
      alignas(Pod) char st[sizeof(Pod)];
      ok = dq.try_steal_into(reinterpret_cast<Pod*>(st));
      if (ok) p = *reinterpret_cast<Pod*>(st);
    } else {
      ok = dq.try_steal(p);
    }
    uint64_t s1 = vrt::stamp();
    if (ok) thiefTakes[static_cast<size_t>(k)].push_back({p.tag, s0, s1, podOk(p), k + 2});
    return ok;
  }

  // ---- exact model of the content at quiescence: pushed minus everything returned so far
  std::deque<uint64_t> contentNow() {
    std::vector<char> gone(static_cast<size_t>(nextSeq), 0);
    auto mark = [&](const std::vector<Take>& v) {
      for (const Take& t : v) {
        if (t.seq < nextSeq) gone[static_cast<size_t>(t.seq)] = 1;
      }
    };
    mark(ownerTakes);
    for (auto& v : thiefTakes) mark(v);
    std::deque<uint64_t> m;
    for (uint64_t s = 0; s < nextSeq; ++s) {
      if (!gone[static_cast<size_t>(s)]) m.push_back(s);
    }
    return m;
  }

  // quiescent phase run by the (sole) owner: pop and steal succeed iff non-empty, pop returns the
  // newest, steal the oldest, a push at capacity is refused
  void quiescent(long ops, TRng& rng, bool drain) {
    std::deque<uint64_t> M = contentNow();
    D = M;
    auto step = [&](int what) {
      ++out.quiescentOps;
      size_t n = M.size();
      if (what == 0) {
        bool ok = ownerPush();
        if (ok) M.push_back(nextSeq - 1);
        if (ok && n >= Cap) flag("push succeeded although the deque already held capacity() elements", J().kv("size", static_cast<long>(n)).kv("capacity", static_cast<long>(Cap)), "capacity");
      } else if (what == 1) {
        size_t before = ownerTakes.size();
        bool ok = ownerPop(rng.chance(0.5));
        if (ok != (n > 0)) {
          flag(n > 0 ? "quiescent pop failed although the deque is non-empty" : "quiescent pop succeeded although the deque is empty", J().kv("size", static_cast<long>(n)), "quiescent");
        }
        if (ok && n > 0) {
          if (ownerTakes[before].seq != M.back()) flag("quiescent pop did not return the newest element", J().kv("got", static_cast<unsigned long long>(ownerTakes[before].seq)).kv("expected", static_cast<unsigned long long>(M.back())), "lifo");
          M.pop_back();
        }
        if (!ok) D = M; // model resync (the owner model clears on failure)
      } else {
        size_t before = ownerTakes.size();
        D = M;
        bool ok = ownerSteal(rng.chance(0.5));
        if (ok != (n > 0)) {
          flag(n > 0 ? "quiescent steal failed although the deque is non-empty" : "quiescent steal succeeded although the deque is empty", J().kv("size", static_cast<long>(n)), "quiescent");
        }
        if (ok && n > 0) {
          if (ownerTakes[before].seq != M.front()) flag("quiescent steal did not return the oldest element", J().kv("got", static_cast<unsigned long long>(ownerTakes[before].seq)).kv("expected", static_cast<unsigned long long>(M.front())), "fifo");
          M.pop_front();
        }
        D = M;
      }
    };
    for (long i = 0; i < ops; ++i) {
      long phase = (i / static_cast<long>(Cap + 2)) % 3;
      double pp = phase == 0 ? 0.85 : phase == 1 ? 0.1 : 0.5;
      if (rng.chance(pp)) step(0);
      else step(rng.chance(0.5) ? 1 : 2);
    }
    if (drain) {
      int guard = 0;
      while (!M.empty() && guard++ < 100000) {
        size_t b = M.size();
        step(rng.chance(0.5) ? 1 : 2);
        if (M.size() == b) break;
      }
      step(1);
      step(2);
    }
  }

  // ---- post-hoc checks over the whole history
  void check() {
    std::vector<Take> all = ownerTakes;
    for (auto& v : thiefTakes) all.insert(all.end(), v.begin(), v.end());
    std::vector<int> cnt(static_cast<size_t>(nextSeq), 0);
    long unknown = 0, damaged = 0, early = 0;
    for (const Take& t : all) {
      if (!t.ok) ++damaged;
      if (t.seq >= nextSeq) {
        ++unknown;
        continue;
      }
      ++cnt[static_cast<size_t>(t.seq)];
      if (t.s1 < pushes[static_cast<size_t>(t.seq)].s0) ++early;
    }
    long twice = 0, lost = 0;
    uint64_t exTwice = 0, exLost = 0;
    for (uint64_t s = 0; s < nextSeq; ++s) {
      if (cnt[static_cast<size_t>(s)] > 1 && !twice++) exTwice = s;
      if (cnt[static_cast<size_t>(s)] == 0 && !lost++) exLost = s;
    }
    if (unknown) flag("pop/steal returned an element that was never pushed", J().kv("count", unknown), "exactly-once");
    if (damaged) flag("pop/steal returned a torn or corrupted element", J().kv("count", damaged), "payload");
    if (twice) {
      std::string whoStr;
      for (const Take& t : all) {
        if (t.seq == exTwice) whoStr += (t.who == 0 ? "owner-pop " : t.who == 1 ? "owner-steal " : "thief ");
      }
      flag("element returned by more than one pop/steal", J().kv("count", twice).kv("element", static_cast<unsigned long long>(exTwice)).kv("returnedBy", whoStr), "exactly-once");
    }
    if (lost) flag("pushed element never returned by any pop or steal (deque drained at quiescence)", J().kv("count", lost).kv("element", static_cast<unsigned long long>(exLost)), "exactly-once");
    if (early) flag("element returned before its push began", J().kv("count", early), "exactly-once");
    // steals are FIFO: steal(x) returned before steal(y) was called => x older than y
    {
      std::vector<const Take*> st;
      for (const Take& t : all) {
        if (t.who != 0 && t.seq < nextSeq) st.push_back(&t);
      }
      std::vector<const Take*> byCall = st, byRet = st;
      std::sort(byCall.begin(), byCall.end(), [](const Take* a, const Take* b) { return a->s0 < b->s0; });
      std::sort(byRet.begin(), byRet.end(), [](const Take* a, const Take* b) { return a->s1 < b->s1; });
      size_t j = 0;
      long long maxSeq = -1;
      long bad = 0;
      for (const Take* y : byCall) {
        while (j < byRet.size() && byRet[j]->s1 < y->s0) {
          maxSeq = std::max<long long>(maxSeq, static_cast<long long>(byRet[j]->seq));
          ++j;
        }
        if (maxSeq > static_cast<long long>(y->seq)) ++bad;
      }
      if (bad) flag("steals not oldest-first: a steal that began after another one had returned got an older element", J().kv("count", bad), "fifo");
      // a steal that returned before an owner pop began took an element older than the popped one
      std::vector<const Take*> pops;
      for (const Take& t : all) {
        if (t.who == 0 && t.seq < nextSeq) pops.push_back(&t);
      }
      std::sort(pops.begin(), pops.end(), [](const Take* a, const Take* b) { return a->s0 < b->s0; });
      j = 0;
      maxSeq = -1;
      long bad2 = 0;
      for (const Take* x : pops) {
        while (j < byRet.size() && byRet[j]->s1 < x->s0) {
          maxSeq = std::max<long long>(maxSeq, static_cast<long long>(byRet[j]->seq));
          ++j;
        }
        if (maxSeq > static_cast<long long>(x->seq)) ++bad2;
      }
      if (bad2) flag("owner pop returned an element older than one that had already been stolen", J().kv("count", bad2), "lifo");
    }
    // occupancy
    {
      std::vector<std::pair<uint64_t, int>> evs;
      for (const PushEv& p : pushes) evs.emplace_back(p.s1, +1);
      for (const Take& t : all) evs.emplace_back(t.s0, -1);
      std::sort(evs.begin(), evs.end());
      long cur = 0, mx = 0;
      for (auto& e : evs) {
        cur += e.second;
        mx = std::max(mx, cur);
      }
      out.maxOcc = mx;
      if (mx > static_cast<long>(Cap)) flag("deque held more than capacity() elements", J().kv("max", mx).kv("capacity", static_cast<long>(Cap)), "capacity");
    }
    for (auto& v : thiefTakes) out.steals += static_cast<long>(v.size());
  }

  // ---- scenarios
  void runRandom() {
    TRng orng(vrt::mix(spec.salt, 1));
    std::atomic<bool> stop{false};
    if (spec.hookP > 0) {
      vrt::hookProb(V::kChaseLevPopBeforeCas, spec.hookP);
      vrt::hookProb(V::kChaseLevStealBeforeCas, spec.hookP);
      vrt::hookMaxSleepUs(60);
    }
    quiescent(static_cast<long>(orng.below(3 * Cap + 4)), orng, false); // pre-history (offsets the indices)
    std::vector<std::thread> ths;
    HBarrier start(spec.thieves + 1);
    for (int k = 0; k < spec.thieves; ++k) {
      ths.emplace_back([&, k]() {
        TRng rng(vrt::mix(spec.salt, 100 + static_cast<uint64_t>(k)));
        start.wait();
        long fails = 0;
        while (!stop.load(std::memory_order_relaxed)) {
          if (thiefSteal(k, rng.chance(0.3))) {
            vrt::progress();
            fails = 0;
          } else if (++fails > 2) {
            std::this_thread::yield();
          }
          maybePause(rng, spec.pause);
        }
      });
    }
    std::thread owner([&]() {
      start.wait();
      for (long i = 0; i < spec.ownerOps; ++i) {
        double x = (orng.next() >> 11) * (1.0 / 9007199254740992.0);
        size_t before = D.size();
        if (x < spec.pushBias) ownerPush();
        else if (x < 0.97) {
          bool ok = ownerPop(orng.chance(0.3));
          if (before == 1 && ok) ++out.lastElementPops;
        } else ownerSteal(orng.chance(0.5));
        vrt::progress();
        maybePause(orng, spec.pause * 0.5);
      }
    });
    owner.join();
    stop.store(true, std::memory_order_relaxed);
    for (auto& t : ths) t.join();
    vrt::hooksReset();
    quiescent(static_cast<long>(2 * Cap + 6 + orng.below(2 * Cap + 4)), orng, true);
  }

  // one forced last-element race per round
  void runRace() {
    TRng orng(vrt::mix(spec.salt, 7));
    for (int round = 0; round < spec.rounds; ++round) {
      // quiescent pre-history ending with exactly one element inside
      quiescent(static_cast<long>(orng.below(2 * Cap + 3)), orng, true);
      if (!ownerPush()) {
        flag("push refused on an empty deque", J(), "quiescent");
        return;
      }
      const size_t takesBefore = ownerTakes.size();
      std::vector<size_t> thiefBefore;
      for (auto& v : thiefTakes) thiefBefore.push_back(v.size());
      bool popInto = orng.chance(0.5);
      if (spec.mode == 1) {
        // owner parks just before its CAS on top_ (bottom_ already restored); thieves run
        vrt::gateArm(V::kChaseLevPopBeforeCas);
        bool ownerOk = false;
        std::thread owner([&]() { ownerOk = ownerPop(popInto); });
        bool arrived = vrt::gateWaitArrived(V::kChaseLevPopBeforeCas, 20000);
        if (!arrived) out.gateReached = false;
        std::vector<std::thread> ths;
        for (int k = 0; k < spec.thieves; ++k) {
          ths.emplace_back([&, k]() {
            TRng rng(vrt::mix(spec.salt, 300 + static_cast<uint64_t>(k) + static_cast<uint64_t>(round) * 16));
            for (int a = 0; a < 8; ++a) {
              if (thiefSteal(k, rng.chance(0.5))) break;
            }
          });
        }
        for (auto& t : ths) t.join();
        vrt::gateOpen(V::kChaseLevPopBeforeCas);
        owner.join();
        (void)ownerOk;
      } else if (spec.mode == 2) {
        // thief 0 parks just before its CAS (it has read the slot); the owner pops meanwhile
        vrt::gateArm(V::kChaseLevStealBeforeCas);
        std::thread t0([&]() { thiefSteal(0, orng.chance(0.5)); });
        bool arrived = vrt::gateWaitArrived(V::kChaseLevStealBeforeCas, 20000);
        if (!arrived) out.gateReached = false;
        std::thread owner([&]() { ownerPop(popInto); });
        owner.join();
        std::vector<std::thread> ths;
        for (int k = 1; k < spec.thieves; ++k) {
          ths.emplace_back([&, k]() { thiefSteal(k, false); });
        }
        for (auto& t : ths) t.join();
        vrt::gateOpen(V::kChaseLevStealBeforeCas);
        t0.join();
      } else {
        vrt::hookProb(V::kChaseLevPopBeforeCas, spec.hookP);
        vrt::hookProb(V::kChaseLevStealBeforeCas, spec.hookP);
        vrt::hookMaxSleepUs(40);
        HBarrier bar(spec.thieves + 1);
        std::vector<std::thread> ths;
        for (int k = 0; k < spec.thieves; ++k) {
          ths.emplace_back([&, k]() {
            bar.wait();
            thiefSteal(k, (k & 1) != 0);
          });
        }
        std::thread owner([&]() {
          bar.wait();
          ownerPop(popInto);
        });
        owner.join();
        for (auto& t : ths) t.join();
      }
      vrt::hooksReset();
      vrt::progress();
      bool ownerGot = ownerTakes.size() > takesBefore;
      long thiefGot = 0;
      for (size_t k = 0; k < thiefTakes.size(); ++k) thiefGot += static_cast<long>(thiefTakes[k].size() - thiefBefore[k]);
      if (ownerGot && thiefGot == 0) out.ownerWonLast = true;
      if (!ownerGot && thiefGot == 1) out.thiefWonLast = true;
      if (ownerGot) ++out.lastElementPops;
      D = contentNow();
    }
    quiescent(static_cast<long>(Cap + 4), orng, true);
  }

  DqOutcome run() {
    if (spec.mode == 0) runRandom();
    else runRace();
    check();
    return out;
  }
};

const long kCaps[] = {1, 2, 4, 8, 32, 64};

DqOutcome runDq(const DqSpec& s) {
  switch (s.capIdx) {
    case 0: return DqRun<1>(s).run();
    case 1: return DqRun<2>(s).run();
    case 2: return DqRun<4>(s).run();
    case 3: return DqRun<8>(s).run();
    case 4: return DqRun<32>(s).run();
    default: return DqRun<64>(s).run();
  }
}

} // namespace

void runC36() {
  const bool th = vrt::thorough();
  const long n = vrt::g_args.getInt("n", th ? 6000 : 480);
  const long scale = vrt::g_args.getInt("scale", 100);
  for (long idx = 0; idx < n; ++idx) {
    if (!vrt::selected(idx)) continue;
    vrt::Rng r = vrt::caseRng(idx);
    DqSpec s;
    s.capIdx = static_cast<int>(r.below(6));
    s.thieves = static_cast<int>(r.range(1, 3));
    long m = (idx + idx / 16) % 8;
    s.mode = m < 4 ? 0 : m < 6 ? static_cast<int>(m - 3) : 3; // 4/8 random, 1/8 thief-wins gate, 1/8 owner-wins gate, 2/8 barrier
    s.ownerOps = (r.chance(0.6) ? r.range(30, 600) : r.range(600, th ? 40000 : 6000)) * scale / 100 + 10;
    s.rounds = static_cast<int>(r.range(1, 4));
    static const double hooks[] = {0, 0.3, 0.8};
    s.hookP = hooks[r.below(3)];
    if (s.mode == 3 && s.hookP == 0) s.hookP = 0.5;
    static const double pauses[] = {0, 0.05, 0.3};
    s.pause = pauses[r.below(3)];
    static const double biases[] = {0.45, 0.55, 0.7};
    s.pushBias = biases[r.below(3)];
    s.salt = r.next();
    static const char* mn[] = {"random", "last-element/gate-pop", "last-element/gate-steal", "last-element/barrier"};
    std::string key = std::string("deque/cap") + std::to_string(kCaps[s.capIdx]) + "/" + mn[s.mode] + "/thieves" + std::to_string(s.thieves);
    vrt::caseBegin(idx, key, s.json());
    g_flagged = 0;
    vrt::watchdogArm();
    DqOutcome o = runDq(s);
    vrt::watchdogDisarm();
    if (!o.gateReached) vrt::inconclusive("gate not reached");
    std::vector<std::string> cls{std::string("cap:") + std::to_string(kCaps[s.capIdx]), std::string("thieves:") + std::to_string(s.thieves),
                                 std::string("mode:") + (s.mode == 0 ? "random" : s.mode == 3 ? "barrier-race" : "gate-race")};
    if (o.steals > 0) cls.push_back("steal-succeeded");
    if (o.ownerWonLast) cls.push_back("last-element:owner-won");
    if (o.thiefWonLast) cls.push_back("last-element:thief-won");
    if (o.maxOcc >= kCaps[s.capIdx]) cls.push_back("reached-capacity");
    if (o.failedPush > 0) cls.push_back("push-refused");
    if (o.ownerSteals > 0) cls.push_back("owner-steal");
    bool nt = o.pushed >= 2 && (o.steals >= 1 || s.mode != 0);
    vrt::caseEnd(J().kv("pushed", o.pushed).kv("ownerPops", o.ownerPops).kv("steals", o.steals).kv("ownerSteals", o.ownerSteals).kv("failedPops", o.failedPops)
                     .kv("maxOcc", o.maxOcc).kv("quiescentOps", o.quiescentOps).kv("ownerWonLast", o.ownerWonLast).kv("thiefWonLast", o.thiefWonLast),
                 nt ? s.json().str() : "", cls);
  }
}
