// C07: submissions by one non-pool producer into a fully parked pool must start without the idle
// sleep backstop. The backstop is set to one hour through the public setSignalingWake(), so a task
// that is still unstarted while every worker is parked again can only be rescued by the backstop.
#include "h_wake_common.h"

#include <algorithm>

namespace hw {

namespace {

struct Spec {
  int path = 0, N = 1, k = 1;
  int order = 0;
  int shuffleBulk = 0; // ring-path full-pool no-op rounds before the submission (claims nobody)
  int shuffleSingles = 0; // single force-queued no-ops before the submission (claimAndWakeOne each)
  int perturb = 0; // 0 natural, 1 producer-side hook delays, 2 worker-side hook delays, 3 both
  int dwellUs = 0;
  J json() const {
    const char* pn[] = {"natural", "phooks", "whooks", "hooks"};
    return J().kv("path", kPathNames[path]).kv("N", N).kv("k", k).kv("order", order).kv("shuffleBulk", shuffleBulk)
        .kv("shuffleSingles", shuffleSingles).kv("perturb", pn[perturb]).kv("dwellUs", dwellUs);
  }
};

bool ringEligible(int path) {
  return path == kTsBulk || path == kCtsLightBulk || path == kParforStatic || path == kParforAdaptive || path == kForEach;
}
bool placedPath(int path) {
  return path == kCtsHeavySchedule || path == kCtsHeavyScheduleFq || path == kCtsHeavyBulk || path == kFuture || path == kFutureAsync;
}
const char* routeOf(const Spec& s) {
  if (placedPath(s.path)) return "placed";
  // TaskSetBase::scheduleBulkImpl's own ring fast-path condition
  if (ringEligible(s.path) && s.k * 4 >= s.N && s.k <= s.N) return "ring";
  return "central";
}
std::string kClass(const Spec& s) {
  if (std::string(routeOf(s)) == "ring") {
    // aligned: the woken set is exactly the set of threads that got a ring task
    return (s.k == s.N || s.k % 8 == 0) ? "aligned" : "partial";
  }
  if (s.k == 1) return "single";
  // burst: k separate schedule() calls; bulk: one bulk call carrying k tasks
  bool perCall = s.path == kPoolSchedule || s.path == kPoolScheduleFq || s.path == kTsSchedule || s.path == kTsScheduleFq ||
      s.path == kCtsHeavySchedule || s.path == kCtsHeavyScheduleFq || s.path == kCtsLightSchedule || s.path == kFuture ||
      s.path == kFutureAsync;
  return perCall ? "burst" : "bulk";
}
const char* histOf(const Spec& s) {
  return s.shuffleSingles ? "claimed" : s.shuffleBulk ? "bulk" : "fresh";
}
std::string keyOf(const Spec& s) {
  const char* pn[] = {"natural", "phooks", "whooks", "hooks"};
  return std::string(kPathNames[s.path]) + "/" + routeOf(s) + "/" + kClass(s) + "/" + histOf(s) + "/" + pn[s.perturb];
}

void setPerturb(int perturb) {
  vrt::hooksReset();
  vrt::hookMaxSleepUs(300);
  if (perturb & 1) { // producer side
    vrt::hookProb(V::kPoolForceEnqueueAfterSizeTest, 0.3);
    vrt::hookProb(V::kPoolPlacedAfterClaim, 0.6);
    vrt::hookProb(V::kPoolPlacedAfterPush, 0.3);
    vrt::hookProb(V::kPoolBulkRingsAfterCount, 0.3);
    vrt::hookProb(V::kPoolBulkRingsBetweenPush, 0.3);
    vrt::hookProb(V::kPoolSchedAfterEnqueue, 0.4);
    vrt::hookProb(V::kTaskSetBulkAfterRingTest, 0.3);
  }
  if (perturb & 2) { // worker side
    vrt::hookProb(V::kPoolFindBeforeHintClear, 0.6);
    vrt::hookProb(V::kPoolWorkerBeforeEnterSleep, 0.4);
    vrt::hookProb(V::kPoolWorkerAfterEnterSleep, 0.3);
    vrt::hookProb(V::kPoolWorkerBeforeWait, 0.3);
    vrt::hookProb(V::kTaskSetWrapperAfterBody, 0.2);
  }
}

enum Verdict { kAllStarted, kStranded, kGuard };

struct Watch {
  Verdict v = kGuard;
  double seconds = 0;
  vrt::FutexStats at;
};

// Pass: every unit started. Violation state: all N workers inside a timed FUTEX_WAIT with their
// sleep flags set, in three consecutive samples 100 ms apart with a stable wait-exit counter,
// while units are unstarted. No latency threshold.
Watch watch(dispenso::ThreadPool& pool, const std::vector<int>& workers, long total) {
  const int N = static_cast<int>(workers.size());
  Watch w;
  double t0 = vrt::nowSeconds();
  double nextSample = t0 + 0.02;
  int strandedSamples = 0;
  uint64_t lastExits = ~0ull;
  const double guard = 60.0;
  long spins = 0;
  for (;;) {
    if (g_unitsTotal.load(std::memory_order_relaxed) >= total) {
      w.v = kAllStarted;
      break;
    }
    double now = vrt::nowSeconds();
    if (now >= nextSample) {
      vrt::FutexStats fs = vrt::futexStats();
      bool asleep = allAsleep(workers);
      // a worker that is runnable or running (not asleep for the kernel) means the pool is still
      // moving, however slowly on a loaded machine: not a stranded state and not a hang
      if (!asleep) vrt::progress();
      bool c = fs.inTimedWaitNow == N && pool.verifNumSleeping() == N && asleep &&
          g_unitsTotal.load(std::memory_order_relaxed) < total;
      if (c && (strandedSamples == 0 || fs.waitExits == lastExits)) {
        ++strandedSamples;
      } else {
        strandedSamples = c ? 1 : 0;
      }
      lastExits = fs.waitExits;
      if (strandedSamples >= 3) {
        w.v = kStranded;
        w.at = fs;
        break;
      }
      nextSample = now + 0.1;
    }
    if (now - t0 > guard) {
      w.v = kGuard;
      break;
    }
    if (++spins < 200) vrt::spinFor(20);
    else vrt::sleepUs(200);
  }
  w.seconds = vrt::nowSeconds() - t0;
  return w;
}

struct BasicOwner : PathOwner {
  std::unique_ptr<dispenso::TaskSet> ts;
  std::unique_ptr<dispenso::ConcurrentTaskSet> cts;
  void help() override {
    if (ts) ts->tryWait(64);
    if (cts) cts->tryWait(64);
  }
  void finish() override {
    if (ts) ts->wait();
    if (cts) cts->wait();
  }
  long outstanding() override {
    if (ts) return static_cast<long>(ts->verifOutstanding());
    if (cts) return static_cast<long>(cts->verifOutstanding());
    return -1;
  }
};

} // namespace

std::unique_ptr<PathOwner> submitBasic(int path, dispenso::ThreadPool& pool, int k, long& totalUnits) {
  std::unique_ptr<BasicOwner> o(new BasicOwner);
  totalUnits = k;
  auto gen = [](size_t i) {
    int ii = static_cast<int>(i);
    return [ii, p = payload(ii)]() { unitBody(ii); };
  };
  switch (path) {
    case kPoolSchedule:
      for (int i = 0; i < k; ++i) pool.schedule([i, p = payload(i)]() { unitBody(i); });
      break;
    case kPoolScheduleFq:
      for (int i = 0; i < k; ++i) pool.schedule([i, p = payload(i)]() { unitBody(i); }, dispenso::ForceQueuingTag());
      break;
    case kPoolBulk:
      pool.scheduleBulk(static_cast<size_t>(k), gen);
      break;
    case kTsSchedule:
      o->ts.reset(new dispenso::TaskSet(pool));
      for (int i = 0; i < k; ++i) o->ts->schedule([i, p = payload(i)]() { unitBody(i); });
      break;
    case kTsScheduleFq:
      o->ts.reset(new dispenso::TaskSet(pool));
      for (int i = 0; i < k; ++i) o->ts->schedule([i, p = payload(i)]() { unitBody(i); }, dispenso::ForceQueuingTag());
      break;
    case kTsBulk:
      o->ts.reset(new dispenso::TaskSet(pool));
      o->ts->scheduleBulk(static_cast<size_t>(k), gen);
      break;
    case kTsBulkFq:
      o->ts.reset(new dispenso::TaskSet(pool));
      o->ts->scheduleBulk(static_cast<size_t>(k), gen, dispenso::ForceQueuingTag());
      break;
    case kCtsHeavySchedule:
      o->cts.reset(new dispenso::ConcurrentTaskSet(pool, dispenso::TaskCost::kHeavy));
      for (int i = 0; i < k; ++i) o->cts->schedule([i, p = payload(i)]() { unitBody(i); });
      break;
    case kCtsHeavyScheduleFq:
      o->cts.reset(new dispenso::ConcurrentTaskSet(pool, dispenso::TaskCost::kHeavy));
      for (int i = 0; i < k; ++i) o->cts->schedule([i, p = payload(i)]() { unitBody(i); }, dispenso::ForceQueuingTag());
      break;
    case kCtsHeavyBulk:
      o->cts.reset(new dispenso::ConcurrentTaskSet(pool, dispenso::TaskCost::kHeavy));
      o->cts->scheduleBulk(static_cast<size_t>(k), gen);
      break;
    case kCtsLightSchedule:
      o->cts.reset(new dispenso::ConcurrentTaskSet(pool, dispenso::TaskCost::kLightweight));
      for (int i = 0; i < k; ++i) o->cts->schedule([i, p = payload(i)]() { unitBody(i); });
      break;
    case kCtsLightBulk:
      o->cts.reset(new dispenso::ConcurrentTaskSet(pool, dispenso::TaskCost::kLightweight));
      o->cts->scheduleBulk(static_cast<size_t>(k), gen);
      break;
    default:
      break;
  }
  return std::unique_ptr<PathOwner>(o.release());
}


// ------------------------------------------------------------------ held singles
// Single force-queued tasks submitted ONE AT A TIME into a fully parked multi-group pool whose last
// wake group is small (N = 9, 10, 17 with groups of 8). Every body records its start and then blocks
// until the harness releases it after the verdict, so each further submission needs one more parked
// worker to be woken: the workers that are already awake cannot rescue it, and the claim has to
// find a sleeper in whatever group still has one (round-robin group hint, varied by 0..3 prior
// shuffle singles).
namespace {

void heldUnitBody(int i) {
  g_unitStarted[i].fetch_add(1, std::memory_order_relaxed);
  g_unitTid[i].store(myTid(), std::memory_order_relaxed);
  g_unitsTotal.fetch_add(1, std::memory_order_relaxed);
  vrt::progress();
  while (g_holdFlag.load(std::memory_order_relaxed)) vrt::sleepUs(200); // nanosleep: never a futex wait
  g_unitsDone.fetch_add(1, std::memory_order_relaxed);
}

// Number of one-at-a-time submissions the unchanged wake protocol is guaranteed to serve whatever
// waiter of a group the kernel picks: a wake clears the claimed thread's mask bit and the thread that
// actually woke clears its own (<= 2 bits per wake), and each prior shuffle single may have left one
// parked thread with a cleared bit in the group it landed in.
int safeHeldCount(int N, int singles) {
  const int groups = (N + 7) / 8;
  int total = 0;
  for (int g = 0; g < groups; ++g) {
    int sz = std::min(8, N - 8 * g);
    int landed = 0;
    for (int j = 0; j < singles; ++j) landed += (j % groups) == g ? 1 : 0;
    int bits = sz - std::min(landed, sz - 1);
    total += (bits + 1) / 2;
  }
  return std::min(total, 6);
}

const int kHeldPaths[4] = {kPoolScheduleFq, kTsScheduleFq, kCtsHeavyScheduleFq, kCtsLightSchedule};

void runHeldCase(long idx, long local) {
  static const int Ns[3] = {9, 10, 17};
  const int path = kHeldPaths[local % 4];
  const int N = Ns[(local / 4) % 3];
  const int singles = static_cast<int>((local / 12) % 4);
  const int count = safeHeldCount(N, singles);
  const char* pname = path == kCtsLightSchedule ? "cts-light-schedule-fq" : kPathNames[path];
  J spec = J().kv("family", "held-singles").kv("path", pname).kv("N", N).kv("shuffleSingles", singles).kv("submissions", count)
               .kv("rep", local / 48);
  vrt::caseBegin(idx, std::string(pname) + "/held-singles/N" + std::to_string(N), spec);
  vrt::watchdogArm();
  resetUnits();
  vrt::hooksReset();
  vrt::futexReset();
  g_dwellUs.store(0, std::memory_order_relaxed);

  const std::vector<int> tidsBefore = listTids();
  dispenso::ThreadPool* pool = new dispenso::ThreadPool(static_cast<size_t>(N));
  pool->setSignalingWake(true, std::chrono::microseconds(kHourUs));
  std::vector<int> workers;
  for (int attempt = 0; attempt < 2000; ++attempt) {
    workers.clear();
    for (int t : minusTids(listTids(), tidsBefore)) {
      if (tidLive(t)) workers.push_back(t);
    }
    if (static_cast<int>(workers.size()) == N) break;
    vrt::progress();
    vrt::sleepUs(200);
  }
  std::string why;
  bool ok = static_cast<int>(workers.size()) == N;
  if (!ok) why = "thread census does not show exactly N workers";
  ok = ok && waitAllParked(*pool, workers);
  for (int j = 0; ok && j < singles; ++j) {
    static std::atomic<int> done{0};
    done.store(0, std::memory_order_relaxed);
    pool->schedule(
        []() {
          vrt::progress();
          done.store(1, std::memory_order_relaxed);
        },
        dispenso::ForceQueuingTag());
    waitFlagOrStranded(done, *pool, workers);
    if (!done.load(std::memory_order_relaxed)) {
      ok = false;
      why = "shuffle task not started (that path is judged by its own single-task cases)";
      break;
    }
    ok = waitAllParked(*pool, workers);
  }
  if (!ok && why.empty()) why = "pool never reached the all-parked state";

  std::unique_ptr<dispenso::TaskSet> ts;
  std::unique_ptr<dispenso::ConcurrentTaskSet> cts;
  int started = 0;
  bool stranded = false, guard = false;
  std::vector<int> ranks;
  if (ok) {
    if (path == kTsScheduleFq) ts.reset(new dispenso::TaskSet(*pool));
    if (path == kCtsHeavyScheduleFq) cts.reset(new dispenso::ConcurrentTaskSet(*pool, dispenso::TaskCost::kHeavy));
    if (path == kCtsLightSchedule) cts.reset(new dispenso::ConcurrentTaskSet(*pool, dispenso::TaskCost::kLightweight));
    g_holdFlag.store(1, std::memory_order_relaxed);
    for (int i = 0; i < count && !stranded && !guard; ++i) {
      auto f = [i, p = payload(i)]() { heldUnitBody(i); };
      if (path == kPoolScheduleFq) pool->schedule(std::move(f), dispenso::ForceQueuingTag());
      else if (path == kTsScheduleFq) ts->schedule(std::move(f), dispenso::ForceQueuingTag());
      else cts->schedule(std::move(f), dispenso::ForceQueuingTag());
      // wait for unit i: started, or the stranded state
      const double t0 = vrt::nowSeconds();
      double nextSample = t0 + 0.02;
      int samples = 0;
      uint64_t lastExits = ~0ull;
      long spins = 0;
      while (!g_unitStarted[i].load(std::memory_order_relaxed)) {
        double now = vrt::nowSeconds();
        if (now >= nextSample) {
          nextSample = now + 0.1;
          // workers that are not blocked inside a held body
          std::vector<int> freeWorkers;
          for (int t : workers) {
            bool held = false;
            for (int u = 0; u < i; ++u) held = held || g_unitTid[u].load(std::memory_order_relaxed) == t;
            if (!held) freeWorkers.push_back(t);
          }
          const int nFree = static_cast<int>(freeWorkers.size());
          vrt::FutexStats fs = vrt::futexStats();
          bool asleep = allAsleep(freeWorkers);
          if (!asleep) vrt::progress();
          bool c = asleep && nFree == N - i && fs.inTimedWaitNow == nFree && pool->verifNumSleeping() == nFree &&
              !g_unitStarted[i].load(std::memory_order_relaxed);
          if (c && (samples == 0 || fs.waitExits == lastExits)) ++samples;
          else samples = c ? 1 : 0;
          lastExits = fs.waitExits;
          if (samples >= 3) {
            stranded = true;
            break;
          }
        }
        if (now - t0 > 60.0) {
          guard = true;
          break;
        }
        if (++spins < 200) vrt::spinFor(20);
        else vrt::sleepUs(200);
      }
      if (stranded || guard) break;
      ++started;
      int t = g_unitTid[i].load(std::memory_order_relaxed);
      auto it = std::lower_bound(workers.begin(), workers.end(), t);
      ranks.push_back((it != workers.end() && *it == t) ? static_cast<int>(it - workers.begin()) : -1);
    }
    if (stranded) {
      vrt::violation(
          "single task " + std::to_string(started) + " (0-based) of a one-at-a-time series is not started: the " + std::to_string(started) +
              " workers woken so far are blocked inside their bodies and all other " + std::to_string(N - started) +
              " workers are parked in timed futex waits with their sleep flags set (only the sleep backstop could start it)",
          J().raw("spec", spec.str()).arr("ranksThatRan", ranks).kv("pool", poolJson(*pool))
              .kv("inTimedWait", vrt::futexStats().inTimedWaitNow));
    } else if (guard) {
      vrt::inconclusive("60 s guard expired without a stranded state");
    }
    // ---- cleanup after the verdict: release the bodies, get a stranded unit executed, quiesce
    g_holdFlag.store(0, std::memory_order_relaxed);
    const long submitted = started + ((stranded || guard) ? 1 : 0);
    for (int it = 0; it < 5000 && g_unitsTotal.load(std::memory_order_relaxed) < submitted; ++it) {
      if (ts) ts->tryWait(64);
      if (cts) cts->tryWait(64);
      if (g_unitsTotal.load(std::memory_order_relaxed) >= submitted) break;
      pool->schedule([]() { vrt::progress(); }, dispenso::ForceQueuingTag());
      vrt::progress();
      vrt::sleepUs(500);
    }
    if (ts) ts->wait();
    if (cts) cts->wait();
    ts.reset();
    cts.reset();
    waitAllParked(*pool, workers, 10.0);
  } else {
    vrt::inconclusive(why);
  }
  g_holdFlag.store(0, std::memory_order_relaxed);
  delete pool;
  vrt::watchdogDisarm();
  std::vector<std::string> cls{"held-singles", "held-singles:small-last-group", std::string("path:") + kPathNames[path], "multi-group",
                               "held-singles:hint-start-g" + std::to_string(singles % ((N + 7) / 8))};
  if (stranded) cls.push_back("stranded");
  // non-trivial: at least two bodies were held at once, i.e. a wake had to find a second sleeper
  vrt::caseEnd(J().kv("submissions", count).kv("started", started).arr("ranks", ranks), (ok && started >= 2) || stranded ? spec.str() : "", cls);
}

} // namespace

void runC07() {
  const bool th = vrt::thorough();
  std::vector<int> Ns;
  if (th) {
    for (int n = 1; n <= 17; ++n) Ns.push_back(n);
  } else {
    Ns = {1, 2, 4, 8, 9};
  }
  const long orders = vrt::g_args.getInt("orders", th ? 50 : 5);
  const long grid = static_cast<long>(kNumPaths) * static_cast<long>(Ns.size());
  const long n = grid * orders;
  const int mainTid = myTid();

  for (long idx = 0; idx < n; ++idx) {
    if (!vrt::selected(idx)) continue;
    vrt::Rng r = vrt::caseRng(idx);
    Spec s;
    s.path = static_cast<int>(idx % kNumPaths);
    s.N = Ns[static_cast<size_t>((idx / kNumPaths) % static_cast<long>(Ns.size()))];
    s.order = static_cast<int>(idx / grid);
    {
      double u = static_cast<double>(r.below(1000)) / 1000.0;
      if (u < 0.25) s.k = 1;
      else if (u < 0.55) s.k = s.N;
      else s.k = static_cast<int>(r.range(1, s.N));
      if ((s.path == kParforStatic || s.path == kParforAdaptive) && s.k < 2 && s.N >= 2) s.k = static_cast<int>(r.range(2, s.N));
    }
    switch (s.order % 5) {
      case 0: break;
      case 1: s.shuffleBulk = 1; break;
      case 2: s.shuffleBulk = static_cast<int>(r.range(2, 3)); break;
      case 3: s.shuffleSingles = static_cast<int>(r.range(1, 3)); break;
      default:
        s.shuffleSingles = static_cast<int>(r.range(1, 4));
        s.shuffleBulk = 1;
        break;
    }
    {
      double u = static_cast<double>(r.below(1000)) / 1000.0;
      s.perturb = u < 0.5 ? 0 : u < 0.7 ? 1 : u < 0.9 ? 2 : 3;
    }
    s.dwellUs = r.chance(0.3) ? static_cast<int>(r.range(1, 100)) : 0;
    // experiment overrides (never used by the registry): --fpath --fN --fk --fshufb --fshufs --fperturb
    if (vrt::g_args.getInt("fpath", -1) >= 0) s.path = static_cast<int>(vrt::g_args.getInt("fpath", 0));
    if (vrt::g_args.getInt("fN", -1) >= 0) s.N = static_cast<int>(vrt::g_args.getInt("fN", 1));
    if (vrt::g_args.getInt("fk", -1) >= 0) s.k = std::min(s.N, static_cast<int>(vrt::g_args.getInt("fk", 1)));
    if (vrt::g_args.getInt("fshufb", -1) >= 0) s.shuffleBulk = static_cast<int>(vrt::g_args.getInt("fshufb", 0));
    if (vrt::g_args.getInt("fshufs", -1) >= 0) s.shuffleSingles = static_cast<int>(vrt::g_args.getInt("fshufs", 0));
    if (vrt::g_args.getInt("fperturb", -1) >= 0) s.perturb = static_cast<int>(vrt::g_args.getInt("fperturb", 0));
    if (s.k > s.N) s.k = s.N;
    const uint64_t shuffleSeed = r.next();

    vrt::caseBegin(idx, keyOf(s), s.json());
    vrt::watchdogArm();
    resetUnits();
    vrt::hooksReset();
    vrt::futexReset();

    std::vector<std::string> cls;
    bool nonTrivial = false;
    J stats;
    std::string why;

    const std::vector<int> tidsBefore = listTids();
    dispenso::ThreadPool* pool = new dispenso::ThreadPool(static_cast<size_t>(s.N));
    // one-hour backstop: nothing in this case can be rescued by the timeout
    pool->setSignalingWake(true, std::chrono::microseconds(kHourUs));
    // the default-backstop generation was joined inside setSignalingWake, but a joined thread can
    // linger in /proc for a moment: wait until exactly N live non-harness threads remain
    std::vector<int> workers;
    for (int attempt = 0; attempt < 2000; ++attempt) {
      workers.clear();
      for (int t : minusTids(listTids(), tidsBefore)) {
        if (tidLive(t)) workers.push_back(t);
      }
      if (static_cast<int>(workers.size()) == s.N) break;
      vrt::progress();
      vrt::sleepUs(200);
    }

    bool ok = static_cast<int>(workers.size()) == s.N;
    if (!ok) why = "thread census does not show exactly N workers";
    ok = ok && waitAllParked(*pool, workers);
    // park-order shuffles
    vrt::Rng sr(shuffleSeed);
    for (int b = 0; ok && b < s.shuffleBulk; ++b) {
      // full-pool ring submission: wakes every sleeper of every group, claims nobody
      dispenso::TaskSet ts(*pool);
      std::vector<int> spins(static_cast<size_t>(s.N));
      for (auto& x : spins) x = static_cast<int>(sr.range(0, 150));
      ts.scheduleBulk(static_cast<size_t>(s.N), [&spins](size_t i) {
        int us = spins[i];
        return [us]() {
          vrt::progress();
          if (us) vrt::spinFor(us);
        };
      });
      ts.wait();
      ok = waitAllParked(*pool, workers);
    }
    for (int j = 0; ok && j < s.shuffleSingles; ++j) {
      static std::atomic<int> done{0}; // static: the task may outlive this scope if it is never woken
      done.store(0, std::memory_order_relaxed);
      pool->schedule(
          []() {
            vrt::progress();
            done.store(1, std::memory_order_relaxed);
          },
          dispenso::ForceQueuingTag());
      // an idle pool must pick this up as well; bounded by the watchdog (this is C07 itself for the
      // single-task path, which its own cases judge)
      waitFlagOrStranded(done, *pool, workers);
      if (!done.load(std::memory_order_relaxed)) {
        ok = false;
        why = "shuffle task not started (that path is judged by its own single-task cases)";
        // let the destructor run it
        break;
      }
      ok = waitAllParked(*pool, workers);
    }
    if (!ok && why.empty()) why = "pool never reached the all-parked state";

    std::unique_ptr<PathOwner> owner;
    long total = 0;
    if (ok) {
      const vrt::FutexStats before = vrt::futexStats();
      g_dwellUs.store(s.dwellUs, std::memory_order_relaxed);
      setPerturb(s.perturb);
      if (s.path < kParforStatic) owner = submitBasic(s.path, *pool, s.k, total);
      else owner = submitLoops(s.path, *pool, s.N, s.k, total);
      Watch w = watch(*pool, workers, total);
      vrt::hooksReset();
      const vrt::FutexStats after = vrt::futexStats();

      // who ran what
      long byWorkers = 0, byCaller = 0, startedUnits = 0, dup = 0;
      std::vector<int> wakeSeq;
      for (long i = 0; i < total && i < kMaxUnits; ++i) {
        int c = g_unitStarted[i].load(std::memory_order_relaxed);
        if (c) ++startedUnits;
        if (c > 1) ++dup;
        int t = g_unitTid[i].load(std::memory_order_relaxed);
        if (!c) continue;
        if (t == mainTid) ++byCaller;
        else ++byWorkers;
        auto it = std::lower_bound(workers.begin(), workers.end(), t);
        int rank = (it != workers.end() && *it == t) ? static_cast<int>(it - workers.begin()) : -1;
        if (wakeSeq.size() < 40) wakeSeq.push_back(rank);
      }
      stats.kv("total", total).kv("started", startedUnits).kv("byWorkers", byWorkers).kv("byCaller", byCaller)
          .kv("watch_s", w.seconds).kv("wakes", after.wakes - before.wakes).kv("waitExits", after.waitExits - before.waitExits)
          .arr("ranks", wakeSeq);

      if (w.v == kStranded) {
        std::vector<int> unstarted;
        for (long i = 0; i < total && i < kMaxUnits && unstarted.size() < 40; ++i) {
          if (!g_unitStarted[i].load(std::memory_order_relaxed)) unstarted.push_back(static_cast<int>(i));
        }
        vrt::violation(
            "submitted work is not started although all " + std::to_string(s.N) +
                " workers are parked again (only the sleep backstop could start it): " + std::to_string(total - startedUnits) +
                " of " + std::to_string(total) + " units unstarted",
            J().kv("spec", s.json()).kv("route", routeOf(s)).arr("unstartedUnits", unstarted).arr("ranksThatRan", wakeSeq)
                .kv("pool", poolJson(*pool)).kv("outstanding", owner ? owner->outstanding() : -1)
                .kv("futex", J().kv("inTimedWait", w.at.inTimedWaitNow).kv("wakesDuringSubmit", after.wakes - before.wakes)
                                 .kv("waitExitsDuringSubmit", after.waitExits - before.waitExits)));
        cls.push_back("stranded");
      } else if (w.v == kGuard) {
        vrt::inconclusive("60 s guard expired without a stranded state");
      }
      if (dup) vrt::violation("a unit was started more than once", J().kv("dup", dup), "", "C01");
      if (w.v == kAllStarted && byWorkers > 0 && after.waitExits > before.waitExits) nonTrivial = true;
      if (w.v == kStranded) nonTrivial = true;
      if (byCaller) cls.push_back("ran-on-caller");

      // ---- cleanup (after the verdict): get everything executed, then quiesce
      g_dwellUs.store(0, std::memory_order_relaxed);
      if (g_unitsTotal.load(std::memory_order_relaxed) < total) {
        for (int it = 0; it < 5000 && g_unitsTotal.load(std::memory_order_relaxed) < total; ++it) {
          if (owner) owner->help();
          if (g_unitsTotal.load(std::memory_order_relaxed) >= total) break;
          pool->schedule([]() { vrt::progress(); }, dispenso::ForceQueuingTag());
          vrt::progress();
          vrt::sleepUs(500);
        }
      }
      if (owner) owner->finish(); // a real hang here is the watchdog's business
      owner.reset();
      waitAllParked(*pool, workers, 10.0);
    } else {
      vrt::inconclusive(why);
    }
    delete pool; // all parked (or never judged): wakeAll reaches every group
    vrt::hooksReset();
    vrt::watchdogDisarm();

    cls.push_back(std::string("path:") + kPathNames[s.path]);
    cls.push_back(std::string("route:") + routeOf(s));
    cls.push_back(std::string("k:") + (s.k == 1 ? "single" : "multi"));
    if (std::string(routeOf(s)) == "ring") cls.push_back("ring:" + kClass(s));
    else cls.push_back(std::string(routeOf(s)) + ":" + kClass(s));
    cls.push_back(std::string("history:") + histOf(s));
    if (s.N >= 9) cls.push_back("multi-group");
    if (s.perturb) cls.push_back("perturbed");
    vrt::caseEnd(stats, nonTrivial ? s.json().str() : "", cls);
  }
  // held-singles family (indices after the grid)
  const long nHeld = vrt::g_args.getInt("held", th ? 480 : 60);
  for (long local = 0; local < nHeld; ++local) {
    long idx = n + local;
    if (!vrt::selected(idx)) continue;
    runHeldCase(idx, local);
  }
}

} // namespace hw
