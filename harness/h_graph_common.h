#pragma once
// Engine h_graph: C30 (executors respect dependencies, run each incomplete node once) and
// C31 (partial re-evaluation runs exactly the propagated closure).
//
// The harness keeps its own model of the graph (nodes, live edges with multiplicity, subgraph
// membership, union-find of biPropDependsOn calls) next to the real dispenso graph, drives the
// documented protocol (setAllNodesIncomplete / setIncomplete + ForwardPropagator, then one of the
// executors) and checks the per-node run counters and logical start/end stamps written by the
// node functors against the model.
//
// Monitor-lite everywhere (the same code runs under TSan): functors touch only relaxed atomics
// and one *plain* field per node that dependents read, so that a missing happens-before edge
// between a predecessor and its dependent is a TSan report, not something the monitor hides.
#include <dispenso/graph.h>
#include <dispenso/graph_executor.h>
#include <dispenso/task_set.h>
#include <dispenso/thread_pool.h>

#include <algorithm>
#include <memory>
#include <set>
#include <string>
#include <vector>

#include <unistd.h>

#include "verif_rt.h"

using vrt::J;
namespace V = dispenso::verif;

// ------------------------------------------------------------------ model node + monitors
struct MNode {
  int id = 0;
  int sg = 0; // index into Prog::sgs
  bool alive = true;
  uint64_t rank = 0; // hidden topological order: edges go from lower to higher rank only
  std::vector<MNode*> preds, succs; // live edges, with multiplicity
  void* dn = nullptr; // the dispenso node
  int vec = -1; // pointer model of BiPropNode::biPropSet_ (classification of scenarios only)
  bool inSet = false; // member of some bidirectional propagation set (union-find view)
  // monitors, written by the functor
  std::atomic<uint32_t> runs{0};
  std::atomic<uint64_t> start{0}, end{0};
  long plain = 0; // plain on purpose (TSan sees unordered predecessor/dependent bodies)
  uint32_t salt = 0;
  // scratch for one execution
  bool pre = false; // incomplete right before the executor was called
  bool expect = false; // C31: model says it must be re-run
  bool mark = false;
  bool throwNow = false; // the body throws GraphThrow in the current execution (set by the main thread before it)
  bool inc = true; // model: incomplete (fresh, marked, or set by setAllNodesIncomplete) until the next execution
};

extern std::atomic<uint64_t> g_totalRuns;
extern uint64_t g_runLimit;
extern std::atomic<long> g_inflight, g_maxInflight;
extern int g_dwellMode; // 0 none, 1 light, 2 heavy
extern uint32_t g_execSalt;
void bodyRun(MNode* m);

// the tagged exception thrown by chosen node bodies in a "throwing step"
struct GraphThrow {
  int node;
};

template <size_t Pad>
struct Body {
  MNode* m;
  std::unique_ptr<long> heap; // a skipped destructor is an LSan leak
  vrt::Tracked t; // lifetime registry: construct-over-live / destroy-dead / live count
  char pad[Pad];
  void operator()() {
    bodyRun(m);
  }
};

enum ExecKind { kSingle = 0, kParForTS = 1, kParForCTS = 2, kCtsWait = 3, kCtsNoWait = 4, kNumExec = 5 };
extern const char* const kExecNames[kNumExec];

struct Env {
  dispenso::ThreadPool pool;
  // task sets are replaced after a throwing execution: a task set that captured an exception stays
  // cancelled (documented task-set behaviour), which is not what the following executions are about
  std::unique_ptr<dispenso::TaskSet> ts;
  std::unique_ptr<dispenso::ConcurrentTaskSet> cts;
  dispenso::TaskCost cost;
  ssize_t mult;
  dispenso::SingleThreadExecutor ste;
  dispenso::ParallelForExecutor pfe;
  dispenso::ConcurrentTaskSetExecutor cte;
  dispenso::ForwardPropagator fp;
  float lf;
  bool freshExecutors;
  Env(int threads, dispenso::TaskCost c, ssize_t m, float loadFactor, bool fresh)
      : pool(static_cast<size_t>(threads)), cost(c), mult(m), lf(loadFactor), freshExecutors(fresh) {
    newTaskSets();
  }
  void newTaskSets() {
    cts.reset();
    ts.reset();
    ts.reset(new dispenso::TaskSet(pool, mult));
    cts.reset(new dispenso::ConcurrentTaskSet(pool, cost, mult));
  }
  // Waits until nothing of an aborted execution is in flight any more and every captured
  // exception has been handed out; returns how many tagged exceptions wait() rethrew.
  int drainTaskSets() {
    int caught = 0;
    for (int i = 0; i < 8; ++i) {
      try {
        ts->wait();
        break;
      } catch (const GraphThrow&) {
        ++caught;
      }
    }
    for (int i = 0; i < 8; ++i) {
      try {
        cts->wait();
        break;
      } catch (const GraphThrow&) {
        ++caught;
      }
    }
    return caught;
  }
};

struct CaseParams {
  bool biprop = false;
  int n = 0; // initial nodes
  int nsg = 1; // subgraphs incl. subgraph 0
  int window = 0; // locality of predecessor choice (in rank order)
  double pBi = 0; // probability that an edge is a BiProp edge
  double pDup = 0; // probability of declaring an edge twice
  bool hub = false;
  int pool = 0;
  int exec = -1; // fixed executor, or -1 = a different one per step
  int theme = 0;
  int steps = 0;
  int dwell = 0;
  double perturb = 0;
  int futexMode = 0;
  int cost = 0;
  long mult = 4;
  double lf = 3.0;
  bool fresh = false;
  bool firstByFP = false;
  bool allowMerge = true; // BiProp edges may join two existing propagation sets
  bool graphHooks = false; // perturb kGraphAfterNodeRun / kGraphBetweenDependents specifically
  J json() const;
};

struct StepStats {
  long execs = 0, nodesRun = 0, edgesEnforced = 0, groupAdded = 0, strictPartial = 0;
  long maxInflight = 0;
  bool dangling = false, stale = false; // scenario classes met by a ForwardPropagator call (see SetView)
  std::set<std::string> classes;
  uint64_t progHash = 1469598103934665603ull;
  void h(uint64_t v) {
    progHash = vrt::mix(progHash, v);
  }
};

// Runs one generated program on graph type G.  prop31 selects the C31 round structure.  With
// dry=true only the harness-side model is driven (no dispenso call at all, identical random
// draws): used to learn the scenario class of a program before it is run for real, so that the
// case key can name it.
template <class G>
void runProgram(vrt::Rng& r, const CaseParams& p, bool prop31, StepStats& st, bool dry);

extern template void runProgram<dispenso::Graph>(vrt::Rng&, const CaseParams&, bool, StepStats&, bool);
extern template void runProgram<dispenso::BiPropGraph>(vrt::Rng&, const CaseParams&, bool, StepStats&, bool);
