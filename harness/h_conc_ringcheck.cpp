// History checker for C34 / C35 (not a template): exactly-once delivery, FIFO with respect to the
// stamp order, occupancy bound, SPSC "as observed by that thread" full/empty clauses.
#include "h_conc_ring.h"

#include <map>
#include <unordered_map>

uintptr_t g_ringLo = 0, g_ringHi = 0;
std::atomic<long> g_outCtor{0}, g_outDtor{0}, g_itemBadUse{0};

namespace {
struct Elem {
  uint64_t tag;
  uint64_t pc, pr; // push call / return
  uint64_t qc, qr; // pop call / return
  int32_t prod, op, pos;
  int32_t cons, qpos;
  bool popped;
};
} // namespace

long checkRingHistory(const RingHistory& h, long* maxOccupancy) {
  long problems = 0;
  auto bad = [&](const std::string& msg, const J& d, const std::string& sub) {
    ++problems;
    flag(msg, d, sub);
  };
  // ---- index pushed elements
  std::vector<size_t> base(h.pushes.size() + 1, 0);
  for (size_t p = 0; p < h.pushes.size(); ++p) base[p + 1] = base[p] + h.pushes[p].size();
  std::vector<Elem> el(base.back());
  for (size_t p = 0; p < h.pushes.size(); ++p) {
    for (size_t s = 0; s < h.pushes[p].size(); ++s) {
      const PushRec& r = h.pushes[p][s];
      Elem& e = el[base[p] + s];
      e.tag = mkTag(static_cast<int>(p), s);
      e.pc = r.s0;
      e.pr = r.s1;
      e.prod = static_cast<int32_t>(p);
      e.op = r.op;
      e.pos = r.pos;
      e.popped = false;
      e.qc = e.qr = 0;
      e.cons = -1;
      e.qpos = 0;
    }
  }
  // ---- match pops
  long unknown = 0, twice = 0, damaged = 0, early = 0;
  uint64_t exUnknown = 0, exTwice = 0;
  for (size_t c = 0; c < h.pops.size(); ++c) {
    for (const PopRec& r : h.pops[c]) {
      if (!r.good) ++damaged;
      uint64_t pp = r.tag >> 40;
      uint64_t seq = r.tag & ((1ull << 40) - 1);
      if (pp == 0 || pp > h.pushes.size() || seq >= h.pushes[pp - 1].size()) {
        if (!unknown++) exUnknown = r.tag;
        continue;
      }
      Elem& e = el[base[pp - 1] + seq];
      if (e.popped) {
        if (!twice++) exTwice = r.tag;
        continue;
      }
      e.popped = true;
      e.qc = r.s0;
      e.qr = r.s1;
      e.cons = static_cast<int32_t>(c);
      e.qpos = r.pos;
      if (r.s1 < e.pc) ++early;
    }
  }
  if (unknown) bad("pop returned an element that was never pushed", J().kv("count", unknown).kv("tag", static_cast<unsigned long long>(exUnknown)), "exactly-once");
  if (twice) bad("element delivered to two pops", J().kv("count", twice).kv("tag", static_cast<unsigned long long>(exTwice)), "exactly-once");
  if (damaged) bad("popped element's payload is not what was pushed", J().kv("count", damaged), "payload");
  if (early) bad("pop returned an element before its push began", J().kv("count", early), "exactly-once");
  if (h.drainStamp) {
    // the ring was drained at quiescence at that stamp: everything pushed before must have come out
    long lost = 0;
    uint64_t ex = 0;
    for (const Elem& e : el) {
      if (!e.popped && e.pr < h.drainStamp && !lost++) ex = e.tag;
    }
    if (lost) bad("pushed element was never delivered to a pop", J().kv("count", lost).kv("tag", static_cast<unsigned long long>(ex)), "exactly-once");
  }
  if (h.pushedNotMoved) bad("a push reported success but left its (moved-from) source untouched", J().kv("count", h.pushedNotMoved), "payload");
  if (h.unpushedDamaged) bad("a push that did not store the element modified it", J().kv("count", h.unpushedDamaged), "payload");
  // ---- FIFO bad pattern: push(a) returned before push(b) was called, yet pop(b) returned before pop(a) was called
  {
    std::vector<const Elem*> byPc, byPr;
    for (const Elem& e : el) {
      if (e.popped) byPc.push_back(&e);
      byPr.push_back(&e); // an element still inside at the end counts as "popped at infinity"
    }
    std::sort(byPc.begin(), byPc.end(), [](const Elem* a, const Elem* b) { return a->pc < b->pc; });
    std::sort(byPr.begin(), byPr.end(), [](const Elem* a, const Elem* b) { return a->pr < b->pr; });
    size_t j = 0;
    uint64_t maxQc = 0;
    const Elem* maxEl = nullptr;
    long fifoBad = 0;
    const Elem *wa = nullptr, *wb = nullptr;
    for (const Elem* b : byPc) {
      while (j < byPr.size() && byPr[j]->pr < b->pc) {
        uint64_t qc = byPr[j]->popped ? byPr[j]->qc : ~0ull;
        if (qc > maxQc) {
          maxQc = qc;
          maxEl = byPr[j];
        }
        ++j;
      }
      if (maxEl && maxQc > b->qr) {
        if (!fifoBad++) {
          wa = maxEl;
          wb = b;
        }
      }
    }
    if (fifoBad) {
      bad("FIFO order broken: a was pushed before b, b was popped before a",
          J().kv("pairs", fifoBad).kv("a", static_cast<unsigned long long>(wa->tag)).kv("b", static_cast<unsigned long long>(wb->tag))
              .kv("a_push", J().kv("call", wa->pc).kv("ret", wa->pr)).kv("b_push", J().kv("call", wb->pc).kv("ret", wb->pr))
              .kv("a_pop", J().kv("call", wa->qc).kv("ret", wa->qr)).kv("b_pop", J().kv("call", wb->qc).kv("ret", wb->qr)),
          "fifo");
    }
  }
  // ---- batch-internal order
  {
    long batchBad = 0;
    for (size_t p = 0; p < h.pushes.size(); ++p) {
      for (size_t s = 1; s < h.pushes[p].size(); ++s) {
        const Elem& a = el[base[p] + s - 1];
        const Elem& b = el[base[p] + s];
        if (a.op != b.op || !a.popped || !b.popped) continue;
        if (b.qr < a.qc) ++batchBad; // later batch element out before the earlier one's pop began
        if (a.cons == b.cons && a.qc == b.qc && b.qpos < a.qpos) ++batchBad; // same pop batch, wrong order
      }
    }
    if (batchBad) bad("elements of one push batch delivered out of order", J().kv("count", batchBad), "fifo");
  }
  // ---- total order view (all pops sequential): SPSC, or MPMC with a single consumer
  if (h.C == 1) {
    std::vector<const Elem*> popOrder;
    for (const Elem& e : el) {
      if (e.popped) popOrder.push_back(&e);
    }
    std::sort(popOrder.begin(), popOrder.end(), [](const Elem* a, const Elem* b) { return a->qc != b->qc ? a->qc < b->qc : a->qpos < b->qpos; });
    if (h.spsc) {
      std::vector<const Elem*> pushOrder;
      for (const Elem& e : el) pushOrder.push_back(&e);
      std::sort(pushOrder.begin(), pushOrder.end(), [](const Elem* a, const Elem* b) { return a->pc != b->pc ? a->pc < b->pc : a->pos < b->pos; });
      long mism = 0;
      size_t firstAt = 0;
      for (size_t i = 0; i < popOrder.size() && i < pushOrder.size(); ++i) {
        if (popOrder[i] != pushOrder[i]) {
          if (!mism++) firstAt = i;
        }
      }
      if (mism) {
        bad("SPSC pop sequence differs from the push sequence",
            J().kv("positions", mism).kv("first", static_cast<long>(firstAt)).kv("popped", static_cast<unsigned long long>(popOrder[firstAt]->tag))
                .kv("expected", static_cast<unsigned long long>(pushOrder[firstAt]->tag)),
            "fifo");
      }
    } else {
      // a push batch occupies consecutive slots: with one consumer its elements come out adjacent
      long split = 0;
      for (size_t i = 1; i < popOrder.size(); ++i) {
        const Elem* a = popOrder[i - 1];
        const Elem* b = popOrder[i];
        if (b->pos > 0 && !(a->prod == b->prod && a->op == b->op && a->pos + 1 == b->pos)) ++split;
      }
      if (split) bad("elements of one push batch were not delivered contiguously to the single consumer", J().kv("count", split), "fifo");
    }
  }
  // ---- occupancy: completed pushes - started pops <= capacity at every stamp
  {
    std::vector<std::pair<uint64_t, int>> evs;
    evs.reserve(el.size() * 2);
    for (const Elem& e : el) {
      evs.emplace_back(e.pr, +1);
      if (e.popped) evs.emplace_back(e.qc, -1);
    }
    std::sort(evs.begin(), evs.end());
    long cur = 0, mx = 0;
    uint64_t at = 0;
    for (auto& ev : evs) {
      cur += ev.second;
      if (cur > mx) {
        mx = cur;
        at = ev.first;
      }
    }
    if (maxOccupancy) *maxOccupancy = mx;
    if (mx > static_cast<long>(h.capacity)) {
      bad("buffer held more than capacity() elements", J().kv("max", mx).kv("capacity", static_cast<long>(h.capacity)).kv("stamp", at), "capacity");
    }
  }
  // ---- SPSC: refused / partial operations, judged by what the calling thread must have observed
  if (h.spsc) {
    std::vector<uint64_t> popDone, pushDone; // completion stamps of every popped / pushed element
    for (const Elem& e : el) {
      pushDone.push_back(e.pr);
      if (e.popped) popDone.push_back(e.qr);
    }
    std::sort(popDone.begin(), popDone.end());
    std::sort(pushDone.begin(), pushDone.end());
    // elements pushed before the concurrent producer started (quiescent producer) count as pushed
    size_t quiescentPushed = h.pushes[static_cast<size_t>(h.P)].size();
    size_t quiescentPopped = 0;
    for (const PopRec& r : h.pops[static_cast<size_t>(h.C)]) {
      (void)r;
      ++quiescentPopped;
    }
    long badPush = 0, badPop = 0;
    J exPush, exPop;
    for (const ShortRec& s : h.pushShort) {
      // elements the producer side had pushed when the call began: own + all quiescent pushes that completed before
      // every push that completed before s0 is either the producer's own earlier push or a quiescent one
      long pushedBefore = static_cast<long>(std::lower_bound(pushDone.begin(), pushDone.end(), s.s0) - pushDone.begin());
      long popsDone = static_cast<long>(std::lower_bound(popDone.begin(), popDone.end(), s.s0) - popDone.begin());
      long room = static_cast<long>(h.capacity) - (pushedBefore - popsDone);
      long mustTake = std::min(s.asked, room);
      // only a complete refusal is judged: "accepts a push iff it is not full"
      if (s.got == 0 && mustTake >= 1) {
        if (!badPush++) exPush = J().kv("asked", s.asked).kv("got", s.got).kv("pushedBefore", pushedBefore).kv("popsCompletedBefore", popsDone).kv("capacity", static_cast<long>(h.capacity));
      }
    }
    for (const ShortRec& s : h.popShort) {
      long pushesDone = static_cast<long>(std::lower_bound(pushDone.begin(), pushDone.end(), s.s0) - pushDone.begin());
      // pops that completed before the call: the consumer's own earlier ones and quiescent ones
      long poppedBefore = static_cast<long>(std::lower_bound(popDone.begin(), popDone.end(), s.s0) - popDone.begin());
      long avail = pushesDone - poppedBefore;
      long mustTake = std::min(s.asked, avail);
      if (s.got == 0 && mustTake >= 1) {
        if (!badPop++) exPop = J().kv("asked", s.asked).kv("got", s.got).kv("pushesCompletedBefore", pushesDone).kv("poppedBefore", poppedBefore);
      }
    }
    (void)quiescentPushed;
    (void)quiescentPopped;
    if (badPush) bad("SPSC push refused although the producer must have observed free space", J().kv("count", badPush).kv("example", exPush), "full-empty");
    if (badPop) bad("SPSC pop failed although the consumer must have observed elements", J().kv("count", badPop).kv("example", exPop), "full-empty");
  }
  return problems;
}
