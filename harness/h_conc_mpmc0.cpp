#include "h_conc_ring.h"
// MpmcRingBuffer instantiations 0..3
template <size_t Cap, bool Round>
using MR = dispenso::MpmcRingBuffer<Item, Cap, Round>;
RingOutcome runMpmc_0(const RingSpec& s) { return runRingT<MR<2, true>, MpmcOps<MR<2, true>>>(s); }
RingOutcome runMpmc_1(const RingSpec& s) { return runRingT<MR<3, false>, MpmcOps<MR<3, false>>>(s); }
RingOutcome runMpmc_2(const RingSpec& s) { return runRingT<MR<3, true>, MpmcOps<MR<3, true>>>(s); }
RingOutcome runMpmc_3(const RingSpec& s) { return runRingT<MR<5, false>, MpmcOps<MR<5, false>>>(s); }
