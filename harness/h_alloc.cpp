// Engine h_alloc: C41 (SmallBufferAllocator hands out exclusive aligned blocks) and
// C42 (PoolAllocator / NoLockPoolAllocator hand out exclusive chunks within their slabs).
//
// Both properties are driven by the same generated multi-phase alloc/dealloc programs: T worker
// threads run phase programs on "pools" of held blocks; between phases the pools rotate between the
// threads (so blocks are freed on a different thread than the one that allocated them); threads live
// for one *segment* of consecutive phases and then exit (with whatever the allocator cached for them).
// Hand-off between threads is by the harness barrier / join (the synchronisation a user must provide).
//
// Monitors:
//  * alignment and size on every allocation (all bytes of the block are written with an owner pattern)
//  * owner pattern verified before every release (two owners of one block overwrite each other)
//  * plain/asan: address-interval ownership map (overlap / handed out twice, at the moment it happens)
//  * post-hoc (all configs, thread-local logs + logical stamps): per address, hand-outs and releases
//    must alternate
//  * C42: slab log from the custom allocFunc/deallocFunc: chunk inside a live slab at a multiple of
//    chunkSize, reuse of recycled slabs after clear() before allocFunc is called again, every slab
//    released exactly once at destruction.
#include <dispenso/pool_allocator.h>
#include <dispenso/small_buffer_allocator.h>
#include <dispenso/detail/verif_hooks.h>

#include <algorithm>
#include <map>
#include <memory>
#include <string>
#include <vector>

#include <unistd.h>

#include "verif_rt.h"

using vrt::J;
namespace V = dispenso::verif;

#if defined(DISPENSO_NO_SMALL_BUFFER_ALLOCATOR)
static constexpr bool kSbaEnabled = false;
#else
static constexpr bool kSbaEnabled = true;
#endif

// Barrier for harness threads: like vrt::Barrier but backs off to short sleeps, so that threads
// waiting for a long phase of another thread do not burn the (shared, loaded) machine.
class PhaseBarrier {
 public:
  explicit PhaseBarrier(int n) : n_(n) {}
  void wait() {
    int gen = gen_.load(std::memory_order_acquire);
    if (count_.fetch_add(1, std::memory_order_acq_rel) + 1 == n_) {
      count_.store(0, std::memory_order_relaxed);
      gen_.fetch_add(1, std::memory_order_acq_rel);
    } else {
      int spins = 0;
      while (gen_.load(std::memory_order_acquire) == gen) {
        if (++spins < 64) std::this_thread::yield();
        else usleep(100);
      }
    }
  }

 private:
  const int n_;
  std::atomic<int> count_{0};
  std::atomic<int> gen_{0};
};

// ------------------------------------------------------------------ allocator under test
struct Aut {
  size_t size = 0; // bytes per block
  size_t align = 1; // required alignment
  virtual char* alloc() = 0;
  virtual void dealloc(char* p) = 0;
  virtual ~Aut() {}
};

template <size_t N>
struct SbaAut : Aut {
  SbaAut() {
    size = N;
    align = N;
  }
  char* alloc() override {
    return dispenso::allocSmallBuffer<N>();
  }
  void dealloc(char* p) override {
    dispenso::deallocSmallBuffer<N>(p);
  }
};

static const size_t kSbaClasses[] = {4, 8, 16, 32, 64, 128, 256, 512};
static constexpr int kNumSbaClasses = 8;

static std::unique_ptr<Aut> makeSba(size_t n) {
  switch (n) {
    case 4: return std::unique_ptr<Aut>(new SbaAut<4>());
    case 8: return std::unique_ptr<Aut>(new SbaAut<8>());
    case 16: return std::unique_ptr<Aut>(new SbaAut<16>());
    case 32: return std::unique_ptr<Aut>(new SbaAut<32>());
    case 64: return std::unique_ptr<Aut>(new SbaAut<64>());
    case 128: return std::unique_ptr<Aut>(new SbaAut<128>());
    case 256: return std::unique_ptr<Aut>(new SbaAut<256>());
    default: return std::unique_ptr<Aut>(new SbaAut<512>());
  }
}
static size_t sbaApprox(size_t n) {
  switch (n) {
    case 4: return dispenso::approxBytesAllocatedSmallBuffer<4>();
    case 8: return dispenso::approxBytesAllocatedSmallBuffer<8>();
    case 16: return dispenso::approxBytesAllocatedSmallBuffer<16>();
    case 32: return dispenso::approxBytesAllocatedSmallBuffer<32>();
    case 64: return dispenso::approxBytesAllocatedSmallBuffer<64>();
    case 128: return dispenso::approxBytesAllocatedSmallBuffer<128>();
    case 256: return dispenso::approxBytesAllocatedSmallBuffer<256>();
    default: return 0;
  }
}
// mirrors SmallBufferAllocator's constants (used only to size the workload so that the recycle,
// central-store and growth paths are reached; never used in a verdict)
static size_t sbaLog(size_t n) {
  size_t l = 0, v = n | 1;
  while (v >>= 1) ++l;
  return l;
}
static size_t sbaMallocBytes(size_t n) {
  return (size_t{1} << 12) * sbaLog(n);
}
static size_t sbaIdealTL(size_t n) {
  return n > 256 ? 16 : sbaMallocBytes(n) / 4 / n;
}
static size_t sbaPerMalloc(size_t n) {
  return n > 256 ? 64 : sbaMallocBytes(n) / n;
}

template <bool kTS>
struct PoolAut : Aut {
  dispenso::PoolAllocatorT<kTS>* pa = nullptr;
  char* alloc() override {
    return pa->alloc();
  }
  void dealloc(char* p) override {
    pa->dealloc(p);
  }
};

// ------------------------------------------------------------------ monitors
static std::atomic<long> g_bad{0}; // violations reported in this case (limits spam)
static void flag(const std::string& msg, const J& detail, const std::string& subkey = "") {
  if (g_bad.fetch_add(1, std::memory_order_relaxed) < 4) vrt::violation(msg, detail, subkey);
}

static inline void fillPattern(char* p, size_t n, uint64_t tag) {
  const unsigned char* tb = reinterpret_cast<const unsigned char*>(&tag);
  for (size_t i = 0; i < n; ++i) p[i] = static_cast<char>(tb[i & 7] ^ static_cast<unsigned char>(i >> 3));
}
static inline bool checkPattern(const char* p, size_t n, uint64_t tag) {
  const unsigned char* tb = reinterpret_cast<const unsigned char*>(&tag);
  for (size_t i = 0; i < n; ++i) {
    if (p[i] != static_cast<char>(tb[i & 7] ^ static_cast<unsigned char>(i >> 3))) return false;
  }
  return true;
}

// Address-interval ownership map (plain / asan only: its mutex would add happens-before edges).
class OwnerMap {
 public:
  // returns empty string if ok, else a description
  std::string insert(const char* p, size_t n, uint64_t tag) {
    uintptr_t a = reinterpret_cast<uintptr_t>(p);
    std::lock_guard<std::mutex> lk(m_);
    auto it = map_.lower_bound(a);
    if (it != map_.end() && it->first == a) return "block handed out again while still live (same address)";
    if (it != map_.end() && it->first < a + n) return "block overlaps a live block above it";
    if (it != map_.begin()) {
      auto pr = std::prev(it);
      if (pr->first + pr->second.first > a) return "block overlaps a live block below it";
    }
    map_.emplace(a, std::make_pair(n, tag));
    return "";
  }
  bool erase(const char* p) {
    std::lock_guard<std::mutex> lk(m_);
    return map_.erase(reinterpret_cast<uintptr_t>(p)) == 1;
  }
  void clear() {
    std::lock_guard<std::mutex> lk(m_);
    map_.clear();
  }
  size_t size() {
    std::lock_guard<std::mutex> lk(m_);
    return map_.size();
  }

 private:
  std::mutex m_;
  std::map<uintptr_t, std::pair<size_t, uint64_t>> map_;
};
static OwnerMap g_owner;
static bool g_useMap = false;

struct Blk {
  char* p;
  uint64_t tag;
};
struct Ev {
  char* p;
  uint64_t s0, s1;
  bool isAlloc;
};
struct ThreadLog {
  std::vector<Ev> evs;
  long allocs = 0, frees = 0;
};

// One monitored allocation / release.
static inline bool doAlloc(Aut& a, std::vector<Blk>& pool, ThreadLog& log, uint64_t tag) {
  uint64_t s0 = vrt::stamp();
  char* p = a.alloc();
  uint64_t s1 = vrt::stamp();
  if (!p) {
    flag("allocator returned nullptr", J().kv("size", a.size), "null");
    return false;
  }
  if (reinterpret_cast<uintptr_t>(p) % a.align) {
    flag("block not aligned to its size class", J().kv("ptr", static_cast<unsigned long long>(reinterpret_cast<uintptr_t>(p))).kv("align", a.align), "align");
  }
  if (g_useMap) {
    std::string why = g_owner.insert(p, a.size, tag);
    if (!why.empty()) flag(why, J().kv("ptr", static_cast<unsigned long long>(reinterpret_cast<uintptr_t>(p))).kv("size", a.size), "exclusive");
  }
  fillPattern(p, a.size, tag);
  log.evs.push_back({p, s0, s1, true});
  ++log.allocs;
  pool.push_back({p, tag});
  return true;
}
static inline void doFree(Aut& a, std::vector<Blk>& pool, ThreadLog& log, size_t which) {
  Blk b = pool[which];
  pool[which] = pool.back();
  pool.pop_back();
  if (!checkPattern(b.p, a.size, b.tag)) {
    flag("owner pattern of a live block was overwritten (block shared with another owner)",
         J().kv("ptr", static_cast<unsigned long long>(reinterpret_cast<uintptr_t>(b.p))).kv("size", a.size), "exclusive");
  }
  if (g_useMap) g_owner.erase(b.p);
  uint64_t s0 = vrt::stamp();
  a.dealloc(b.p);
  uint64_t s1 = vrt::stamp();
  log.evs.push_back({b.p, s0, s1, false});
  ++log.frees;
}

// ------------------------------------------------------------------ generated programs
struct Step {
  char op; // 'A' alloc n, 'F' free n (random members of the pool), 'M' n mixed ops, 'E' ephemeral thread allocating n
  long n;
};
struct Prog {
  int T = 1;
  std::vector<int> segPhases; // phases per segment
  std::vector<int> shift; // per phase pool rotation
  std::vector<std::vector<std::vector<Step>>> steps; // [phase][thread]
  std::vector<int> clearAfterSeg; // C42 only
  bool freeAllAtEnd = true;
  long totalOps = 0;
  uint64_t hash = 0;
};

static double g_scale = 1.0; // --scale: shrinks burst lengths (sanitizer configs)
static Prog genProg(vrt::Rng& r, int T, long small, long big, bool allowEphemeral, bool allowClear) {
  // small/big: interesting burst sizes for the allocator (thread-cache size / slab size)
  Prog g;
  g.T = T;
  int nseg = static_cast<int>(r.range(1, 3));
  int phases = 0;
  for (int s = 0; s < nseg; ++s) {
    int np = static_cast<int>(r.range(1, 3));
    g.segPhases.push_back(np);
    phases += np;
    g.clearAfterSeg.push_back(allowClear && r.chance(0.5) ? 1 : 0);
  }
  for (int ph = 0; ph < phases; ++ph) {
    g.shift.push_back(T > 1 ? static_cast<int>(r.range(0, T - 1)) : 0);
    std::vector<std::vector<Step>> pt;
    for (int t = 0; t < T; ++t) {
      std::vector<Step> st;
      int ns = static_cast<int>(r.range(1, 5));
      for (int k = 0; k < ns; ++k) {
        long n;
        bool scalable = false; // bursts that aim at a specific path keep their length
        switch (r.below(6)) {
          case 0: n = r.range(1, 8); break;
          case 1: n = small + r.range(-2, 2); break;
          case 2: n = 2 * small + r.range(-2, 3); break;
          case 3: n = big + r.range(-2, 2); break;
          case 4: n = r.range(1, 3 * small + 3); scalable = true; break;
          default: n = r.range(1, 2 * big + 3); scalable = true; break;
        }
        if (n > 6000) n = 6000;
        if (scalable && n > 64 && g_scale < 1.0) n = 64 + static_cast<long>((n - 64) * g_scale);
        if (n < 1) n = 1;
        char op = "AAFFMME"[r.below(7)];
        if (op == 'E' && !allowEphemeral) op = 'M';
        if (ph == 0 && k == 0) op = 'A';
        st.push_back({op, n});
        g.totalOps += n;
        g.hash = vrt::mix(g.hash, static_cast<uint64_t>(op) * 1000003u + static_cast<uint64_t>(n));
      }
      pt.push_back(st);
    }
    g.steps.push_back(pt);
  }
  g.freeAllAtEnd = r.chance(0.7);
  return g;
}

struct RunCtx {
  Aut* aut = nullptr;
  const Prog* prog = nullptr;
  std::vector<std::vector<Blk>> pools;
  std::vector<ThreadLog> logs; // one per worker slot, reused across segments (after join)
  std::atomic<uint64_t> tagCtr{1};
  uint64_t tagBase = 0;
  uint64_t rngSalt = 0;
};

static void runSteps(RunCtx& c, int t, int ph, std::vector<Blk>& pool, ThreadLog& log, vrt::Rng& r) {
  Aut& a = *c.aut;
  for (const Step& st : c.prog->steps[static_cast<size_t>(ph)][static_cast<size_t>(t)]) {
    vrt::progress();
    switch (st.op) {
      case 'A':
        for (long i = 0; i < st.n; ++i) {
          doAlloc(a, pool, log, c.tagBase + c.tagCtr.fetch_add(1, std::memory_order_relaxed));
          if ((i & 63) == 63) vrt::progress();
        }
        break;
      case 'F':
        for (long i = 0; i < st.n && !pool.empty(); ++i) {
          doFree(a, pool, log, r.below(pool.size()));
          if ((i & 63) == 63) vrt::progress();
        }
        break;
      case 'M':
        for (long i = 0; i < st.n; ++i) {
          if ((i & 63) == 63) vrt::progress();
          if (pool.empty() || r.chance(0.5)) doAlloc(a, pool, log, c.tagBase + c.tagCtr.fetch_add(1, std::memory_order_relaxed));
          else doFree(a, pool, log, r.below(pool.size()));
        }
        break;
      case 'E': {
        // short-lived thread: allocates n, releases about half (they stay in its thread cache), exits
        std::vector<Blk> mine;
        ThreadLog el;
        uint64_t seed = r.next();
        std::thread th([&]() {
          vrt::Rng er(seed);
          for (long i = 0; i < st.n; ++i) doAlloc(a, mine, el, c.tagBase + c.tagCtr.fetch_add(1, std::memory_order_relaxed));
          long nf = st.n / 2;
          for (long i = 0; i < nf && !mine.empty(); ++i) doFree(a, mine, el, er.below(mine.size()));
        });
        th.join();
        for (auto& b : mine) pool.push_back(b);
        log.evs.insert(log.evs.end(), el.evs.begin(), el.evs.end());
        log.allocs += el.allocs;
        log.frees += el.frees;
        break;
      }
      default: break;
    }
  }
}

// Runs all segments; between segments calls betweenSeg(segIndex) on the main thread (quiescent).
template <typename F>
static void runProg(RunCtx& c, F&& betweenSeg) {
  const Prog& g = *c.prog;
  c.pools.assign(static_cast<size_t>(g.T), {});
  c.logs.assign(static_cast<size_t>(g.T), {});
  int ph0 = 0;
  for (size_t seg = 0; seg < g.segPhases.size(); ++seg) {
    int np = g.segPhases[seg];
    PhaseBarrier bar(g.T);
    std::vector<std::thread> ths;
    for (int t = 0; t < g.T; ++t) {
      ths.emplace_back([&, t]() {
        vrt::Rng r(vrt::mix(c.rngSalt, static_cast<uint64_t>(seg * 131 + static_cast<size_t>(t))));
        for (int ph = ph0; ph < ph0 + np; ++ph) {
          bar.wait();
          size_t pi = static_cast<size_t>((t + g.shift[static_cast<size_t>(ph)] * (ph + 1)) % g.T);
          // bijection over t for a fixed phase: each pool is used by exactly one thread
          runSteps(c, t, ph, c.pools[pi], c.logs[static_cast<size_t>(t)], r);
          bar.wait();
        }
      });
    }
    for (auto& th : ths) th.join();
    ph0 += np;
    betweenSeg(static_cast<int>(seg));
  }
}

// Post-hoc: per address, hand-outs (stamp = return) and releases (stamp = call) must alternate.
// `resets` are stamps at which every block was implicitly released (PoolAllocator::clear()).
static long checkAlternation(std::vector<Ev>& all, const std::vector<uint64_t>& resets, std::string& why) {
  std::sort(all.begin(), all.end(), [](const Ev& x, const Ev& y) {
    if (x.p != y.p) return x.p < y.p;
    uint64_t sx = x.isAlloc ? x.s1 : x.s0, sy = y.isAlloc ? y.s1 : y.s0;
    return sx < sy;
  });
  long bad = 0;
  for (size_t i = 0; i < all.size();) {
    size_t j = i;
    bool live = false;
    uint64_t liveSince = 0;
    for (; j < all.size() && all[j].p == all[i].p; ++j) {
      const Ev& e = all[j];
      uint64_t s = e.isAlloc ? e.s1 : e.s0;
      if (live) {
        for (uint64_t rs : resets) {
          if (rs > liveSince && rs < s) live = false;
        }
      }
      if (e.isAlloc) {
        if (live) {
          if (!bad++) why = "address handed out twice without an intervening release";
        }
        live = true;
        liveSince = s;
      } else {
        live = false;
      }
    }
    i = j;
  }
  return bad;
}

static std::vector<Ev> mergeLogs(RunCtx& c, long& allocs, long& frees) {
  std::vector<Ev> all;
  allocs = frees = 0;
  for (auto& l : c.logs) {
    all.insert(all.end(), l.evs.begin(), l.evs.end());
    allocs += l.allocs;
    frees += l.frees;
  }
  return all;
}

// ------------------------------------------------------------------ C41
static void freeAll(RunCtx& c, ThreadLog& log) {
  for (auto& pool : c.pools) {
    while (!pool.empty()) {
      doFree(*c.aut, pool, log, pool.size() - 1);
      if ((pool.size() & 63) == 0) vrt::progress();
    }
  }
}

// `diag` is a function of the case index (first half of the index range: off): within one process the
// cases without a diagnostics thread run before any case with one, so that whatever a concurrent
// approxBytesAllocatedSmallBuffer call does to the process-global allocator state cannot be blamed
// on a case that made no such call.
static void c41Random(long idx, vrt::Rng& r, bool diag) {
  size_t cls = kSbaClasses[r.below(kNumSbaClasses)];
  int T = static_cast<int>(r.range(1, 4));
  (void)r.chance(0.5);
  bool forceGrowth = r.chance(0.6);
  double perturb = r.chance(0.5) ? 0.3 : 0.0;
  long ideal = static_cast<long>(sbaIdealTL(cls));
  vrt::Rng pr(r.next());
  Prog g = genProg(pr, T, ideal, static_cast<long>(sbaPerMalloc(cls)) / 2, true, false);
  bool exits = g.segPhases.size() > 1;
  std::string key = "sba/N" + std::to_string(cls) + "/t" + std::to_string(T) + "/" + (diag ? "diag1" : "diag0");
  J spec = J().kv("class", cls).kv("threads", T).kv("diag", diag).kv("forceGrowth", forceGrowth).kv("perturb", perturb)
               .kv("segments", static_cast<long>(g.segPhases.size())).kv("phases", static_cast<long>(g.steps.size()))
               .kv("ops", g.totalOps).kv("prog", static_cast<unsigned long long>(g.hash));
  vrt::caseBegin(idx, key, spec);
  vrt::watchdogArm();
  g_bad = 0;
  g_owner.clear();
  std::unique_ptr<Aut> aut = makeSba(cls);
  RunCtx c;
  c.aut = aut.get();
  c.prog = &g;
  c.tagBase = (static_cast<uint64_t>(idx) + 1) << 40;
  c.rngSalt = r.next();
  size_t bytesBefore = sbaApprox(cls);
  if (perturb > 0) {
    vrt::hookProb(V::kSbaAfterBackingLock, 0.9);
    vrt::hookMaxSleepUs(200);
  }
  std::atomic<bool> stop{false};
  std::atomic<long> diagCalls{0};
  std::thread diagTh;
  if (diag) {
    diagTh = std::thread([&]() {
      // paced: an unfair spin lock hammered without pause would starve the growers (that would be
      // a property of this harness, not of the allocator)
      uint64_t x = 88172645463325252ull + static_cast<uint64_t>(idx);
      while (!stop.load(std::memory_order_relaxed)) {
        for (int k = 0; k < kNumSbaClasses; ++k) (void)sbaApprox(kSbaClasses[k]);
        (void)sbaApprox(cls);
        diagCalls.fetch_add(1, std::memory_order_relaxed);
        x ^= x << 13;
        x ^= x >> 7;
        x ^= x << 17;
        usleep(20 + static_cast<unsigned>(x % 200));
      }
    });
  }
  // Optional ramp-up: hold more blocks than the allocator has ever created for this class, so that
  // the slab-growth path under backingStoreLock runs in this case whatever ran before in the process.
  std::vector<std::vector<Blk>> ramp(static_cast<size_t>(T));
  std::vector<ThreadLog> rampLogs(static_cast<size_t>(T));
  if (forceGrowth && kSbaEnabled && cls <= 256) {
    long existing = static_cast<long>(bytesBefore / cls);
    long want = existing + static_cast<long>(sbaPerMalloc(cls)) * r.range(1, 3) + 1;
    if (want > 200000) want = 200000;
    std::vector<std::thread> ths;
    for (int t = 0; t < T; ++t) {
      ths.emplace_back([&, t]() {
        long share = want / T + 1;
        for (long i = 0; i < share; ++i) {
          doAlloc(*c.aut, ramp[static_cast<size_t>(t)], rampLogs[static_cast<size_t>(t)], c.tagBase + c.tagCtr.fetch_add(1, std::memory_order_relaxed));
          if ((i & 63) == 0) vrt::progress();
        }
      });
    }
    for (auto& th : ths) th.join();
  }
  runProg(c, [](int) {});
  // release everything: ramp blocks are freed by fresh threads other than their allocators
  {
    std::vector<std::thread> ths;
    for (int t = 0; t < T; ++t) {
      ths.emplace_back([&, t]() {
        auto& pool = ramp[static_cast<size_t>((t + 1) % T)];
        ThreadLog& lg = rampLogs[static_cast<size_t>((t + 1) % T)];
        while (!pool.empty()) {
          doFree(*c.aut, pool, lg, pool.size() - 1);
          if ((pool.size() & 63) == 0) vrt::progress();
        }
      });
    }
    for (auto& th : ths) th.join();
  }
  ThreadLog tail;
  freeAll(c, tail);
  stop.store(true, std::memory_order_relaxed);
  if (diag) diagTh.join();
  vrt::hooksReset();
  vrt::watchdogDisarm();
  size_t bytesAfter = sbaApprox(cls);
  long allocs = 0, frees = 0;
  c.logs.push_back(std::move(tail));
  for (auto& l : rampLogs) c.logs.push_back(std::move(l));
  std::vector<Ev> all = mergeLogs(c, allocs, frees);
  std::string why;
  long alt = checkAlternation(all, {}, why);
  if (alt) flag(why, J().kv("addresses", alt).kv("class", cls), "history");
  if (g_useMap && g_owner.size() != 0) flag("harness bookkeeping: blocks still registered after releasing everything", J().kv("n", g_owner.size()), "bookkeeping");
  bool grew = bytesAfter > bytesBefore;
  std::vector<std::string> clsv{"class:" + std::to_string(cls), "threads:" + std::to_string(T)};
  if (diag) clsv.push_back("diag-concurrent");
  if (exits) clsv.push_back("thread-exit");
  if (grew) clsv.push_back("slab-growth");
  if (grew && diag) clsv.push_back("diag-during-growth");
  if (T > 1) clsv.push_back("cross-thread-free");
  if (cls > 256) clsv.push_back("fallback-class");
  bool nt = allocs >= 2 && frees >= 1;
  vrt::caseEnd(J().kv("allocs", allocs).kv("frees", frees).kv("grew", grew).kv("diagCalls", diagCalls.load()).kv("bytesBefore", bytesBefore).kv("bytesAfter", bytesAfter),
               nt ? spec.str() : "", clsv);
}

// Scripted: a thread is parked inside the slab-growth critical section (just after it took
// backingStoreLock); approxBytesAllocatedSmallBuffer is called meanwhile; then a second thread that
// needs growth runs. All blocks handed out must still be exclusive and aligned; under TSan the
// accesses to the backing store are judged by the happens-before graph.
static void c41Gate(long idx, vrt::Rng& r) {
  size_t cls = kSbaClasses[r.below(7)]; // 4..256
  std::string key = "sba/N" + std::to_string(cls) + "/gate/diag1";
  J spec = J().kv("class", cls).kv("scenario", "growth parked after backingStoreLock; diagnostics call; second grower");
  vrt::caseBegin(idx, key, spec);
  vrt::watchdogArm();
  g_bad = 0;
  g_owner.clear();
  std::vector<std::string> clsv{"class:" + std::to_string(cls), "gate"};
  if (!kSbaEnabled) {
    vrt::watchdogDisarm();
    vrt::caseEnd(J().kv("skipped", "small buffer allocator compiled out"), "", clsv);
    return;
  }
  std::unique_ptr<Aut> aut = makeSba(cls);
  Aut& a = *aut;
  uint64_t tagBase = (static_cast<uint64_t>(idx) + 1) << 40;
  std::atomic<uint64_t> ctr{1};
  long existing = static_cast<long>(sbaApprox(cls) / cls);
  long per = static_cast<long>(sbaPerMalloc(cls));
  std::vector<Blk> poolA, poolB;
  ThreadLog logA, logB;
  uint64_t hits0 = vrt::hookHits(V::kSbaAfterBackingLock);
  vrt::gateArm(V::kSbaAfterBackingLock);
  std::thread A([&]() {
    // allocate until one more block than ever existed is live: must pass through the growth path
    for (long i = 0; i < existing + 1; ++i) {
      doAlloc(a, poolA, logA, tagBase + ctr.fetch_add(1, std::memory_order_relaxed));
      if ((i & 255) == 0) vrt::progress();
    }
  });
  bool arrived = vrt::gateWaitArrived(V::kSbaAfterBackingLock, 30000);
  bool diagReturned = false, secondEntered = false;
  if (arrived) {
    std::atomic<int> dstate{0};
    std::thread D([&]() {
      (void)sbaApprox(cls);
      dstate.store(1, std::memory_order_relaxed);
    });
    // Not a verdict: only decides which of two sound observations is recorded.
    for (int k = 0; k < 400 && dstate.load(std::memory_order_relaxed) == 0; ++k) usleep(500);
    diagReturned = dstate.load(std::memory_order_relaxed) == 1; // A is still parked: the gate has not been opened
    std::atomic<int> bstate{0};
    std::thread B;
    if (diagReturned) {
      // B needs a fresh slab as well (the central store is empty: A drained it before growing)
      B = std::thread([&]() {
        for (long i = 0; i < per + 1; ++i) doAlloc(a, poolB, logB, tagBase + ctr.fetch_add(1, std::memory_order_relaxed));
        bstate.store(1, std::memory_order_relaxed);
      });
      for (int k = 0; k < 400 && bstate.load(std::memory_order_relaxed) == 0; ++k) usleep(500);
      secondEntered = vrt::hookHits(V::kSbaAfterBackingLock) > hits0 + 1; // a second thread passed the lock while A sits inside
    }
    vrt::progress();
    vrt::gateOpen(V::kSbaAfterBackingLock);
    A.join();
    D.join();
    if (B.joinable()) B.join();
  } else {
    vrt::gateOpen(V::kSbaAfterBackingLock);
    A.join();
    vrt::inconclusive("gate at kSbaAfterBackingLock not reached");
  }
  vrt::hooksReset();
  // cross-free: main thread releases everything
  ThreadLog tail;
  while (!poolA.empty()) doFree(a, poolA, tail, poolA.size() - 1);
  while (!poolB.empty()) doFree(a, poolB, tail, poolB.size() - 1);
  vrt::watchdogDisarm();
  std::vector<Ev> all;
  for (ThreadLog* l : {&logA, &logB, &tail}) all.insert(all.end(), l->evs.begin(), l->evs.end());
  std::string why;
  long alt = checkAlternation(all, {}, why);
  if (alt) flag(why, J().kv("addresses", alt).kv("class", cls), "history");
  if (arrived) clsv.push_back("gate-reached");
  if (diagReturned) clsv.push_back("diag-returned-while-growth-holds-lock");
  if (secondEntered) clsv.push_back("two-threads-inside-growth-section");
  vrt::caseEnd(J().kv("arrived", arrived).kv("diagReturnedWhileLockHeld", diagReturned).kv("secondGrowerEntered", secondEntered).kv("allocs", logA.allocs + logB.allocs),
               arrived ? spec.str() + std::to_string(idx) : "", clsv);
}

// Second gate scenario: the DIAGNOSTICS call is parked while it holds the backing-store lock, a
// grower that needs a fresh slab arrives meanwhile (it bumps the lock word and spins until the
// word reads 0), then the diagnostics call is released. The grower must complete: a release of the
// lock that does not return the word to 0 wedges every later growth / diagnostics call.
static void c41GateDiag(long idx, vrt::Rng& r) {
  size_t cls = kSbaClasses[r.below(7)];
  std::string key = "sba/N" + std::to_string(cls) + "/gate-diag-holds-lock";
  J spec = J().kv("class", cls).kv("scenario", "diagnostics parked inside the lock, grower arrives, diagnostics released");
  vrt::caseBegin(idx, key, spec);
  vrt::watchdogArm();
  std::vector<std::string> clsv{"class:" + std::to_string(cls), "gate-diag"};
  g_bad = 0;
  g_owner.clear();
  if (!kSbaEnabled) {
    vrt::watchdogDisarm();
    vrt::caseEnd(J().kv("skipped", "small buffer allocator compiled out"), "", clsv);
    return;
  }
  std::unique_ptr<Aut> aut = makeSba(cls);
  Aut& a = *aut;
  uint64_t tagBase = (static_cast<uint64_t>(idx) + 1) << 40;
  std::atomic<uint64_t> ctr{1};
  long existing = static_cast<long>(sbaApprox(cls) / cls);
  std::vector<Blk> poolA;
  ThreadLog logA;
  vrt::gateArm(V::kSbaDiagHoldsLock);
  std::atomic<int> dstate{0}, astate{0};
  std::thread D([&]() {
    (void)sbaApprox(cls);
    dstate.store(1, std::memory_order_relaxed);
  });
  bool arrived = vrt::gateWaitArrived(V::kSbaDiagHoldsLock, 30000);
  std::thread A;
  if (arrived) {
    A = std::thread([&]() {
      // one more block than ever existed must be live: passes through the growth path, which has
      // to wait for the diagnostics call to release the lock
      for (long i = 0; i < existing + 1; ++i) {
        doAlloc(a, poolA, logA, tagBase + ctr.fetch_add(1, std::memory_order_relaxed));
        if ((i & 255) == 0) vrt::progress();
      }
      astate.store(1, std::memory_order_relaxed);
    });
    // give the grower time to reach the lock (not a verdict)
    for (int k = 0; k < 200 && astate.load(std::memory_order_relaxed) == 0; ++k) usleep(500);
    vrt::progress();
  }
  vrt::gateOpen(V::kSbaDiagHoldsLock);
  D.join();
  vrt::progress();
  if (A.joinable()) A.join(); // a wedged lock leaves the grower spinning: watchdog livelock verdict
  vrt::progress();
  // a later diagnostics call and a later growth must also still work
  (void)sbaApprox(cls);
  vrt::hooksReset();
  ThreadLog tail;
  while (!poolA.empty()) doFree(a, poolA, tail, poolA.size() - 1);
  vrt::watchdogDisarm();
  if (arrived) clsv.push_back("diag-gate-reached");
  else vrt::inconclusive("gate at kSbaDiagHoldsLock not reached");
  vrt::caseEnd(J().kv("arrived", arrived).kv("allocs", logA.allocs), arrived ? spec.str() + std::to_string(idx) : "", clsv);
}

static void runC41() {
  const long n = vrt::g_args.getInt("n", vrt::thorough() ? 2400 : 320);
  const long gates = vrt::g_args.getInt("gates", vrt::thorough() ? 160 : 32);
  for (long idx = 0; idx < n + gates; ++idx) {
    if (!vrt::selected(idx)) continue;
    vrt::Rng r = vrt::caseRng(idx);
    if (idx < n) c41Random(idx, r, idx >= n / 2);
    else if ((idx - n) % 3 == 2) c41GateDiag(idx, r);
    else c41Gate(idx, r);
  }
}

// ------------------------------------------------------------------ C42
struct SlabRec {
  char* base;
  uint64_t stamp; // taken inside allocFunc
  std::atomic<int> released;
  uint64_t releaseStamp;
};
static constexpr size_t kMaxSlabs = 1 << 15;
static SlabRec* g_slabs = new SlabRec[kMaxSlabs];
static std::atomic<size_t> g_nSlabs{0};
static std::atomic<long> g_wrongSize{0}, g_unknownRelease{0}, g_doubleRelease{0};
static size_t g_expectSlabSize = 0;

static void* slabAlloc(size_t sz) {
  if (sz != g_expectSlabSize) g_wrongSize.fetch_add(1, std::memory_order_relaxed);
  char* p = static_cast<char*>(::operator new(sz ? sz : 1));
  size_t i = g_nSlabs.fetch_add(1, std::memory_order_relaxed);
  if (i >= kMaxSlabs) {
    vrt::violation("allocFunc storm: more than 32768 slabs requested", J());
    _exit(5);
  }
  g_slabs[i].base = p;
  g_slabs[i].released.store(0, std::memory_order_relaxed);
  g_slabs[i].releaseStamp = 0;
  g_slabs[i].stamp = vrt::stamp();
  return p;
}
static void slabFree(void* p) {
  size_t n = g_nSlabs.load(std::memory_order_relaxed);
  for (size_t i = 0; i < n; ++i) {
    if (g_slabs[i].base == p) {
      if (g_slabs[i].released.fetch_add(1, std::memory_order_relaxed) != 0) {
        g_doubleRelease.fetch_add(1, std::memory_order_relaxed);
        return; // do not free twice
      }
      g_slabs[i].releaseStamp = vrt::stamp();
      ::operator delete(p);
      return;
    }
  }
  g_unknownRelease.fetch_add(1, std::memory_order_relaxed);
}

template <bool kTS>
static void c42Case(long idx, vrt::Rng& r) {
  static const long chunkSizes[] = {1, 3, 8, 16, 24, 64, 100, 256, 1000};
  size_t chunk = static_cast<size_t>(chunkSizes[r.below(9)]);
  long per = r.chance(0.3) ? r.range(1, 3) : r.range(4, 40);
  size_t slab = chunk * static_cast<size_t>(per) + (r.chance(0.4) ? static_cast<size_t>(r.below(chunk)) : 0);
  int T = kTS ? static_cast<int>(r.range(1, 4)) : 1;
  vrt::Rng pr(r.next());
  Prog g = genProg(pr, T, per, 3 * per, false, true);
  bool anyClear = false;
  for (size_t s = 0; s + 1 < g.clearAfterSeg.size(); ++s) anyClear |= g.clearAfterSeg[s] != 0;
  std::string key = std::string(kTS ? "pool" : "nolock") + "/t" + std::to_string(T) + "/" + (per == 1 ? "per1" : per <= 3 ? "perSmall" : "perN") + "/" +
      (slab % chunk ? "ragged" : "exact") + "/" + (anyClear ? "clear" : "noclear");
  J spec = J().kv("threadSafe", kTS).kv("chunk", chunk).kv("slab", slab).kv("chunksPerSlab", per).kv("threads", T)
               .kv("segments", static_cast<long>(g.segPhases.size())).kv("phases", static_cast<long>(g.steps.size()))
               .kv("ops", g.totalOps).kv("freeAllAtEnd", g.freeAllAtEnd).kv("prog", static_cast<unsigned long long>(g.hash));
  vrt::caseBegin(idx, key, spec);
  vrt::watchdogArm();
  g_bad = 0;
  g_owner.clear();
  g_nSlabs = 0;
  g_wrongSize = 0;
  g_unknownRelease = 0;
  g_doubleRelease = 0;
  g_expectSlabSize = slab;
  RunCtx c;
  PoolAut<kTS> aut;
  aut.size = chunk;
  aut.align = 1;
  c.aut = &aut;
  c.prog = &g;
  c.tagBase = (static_cast<uint64_t>(idx) + 1) << 40;
  c.rngSalt = r.next();
  std::vector<uint64_t> clearStamps;
  std::vector<size_t> slabsAtClear;
  long clears = 0;
  size_t slabsAtDtor = 0;
  uint64_t dtorStamp = 0;
  {
    dispenso::PoolAllocatorT<kTS> pa(chunk, slab, slabAlloc, slabFree);
    aut.pa = &pa;
    runProg(c, [&](int seg) {
      bool last = static_cast<size_t>(seg) + 1 == g.segPhases.size();
      if (!last && g.clearAfterSeg[static_cast<size_t>(seg)]) {
        // quiescent: every worker of the segment has been joined
        for (auto& pool : c.pools) {
          for (auto& b : pool) {
            if (!checkPattern(b.p, chunk, b.tag)) flag("owner pattern of a live chunk was overwritten", J().kv("chunk", chunk), "exclusive");
          }
          pool.clear();
        }
        g_owner.clear();
        uint64_t s0 = vrt::stamp();
        pa.clear();
        (void)s0;
        clearStamps.push_back(vrt::stamp());
        slabsAtClear.push_back(g_nSlabs.load());
        ++clears;
      }
    });
    if (g.freeAllAtEnd) {
      ThreadLog tail;
      freeAll(c, tail);
      c.logs.push_back(std::move(tail));
    } else {
      for (auto& pool : c.pools) {
        for (auto& b : pool) {
          if (!checkPattern(b.p, chunk, b.tag)) flag("owner pattern of a live chunk was overwritten", J().kv("chunk", chunk), "exclusive");
        }
      }
    }
    slabsAtDtor = g_nSlabs.load();
    dtorStamp = vrt::stamp();
  }
  vrt::watchdogDisarm();
  // ---- post-hoc checks
  long allocs = 0, frees = 0;
  std::vector<Ev> all = mergeLogs(c, allocs, frees);
  size_t nslabs = g_nSlabs.load();
  // (1) every chunk inside a slab, at a multiple of chunkSize, fully inside
  std::vector<std::pair<uintptr_t, size_t>> sl;
  for (size_t i = 0; i < nslabs; ++i) sl.emplace_back(reinterpret_cast<uintptr_t>(g_slabs[i].base), i);
  std::sort(sl.begin(), sl.end());
  long outside = 0, misplaced = 0, early = 0;
  std::vector<uint64_t> firstUseAfter; // unused
  for (const Ev& e : all) {
    if (!e.isAlloc) continue;
    uintptr_t a = reinterpret_cast<uintptr_t>(e.p);
    auto it = std::upper_bound(sl.begin(), sl.end(), std::make_pair(a, static_cast<size_t>(-1)));
    if (it == sl.begin()) {
      ++outside;
      continue;
    }
    --it;
    uintptr_t off = a - it->first;
    if (off + chunk > slab) {
      ++outside;
      continue;
    }
    if (off % chunk) ++misplaced;
    if (g_slabs[it->second].stamp > e.s1) ++early; // handed out before the slab existed
  }
  if (outside) flag("chunk not inside any slab obtained from allocFunc", J().kv("count", outside).kv("chunk", chunk).kv("slab", slab), "bounds");
  if (misplaced) flag("chunk not at a multiple of chunkSize inside its slab", J().kv("count", misplaced).kv("chunk", chunk), "bounds");
  if (early) flag("chunk handed out before its slab was obtained", J().kv("count", early), "bounds");
  // (2) exclusivity over time
  std::string why;
  long alt = checkAlternation(all, clearStamps, why);
  if (alt) flag(why, J().kv("addresses", alt).kv("chunk", chunk), "history");
  // (3) after clear(): allocFunc is not called again before every existing slab was re-carved
  long reuseBad = 0, reuseChecked = 0;
  for (size_t ci = 0; ci < clearStamps.size(); ++ci) {
    uint64_t cs = clearStamps[ci];
    uint64_t nextClear = ci + 1 < clearStamps.size() ? clearStamps[ci + 1] : ~0ull;
    size_t existing = slabsAtClear[ci];
    // first allocFunc call after this clear
    for (size_t i = existing; i < nslabs; ++i) {
      uint64_t s = g_slabs[i].stamp;
      if (s < cs || s > nextClear) continue;
      ++reuseChecked;
      // every slab that existed at the clear must have had a chunk handed out by a call that began
      // after the clear and before this allocFunc call
      std::vector<char> used(existing, 0);
      for (const Ev& e : all) {
        if (!e.isAlloc || e.s0 < cs || e.s0 > s) continue;
        uintptr_t a = reinterpret_cast<uintptr_t>(e.p);
        auto it = std::upper_bound(sl.begin(), sl.end(), std::make_pair(a, static_cast<size_t>(-1)));
        if (it == sl.begin()) continue;
        --it;
        if (it->second < existing && a - it->first < slab) used[it->second] = 1;
      }
      for (size_t k = 0; k < existing; ++k) {
        if (!used[k]) {
          ++reuseBad;
          break;
        }
      }
      break; // only the first allocFunc call after the clear is informative
    }
  }
  if (reuseBad) flag("allocFunc called after clear() although a recycled slab had not been reused", J().kv("clears", clears).kv("chunk", chunk).kv("slab", slab), "clear-reuse");
  // (4) slabs released exactly once at destruction, none before, sizes right
  long notReleased = 0, releasedEarly = 0;
  for (size_t i = 0; i < nslabs; ++i) {
    int rel = g_slabs[i].released.load();
    if (rel == 0) {
      ++notReleased;
      ::operator delete(g_slabs[i].base); // keep LSan quiet about memory the harness owns
    } else if (g_slabs[i].releaseStamp < dtorStamp) {
      ++releasedEarly;
    }
  }
  if (nslabs != slabsAtDtor) flag("allocFunc called during destruction", J().kv("before", slabsAtDtor).kv("after", nslabs), "release");
  if (notReleased) flag("slab never released with deallocFunc at destruction", J().kv("count", notReleased).kv("slabs", nslabs).kv("clears", clears), "release");
  if (releasedEarly) flag("slab released before destruction", J().kv("count", releasedEarly), "release");
  if (g_doubleRelease.load()) flag("slab released twice", J().kv("count", g_doubleRelease.load()).kv("clears", clears), "release");
  if (g_unknownRelease.load()) flag("deallocFunc called with a pointer that allocFunc never returned", J().kv("count", g_unknownRelease.load()), "release");
  if (g_wrongSize.load()) flag("allocFunc called with a size other than allocSize", J().kv("count", g_wrongSize.load()), "release");
  std::vector<std::string> clsv{kTS ? "threadsafe" : "nolock", "threads:" + std::to_string(T)};
  if (clears) clsv.push_back("clear");
  if (reuseChecked) clsv.push_back("allocFunc-after-clear");
  if (clears && nslabs && reuseChecked == 0) clsv.push_back("clear-recycled-only");
  if (slab % chunk) clsv.push_back("ragged-slab");
  if (per == 1) clsv.push_back("one-chunk-slab");
  if (!g.freeAllAtEnd) clsv.push_back("destroyed-with-live-chunks");
  if (nslabs >= 2) clsv.push_back("multi-slab");
  if (T > 1) clsv.push_back("cross-thread-free");
  bool nt = allocs >= 2 && nslabs >= 1;
  vrt::caseEnd(J().kv("allocs", allocs).kv("frees", frees).kv("slabs", nslabs).kv("clears", clears).kv("reuseChecked", reuseChecked), nt ? spec.str() : "", clsv);
}

static void runC42() {
  const long n = vrt::g_args.getInt("n", vrt::thorough() ? 6000 : 640);
  for (long idx = 0; idx < n; ++idx) {
    if (!vrt::selected(idx)) continue;
    vrt::Rng r = vrt::caseRng(idx);
    if (r.chance(0.35)) c42Case<false>(idx, r);
    else c42Case<true>(idx, r);
  }
}

int main(int argc, char** argv) {
  vrt::init(argc, argv);
  g_useMap = !VRT_TSAN && !vrt::g_args.lite;
  g_scale = static_cast<double>(vrt::g_args.getInt("scale", 100)) / 100.0;
  const std::string& p = vrt::g_args.prop;
  if (p == "C41") runC41();
  else if (p == "C42") runC42();
  else {
    fprintf(stderr, "h_alloc: unknown property %s\n", p.c_str());
    return 2;
  }
  return vrt::finish();
}
