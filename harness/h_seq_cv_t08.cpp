// C32 instantiations for trait combination heap-fast-full (see h_seq_cv_impl.h)
#include "h_seq_cv_impl.h"

HSEQ_CV_INSTANCE(t8_0, vrt::TrackedT<32>, "e32", false, true, kFullBufferAhead, "heap-fast-full")
HSEQ_CV_INSTANCE(t8_1, vrt::TrackedT<64>, "e64", false, true, kFullBufferAhead, "heap-fast-full")
HSEQ_CV_INSTANCE(t8_2, vrt::TrackedT<128>, "e128", false, true, kFullBufferAhead, "heap-fast-full")
