// Engine h_conc: C33 (ConcurrentVector concurrent growth, h_conc_vec*.cpp), C34 (MpmcRingBuffer) and
// C35 (SPSCRingBuffer) (this file + h_conc_ring.h + h_conc_ringcheck.cpp + h_conc_mpmc*/spsc*.cpp),
// C36 (ChaseLevDeque, h_conc_deque.cpp), C37 (ConcurrentObjectArena, h_conc_arena.cpp).
#include "h_conc_ring.h"

std::atomic<long> g_flagged{0};

RingOutcome runMpmc_0(const RingSpec&);
RingOutcome runMpmc_1(const RingSpec&);
RingOutcome runMpmc_2(const RingSpec&);
RingOutcome runMpmc_3(const RingSpec&);
RingOutcome runMpmc_4(const RingSpec&);
RingOutcome runMpmc_5(const RingSpec&);
RingOutcome runMpmc_6(const RingSpec&);
RingOutcome runMpmc_7(const RingSpec&);
RingOutcome runSpsc_0(const RingSpec&);
RingOutcome runSpsc_1(const RingSpec&);
RingOutcome runSpsc_2(const RingSpec&);
RingOutcome runSpsc_3(const RingSpec&);
RingOutcome runSpsc_4(const RingSpec&);
RingOutcome runSpsc_5(const RingSpec&);
RingOutcome runSpsc_6(const RingSpec&);
RingOutcome runSpsc_7(const RingSpec&);

static const long kMpmcCap[8] = {2, 3, 4, 5, 4, 16, 100, 128};
static const char* kMpmcName[8] = {"2-pow2", "3-exact", "3-rounded-to-4", "5-exact", "4-exact", "16-pow2", "100-exact", "100-rounded-to-128"};
static const long kSpscCap[8] = {1, 1, 2, 3, 4, 31, 100, 127};
static const char* kSpscName[8] = {"1-pow2", "1-exact", "2-exact", "2-rounded-to-3", "4-exact", "16-rounded-to-31", "100-exact", "100-rounded-to-127"};

static RingOutcome runRing(const RingSpec& s) {
  if (s.kind == 0) {
    switch (s.inst) {
      case 0: return runMpmc_0(s);
      case 1: return runMpmc_1(s);
      case 2: return runMpmc_2(s);
      case 3: return runMpmc_3(s);
      case 4: return runMpmc_4(s);
      case 5: return runMpmc_5(s);
      case 6: return runMpmc_6(s);
      default: return runMpmc_7(s);
    }
  }
  switch (s.inst) {
    case 0: return runSpsc_0(s);
    case 1: return runSpsc_1(s);
    case 2: return runSpsc_2(s);
    case 3: return runSpsc_3(s);
    case 4: return runSpsc_4(s);
    case 5: return runSpsc_5(s);
    case 6: return runSpsc_6(s);
    default: return runSpsc_7(s);
  }
}

static void runRingProp(bool spsc) {
  const bool th = vrt::thorough();
  const long n = vrt::g_args.getInt("n", th ? 5000 : 320);
  const long scale = vrt::g_args.getInt("scale", 100);
  for (long idx = 0; idx < n; ++idx) {
    if (!vrt::selected(idx)) continue;
    vrt::Rng r = vrt::caseRng(idx);
    RingSpec s;
    s.kind = spsc ? 1 : 0;
    s.inst = static_cast<int>((idx + idx / 16) % 8); // every capacity in every shard
    if (r.chance(0.5)) s.inst = static_cast<int>(r.below(8));
    long cap = spsc ? kSpscCap[s.inst] : kMpmcCap[s.inst];
    if (spsc) {
      s.P = s.C = 1;
    } else {
      static const int pcs[][2] = {{1, 1}, {2, 1}, {1, 2}, {2, 2}, {3, 2}, {2, 3}, {4, 4}, {4, 1}, {1, 4}, {3, 3}};
      int k = static_cast<int>(r.below(10));
      s.P = pcs[k][0];
      s.C = pcs[k][1];
    }
    long maxPer = th ? 20000 : 3000;
    s.perProducer = r.chance(0.6) ? r.range(20, 400) : r.range(400, maxPer);
    s.perProducer = std::max<long>(10, s.perProducer * scale / 100);
    s.batchMax = r.chance(0.5) ? 0 : static_cast<int>(r.range(2, std::max<long>(2, std::min<long>(cap + 2, 12))));
    static const double pauses[] = {0, 0, 0.05, 0.3};
    s.pausePush = pauses[r.below(4)];
    s.pausePop = pauses[r.below(4)];
    static const double hooks[] = {0, 0.2, 0.6};
    s.hookP = hooks[r.below(3)];
    s.leaveInRing = r.chance(0.2);
    s.preOps = r.chance(0.2) ? 0 : r.range(1, 4 * cap + 10);
    s.postOps = r.range(2 * cap + 4, 6 * cap + 20);
    s.salt = r.next();
    const char* pcClass = s.P == 1 && s.C == 1 ? "1x1" : s.P > 1 && s.C > 1 ? "NxN" : s.P > 1 ? "Nx1" : "1xN";
    std::string key = std::string(spsc ? "spsc/" : "mpmc/") + (spsc ? kSpscName[s.inst] : kMpmcName[s.inst]) + "/" + pcClass + "/" + (s.batchMax ? "batch" : "single") + "/" +
        (s.leaveInRing ? "leave" : "drain");
    vrt::caseBegin(idx, key, s.json());
    g_flagged = 0;
    vrt::watchdogArm();
    RingOutcome o = runRing(s);
    vrt::watchdogDisarm();
    long maxOcc = 0;
    checkRingHistory(o.h, &maxOcc);
    if (static_cast<long>(o.h.capacity) != cap) flag("capacity() differs from the documented value", J().kv("capacity", static_cast<long>(o.h.capacity)).kv("expected", cap), "capacity");
    // lifetimes of the objects that lived in ring slots
    vrt::LifeStats& ls = vrt::life();
    if (o.liveInRingAtQuiescence != o.remainingAtQuiescence) {
      flag("number of live objects in the ring's slots differs from pushed - popped at quiescence",
           J().kv("live", o.liveInRingAtQuiescence).kv("expected", o.remainingAtQuiescence), "lifetime");
    }
    if (o.liveAfterDtor != 0) flag("ring destructor left elements undestroyed (or destroyed too many)", J().kv("liveAfterDtor", o.liveAfterDtor).kv("inRingBefore", o.liveInRingAtQuiescence), "lifetime");
    if (ls.constructOverLive.load() || ls.destroyDead.load()) {
      flag("element constructed over a live slot object / slot object destroyed twice", vrt::lifeJson(), "lifetime");
    }
    if (g_itemBadUse.load()) flag("a dead element object was used (moved from / destroyed twice)", J().kv("count", g_itemBadUse.load()), "lifetime");
    long outside = g_outCtor.load() - g_outDtor.load();
    static bool reportedTemporaries = false;
    if (outside != 0 && !reportedTemporaries) {
      reportedTemporaries = true; // once per process is enough
      // not a ring slot: a temporary (e.g. inside an OpResult) was not destroyed -- by-catch for C40
      vrt::violation("element temporaries outside the ring not destroyed exactly once", J().kv("constructedMinusDestroyed", outside), "temporaries", "C40");
    }
    long pushed = 0, popped = 0, concPopped = 0;
    for (auto& v : o.h.pushes) pushed += static_cast<long>(v.size());
    for (size_t c = 0; c < o.h.pops.size(); ++c) {
      popped += static_cast<long>(o.h.pops[c].size());
      if (static_cast<int>(c) < o.h.C) concPopped += static_cast<long>(o.h.pops[c].size());
    }
    std::vector<std::string> cls;
    cls.push_back(std::string("cap:") + (spsc ? kSpscName[s.inst] : kMpmcName[s.inst]));
    if (s.P >= 2) cls.push_back("producers>=2");
    if (s.C >= 2) cls.push_back("consumers>=2");
    if (s.P == 4 && s.C == 4) cls.push_back("4x4");
    if (s.batchMax) cls.push_back("batch");
    if (s.leaveInRing && o.remainingAtQuiescence > 0) cls.push_back("destroyed-non-empty");
    if (o.sawFull) cls.push_back("quiescent-full");
    if (o.sawEmpty) cls.push_back("quiescent-empty");
    if (maxOcc >= cap) cls.push_back("reached-capacity");
    if (o.sawFailedPushConcurrent) cls.push_back("refused-push-concurrent");
    if (o.sawFailedPopConcurrent) cls.push_back("refused-pop-concurrent");
    if (s.hookP > 0) cls.push_back("perturbed");
    bool nt = pushed >= 2 && concPopped >= 1;
    vrt::caseEnd(J().kv("pushed", pushed).kv("popped", popped).kv("poppedConcurrently", concPopped).kv("maxOccupancy", maxOcc).kv("capacity", cap)
                     .kv("quiescentOps", o.quiescentOps).kv("refusedPush", static_cast<long>(o.h.pushShort.size())).kv("refusedPop", static_cast<long>(o.h.popShort.size())),
                 nt ? s.json().str() : "", cls);
  }
}

void runC34() {
  runRingProp(false);
}
void runC35() {
  runRingProp(true);
}

int main(int argc, char** argv) {
  vrt::init(argc, argv);
  const std::string& p = vrt::g_args.prop;
  if (p == "C33") runC33();
  else if (p == "C34") runC34();
  else if (p == "C35") runC35();
  else if (p == "C36") runC36();
  else if (p == "C37") runC37();
  else {
    fprintf(stderr, "h_conc: unknown property %s\n", p.c_str());
    return 2;
  }
  return vrt::finish();
}
