#include "h_conc_ring.h"
// MpmcRingBuffer instantiations 4..7
template <size_t Cap, bool Round>
using MR = dispenso::MpmcRingBuffer<Item, Cap, Round>;
RingOutcome runMpmc_4(const RingSpec& s) { return runRingT<MR<4, false>, MpmcOps<MR<4, false>>>(s); }
RingOutcome runMpmc_5(const RingSpec& s) { return runRingT<MR<16, true>, MpmcOps<MR<16, true>>>(s); }
RingOutcome runMpmc_6(const RingSpec& s) { return runRingT<MR<100, false>, MpmcOps<MR<100, false>>>(s); }
RingOutcome runMpmc_7(const RingSpec& s) { return runRingT<MR<100, true>, MpmcOps<MR<100, true>>>(s); }
