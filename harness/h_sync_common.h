#pragma once
// Shared declarations for engine h_sync: C21 (CompletionEvent / Latch wake-ups), C22 (RWLock),
// C23 (DistributedRWLock), C24 (AsyncRequest), C25 (ResourcePool), C26 (TimedTask), C45 (threadId).
// One translation unit per property (h_sync_c2x.cpp) so the engine compiles in parallel.
#include <algorithm>
#include <atomic>
#include <cstdlib>
#include <new>
#include <memory>
#include <string>
#include <thread>
#include <vector>

#include <unistd.h>

#include <dispenso/detail/verif_hooks.h>

#include "verif_rt.h"

using vrt::J;
namespace V = dispenso::verif;

void runC21();
void runC22();
void runC23();
void runC24();
void runC25();
void runC26();
void runC45();

namespace hs {

// Spin barrier on relaxed atomics only: releases all parties at (nearly) the same instant and adds
// no happens-before edge under TSan (monitor-lite rule). Single use.
class SpinStart {
 public:
  explicit SpinStart(int parties) : parties_(parties) {}
  void arriveAndWait() {
    arrived_.fetch_add(1, std::memory_order_relaxed);
    vrt::progress(); // a thread that has been created and reached the start line is progress
    // early arrivers must not starve the threads that have not even started yet (the machine is
    // shared): spin briefly, then yield on every probe
    unsigned spins = 0;
    while (arrived_.load(std::memory_order_relaxed) < parties_) {
      ++spins;
      if (spins > 600) usleep(50);
      else if (spins > 64) std::this_thread::yield();
    }
  }

 private:
  const int parties_;
  std::atomic<int> arrived_{0};
};

// Start line for many threads (up to 64 on a shared machine): threads sleep-poll until everybody
// has arrived (no CPU is burnt while the creator is still spawning threads), then gather in a short
// bounded spin so that those that are on a CPU leave (nearly) together. Relaxed atomics only.
class SleepStart {
 public:
  explicit SleepStart(int parties) : parties_(parties) {}
  void arriveAndWait() {
    arrived_.fetch_add(1, std::memory_order_relaxed);
    vrt::progress();
    while (arrived_.load(std::memory_order_relaxed) < parties_) usleep(100);
    stage2_.fetch_add(1, std::memory_order_relaxed);
    for (unsigned spins = 0; spins < 20000 && stage2_.load(std::memory_order_relaxed) < parties_; ++spins) {
    }
  }

 private:
  const int parties_;
  std::atomic<int> arrived_{0};
  std::atomic<int> stage2_{0};
};

// Poll a state predicate; between polls the thread sleeps, every poll counts as harness progress
// only if `countsAsProgress` (never used to decide a verdict: callers treat "not reached" as a
// coverage miss).
template <typename Pred>
inline bool pollUntil(Pred p, int maxMs) {
  double end = vrt::nowSeconds() + maxMs / 1000.0;
  for (;;) {
    if (p()) return true;
    if (vrt::nowSeconds() >= end) return p();
    usleep(50);
  }
}

// Heap object with the type's full alignment (C++14 operator new ignores over-alignment).
template <typename T>
class AlignedBox {
 public:
  AlignedBox() {
    size_t a = alignof(T) < sizeof(void*) ? sizeof(void*) : alignof(T);
    size_t sz = (sizeof(T) + a - 1) / a * a;
    mem_ = aligned_alloc(a, sz);
    p_ = new (mem_) T();
  }
  AlignedBox(const AlignedBox&) = delete;
  AlignedBox& operator=(const AlignedBox&) = delete;
  ~AlignedBox() {
    p_->~T();
    free(mem_);
  }
  T& operator*() { return *p_; }
  T* operator->() { return p_; }

 private:
  void* mem_;
  T* p_;
};

inline void dwell(vrt::Rng& r, int maxUs) {
  if (maxUs <= 0) return;
  int us = static_cast<int>(r.below(static_cast<uint64_t>(maxUs) + 1));
  if (us == 0) return;
  if (r.chance(0.1)) std::this_thread::yield();
  vrt::spinFor(us);
}

} // namespace hs
