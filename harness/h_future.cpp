// Engine h_future: C18 (a Future's functor runs once and every getter sees its result),
// C19 (continuations and combinators respect readiness), C20 (timed waits).
// The scenario families live in h_future_c18.cpp, h_future_c19*.cpp and h_future_c20.cpp so that the
// engine compiles in parallel.
#include "h_future_common.h"

thread_local int tl_role = kRoleOther;
thread_local int tl_inTimedWait = 0;

static void runC19(long base) {
  const bool th = vrt::thorough();
  const long nThen = vrt::g_args.getInt("then", th ? 24000 : 1400);
  const long nComb = vrt::g_args.getInt("comb", th ? 16000 : 900);
  const long nVar = vrt::g_args.getInt("var", th ? 8000 : 450);
  const long nStress = vrt::g_args.getInt("stress", th ? 640 : 64);
  runC19Then(base, nThen);
  runC19Comb(base + nThen, nComb);
  runC19Var(base + nThen + nComb, nVar);
  runC19Stress(base + nThen + nComb + nVar, nStress);
}

int main(int argc, char** argv) {
  vrt::init(argc, argv);
  // Initialise NewThreadInvoker's function-local static tracker while the process is still
  // single-threaded (a contended first use goes through __cxa_guard_acquire -> syscall(SYS_futex)
  // with 4 arguments, which the runtime's 6-argument syscall() interposer over-reads under ASan).
  dispenso::NewThreadInvoker().schedule([]() {});
  dispenso::detail::drainNewThreadInvokerThreads();
  std::string p = vrt::g_args.prop;
  // sanitizer sweeps (C10 / C11) re-run the engine's own case sets; --workload picks one
  if (p == "C10" || p == "C11") p = vrt::g_args.get("workload", "all");
  if (p == "C18") runC18(0);
  else if (p == "C19") runC19(0);
  else if (p == "C20") runC20(0);
  else if (p == "all") {
    runC18(0);
    runC19(10000000);
    runC20(20000000);
  } else {
    fprintf(stderr, "h_future: unknown property %s\n", p.c_str());
    return 2;
  }
  return vrt::finish();
}
