// Engine h_misc: C43 (CpuSet algebra, CPU-list parsing, cache-topology grouping) and C44 (bit-math helpers,
// alignedMalloc). Both are differential checks of the real functions against independent references.
#include <dispenso/cpu_set.h>
#include <dispenso/detail/math.h>
#include <dispenso/platform.h>
#include <dispenso/util.h>

#include <algorithm>
#include <climits>
#include <map>
#include <set>
#include <string>
#include <vector>

#include "verif_rt.h"

using vrt::J;

namespace {

bool firstFew(const std::string& fullKey) {
  static std::map<std::string, int> seen;
  return seen[fullKey]++ < 3;
}
void report(const std::string& msg, const J& detail, const std::string& subkey) {
  if (firstFew(vrt::currentCaseKey() + "/" + subkey)) vrt::violation(msg, detail, subkey);
}

// =================================================================== C43
constexpr int kSetSize = 1024; // the representable ids: [0, CPU_SETSIZE)
static_assert(CPU_SETSIZE == kSetSize, "the reference model assumes the Linux cpu_set_t capacity");

const char* idClass(int32_t id) {
  if (id == INT32_MIN || id == INT32_MAX) return "extreme";
  if (id < 0) return "negative";
  if (id >= kSetSize) return "beyond";
  return "in-range";
}
int32_t genId(vrt::Rng& r) {
  static const int32_t edge[] = {INT32_MIN, INT32_MIN + 1, -65536, -1025, -1024, -2, -1, 0, 1, 2, 31, 32, 63, 64, 65, 127, 128, 511, 512, 1021, 1022, 1023, 1024, 1025, 1026, 2047, 2048, 65535, 1 << 20, (1 << 20) + 1, INT32_MAX - 1, INT32_MAX};
  switch (r.below(5)) {
    case 0: return edge[r.below(sizeof(edge) / sizeof(edge[0]))];
    case 1: return static_cast<int32_t>(r.range(-40, kSetSize + 40));
    case 2: return static_cast<int32_t>(static_cast<uint32_t>(r.next()));
    default: return static_cast<int32_t>(r.below(kSetSize));
  }
}

// full comparison of the set with the model; returns false after reporting
bool compareSet(const dispenso::CpuSet& s, const std::set<int>& model, const std::string& subkey, const J& detail) {
  if (s.count() != static_cast<int32_t>(model.size())) {
    report("count() is " + std::to_string(s.count()) + " but the set holds " + std::to_string(model.size()) + " ids", detail, subkey);
    return false;
  }
  for (int i = -3; i < kSetSize + 6; ++i) {
    bool want = model.count(i) != 0;
    if (s.contains(i) != want) {
      report("contains(" + std::to_string(i) + ") is " + (want ? "false" : "true") + " but the id was " + (want ? "added" : "not added / removed"), detail, subkey);
      return false;
    }
  }
  static const int32_t far[] = {INT32_MIN, INT32_MIN + 1, -100000, -1025, 2047, 2048, 65536, 1 << 20, INT32_MAX - 1, INT32_MAX};
  for (int32_t f : far) {
    if (s.contains(f)) {
      report("contains(" + std::to_string(f) + ") is true for an id outside the representable range", detail, subkey);
      return false;
    }
  }
  return true;
}
void modelRange(std::set<int>& m, int32_t a, int32_t b, bool add) {
  long lo = std::max<long>(a, 0), hi = std::min<long>(b, kSetSize);
  for (long i = lo; i < hi; ++i) {
    if (add) m.insert(static_cast<int>(i));
    else m.erase(static_cast<int>(i));
  }
}

void setRandomCase(long idx) {
  vrt::Rng r = vrt::caseRng(idx);
  const long nOps = 250;
  vrt::caseBegin(idx, "set/random", J().kv("ops", nOps));
  dispenso::CpuSet s;
  std::set<int> m;
  long mutations = 0;
  bool ok = compareSet(s, m, "fresh", J());
  std::vector<std::string> cls{"set-random"};
  auto addCls = [&](const std::string& c) {
    if (std::find(cls.begin(), cls.end(), c) == cls.end()) cls.push_back(c);
  };
  for (long k = 0; ok && k < nOps; ++k) {
    int op = static_cast<int>(r.below(8));
    int32_t a = genId(r), b = genId(r);
    if (r.chance(0.5) && a < b && static_cast<long>(b) - a > 64) b = static_cast<int32_t>(a + static_cast<int32_t>(r.below(64)));
    std::string sub;
    J d;
    switch (op) {
      case 0:
      case 1:
        s.add(a);
        if (a >= 0 && a < kSetSize) m.insert(a);
        sub = std::string("add/") + idClass(a);
        d.kv("op", "add").kv("id", a);
        ++mutations;
        break;
      case 2:
        s.remove(a);
        if (a >= 0 && a < kSetSize) m.erase(a);
        sub = std::string("remove/") + idClass(a);
        d.kv("op", "remove").kv("id", a);
        ++mutations;
        break;
      case 3:
      case 4:
        s.addRange(a, b);
        modelRange(m, a, b, true);
        sub = std::string("addRange/") + idClass(a) + "/" + idClass(b);
        d.kv("op", "addRange").kv("start", a).kv("end", b);
        ++mutations;
        break;
      case 5:
        s.removeRange(a, b);
        modelRange(m, a, b, false);
        sub = std::string("removeRange/") + idClass(a) + "/" + idClass(b);
        d.kv("op", "removeRange").kv("start", a).kv("end", b);
        ++mutations;
        break;
      case 6: {
        bool want = a >= 0 && a < kSetSize && m.count(a);
        sub = std::string("contains/") + idClass(a);
        if (s.contains(a) != want) {
          report("contains(" + std::to_string(a) + ") wrong", J().kv("id", a), sub);
          ok = false;
        }
        continue;
      }
      default:
        if (r.chance(0.15)) {
          s.clear();
          m.clear();
          sub = "clear";
          d.kv("op", "clear");
        } else {
          dispenso::CpuSet copy(s);
          s = copy;
          sub = "copy";
          d.kv("op", "copy");
        }
        break;
    }
    addCls("id:" + std::string(idClass(a)));
    d.kv("step", k);
    ok = compareSet(s, m, sub, d);
    vrt::progress();
  }
  vrt::caseEnd(J().kv("mutations", mutations).kv("finalCount", static_cast<long>(m.size())), mutations >= 2 ? "set/random#" + std::to_string(idx) : "", cls);
}

// every single operation over a structured id list, on four base sets
void setExhaustiveCase(long idx, int base) {
  static const char* baseNames[] = {"empty", "full", "evens", "random"};
  vrt::caseBegin(idx, std::string("set/single-op/") + baseNames[base], J().kv("base", baseNames[base]));
  vrt::Rng r = vrt::caseRng(idx);
  dispenso::CpuSet b0;
  std::set<int> m0;
  for (int i = 0; i < kSetSize; ++i) {
    bool in = base == 1 || (base == 2 && i % 2 == 0) || (base == 3 && r.chance(0.5));
    if (in) {
      b0.add(i);
      m0.insert(i);
    }
  }
  long evals = 0;
  bool ok = compareSet(b0, m0, "base", J());
  std::vector<int32_t> ids;
  for (int i = -1030; i <= 1030; ++i) ids.push_back(i);
  for (int sh = 11; sh < 31; ++sh) {
    ids.push_back(1 << sh);
    ids.push_back((1 << sh) - 1);
    ids.push_back(-(1 << sh));
  }
  ids.insert(ids.end(), {INT32_MIN, INT32_MIN + 1, INT32_MAX - 1, INT32_MAX});
  for (size_t k = 0; ok && k < ids.size(); ++k) {
    int32_t id = ids[k];
    bool inr = id >= 0 && id < kSetSize;
    {
      dispenso::CpuSet s(b0);
      std::set<int> m(m0);
      s.add(id);
      if (inr) m.insert(id);
      ok = ok && compareSet(s, m, std::string("add/") + idClass(id), J().kv("id", id));
      s.remove(id);
      if (inr) m.erase(id);
      ok = ok && compareSet(s, m, std::string("remove/") + idClass(id), J().kv("id", id));
      evals += 2;
    }
    vrt::progress();
  }
  static const int32_t bnd[] = {INT32_MIN, -1024, -1, 0, 1, 63, 64, 65, 511, 1022, 1023, 1024, 1025, 2047, 1 << 20, INT32_MAX - 1, INT32_MAX};
  for (int32_t a : bnd)
    for (int32_t b : bnd) {
      if (!ok) break;
      dispenso::CpuSet s(b0);
      std::set<int> m(m0);
      s.addRange(a, b);
      modelRange(m, a, b, true);
      ok = ok && compareSet(s, m, std::string("addRange/") + idClass(a) + "/" + idClass(b), J().kv("start", a).kv("end", b));
      dispenso::CpuSet s2(b0);
      std::set<int> m2(m0);
      s2.removeRange(a, b);
      modelRange(m2, a, b, false);
      ok = ok && compareSet(s2, m2, std::string("removeRange/") + idClass(a) + "/" + idClass(b), J().kv("start", a).kv("end", b));
      evals += 2;
    }
  vrt::caseEnd(J().kv("_evals", evals).kv("_nt", evals), std::string("set/single-op/") + baseNames[base], {"set-single-op", "id:negative", "id:beyond", "id:extreme", "id:in-range"});
}

// ---- CPU-list reference parser (kernel grammar subset: N | A-B, comma separated, optional trailing newline)
struct Tok {
  unsigned long long lo, hi;
  bool range;
};
// returns false if the string is not in the grammar the oracle covers
bool refParse(const std::string& in, std::vector<Tok>& toks) {
  std::string s = in;
  if (!s.empty() && s.back() == '\n') s.pop_back();
  if (s.empty()) return true;
  size_t p = 0;
  auto num = [&](unsigned long long& v) {
    size_t st = p;
    v = 0;
    while (p < s.size() && s[p] >= '0' && s[p] <= '9') {
      if (v < (1ull << 60)) v = v * 10 + static_cast<unsigned long long>(s[p] - '0');
      ++p;
    }
    return p > st && p - st <= 18;
  };
  while (true) {
    Tok t{0, 0, false};
    if (!num(t.lo)) return false;
    t.hi = t.lo;
    if (p < s.size() && s[p] == '-') {
      ++p;
      t.range = true;
      if (!num(t.hi)) return false;
      if (t.hi < t.lo) return false;
    }
    toks.push_back(t);
    if (p == s.size()) return true;
    if (s[p] != ',') return false;
    ++p;
    if (p == s.size()) return false;
  }
}
constexpr unsigned long long kTwo20 = 1ull << 20;

// returns true if checked with the oracle
bool parseCheck(const std::string& in, long& oracleChecked, long& nonTrivial) {
  std::vector<Tok> toks;
  bool gram = refParse(in, toks);
  dispenso::CpuSet got = dispenso::detail::parseLinuxCpuList(in.c_str());
  if (!gram) {
    // outside the oracle's grammar: only sanity (never an id outside the range, count consistent)
    int c = 0;
    for (int i = 0; i < kSetSize; ++i) c += got.contains(i) ? 1 : 0;
    if (c != got.count()) report("count() inconsistent with contains() after parsing", J().kv("input", in), "junk");
    return false;
  }
  ++oracleChecked;
  std::set<int> want, explained;
  bool big = false, mid = false;
  for (const Tok& t : toks) {
    if (t.hi >= static_cast<unsigned long long>(kSetSize)) mid = true;
    if (t.hi > kTwo20) big = true;
    for (unsigned long long i = t.lo; i <= t.hi && i < static_cast<unsigned long long>(kSetSize); ++i) {
      want.insert(static_cast<int>(i));
      if (t.range && t.hi > kTwo20) explained.insert(static_cast<int>(i));
    }
  }
  if (!want.empty()) ++nonTrivial;
  std::vector<int> missing, extra;
  for (int i = 0; i < kSetSize; ++i) {
    bool w = want.count(i) != 0, g = got.contains(i);
    if (w && !g) missing.push_back(i);
    if (!w && g) extra.push_back(i);
  }
  if (missing.empty() && extra.empty() && got.count() == static_cast<int32_t>(want.size())) return true;
  // classification of the scenario: which kind of token the string contains
  bool allExplained = extra.empty() && !missing.empty();
  for (int i : missing) allExplained = allExplained && explained.count(i) && [&] {
    // the id must not be covered by any token that is not a beyond-2^20 range
    for (const Tok& t : toks)
      if (!(t.range && t.hi > kTwo20) && static_cast<unsigned long long>(i) >= t.lo && static_cast<unsigned long long>(i) <= t.hi) return false;
    return true;
  }();
  std::string sub = allExplained ? "range-hi-beyond-2^20/in-range-part-dropped" : (big ? "ids-beyond-2^20" : (mid ? "ids-beyond-setsize" : "ids-in-range"));
  std::string shown = in;
  for (auto& ch : shown)
    if (ch == '\n') ch = '$';
  report("parsed set differs: " + std::to_string(missing.size()) + " ids missing (first " + (missing.empty() ? std::string("-") : std::to_string(missing[0])) + "), " + std::to_string(extra.size()) + " extra (first " + (extra.empty() ? std::string("-") : std::to_string(extra[0])) + ")",
         J().kv("input", shown).kv("expectedCount", static_cast<long>(want.size())).kv("gotCount", got.count()), sub);
  return true;
}

void parseEnumCase(long idx, int first, int maxLen) {
  static const char alpha[] = {'0', '1', '2', '3', '4', '9', '-', ','};
  const int A = sizeof(alpha);
  vrt::caseBegin(idx, "parse/enumerated", J().kv("firstChar", std::string(1, alpha[first])).kv("maxLen", maxLen));
  long evals = 0, oracle = 0, nt = 0;
  // all strings over the alphabet that start with alpha[first], lengths 1..maxLen, with and without trailing newline
  for (int len = 1; len <= maxLen; ++len) {
    long total = 1;
    for (int i = 1; i < len; ++i) total *= A;
    for (long code = 0; code < total; ++code) {
      std::string s(static_cast<size_t>(len), alpha[first]);
      long c = code;
      for (int i = 1; i < len; ++i) {
        s[static_cast<size_t>(i)] = alpha[c % A];
        c /= A;
      }
      parseCheck(s, oracle, nt);
      ++evals;
      if ((code & 7) == 0) {
        parseCheck(s + "\n", oracle, nt);
        ++evals;
      }
    }
    vrt::progress();
  }
  vrt::caseEnd(J().kv("_evals", evals).kv("_nt", nt).kv("inGrammar", oracle), "parse/enum/" + std::to_string(first), {"parse-enumerated"});
}

std::string genNumber(vrt::Rng& r, int& cls) {
  unsigned long long v;
  switch (r.below(8)) {
    case 0:
    case 1:
    case 2: v = r.below(kSetSize); break;
    case 3: v = static_cast<unsigned long long>(r.range(kSetSize - 3, kSetSize + 3)); break;
    case 4: v = kSetSize + r.below(kTwo20 - kSetSize); break;
    case 5: v = static_cast<unsigned long long>(static_cast<long>(kTwo20) + r.range(-2, 2)); break;
    case 6: v = kTwo20 + r.below((1ull << 31) - kTwo20 + 5); break;
    default: v = (1ull << 31) + r.below(1ull << 33); break;
  }
  cls = std::max(cls, v > kTwo20 ? 2 : (v >= static_cast<unsigned long long>(kSetSize) ? 1 : 0));
  std::string s = std::to_string(v);
  if (r.chance(0.05)) s = "00" + s;
  return s;
}
void parseRandomCase(long idx) {
  vrt::Rng r = vrt::caseRng(idx);
  const long per = 400;
  vrt::caseBegin(idx, "parse/random", J().kv("strings", per));
  long oracle = 0, nt = 0;
  bool sawBigRange = false, sawBeyond = false;
  for (long k = 0; k < per; ++k) {
    std::string s;
    long ntok = r.range(1, 6);
    for (long t = 0; t < ntok; ++t) {
      if (t) s += ",";
      int cls = 0;
      if (r.chance(0.5)) {
        s += genNumber(r, cls);
      } else {
        // A-B with A <= B
        int c1 = 0, c2 = 0;
        std::string a = genNumber(r, c1), b = genNumber(r, c2);
        unsigned long long va = std::stoull(a), vb = std::stoull(b);
        if (va > vb) std::swap(a, b);
        if (r.chance(0.3)) {
          // short in-range span
          unsigned long long lo = r.below(kSetSize - 20);
          a = std::to_string(lo);
          b = std::to_string(lo + r.below(20));
        }
        if (std::max(va, vb) > kTwo20 && std::min(va, vb) < static_cast<unsigned long long>(kSetSize)) sawBigRange = true;
        s += a + "-" + b;
        cls = std::max(c1, c2);
      }
      if (cls >= 1) sawBeyond = true;
    }
    if (r.chance(0.5)) s += "\n";
    parseCheck(s, oracle, nt);
  }
  // arbitrary bytes: sanitizer cleanliness + internal consistency only
  for (long k = 0; k < 50; ++k) {
    std::string s;
    long len = r.range(0, 40);
    for (long i = 0; i < len; ++i) {
      static const char pool[] = "0123456789-,\n ;:x+";
      char c = r.chance(0.85) ? pool[r.below(sizeof(pool) - 1)] : static_cast<char>(r.range(1, 255));
      s += c;
    }
    long o2 = 0, n2 = 0;
    parseCheck(s, o2, n2);
  }
  std::vector<std::string> cls{"parse-random"};
  if (sawBigRange) cls.push_back("parse-range-in-to-beyond-2^20");
  if (sawBeyond) cls.push_back("parse-ids-beyond-setsize");
  vrt::caseEnd(J().kv("_evals", per + 50).kv("_nt", nt).kv("inGrammar", oracle), "parse/random#" + std::to_string(idx), cls);
}

// ---- grouping
struct GroupBlock {
  std::vector<std::string> cls;
  long nontrivial = 0;
  void add(const std::string& c) {
    if (std::find(cls.begin(), cls.end(), c) == cls.end()) cls.push_back(c);
  }
};
void groupOne(vrt::Rng& r, GroupBlock& blk) {
  // CPU ids: mostly dense, sometimes sparse, sometimes reaching beyond the CpuSet range
  long nCpu = r.chance(0.1) ? r.range(1, 3) : r.range(2, 160);
  std::vector<int32_t> cpus;
  {
    int32_t id = r.chance(0.8) ? 0 : static_cast<int32_t>(r.below(900));
    bool sparse = r.chance(0.25);
    for (long i = 0; i < nCpu; ++i) {
      cpus.push_back(id);
      id += 1 + (sparse && r.chance(0.3) ? static_cast<int32_t>(r.below(9)) : 0);
    }
  }
  // L2 partition: contiguous runs of 1..8, or SMT style (i, i + n/2)
  std::vector<dispenso::CacheGroup> l2;
  int l2Style = static_cast<int>(r.below(3));
  if (l2Style == 2 && nCpu % 2 == 0 && nCpu >= 2) {
    long h = nCpu / 2;
    for (long i = 0; i < h; ++i) l2.push_back({{cpus[static_cast<size_t>(i)], cpus[static_cast<size_t>(i + h)]}, static_cast<int32_t>(i)});
  } else {
    long maxL2 = l2Style == 0 ? r.range(1, 2) : r.range(1, 8);
    size_t i = 0;
    int32_t cid = 0;
    while (i < cpus.size()) {
      size_t len = static_cast<size_t>(r.chance(0.7) ? maxL2 : r.range(1, maxL2));
      dispenso::CacheGroup g;
      g.cacheId = cid++;
      for (size_t k = 0; k < len && i < cpus.size(); ++k) g.cpus.push_back(cpus[i++]);
      l2.push_back(g);
    }
  }
  if (r.chance(0.1)) l2.insert(l2.begin() + static_cast<long>(r.below(l2.size() + 1)), dispenso::CacheGroup{{}, 999}); // an empty group is skipped
  // sorted by first CPU id (the API's documented order); empty groups keep their place
  // L3 = unions of L2 groups; some L2 groups in no L3
  int l3Style = static_cast<int>(r.below(4)); // 0 none, 1 contiguous, 2 interleaved, 3 contiguous with holes
  std::vector<int> l3Of(l2.size(), -1);
  int nL3 = 0;
  if (l3Style != 0 && !l2.empty()) {
    nL3 = static_cast<int>(r.range(1, 6));
    if (l3Style == 2) {
      for (size_t i = 0; i < l2.size(); ++i) l3Of[i] = static_cast<int>(r.below(static_cast<uint64_t>(nL3)));
    } else {
      size_t per = (l2.size() + static_cast<size_t>(nL3) - 1) / static_cast<size_t>(nL3);
      for (size_t i = 0; i < l2.size(); ++i) l3Of[i] = static_cast<int>(i / per);
    }
    if (l3Style == 3 || r.chance(0.2))
      for (size_t i = 0; i < l2.size(); ++i)
        if (r.chance(0.2)) l3Of[i] = -1;
  }
  std::vector<dispenso::CacheGroup> l3(static_cast<size_t>(nL3));
  for (int g = 0; g < nL3; ++g) l3[static_cast<size_t>(g)].cacheId = g;
  for (size_t i = 0; i < l2.size(); ++i)
    if (l3Of[i] >= 0)
      for (int32_t c : l2[i].cpus) l3[static_cast<size_t>(l3Of[i])].cpus.push_back(c);
  // an L3 order that is not sorted by index is legitimate input as well
  std::vector<size_t> l3Perm(l3.size());
  for (size_t i = 0; i < l3.size(); ++i) l3Perm[i] = i;
  if (r.chance(0.3))
    for (size_t i = l3Perm.size(); i > 1; --i) std::swap(l3Perm[i - 1], l3Perm[r.below(i)]);
  std::vector<dispenso::CacheGroup> l3In;
  for (size_t i : l3Perm)
    if (!l3[i].cpus.empty() || r.chance(0.5)) l3In.push_back(l3[i]);
  int32_t largestL2 = 0;
  for (auto& g : l2) largestL2 = std::max<int32_t>(largestL2, static_cast<int32_t>(g.cpus.size()));
  static const int32_t maxes[] = {INT32_MIN, -1, 0, 1, 2, 3, 4, 5, 8, 16, 17, 64, 1000, INT32_MAX};
  int32_t maxGroup = maxes[r.below(sizeof(maxes) / sizeof(maxes[0]))];
  if (r.chance(0.3)) maxGroup = static_cast<int32_t>(r.range(1, 40));
  const char* l3Names[] = {"no-l3", "contiguous-l3", "interleaved-l3", "partial-l3"};
  std::string maxCls = maxGroup <= 0 ? "max<=0" : (maxGroup < largestL2 ? "max<l2" : "max>=l2");
  std::string key = std::string(l3Names[l3Style]) + "/" + maxCls;
  J spec;
  spec.kv("cpus", nCpu).kv("firstCpu", cpus.front()).kv("lastCpu", cpus.back()).kv("l2Groups", static_cast<long>(l2.size())).kv("l2Style", l2Style).kv("l3Groups", static_cast<long>(l3In.size())).kv("l3Style", l3Names[l3Style]).kv("maxGroupSize", maxGroup).kv("largestL2", largestL2);
  std::vector<dispenso::ThreadGroup> out = dispenso::detail::buildGroupsFromCacheTopology(l2, l3In, maxGroup);
  // invariants
  std::map<int32_t, int> cpuToOut;
  bool dup = false;
  long total = 0;
  for (size_t g = 0; g < out.size(); ++g)
    for (int32_t c : out[g].cpus) {
      ++total;
      if (!cpuToOut.emplace(c, static_cast<int>(g)).second) dup = true;
    }
  std::set<int32_t> l2Cpus;
  for (auto& g : l2) l2Cpus.insert(g.cpus.begin(), g.cpus.end());
  bool covers = true;
  for (int32_t c : l2Cpus) covers = covers && cpuToOut.count(c);
  if (dup || !covers || total != static_cast<long>(l2Cpus.size()))
    report("groups are not a partition of the L2 CPUs", J().kv("cpusInGroups", total).kv("l2Cpus", static_cast<long>(l2Cpus.size())).kv("duplicate", dup).kv("allCovered", covers).kv("topology", spec), key + "/partition");
  else {
    bool split = false;
    for (auto& g : l2) {
      for (int32_t c : g.cpus) split = split || cpuToOut[c] != cpuToOut[g.cpus[0]];
    }
    if (split) report("an L2 group is split over two thread groups", spec, key + "/l2-split");
    std::map<int32_t, int> cpuToL3;
    for (size_t g = 0; g < l3In.size(); ++g)
      for (int32_t c : l3In[g].cpus) cpuToL3[c] = static_cast<int>(g);
    bool mix = false;
    for (auto& g : out) {
      int seen = -1;
      for (int32_t c : g.cpus) {
        auto it = cpuToL3.find(c);
        if (it == cpuToL3.end()) continue;
        if (seen >= 0 && it->second != seen) mix = true;
        seen = it->second;
      }
    }
    if (mix) report("a thread group mixes CPUs of two known L3 groups", spec, key + "/l3-mix");
    long bound = std::max<long>(maxGroup, largestL2);
    long biggest = 0;
    for (auto& g : out) biggest = std::max<long>(biggest, static_cast<long>(g.cpus.size()));
    if (biggest > bound) report("a thread group has " + std::to_string(biggest) + " CPUs, bound is " + std::to_string(bound), spec, key + "/size");
  }
  blk.add(std::string("group:") + l3Names[l3Style]);
  blk.add("group:" + maxCls);
  if (out.size() >= 2) blk.add("group:multiple-groups");
  if (cpus.back() >= kSetSize) blk.add("group:cpu-beyond-setsize");
  if (l2.size() >= 2) ++blk.nontrivial;
}
constexpr long kGroupPerCase = 64;
void groupCase(long idx) {
  vrt::Rng r = vrt::caseRng(idx);
  vrt::caseBegin(idx, "group", J().kv("topologies", kGroupPerCase));
  GroupBlock blk;
  for (long k = 0; k < kGroupPerCase; ++k) {
    groupOne(r, blk);
    vrt::progress();
  }
  vrt::caseEnd(J().kv("_evals", kGroupPerCase).kv("_nt", blk.nontrivial), "group#" + std::to_string(idx), blk.cls);
}

void runC43() {
  const bool th = vrt::thorough();
  const long nSet = vrt::g_args.getInt("nset", th ? 4000 : 400);
  const long nParse = vrt::g_args.getInt("nparse", th ? 3000 : 300);
  const long nGroup = vrt::g_args.getInt("ngroup", th ? 200000 : 20000);
  const int maxLen = static_cast<int>(vrt::g_args.getInt("maxlen", th ? 7 : 6));
  vrt::leakCheckEvery(64); // thousands of tiny cases; the at-exit check still runs
  long idx = 0;
  for (long k = 0; k < nSet; ++k, ++idx)
    if (vrt::selected(idx)) setRandomCase(idx);
  for (int b = 0; b < 4; ++b, ++idx)
    if (vrt::selected(idx)) setExhaustiveCase(idx, b);
  for (int f = 0; f < 8; ++f, ++idx)
    if (vrt::selected(idx)) parseEnumCase(idx, f, maxLen);
  for (long k = 0; k < nParse; ++k, ++idx)
    if (vrt::selected(idx)) parseRandomCase(idx);
  for (long k = 0; k < (nGroup + kGroupPerCase - 1) / kGroupPerCase; ++k, ++idx)
    if (vrt::selected(idx)) groupCase(idx);
}

// =================================================================== C44
struct Tables {
  int8_t hiBit[256]; // floor(log2(b)), -1 for 0
  int8_t loBit[256]; // trailing zeros of b, 8 for 0
  int8_t ones[256];
  Tables() {
    for (int b = 0; b < 256; ++b) {
      int h = -1, l = 8, o = 0;
      for (int k = 0; k < 8; ++k)
        if (b & (1 << k)) {
          h = k;
          if (l == 8) l = k;
          ++o;
        }
      hiBit[b] = static_cast<int8_t>(h);
      loBit[b] = static_cast<int8_t>(l);
      ones[b] = static_cast<int8_t>(o);
    }
  }
};
const Tables& tab() {
  static Tables t;
  return t;
}
inline int refLog2(uint64_t v) { // v != 0
  for (int byte = 7; byte >= 0; --byte) {
    unsigned b = static_cast<unsigned>((v >> (8 * byte)) & 0xff);
    if (b) return 8 * byte + tab().hiBit[b];
  }
  return -1;
}
inline int refCtz(uint64_t v) { // v != 0
  for (int byte = 0; byte < 8; ++byte) {
    unsigned b = static_cast<unsigned>((v >> (8 * byte)) & 0xff);
    if (b) return 8 * byte + tab().loBit[b];
  }
  return 64;
}
inline int refPop(uint64_t v) {
  int s = 0;
  for (int byte = 0; byte < 8; ++byte) s += tab().ones[(v >> (8 * byte)) & 0xff];
  return s;
}

struct BitStats {
  unsigned long long evals = 0, nontrivial = 0;
  std::map<std::string, std::pair<unsigned long long, std::string>> bad; // function -> (count, first witness)
  void fail(const char* fn, uint64_t v, uint64_t got, uint64_t want) {
    auto& b = bad[fn];
    if (!b.first++) b.second = "input " + std::to_string(v) + ": got " + std::to_string(got) + ", expected " + std::to_string(want);
  }
};

namespace dd = dispenso::detail;

// all 64-bit capable functions on one value
inline void check64(uint64_t v, BitStats& st) {
  ++st.evals;
  int pop = refPop(v);
  if (dd::countSetBits(v) != pop) st.fail("countSetBits", v, static_cast<uint64_t>(dd::countSetBits(v)), static_cast<uint64_t>(pop));
  if (v != 0) {
    ++st.nontrivial;
    int lg = refLog2(v);
    uint32_t a = dd::log2(v);
    if (a != static_cast<uint32_t>(lg)) st.fail("log2/64", v, a, static_cast<uint64_t>(lg));
    uint32_t b = dd::log2const(v);
    if (b != static_cast<uint32_t>(lg)) st.fail("log2const/64", v, b, static_cast<uint64_t>(lg));
    int tz = refCtz(v);
    if (dd::countTrailingZeros(v) != tz) st.fail("countTrailingZeros", v, static_cast<uint64_t>(dd::countTrailingZeros(v)), static_cast<uint64_t>(tz));
    if (v <= (uint64_t{1} << 63)) {
      uint64_t want = pop == 1 ? v : (uint64_t{1} << (lg + 1));
      uint64_t got = dd::nextPow2(v);
      if (got != want) st.fail("nextPow2", v, got, want);
    }
  }
  if (v <= UINT64_MAX - 63) {
    uint64_t want = (v / 64 + (v % 64 ? 1 : 0)) * 64;
    uint64_t got = dispenso::alignToCacheLine(static_cast<uintptr_t>(v));
    if (got != want) st.fail("alignToCacheLine", v, got, want);
  }
}
inline void check32(uint32_t v, BitStats& st) {
  if (v == 0) return;
  int lg = refLog2(v);
  uint32_t a = dd::log2(v);
  if (a != static_cast<uint32_t>(lg)) st.fail("log2/32", v, a, static_cast<uint64_t>(lg));
  uint32_t b = dd::log2const(v);
  if (b != static_cast<uint32_t>(lg)) st.fail("log2const/32", v, b, static_cast<uint64_t>(lg));
}
// the generic overloads (types that are neither uint32_t nor uint64_t)
inline void checkOtherTypes(uint64_t v, BitStats& st) {
  if (v == 0) return;
  int lg = refLog2(v);
  if (dd::log2(static_cast<unsigned long long>(v)) != static_cast<uint32_t>(lg)) st.fail("log2/ulonglong", v, dd::log2(static_cast<unsigned long long>(v)), static_cast<uint64_t>(lg));
  if (dd::log2const(static_cast<unsigned long long>(v)) != static_cast<uint32_t>(lg)) st.fail("log2const/ulonglong", v, dd::log2const(static_cast<unsigned long long>(v)), static_cast<uint64_t>(lg));
  uint16_t s = static_cast<uint16_t>(v);
  if (s) {
    int l16 = refLog2(s);
    if (dd::log2(s) != static_cast<uint32_t>(l16)) st.fail("log2/u16", s, dd::log2(s), static_cast<uint64_t>(l16));
    if (dd::log2const(s) != static_cast<uint32_t>(l16)) st.fail("log2const/u16", s, dd::log2const(s), static_cast<uint64_t>(l16));
  }
  int i = static_cast<int>(v & 0x7fffffff);
  if (i) {
    int li = refLog2(static_cast<uint64_t>(i));
    if (dd::log2(i) != static_cast<uint32_t>(li)) st.fail("log2/int", static_cast<uint64_t>(i), dd::log2(i), static_cast<uint64_t>(li));
  }
}

static_assert(dd::log2const(uint64_t{1} << 40) == 40, "log2const must be usable in constant expressions");
static_assert(dd::log2const(uint32_t{1} << 31) == 31, "log2const must be usable in constant expressions");
static_assert(dd::nextPow2(uint64_t{1000}) == 1024, "nextPow2 must be usable in constant expressions");

void finishBits(const BitStats& st, const std::string& sig, const std::vector<std::string>& cls) {
  for (auto& b : st.bad) report(b.first + " wrong for " + std::to_string(b.second.first) + " inputs; " + b.second.second, J().kv("function", b.first), b.first);
  vrt::caseEnd(J().kv("_evals", st.evals).kv("_nt", st.nontrivial).kv("badFunctions", static_cast<long>(st.bad.size())), sig, cls);
}

void bitsWindowCase(long idx, int shift) {
  // every 16-bit pattern placed at `shift`, alone, with all lower bits set, and with bit 0 / the top bit added
  vrt::caseBegin(idx, "bits/window16/shift" + std::to_string(shift), J().kv("shift", shift));
  BitStats st;
  for (uint64_t p = 0; p < 65536; ++p) {
    uint64_t v = p << shift;
    uint64_t low = shift ? ((uint64_t{1} << shift) - 1) : 0;
    const uint64_t variants[] = {v, v | low, v | 1, v + 1, v - 1, v | (uint64_t{1} << 63), ~v};
    for (uint64_t x : variants) {
      check64(x, st);
      check32(static_cast<uint32_t>(x), st);
      check32(static_cast<uint32_t>(x >> 32), st);
    }
    if ((p & 255) == 0) {
      checkOtherTypes(v, st);
      vrt::progress();
    }
  }
  finishBits(st, "bits/window16/" + std::to_string(shift), {"bits-16bit-exhaustive"});
}
void bitsSparseCase(long idx) {
  vrt::caseBegin(idx, "bits/sparse", J().kv("what", "all values with <= 3 set bits, their complements, 2^k +- {0,1,2}"));
  BitStats st;
  auto both = [&](uint64_t v) {
    check64(v, st);
    check64(~v, st);
    check32(static_cast<uint32_t>(v), st);
    check32(static_cast<uint32_t>(~v), st);
    checkOtherTypes(v, st);
  };
  both(0);
  for (int a = 0; a < 64; ++a) {
    uint64_t va = uint64_t{1} << a;
    both(va);
    for (int d = -2; d <= 2; ++d) both(va + static_cast<uint64_t>(d));
    for (int b = a + 1; b < 64; ++b) {
      uint64_t vb = va | (uint64_t{1} << b);
      both(vb);
      for (int c = b + 1; c < 64; ++c) both(vb | (uint64_t{1} << c));
    }
    vrt::progress();
  }
  finishBits(st, "bits/sparse", {"bits-structured"});
}
void bitsRandomCase(long idx, long n) {
  vrt::Rng r = vrt::caseRng(idx);
  vrt::caseBegin(idx, "bits/random", J().kv("n", n));
  BitStats st;
  for (long k = 0; k < n; ++k) {
    uint64_t v = r.next();
    int sh = static_cast<int>(r.below(64));
    uint64_t variants[] = {v, v >> sh, v << sh, v & r.next() & r.next()};
    for (uint64_t x : variants) {
      check64(x, st);
      check32(static_cast<uint32_t>(x), st);
    }
    if ((k & 1023) == 0) {
      checkOtherTypes(v >> sh, st);
      vrt::progress();
    }
  }
  finishBits(st, "bits/random#" + std::to_string(idx), {"bits-random"});
}
// thorough: one 2^20 slice of the full 32-bit space
void bitsSliceCase(long idx, uint32_t slice) {
  vrt::caseBegin(idx, "bits/exhaustive32", J().kv("slice", slice).kv("of", 4096));
  BitStats st;
  uint64_t base = static_cast<uint64_t>(slice) << 20;
  for (uint64_t o = 0; o < (uint64_t{1} << 20); ++o) {
    uint64_t v = base + o;
    check64(v, st);
    check32(static_cast<uint32_t>(v), st);
    if ((o & 0xffff) == 0) vrt::progress();
  }
  finishBits(st, "bits/exhaustive32/" + std::to_string(slice), {"bits-32bit-exhaustive"});
}
void alignedMallocCase(long idx, int lg) {
  size_t al = size_t{1} << lg;
  vrt::caseBegin(idx, "alignedMalloc/2^" + std::to_string(lg), J().kv("alignment", static_cast<uint64_t>(al)));
  long evals = 0, bad = 0;
  std::vector<void*> keep;
  for (size_t bytes = 0; bytes <= 4097; ++bytes) {
    void* p = dispenso::alignedMalloc(bytes, al);
    ++evals;
    if (!p) {
      if (!bad++) report("alignedMalloc returned nullptr", J().kv("bytes", static_cast<uint64_t>(bytes)), "null");
      continue;
    }
    if (reinterpret_cast<uintptr_t>(p) % al) {
      if (!bad++) report("alignedMalloc(" + std::to_string(bytes) + ", " + std::to_string(al) + ") returned an address that is not a multiple of the alignment", J().kv("addressMod", static_cast<uint64_t>(reinterpret_cast<uintptr_t>(p) % al)), "misaligned");
    }
    if (bytes) std::memset(p, 0xA5, bytes); // the whole block must be usable (ASan checks the bounds)
    if (bytes % 7 == 0) keep.push_back(p);
    else dispenso::alignedFree(p);
    if (lg == 6) {
      void* q = dispenso::alignedMalloc(bytes);
      ++evals;
      if (reinterpret_cast<uintptr_t>(q) % dispenso::kCacheLineSize) {
        if (!bad++) report("alignedMalloc(bytes) is not cache-line aligned", J().kv("bytes", static_cast<uint64_t>(bytes)), "misaligned-default");
      }
      if (bytes) std::memset(q, 0x5A, bytes);
      dispenso::alignedFree(q);
    }
  }
  // blocks that stayed allocated must still hold their pattern (no overlap with later allocations)
  size_t k = 0;
  for (size_t bytes = 0; bytes <= 4097; bytes += 7, ++k) {
    if (k >= keep.size()) break;
    unsigned char* c = static_cast<unsigned char*>(keep[k]);
    for (size_t i = 0; i < bytes; ++i)
      if (c[i] != 0xA5) {
        if (!bad++) report("block content changed while allocated", J().kv("bytes", static_cast<uint64_t>(bytes)), "overlap");
        break;
      }
    dispenso::alignedFree(keep[k]);
  }
  dispenso::alignedFree(nullptr);
  vrt::progress();
  vrt::caseEnd(J().kv("_evals", evals).kv("_nt", evals).kv("bad", bad), "alignedMalloc/" + std::to_string(lg), {"alignedMalloc"});
}

void runC44() {
  const bool th = vrt::thorough();
  const long nRandom = vrt::g_args.getInt("nrandom", th ? 1600 : 64);
  const long perRandom = vrt::g_args.getInt("perrandom", th ? 60000 : 16000);
  const bool exhaustive32 = vrt::g_args.getInt("exhaustive32", th ? 1 : 0) != 0;
  long idx = 0;
  for (int lg = 0; lg <= 16; ++lg, ++idx)
    if (vrt::selected(idx)) alignedMallocCase(idx, lg);
  for (int sh = 0; sh <= 48; sh += 8, ++idx)
    if (vrt::selected(idx)) bitsWindowCase(idx, sh);
  if (vrt::selected(idx)) bitsSparseCase(idx);
  ++idx;
  for (long k = 0; k < nRandom; ++k, ++idx)
    if (vrt::selected(idx)) bitsRandomCase(idx, perRandom);
  if (exhaustive32)
    for (uint32_t s = 0; s < 4096; ++s, ++idx)
      if (vrt::selected(idx)) bitsSliceCase(idx, s);
}

} // namespace

int main(int argc, char** argv) {
  vrt::init(argc, argv);
  tab();
  const std::string& p = vrt::g_args.prop;
  if (p == "C43") runC43();
  else if (p == "C44") runC44();
  else {
    fprintf(stderr, "h_misc: unknown property %s\n", p.c_str());
    return 2;
  }
  return vrt::finish();
}
