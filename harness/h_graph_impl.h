#pragma once
#include "h_graph_common.h"

// ------------------------------------------------------------------ program interpreter
enum Op {
  kOpFull = 0, // setAllNodesIncomplete -> run
  kOpPartial, // setIncomplete on a subset -> ForwardPropagator -> run
  kOpNoop, // run with nothing incomplete
  kOpFpNoop, // ForwardPropagator with nothing marked -> run
  kOpClearFp, // Subgraph::clear + rebuild with cross-subgraph edges -> ForwardPropagator -> run
  kOpClearAll, // same, then setAllNodesIncomplete -> run
  kOpAddFp, // more nodes / subgraphs / dependencies -> ForwardPropagator -> run
  kOpAddAll,
  kOpMoveCtor, // move-construct the graph, then partial or full evaluation
  kOpMoveAssign,
  kOpGraphClear, // Graph::clear() + rebuild -> setAll or ForwardPropagator -> run
  kOpSubgraphsClear, // Graph::clearSubgraphs() + rebuild
  kOpMarkThenAll, // C31: mark, (propagate,) then setAllNodesIncomplete: full evaluation
  kOpThrow, // full evaluation in which 1-2 chosen nodes throw; then setAll + run on the SAME executor object; then on a fresh one
  kNumOps
};
static const char* const kOpNames[kNumOps] = {"full", "partial", "noop", "fp-noop", "clear-fp", "clear-setall", "add-fp",
                                              "add-setall", "move-ctor", "move-assign", "graph-clear", "subgraphs-clear", "mark-then-setall", "throw"};

template <class G>
struct Prog {
  using N = typename G::NodeType;
  using SG = typename G::SubgraphType;
  static constexpr bool kBi = std::is_same<N, dispenso::BiPropNode>::value;

  vrt::Rng& r;
  const CaseParams& p;
  StepStats& st;
  Env* envp; // null in a dry run
  const bool prop31;
  const bool dry; // model only: identical random draws, no dispenso call
  bool stop = false; // a step reported a violation (or met destroyed set members): later steps would only cascade
  std::unique_ptr<G> g;
  std::vector<SG*> sgs;
  std::vector<std::unique_ptr<MNode>> nodes;
  std::set<uint64_t> ranks;
  std::vector<int> ufp; // union-find parent by node id
  std::vector<std::vector<int>> vecs; // pointer model: contents of each shared member vector
  bool mergedExisting = false;
  int stepNo = 0;
  long violationsHere = 0;

  Prog(vrt::Rng& rr, const CaseParams& pp, StepStats& ss, Env* e, bool p31) : r(rr), p(pp), st(ss), envp(e), prop31(p31), dry(e == nullptr), g(e ? new G() : nullptr) {
    sgs.push_back(dry ? nullptr : &g->subgraph(0));
  }

  // ---------------------------------------------------------------- model helpers
  int find(int i) {
    while (ufp[static_cast<size_t>(i)] != i) {
      ufp[static_cast<size_t>(i)] = ufp[static_cast<size_t>(ufp[static_cast<size_t>(i)])];
      i = ufp[static_cast<size_t>(i)];
    }
    return i;
  }
  uint64_t newRank() {
    for (;;) {
      uint64_t k = r.next() >> 24;
      if (ranks.insert(k).second) return k;
    }
  }
  std::vector<MNode*> aliveSorted() {
    std::vector<MNode*> a;
    for (auto& m : nodes) {
      if (m->alive) a.push_back(m.get());
    }
    std::sort(a.begin(), a.end(), [](const MNode* x, const MNode* y) { return x->rank < y->rank; });
    return a;
  }
  static N* dn(MNode* m) {
    return static_cast<N*>(m->dn);
  }

  template <size_t Pad>
  N* addWith(int sgi, MNode* m, bool viaGraph) {
    if (dry) return nullptr;
    Body<Pad> b{m, std::unique_ptr<long>(new long(m->id)), vrt::Tracked(m->id), {}};
    return viaGraph ? &g->addNode(std::move(b)) : &sgs[static_cast<size_t>(sgi)]->addNode(std::move(b));
  }
  MNode* addNode(int sgi) {
    std::unique_ptr<MNode> m(new MNode());
    m->id = static_cast<int>(nodes.size());
    m->sg = sgi;
    m->rank = newRank();
    m->salt = static_cast<uint32_t>(r.next());
    bool viaGraph = sgi == 0 && r.chance(0.5);
    switch (r.below(8)) {
      case 0: m->dn = addWith<40>(sgi, m.get(), viaGraph); break;
      case 1: m->dn = addWith<150>(sgi, m.get(), viaGraph); break;
      case 2: m->dn = addWith<400>(sgi, m.get(), viaGraph); break;
      default: m->dn = addWith<1>(sgi, m.get(), viaGraph); break;
    }
    ufp.push_back(m->id);
    st.h(m->rank ^ static_cast<uint64_t>(sgi));
    nodes.push_back(std::move(m));
    return nodes.back().get();
  }

  struct Chunk {
    MNode* d;
    std::vector<MNode*> ps;
    bool bi;
  };
  static void callDep(dispenso::Node* d, const std::vector<MNode*>& ps) {
    auto P = [&](size_t i) -> dispenso::Node& { return *static_cast<dispenso::Node*>(ps[i]->dn); };
    if (ps.size() == 1) d->dependsOn(P(0));
    else if (ps.size() == 2) d->dependsOn(P(0), P(1));
    else d->dependsOn(P(0), P(1), P(2));
  }
  static void callDep(dispenso::BiPropNode* d, const std::vector<MNode*>& ps) {
    auto P = [&](size_t i) -> dispenso::BiPropNode& { return *static_cast<dispenso::BiPropNode*>(ps[i]->dn); };
    if (ps.size() == 1) d->dependsOn(P(0));
    else if (ps.size() == 2) d->dependsOn(P(0), P(1));
    else d->dependsOn(P(0), P(1), P(2));
  }
  static void callBi(dispenso::Node*, const std::vector<MNode*>&) {}
  static void callBi(dispenso::BiPropNode* d, const std::vector<MNode*>& ps) {
    auto P = [&](size_t i) -> dispenso::BiPropNode& { return *static_cast<dispenso::BiPropNode*>(ps[i]->dn); };
    if (ps.size() == 1) d->biPropDependsOn(P(0));
    else if (ps.size() == 2) d->biPropDependsOn(P(0), P(1));
    else d->biPropDependsOn(P(0), P(1), P(2));
  }
  void modelBi(MNode* d, MNode* q) {
    // union-find view (the oracle): the two nodes are in one propagation set from now on
    d->inSet = q->inSet = true;
    int a = find(d->id), b = find(q->id);
    if (a != b) ufp[static_cast<size_t>(b)] = a;
    // pointer view (classification of scenarios only): which shared member vector a node refers to
    if (q->vec < 0 && d->vec < 0) {
      vecs.push_back({d->id, q->id});
      d->vec = q->vec = static_cast<int>(vecs.size()) - 1;
    } else if (q->vec >= 0 && d->vec >= 0) {
      if (q->vec != d->vec) {
        auto& dst = vecs[static_cast<size_t>(d->vec)];
        for (int x : vecs[static_cast<size_t>(q->vec)]) {
          if (std::find(dst.begin(), dst.end(), x) == dst.end()) dst.push_back(x);
        }
        q->vec = d->vec;
        mergedExisting = true;
      }
    } else if (d->vec < 0) {
      d->vec = q->vec;
      vecs[static_cast<size_t>(d->vec)].push_back(d->id);
    } else {
      q->vec = d->vec;
      auto& dst = vecs[static_cast<size_t>(d->vec)];
      if (std::find(dst.begin(), dst.end(), q->id) == dst.end()) dst.push_back(q->id);
    }
  }
  void declare(const Chunk& c) {
    bool bi = c.bi;
    if (bi && !p.allowMerge) {
      // cases that must not join two existing sets: such an edge is declared as a plain dependency
      // (BiProp chunks have exactly one predecessor in these cases)
      MNode* q = c.ps[0];
      if (c.d->vec >= 0 && q->vec >= 0 && c.d->vec != q->vec) bi = false;
    }
    if (!dry) {
      if (bi) callBi(dn(c.d), c.ps);
      else callDep(dn(c.d), c.ps);
    }
    for (MNode* q : c.ps) {
      c.d->preds.push_back(q);
      q->succs.push_back(c.d);
      if (bi) modelBi(c.d, q);
      st.h((static_cast<uint64_t>(q->id) << 32) ^ static_cast<uint64_t>(c.d->id) ^ (bi ? 0x8000000000000000ull : 0));
    }
  }

  // Declares random dependencies incident to the nodes in `focus` (all of them for the first build).
  void genEdges(const std::vector<MNode*>& focus, bool initial, int extraExisting) {
    std::vector<MNode*> A = aliveSorted();
    const long nA = static_cast<long>(A.size());
    std::vector<long> pos(nodes.size(), -1);
    for (long i = 0; i < nA; ++i) pos[static_cast<size_t>(A[static_cast<size_t>(i)]->id)] = i;
    std::vector<char> inFocus(nodes.size(), 0);
    for (MNode* f : focus) inFocus[static_cast<size_t>(f->id)] = 1;
    std::vector<std::pair<MNode*, MNode*>> edges; // pred -> dependent
    auto pickPred = [&](long i) -> MNode* {
      long w = p.window <= 0 ? i : std::min<long>(i, p.window);
      long j = i - 1 - static_cast<long>(r.below(static_cast<uint64_t>(w)));
      return A[static_cast<size_t>(j)];
    };
    for (MNode* d : focus) {
      long i = pos[static_cast<size_t>(d->id)];
      if (i <= 0) continue;
      long k;
      uint64_t c = r.below(100);
      if (c < 12) k = 0;
      else if (c < 42) k = 1;
      else if (c < 67) k = 2;
      else if (c < 80) k = 3;
      else k = r.range(4, 12);
      if (p.window == 1) k = std::min<long>(k, 1);
      std::vector<MNode*> chosen;
      for (long e = 0; e < k; ++e) {
        MNode* q = pickPred(i);
        bool seen = std::find(chosen.begin(), chosen.end(), q) != chosen.end();
        if (seen && !r.chance(p.pDup)) continue;
        chosen.push_back(q);
      }
      if (!chosen.empty() && r.chance(p.pDup)) chosen.push_back(chosen[0]);
      for (MNode* q : chosen) edges.emplace_back(q, d);
    }
    if (!initial) {
      // new nodes also become predecessors of existing nodes
      for (MNode* q : focus) {
        long i = pos[static_cast<size_t>(q->id)];
        if (i >= nA - 1 || !r.chance(0.7)) continue;
        long k = r.range(1, 3);
        for (long e = 0; e < k; ++e) {
          long j = i + 1 + static_cast<long>(r.below(static_cast<uint64_t>(nA - 1 - i)));
          MNode* d = A[static_cast<size_t>(j)];
          if (inFocus[static_cast<size_t>(d->id)]) continue; // generated from the dependent's side
          edges.emplace_back(q, d);
        }
      }
    }
    for (int e = 0; e < extraExisting && nA >= 2; ++e) {
      long i = static_cast<long>(r.below(static_cast<uint64_t>(nA - 1)));
      long j = i + 1 + static_cast<long>(r.below(static_cast<uint64_t>(nA - 1 - i)));
      edges.emplace_back(A[static_cast<size_t>(i)], A[static_cast<size_t>(j)]);
    }
    if (initial && p.hub && nA >= 6) {
      MNode* h = A[r.below(2)];
      for (long j = 2; j < nA; ++j) {
        if (r.chance(0.5)) edges.emplace_back(h, A[static_cast<size_t>(j)]);
      }
    }
    // group into variadic calls of 1..3 predecessors of one kind, then shuffle the call order
    std::vector<Chunk> chunks;
    {
      std::vector<std::vector<MNode*>> normal(nodes.size()), bi(nodes.size());
      for (auto& e : edges) {
        bool b = kBi && r.chance(p.pBi);
        (b ? bi : normal)[static_cast<size_t>(e.second->id)].push_back(e.first);
      }
      for (size_t id = 0; id < nodes.size(); ++id) {
        for (int kind = 0; kind < 2; ++kind) {
          auto& v = kind ? bi[id] : normal[id];
          size_t at = 0;
          while (at < v.size()) {
            size_t take = std::min<size_t>(v.size() - at, r.chance(0.7) ? 1 : static_cast<size_t>(r.range(2, 3)));
            if (kind == 1 && !p.allowMerge) take = 1;
            Chunk c{nodes[id].get(), std::vector<MNode*>(v.begin() + static_cast<long>(at), v.begin() + static_cast<long>(at + take)), kind == 1};
            chunks.push_back(std::move(c));
            at += take;
          }
        }
      }
    }
    for (size_t i = chunks.size(); i > 1; --i) std::swap(chunks[i - 1], chunks[r.below(i)]);
    for (auto& c : chunks) declare(c);
  }

  void ensureSubgraphs(int want) {
    while (static_cast<int>(sgs.size()) < want) sgs.push_back(dry ? nullptr : &g->addSubgraph());
  }
  std::vector<MNode*> addNodes(int count, int onlySg = -1) {
    std::vector<MNode*> fresh;
    for (int i = 0; i < count; ++i) {
      int sgi = onlySg >= 0 ? onlySg : static_cast<int>(r.below(sgs.size()));
      fresh.push_back(addNode(sgi));
    }
    return fresh;
  }
  void killWhere(int sgi /* -1: all */) {
    for (auto& m : nodes) {
      if (!m->alive || (sgi >= 0 && m->sg != sgi)) continue;
      m->alive = false;
      m->dn = nullptr;
      if (m->vec >= 0) {
        auto& v = vecs[static_cast<size_t>(m->vec)];
        v.erase(std::remove(v.begin(), v.end(), m->id), v.end());
      }
    }
    auto dead = [](MNode* x) { return !x->alive; };
    for (auto& m : nodes) {
      if (m->alive) {
        m->preds.erase(std::remove_if(m->preds.begin(), m->preds.end(), dead), m->preds.end());
        m->succs.erase(std::remove_if(m->succs.begin(), m->succs.end(), dead), m->succs.end());
      } else {
        m->preds.clear();
        m->succs.clear();
      }
    }
  }
  bool crossEdgesAt(int sgi) {
    for (auto& m : nodes) {
      if (!m->alive || m->sg != sgi) continue;
      for (MNode* q : m->preds) {
        if (q->sg != sgi) return true;
      }
      for (MNode* s : m->succs) {
        if (s->sg != sgi) return true;
      }
    }
    return false;
  }

  // ---------------------------------------------------------------- graph mutations
  void build() {
    ensureSubgraphs(p.nsg);
    std::vector<MNode*> fresh = addNodes(p.n);
    genEdges(fresh, true, 0);
  }
  void opClearRebuild() {
    int k = r.chance(0.25) ? 2 : 1;
    std::vector<MNode*> fresh;
    for (int i = 0; i < k; ++i) {
      int sgi = static_cast<int>(r.below(sgs.size()));
      if (crossEdgesAt(sgi)) st.classes.insert("clear-with-cross-edges");
      if (!dry) sgs[static_cast<size_t>(sgi)]->clear();
      killWhere(sgi);
      int cnt = r.chance(0.15) ? 0 : static_cast<int>(r.range(1, std::max(2, p.n / 3)));
      std::vector<MNode*> f = addNodes(cnt, sgi);
      fresh.insert(fresh.end(), f.begin(), f.end());
    }
    // the second clear may have hit the subgraph that was just rebuilt
    fresh.erase(std::remove_if(fresh.begin(), fresh.end(), [](MNode* x) { return !x->alive; }), fresh.end());
    genEdges(fresh, false, 0);
  }
  void opAdd() {
    if (r.chance(0.4)) ensureSubgraphs(static_cast<int>(sgs.size()) + 1);
    int cnt = static_cast<int>(r.range(0, std::max(2, p.n / 3)));
    std::vector<MNode*> fresh = addNodes(cnt);
    genEdges(fresh, false, r.chance(0.4) ? static_cast<int>(r.range(1, 4)) : 0);
  }
  void opMoveCtor() {
    if (dry) return;
    std::unique_ptr<G> g2(new G(std::move(*g)));
    g = std::move(g2); // the moved-from graph is destroyed here; subgraph references stay valid
  }
  void opMoveAssign() {
    // the target owns nodes of its own (never run); they must be destroyed by the assignment
    const int cnt = static_cast<int>(r.range(0, 6));
    const uint64_t bits = r.next();
    std::vector<uint64_t> picks;
    for (int i = 0; i < cnt; ++i) picks.push_back(r.next());
    if (dry) return;
    std::unique_ptr<G> g2(new G());
    SG& extra = g2->addSubgraph();
    std::vector<N*> tmp;
    for (int i = 0; i < cnt; ++i) {
      Body<1> b{nullptr, std::unique_ptr<long>(new long(i)), vrt::Tracked(-1 - i), {}};
      tmp.push_back(((bits >> i) & 1) ? &g2->addNode(std::move(b)) : &extra.addNode(std::move(b)));
      if (i > 0 && ((bits >> (8 + i)) & 1)) tmp.back()->dependsOn(*tmp[picks[static_cast<size_t>(i)] % static_cast<uint64_t>(i)]);
    }
    *g2 = std::move(*g);
    g = std::move(g2);
  }
  void opGraphClear() {
    if (!dry) g->clear();
    killWhere(-1);
    sgs.clear();
    sgs.push_back(dry ? nullptr : &g->subgraph(0));
    ensureSubgraphs(static_cast<int>(r.range(1, 5)));
    std::vector<MNode*> fresh = addNodes(static_cast<int>(r.range(1, std::max(2, p.n))));
    genEdges(fresh, true, 0);
  }
  void opSubgraphsClear() {
    if (!dry) g->clearSubgraphs();
    killWhere(-1);
    if (r.chance(0.3)) ensureSubgraphs(static_cast<int>(sgs.size()) + 1);
    std::vector<MNode*> fresh = addNodes(static_cast<int>(r.range(1, std::max(2, p.n))));
    genEdges(fresh, true, 0);
  }

  // marks a random subset incomplete; returns the marked nodes
  std::vector<MNode*> markSubset() {
    std::vector<MNode*> A = aliveSorted();
    std::vector<MNode*> marked;
    if (A.empty()) return marked;
    uint64_t c = r.below(100);
    size_t want;
    if (c < 40) want = 1;
    else if (c < 70) want = static_cast<size_t>(r.range(2, 3));
    else if (c < 92) want = std::max<size_t>(1, A.size() * static_cast<size_t>(r.range(10, 50)) / 100);
    else if (c < 96) want = A.size();
    else want = 1;
    bool preferLate = c >= 96; // sinks: small closures
    for (size_t i = 0; i < want; ++i) {
      MNode* m = preferLate ? A[A.size() - 1 - r.below(std::min<size_t>(A.size(), 3))] : A[r.below(A.size())];
      if (m->mark || m->inc) continue; // only complete nodes are marked (fresh ones are incomplete already)
      m->mark = true;
      marked.push_back(m);
    }
    // declaration order of the marks is random, too
    for (size_t i = marked.size(); i > 1; --i) std::swap(marked[i - 1], marked[r.below(i)]);
    for (MNode* m : marked) {
      m->inc = true;
      st.h(static_cast<uint64_t>(m->id) * 977);
      if (dry) continue;
      bool changed = dn(m)->setIncomplete();
      if (!changed) report("setIncomplete() returned false on a node that every earlier execution should have left complete", J().kv("node", m->id), "C30");
    }
    return marked;
  }

  // ---------------------------------------------------------------- expectations
  // forward closure of the nodes in `from` over live edges
  std::vector<MNode*> closureOf(const std::vector<MNode*>& from) {
    std::vector<char> seen(nodes.size(), 0);
    std::vector<MNode*> out, q = from;
    for (MNode* m : q) seen[static_cast<size_t>(m->id)] = 1;
    while (!q.empty()) {
      MNode* m = q.back();
      q.pop_back();
      out.push_back(m);
      for (MNode* s : m->succs) {
        if (!seen[static_cast<size_t>(s->id)]) {
          seen[static_cast<size_t>(s->id)] = 1;
          q.push_back(s);
        }
      }
    }
    return out;
  }
  struct SetView {
    bool groupAdds = false; // the sets add nodes beyond the closure
    bool stale = false; // the member lists reachable from the closure are out of sync with the sets
    bool dangling = false; // ... and list a node that has been destroyed
  };
  // C31 expectation: closure + every member of a propagation set meeting the closure.
  SetView expectFromMarks(const std::vector<MNode*>& marked) {
    SetView sv;
    for (auto& m : nodes) m->expect = false;
    std::vector<MNode*> cl = closureOf(marked);
    for (MNode* m : cl) m->expect = true;
    if (!kBi) return sv;
    std::set<int> roots;
    std::set<int> vecIds;
    for (MNode* m : cl) {
      if (m->inSet) roots.insert(find(m->id));
      if (m->vec >= 0) vecIds.insert(m->vec);
    }
    std::vector<char> byPtr(nodes.size(), 0);
    for (MNode* m : cl) byPtr[static_cast<size_t>(m->id)] = 1;
    for (int v : vecIds) {
      for (int id : vecs[static_cast<size_t>(v)]) {
        if (!nodes[static_cast<size_t>(id)]->alive) sv.dangling = true;
        else byPtr[static_cast<size_t>(id)] = 1;
      }
    }
    for (auto& m : nodes) {
      if (!m->alive) continue;
      if (!m->expect && m->inSet && roots.count(find(m->id))) {
        m->expect = true;
        sv.groupAdds = true;
      }
      if ((byPtr[static_cast<size_t>(m->id)] != 0) != m->expect) sv.stale = true;
    }
    // the union-find keeps destroyed connectors; lists naming destroyed nodes are a scenario of their own
    for (int v : vecIds) {
      for (int id : vecs[static_cast<size_t>(v)]) {
        if (!nodes[static_cast<size_t>(id)]->alive) sv.dangling = true;
      }
    }
    return sv;
  }
  std::vector<MNode*> currentlyIncomplete() { // by the model (used for scenario classification only)
    std::vector<MNode*> v;
    for (auto& m : nodes) {
      if (m->alive && m->inc) v.push_back(m.get());
    }
    return v;
  }
  void setAll() {
    if (!dry) setAllNodesIncomplete(*g);
    for (auto& m : nodes) m->inc = m->alive;
  }

  // ---------------------------------------------------------------- execution + checks
  std::string curOp;
  void report(const std::string& msg, J detail, const char* prop = nullptr, const std::string& sub = "") {
    ++violationsHere;
    stop = true;
    detail.kv("step", stepNo).kv("op", curOp);
    vrt::violation(msg, detail, sub.empty() ? curOp : sub, prop);
  }
  int pickExec() {
    return p.exec >= 0 ? p.exec : static_cast<int>(r.below(kNumExec));
  }
  void resetMonitors() {
    for (auto& m : nodes) {
      m->runs.store(0, std::memory_order_relaxed);
      m->start.store(0, std::memory_order_relaxed);
      m->end.store(0, std::memory_order_relaxed);
      m->pre = false;
    }
    g_inflight.store(0, std::memory_order_relaxed);
    g_maxInflight.store(0, std::memory_order_relaxed);
    g_totalRuns.store(0, std::memory_order_relaxed);
    g_runLimit = nodes.size() * 4 + 64;
  }
  struct ExecPlan {
    int kind = 0;
    bool fresh = false, defaults = false;
    int spin = 0;
  };
  ExecPlan planExec() { // all random draws of one execution, identical in dry and real runs
    ExecPlan e;
    e.kind = pickExec();
    e.fresh = p.fresh && r.chance(0.5);
    e.defaults = r.chance(0.5);
    e.spin = r.chance(0.5) ? static_cast<int>(r.range(1, 40)) : 0;
    g_execSalt = static_cast<uint32_t>(r.next());
    return e;
  }
  void runExecutor(const ExecPlan& e) {
    Env& env = *envp;
    switch (e.kind) {
      case kSingle:
        if (e.fresh) {
          dispenso::SingleThreadExecutor x;
          x(*g);
        } else env.ste(*g);
        break;
      case kParForTS:
        if (e.fresh) {
          dispenso::ParallelForExecutor x;
          x(*env.ts, *g);
        } else env.pfe(*env.ts, *g);
        break;
      case kParForCTS:
        if (e.fresh) {
          dispenso::ParallelForExecutor x;
          x(*env.cts, *g);
        } else env.pfe(*env.cts, *g);
        break;
      case kCtsWait:
        if (e.fresh) {
          dispenso::ConcurrentTaskSetExecutor x;
          x(*env.cts, *g, true, env.lf);
        } else if (env.lf == 3.0f && e.defaults) env.cte(*env.cts, *g); // all defaults
        else env.cte(*env.cts, *g, true, env.lf);
        break;
      default: {
        if (e.fresh) {
          dispenso::ConcurrentTaskSetExecutor x;
          x(*env.cts, *g, false, env.lf);
          if (e.spin) vrt::spinFor(e.spin);
          env.cts->wait();
        } else {
          env.cte(*env.cts, *g, false, env.lf);
          if (e.spin) vrt::spinFor(e.spin);
          env.cts->wait();
        }
        break;
      }
    }
  }

  struct Bad {
    long n = 0;
    std::vector<int> ids;
    void add(int id) {
      if (n++ < 6) ids.push_back(id);
    }
  };

  // exact: compare with MNode::expect (C31); otherwise with the incomplete set read before the run (C30)
  // throwers non-null: a throwing execution (the listed nodes' bodies throw GraphThrow); then only
  // what dispenso promises for an aborted execution is judged.  Returns the executor form used.
  int execAndCheck(bool exact, const std::string& sub31, int forceKind = -1, int forceFresh = -1, const std::vector<MNode*>* throwers = nullptr) {
    ExecPlan plan = planExec();
    if (forceKind >= 0) plan.kind = forceKind;
    if (forceFresh >= 0) plan.fresh = forceFresh != 0;
    const int kind = plan.kind;
    if (dry) {
      for (auto& m : nodes) m->inc = false; // model: an execution leaves every node complete
      return kind;
    }
    resetMonitors();
    long nPre = 0, nAlive = 0;
    for (auto& m : nodes) {
      if (!m->alive) continue;
      ++nAlive;
      m->pre = !dn(m.get())->isCompleted();
      if (m->pre) ++nPre;
    }
    st.h(static_cast<uint64_t>(kind) + 31 * static_cast<uint64_t>(nPre));
    vrt::progress(); // harness-side progress at step boundaries: a flat period is then inside one dispenso call
    if (throwers) {
      checkThrowingExec(plan, *throwers, nPre, nAlive);
      return kind;
    }
    runExecutor(plan);
    vrt::progress();
    for (auto& m : nodes) m->inc = false;
    ++st.execs;
    st.classes.insert(std::string("exec:") + kExecNames[kind]);
    st.maxInflight = std::max(st.maxInflight, g_maxInflight.load(std::memory_order_relaxed));

    Bad notRun, twice, ranComplete, order, notDone, stillRunning, lostComplete, extra, missing;
    long ran = 0, enforced = 0, nExpect = 0;
    for (auto& mp : nodes) {
      MNode* m = mp.get();
      if (!m->alive) continue;
      const uint32_t runs = m->runs.load(std::memory_order_relaxed);
      const bool want = exact ? m->expect : m->pre;
      if (m->expect) ++nExpect;
      if (runs) ++ran;
      if (runs > 1) twice.add(m->id);
      if (exact) {
        if (want && runs == 0) missing.add(m->id);
        if (!want && runs > 0) extra.add(m->id);
      } else {
        if (want && runs == 0) notRun.add(m->id);
        if (!want && runs > 0) ranComplete.add(m->id);
      }
      if (runs > 0 && m->end.load(std::memory_order_relaxed) == 0) stillRunning.add(m->id);
      const bool done = dn(m)->isCompleted();
      if (runs > 0 && !done) notDone.add(m->id);
      if (runs == 0 && !m->pre && !done) lostComplete.add(m->id);
      if (runs > 0) {
        const uint64_t s = m->start.load(std::memory_order_relaxed);
        for (MNode* q : m->preds) {
          if (q->runs.load(std::memory_order_relaxed) == 0) continue;
          ++enforced;
          const uint64_t e = q->end.load(std::memory_order_relaxed);
          if (e == 0 || e > s) order.add(m->id);
        }
      }
    }
    st.nodesRun += ran;
    st.edgesEnforced += enforced;
    if (ran > 0 && ran < nAlive) ++st.strictPartial;
    J base;
    base.kv("executor", kExecNames[kind]).kv("aliveNodes", nAlive).kv("incompleteBefore", nPre).kv("ran", ran);
    auto rep = [&](const Bad& b, const std::string& msg, const char* prop, const std::string& sub) {
      if (!b.n) return;
      J d = base;
      d.kv("count", b.n).arr("nodes", b.ids);
      report(msg, d, prop, sub);
    };
    const char* other = prop31 ? "C30" : nullptr; // executor-level findings are by-catch in a C31 run
    if (exact) {
      rep(missing, "node in the propagated closure / propagation set was not re-run", nullptr, sub31);
      rep(extra, "node outside the propagated closure was run", nullptr, sub31);
      rep(twice, "node run more than once in one execution", nullptr, sub31);
      rep(order, "re-run node started before a re-run predecessor finished", nullptr, sub31);
    } else {
      rep(notRun, "incomplete node was not run", nullptr, "");
      rep(ranComplete, "already-complete node was run", nullptr, "");
      rep(twice, "node run more than once in one execution", nullptr, "");
      rep(order, "node started before an incomplete predecessor finished", nullptr, "");
    }
    rep(notDone, "executed node is not complete afterwards", other, "");
    rep(lostComplete, "node that was complete and was not run is incomplete after the execution", other, "");
    rep(stillRunning, "node body still running after the executor returned / after wait()", other, "");
    return kind;
  }

  // An execution in which the nodes in `throwers` throw.  Promised and therefore judged: the call
  // (or the task set's wait()) hands the exception out, no node runs twice, no complete node runs,
  // a node that ran had every incomplete predecessor run and finish first, and once the task sets
  // have been waited on nothing is still running.  Not judged: which nodes did not run, completeness.
  void checkThrowingExec(const ExecPlan& plan, const std::vector<MNode*>& throwers, long nPre, long nAlive) {
    Env& env = *envp;
    for (MNode* t : throwers) t->throwNow = true;
    int caught = 0;
    try {
      runExecutor(plan);
    } catch (const GraphThrow&) {
      ++caught;
    }
    caught += env.drainTaskSets(); // nothing of the aborted run is in flight after this
    vrt::progress();
    for (MNode* t : throwers) t->throwNow = false;
    env.newTaskSets(); // a task set that captured an exception stays cancelled
    ++st.execs;
    st.classes.insert(std::string("exec:") + kExecNames[plan.kind]);
    st.classes.insert(std::string("throw:") + kExecNames[plan.kind]);
    Bad twice, ranComplete, order, predNotRun, stillRunning;
    long ran = 0, throwersRan = 0;
    for (auto& mp : nodes) {
      MNode* m = mp.get();
      if (!m->alive) continue;
      const uint32_t runs = m->runs.load(std::memory_order_relaxed);
      if (!runs) continue;
      ++ran;
      if (runs > 1) twice.add(m->id);
      if (!m->pre) ranComplete.add(m->id);
      if (m->end.load(std::memory_order_relaxed) == 0) stillRunning.add(m->id);
      const uint64_t s = m->start.load(std::memory_order_relaxed);
      for (MNode* q : m->preds) {
        if (!q->pre) continue;
        if (q->runs.load(std::memory_order_relaxed) == 0) {
          predNotRun.add(m->id);
          continue;
        }
        const uint64_t e = q->end.load(std::memory_order_relaxed);
        if (e == 0 || e > s) order.add(m->id);
      }
    }
    for (MNode* t : throwers) {
      if (t->runs.load(std::memory_order_relaxed)) ++throwersRan;
    }
    st.nodesRun += ran;
    if (throwersRan) st.classes.insert("throwing-step");
    if (throwersRan && ran < nPre) st.classes.insert("throw-aborted-early");
    J base;
    base.kv("executor", kExecNames[plan.kind]).kv("aliveNodes", nAlive).kv("incompleteBefore", nPre).kv("ran", ran).kv("throwersRan", throwersRan).kv("caught", caught);
    auto rep = [&](const Bad& b, const std::string& msg) {
      if (!b.n) return;
      J d = base;
      d.kv("count", b.n).arr("nodes", b.ids);
      report(msg, d);
    };
    if (throwersRan && caught == 0) report("a node functor threw but neither the executor call nor the task set's wait() rethrew", base);
    if (!throwersRan && caught) report("tagged exception rethrown although no throwing node ran", base);
    rep(twice, "node run more than once in one (throwing) execution");
    rep(ranComplete, "already-complete node was run");
    rep(predNotRun, "node ran although an incomplete predecessor never ran");
    rep(order, "node started before an incomplete predecessor finished");
    rep(stillRunning, "node body still running after the task sets of the aborted execution were waited on");
  }

  // ---------------------------------------------------------------- steps
  void propagate() {
    if (dry) return;
    vrt::progress();
    envp->fp(*g);
    vrt::progress();
  }
  void clearMarks() {
    for (auto& m : nodes) m->mark = false;
  }
  std::string setsClass(const SetView& sv) {
    if (!kBi) return "nosets";
    if (sv.dangling) return "sets-dangling";
    if (sv.stale) return "sets-stale";
    return "sets-coherent";
  }

  // C30 step: the oracle is the incomplete set read back right before the executor runs.
  void step30(int op) {
    curOp = kOpNames[op];
    st.classes.insert(std::string("op:") + curOp);
    st.h(static_cast<uint64_t>(op) * 131);
    bool viaFp = false;
    switch (op) {
      case kOpFull: setAll(); break;
      case kOpPartial:
        markSubset();
        viaFp = true;
        break;
      case kOpNoop: break;
      case kOpFpNoop: viaFp = true; break;
      case kOpClearFp:
        opClearRebuild();
        viaFp = true;
        break;
      case kOpClearAll:
        opClearRebuild();
        setAll();
        break;
      case kOpAddFp:
        opAdd();
        viaFp = true;
        break;
      case kOpAddAll:
        opAdd();
        setAll();
        break;
      case kOpMoveCtor:
      case kOpMoveAssign:
        if (op == kOpMoveCtor) opMoveCtor();
        else opMoveAssign();
        if (r.chance(0.3)) opClearRebuild();
        if (r.chance(0.5)) {
          markSubset();
          viaFp = true;
        } else if (r.chance(0.7)) setAll();
        else viaFp = true;
        break;
      case kOpThrow: {
        // 1. full evaluation on the persistent executor object in which 1 (sometimes 2) nodes throw
        setAll();
        std::vector<MNode*> A = aliveSorted();
        std::vector<MNode*> throwers;
        const int want = r.chance(0.15) ? 2 : 1;
        for (int i = 0; i < want && !A.empty(); ++i) {
          MNode* t = A[r.below(A.size())];
          if (std::find(throwers.begin(), throwers.end(), t) == throwers.end()) throwers.push_back(t);
        }
        for (MNode* t : throwers) st.h(static_cast<uint64_t>(t->id) * 7919);
        const int kind = execAndCheck(false, "", -1, 0, &throwers);
        if (stop) return;
        // 2. reset, then a normal execution on the SAME executor object: the usual oracle
        curOp = "after-throw-same-executor";
        setAll();
        execAndCheck(false, "", kind, 0);
        if (!dry && !throwers.empty()) st.classes.insert("executor-reused-after-throw");
        if (stop) return;
        // 3. and on a fresh executor object
        curOp = "after-throw-fresh-executor";
        setAll();
        execAndCheck(false, "", kind, 1);
        return;
      }
      case kOpGraphClear:
      case kOpSubgraphsClear:
        if (op == kOpGraphClear) opGraphClear();
        else opSubgraphsClear();
        if (r.chance(0.6)) setAll();
        else viaFp = true;
        break;
      default: break;
    }
    if (viaFp) {
      if (kBi) {
        // scenario class for the key: does the propagator meet member lists that are out of sync?
        SetView sv = expectFromMarks(currentlyIncomplete());
        if (sv.dangling) {
          st.dangling = true;
          stop = true; // the propagator is about to meet destroyed nodes: nothing after this step is meaningful
        }
        if (sv.stale) st.stale = true;
        if (sv.groupAdds) st.classes.insert("set-added-nodes");
      }
      propagate();
    }
    clearMarks();
    execAndCheck(false, "");
  }

  // C31 round: exact comparison with the model's closure.
  void step31(int op) {
    curOp = kOpNames[op];
    st.classes.insert(std::string("op:") + curOp);
    st.h(static_cast<uint64_t>(op) * 131);
    std::vector<MNode*> marked;
    SetView sv;
    switch (op) {
      case kOpPartial:
        marked = markSubset();
        sv = expectFromMarks(marked);
        propagate();
        break;
      case kOpFpNoop:
        sv = expectFromMarks(marked);
        propagate();
        break;
      case kOpNoop: sv = expectFromMarks(marked); break;
      case kOpMarkThenAll:
        marked = markSubset();
        if (r.chance(0.5)) propagate();
        setAll();
        for (auto& m : nodes) m->expect = m->alive;
        break;
      default: // full
        setAll();
        for (auto& m : nodes) m->expect = m->alive;
        break;
    }
    clearMarks();
    std::string sub = std::string(op == kOpPartial || op == kOpFpNoop || op == kOpNoop ? "partial" : "full") + "/" + setsClass(sv);
    if (sv.groupAdds) st.classes.insert("set-added-nodes");
    if (sv.stale) {
      st.classes.insert("sets-stale");
      st.stale = true;
    }
    long before = st.strictPartial;
    execAndCheck(true, sub);
    if (op == kOpPartial && st.strictPartial > before) st.classes.insert("partial-strict");
    if (op == kOpFull || op == kOpMarkThenAll) st.classes.insert("full-after-partial");
  }
};

static inline int pickWeighted(vrt::Rng& r, const int* ops, const int* w, int n) {
  int tot = 0;
  for (int i = 0; i < n; ++i) tot += w[i];
  int x = static_cast<int>(r.below(static_cast<uint64_t>(tot)));
  for (int i = 0; i < n; ++i) {
    if (x < w[i]) return ops[i];
    x -= w[i];
  }
  return ops[0];
}

template <class G>
void runProgram(vrt::Rng& r, const CaseParams& p, bool prop31, StepStats& st, bool dry) {
  {
    std::unique_ptr<Env> env;
    if (!dry) {
      env.reset(new Env(p.pool, p.cost ? dispenso::TaskCost::kLightweight : dispenso::TaskCost::kHeavy, static_cast<ssize_t>(p.mult),
                        static_cast<float>(p.lf), p.fresh));
    }
    Prog<G> pr(r, p, st, env.get(), prop31);
    pr.build();
    // first evaluation
    if (prop31) {
      pr.step31(kOpFull);
    } else if (p.firstByFP) {
      pr.step30(kOpFpNoop); // fresh nodes are incomplete: the propagator alone prepares a full evaluation
    } else {
      pr.step30(kOpFull);
    }
    for (int s = 1; s <= p.steps && !pr.stop; ++s) {
      pr.stepNo = s;
      if (prop31) {
        static const int ops[] = {kOpPartial, kOpFull, kOpMarkThenAll, kOpFpNoop, kOpNoop};
        static const int w[] = {76, 8, 8, 4, 4};
        pr.step31(pickWeighted(r, ops, w, 5));
        continue;
      }
      static const int ops[] = {kOpFull,  kOpPartial, kOpNoop,     kOpFpNoop,     kOpClearFp,    kOpClearAll,      kOpAddFp,
                                kOpAddAll, kOpMoveCtor, kOpMoveAssign, kOpGraphClear, kOpSubgraphsClear, kOpThrow};
      static const int wBasic[] = {25, 55, 10, 10, 0, 0, 0, 0, 0, 0, 0, 0, 0};
      static const int wClear[] = {8, 20, 2, 0, 45, 25, 0, 0, 0, 0, 0, 0, 0};
      static const int wAdd[] = {8, 20, 2, 0, 0, 0, 50, 20, 0, 0, 0, 0, 0};
      static const int wMove[] = {5, 20, 0, 0, 10, 5, 0, 0, 30, 30, 0, 0, 0};
      static const int wGclear[] = {5, 20, 0, 0, 10, 5, 5, 0, 0, 0, 30, 25, 0};
      static const int wMix[] = {8, 20, 3, 3, 14, 8, 10, 6, 8, 8, 6, 6, 12};
      static const int wThrow[] = {10, 25, 0, 0, 10, 0, 5, 0, 0, 0, 0, 0, 50};
      const int* w = p.theme == 0 ? wBasic : p.theme == 1 ? wClear : p.theme == 2 ? wAdd : p.theme == 3 ? wMove : p.theme == 4 ? wGclear : p.theme == 5 ? wMix : wThrow;
      pr.step30(pickWeighted(r, ops, w, 13));
    }
    if (pr.mergedExisting) st.classes.insert("merged-sets");
    // graph (and every node functor) destroyed here, before the task sets and the pool
  }
  if (dry) return;
  if (vrt::life().live() != 0 || vrt::life().constructOverLive.load() || vrt::life().destroyDead.load()) {
    vrt::violation("node functor lifetimes: functors leaked or destroyed twice", vrt::lifeJson(), "lifetimes", "C11");
  }
}
