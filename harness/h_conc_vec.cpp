// C33 dispatcher: generated concurrent-growth cases for ConcurrentVector (see h_conc_vec_impl.h).
#include "h_conc_vec_impl.h"

VecOut runVec_t0(const VecSpec&);
VecOut runVec_t1(const VecSpec&);
VecOut runVec_t2(const VecSpec&);
VecOut runVec_t3(const VecSpec&);
VecOut runVec_t4(const VecSpec&);
VecOut runVec_t5(const VecSpec&);
VecOut runVec_t6(const VecSpec&);
VecOut runVec_t7(const VecSpec&);
VecOut runVec_t8(const VecSpec&);
VecOut runVec_t9(const VecSpec&);
VecOut runVec_t10(const VecSpec&);
VecOut runVec_t11(const VecSpec&);

static const char* kTraitNames[12] = {
    "inline/FullBufferAhead/fast-iter", "inline/FullBufferAhead/compact-iter", "inline/HalfBufferAhead/fast-iter", "inline/HalfBufferAhead/compact-iter",
    "inline/AsNeeded/fast-iter", "inline/AsNeeded/compact-iter", "heap/FullBufferAhead/fast-iter", "heap/FullBufferAhead/compact-iter",
    "heap/HalfBufferAhead/fast-iter", "heap/HalfBufferAhead/compact-iter", "heap/AsNeeded/fast-iter", "heap/AsNeeded/compact-iter"};

static VecOut runVec(const VecSpec& s) {
  switch (s.traits) {
    case 0: return runVec_t0(s);
    case 1: return runVec_t1(s);
    case 2: return runVec_t2(s);
    case 3: return runVec_t3(s);
    case 4: return runVec_t4(s);
    case 5: return runVec_t5(s);
    case 6: return runVec_t6(s);
    case 7: return runVec_t7(s);
    case 8: return runVec_t8(s);
    case 9: return runVec_t9(s);
    case 10: return runVec_t10(s);
    default: return runVec_t11(s);
  }
}

void runC33() {
  const bool th = vrt::thorough();
  const long n = vrt::g_args.getInt("n", th ? 6000 : 480);
  const long scale = vrt::g_args.getInt("scale", 100);
  for (long idx = 0; idx < n; ++idx) {
    if (!vrt::selected(idx)) continue;
    vrt::Rng r = vrt::caseRng(idx);
    VecSpec s;
    s.traits = static_cast<int>((idx / 16) % 12); // every shard of 16 sees every trait combination
    if (r.chance(0.3)) s.traits = static_cast<int>(r.below(12));
    s.sizeIdx = static_cast<int>(r.below(4));
    long fbDefault = 8 >> s.sizeIdx;
    if (r.chance(0.25)) {
      static const long caps[] = {0, 1, 3, 16, 100};
      s.reserve = caps[r.below(5)];
    }
    s.growers = static_cast<int>(r.range(2, 4));
    s.readers = static_cast<int>(r.below(3));
    s.prefill = r.chance(0.3) && s.readers == 0 ? 0 : r.range(1, 6 * fbDefault + 3);
    s.opsPer = (r.chance(0.7) ? r.range(4, 40) : r.range(40, th ? 400 : 150)) * scale / 100 + 2;
    s.amountMode = static_cast<int>(r.below(4));
    static const double hooks[] = {0, 0.5, 1.0};
    s.hookP = hooks[r.below(3)];
    s.salt = r.next();
    std::string key = std::string("cvec/") + kTraitNames[s.traits] + "/elem" + std::to_string(32L << s.sizeIdx) + "/" + (s.reserve >= 0 ? "reserved" : "default") + "/g" +
        std::to_string(s.growers) + (s.readers ? "+readers" : "");
    vrt::caseBegin(idx, key, s.json());
    g_flagged = 0;
    vrt::watchdogArm();
    VecOut o = runVec(s);
    vrt::watchdogDisarm();
    std::vector<std::string> cls{std::string("traits:") + kTraitNames[s.traits], "first-bucket:" + std::to_string(o.firstBucket), "growers:" + std::to_string(s.growers)};
    if (s.readers && o.readerReads > 0) cls.push_back("concurrent-readers");
    if (o.maxBoundariesCrossed >= 1) cls.push_back("range-crosses-bucket");
    if (o.maxBoundariesCrossed >= 3) cls.push_back("range-crosses-3-buckets");
    if (s.reserve >= 0) cls.push_back("reserving-ctor");
    if (s.hookP > 0) cls.push_back("perturbed");
    bool nt = o.ops >= 4 && o.size >= 4;
    vrt::caseEnd(J().kv("size", o.size).kv("ops", o.ops).kv("firstBucket", o.firstBucket).kv("maxBoundariesCrossed", o.maxBoundariesCrossed).kv("readerReads", o.readerReads),
                 nt ? s.json().str() : "", cls);
  }
}
