// C39 callable instantiations, part 3 (see h_seq_once_impl.h)
#include "h_seq_once_impl.h"

namespace hs {
HSEQ_ONCE_TYPES_3(HSEQ_ONCE_INSTANCE)
}
