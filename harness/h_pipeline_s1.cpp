#include "h_pipeline_impl.h"
void runShapes_g1(int shape, dispenso::ThreadPool& pool) {
  switch (shape) {
    case 6: runCodes<'g', 'v', 's'>(pool); break;
    case 7: runCodes<'G', 'V', 'S'>(pool); break;
    case 8: runCodes<'G', 'O', 'S'>(pool); break;
    case 9: runCodes<'g', 'o', 'S'>(pool); break;
    case 10: runCodes<'R', 'P', 'S'>(pool); break;
    default: break;
  }
}
