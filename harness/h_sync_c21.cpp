// C21 — CompletionEvent and Latch waits never miss a wakeup (and never return early).
//
// Monitor: "issued" is advanced (relaxed) BEFORE the harness calls notify / count_down /
// arrive_and_wait, so a waiter that returns while issued < needed has returned early. A waiter
// that never returns cannot be joined: the case then ends in the runtime's state-based hang
// verdict (threads parked in untimed FUTEX_WAIT, wait-exit counter stable, no CPU) and the process
// is sacrificed.
#include <dispenso/completion_event.h>
#include <dispenso/latch.h>

#include "h_sync_common.h"

namespace {

struct Spec {
  int kind = 0; // 0 CompletionEvent, 1 Latch
  int waiters = 1; // threads calling wait()
  int arrival = 0; // 0 waiters parked first, 1 notifier first, 2 race, 3 one waiter gated between status load and futex wait
  int rounds = 1; // event: rounds with reset() in between
  int notifiers = 1; // event: threads calling notify()
  // latch
  int count = 1;
  bool ordered = true; // final op issued after every other op has completed / parked
  std::vector<std::vector<int>> ops; // per notifier thread; n>0 = count_down(n), 0 = arrive_and_wait (last op of its thread)
  int finalOp = -1; // ordered: n>0 count_down(n), 0 arrive_and_wait (by the main thread)
  int lateWaiters = 0; // waiters started only after the count reached zero
  bool multi = false; // some count_down(n>1) exists
  // perturbation
  double preWaitP = 0, spuriousP = 0, hookP = 0;
  int preWaitUs = 0;

  J json() const {
    J j;
    j.kv("kind", kind ? "latch" : "event").kv("waiters", waiters).kv("arrival", arrival);
    if (kind == 0) {
      j.kv("rounds", rounds).kv("notifiers", notifiers);
    } else {
      std::string o = "[";
      for (size_t t = 0; t < ops.size(); ++t) {
        if (t) o += ",";
        o += "[";
        for (size_t k = 0; k < ops[t].size(); ++k) {
          if (k) o += ",";
          o += std::to_string(ops[t][k]);
        }
        o += "]";
      }
      o += "]";
      j.kv("count", count).kv("ordered", ordered).raw("ops", o).kv("finalOp", finalOp).kv("lateWaiters", lateWaiters);
    }
    j.kv("preWaitP", preWaitP).kv("preWaitUs", preWaitUs).kv("spuriousP", spuriousP).kv("hookP", hookP);
    return j;
  }
};

// state shared with the watchdog's witness dump
std::atomic<long> g_issued{0}, g_needed{0}, g_opsReturned{0}, g_waitReturned{0}, g_waitStarted{0}, g_early{0};

std::string dumpState() {
  vrt::FutexStats fs = vrt::futexStats();
  return J()
      .kv("issued", g_issued.load())
      .kv("needed", g_needed.load())
      .kv("notifyOpsReturned", g_opsReturned.load())
      .kv("waitsStarted", g_waitStarted.load())
      .kv("waitsReturned", g_waitReturned.load())
      .kv("parkedUntimedNow", fs.inUntimedWaitNow)
      .str();
}

void resetState(long needed) {
  g_issued = 0;
  g_needed = needed;
  g_opsReturned = 0;
  g_waitReturned = 0;
  g_waitStarted = 0;
  g_early = 0;
}

void applyPerturbation(const Spec& s) {
  if (s.preWaitP > 0) vrt::futexPreWaitDelay(s.preWaitP, s.preWaitUs);
  if (s.spuriousP > 0) vrt::futexSpurious(s.spuriousP);
  if (s.hookP > 0) vrt::hookProb(V::kEventBeforeFutexWait, s.hookP);
}
void clearPerturbation() {
  vrt::hooksReset();
  vrt::futexReset();
}

struct Obs {
  long early = 0;
  bool parkedAll = false;
  bool gateReached = false;
  long futexWaits = 0;
};

// ------------------------------------------------------------------ CompletionEvent
Obs runEvent(const Spec& s) {
  Obs o;
  dispenso::CompletionEvent ev;
  vrt::FutexStats f0 = vrt::futexStats();
  for (int round = 0; round < s.rounds; ++round) {
    resetState(1);
    applyPerturbation(s);
    std::atomic<int> issued{0};
    auto waiterBody = [&]() {
      g_waitStarted.fetch_add(1, std::memory_order_relaxed);
      vrt::progress();
      ev.wait();
      bool ok = issued.load(std::memory_order_relaxed) != 0;
      bool done = ev.completed();
      if (!ok || !done) {
        g_early.fetch_add(1, std::memory_order_relaxed);
        vrt::violation("CompletionEvent::wait() returned before notify() was called",
                       J().kv("issuedSeen", ok).kv("completedAfterWait", done).kv("round", round), "early-return");
      }
      g_waitReturned.fetch_add(1, std::memory_order_relaxed);
      vrt::progress();
    };
    auto notifyBody = [&]() {
      vrt::progress();
      issued.store(1, std::memory_order_relaxed);
      g_issued.store(1, std::memory_order_relaxed);
      ev.notify();
      g_opsReturned.fetch_add(1, std::memory_order_relaxed);
      vrt::progress();
    };
    std::vector<std::thread> ws, ns;
    hs::SpinStart start(s.waiters + s.notifiers); // must outlive the threads: joined at the end of the round
    if (s.arrival == 0) {
      for (int i = 0; i < s.waiters; ++i) ws.emplace_back(waiterBody);
      bool parked = hs::pollUntil([&] { return vrt::futexStats().inUntimedWaitNow >= s.waiters; }, 300);
      if (round == 0) o.parkedAll = parked;
      for (int i = 0; i < s.notifiers; ++i) ns.emplace_back(notifyBody);
    } else if (s.arrival == 1) {
      for (int i = 0; i < s.notifiers; ++i) ns.emplace_back(notifyBody);
      for (auto& t : ns) t.join();
      ns.clear();
      for (int i = 0; i < s.waiters; ++i) ws.emplace_back(waiterBody);
    } else if (s.arrival == 2) {
      for (int i = 0; i < s.waiters; ++i) ws.emplace_back([&] {
        start.arriveAndWait();
        waiterBody();
      });
      for (int i = 0; i < s.notifiers; ++i) ns.emplace_back([&] {
        start.arriveAndWait();
        notifyBody();
      });
    } else {
      // one waiter is held between its status load and its futex wait while notify() runs
      vrt::gateArm(V::kEventBeforeFutexWait);
      ws.emplace_back(waiterBody);
      bool arrived = vrt::gateWaitArrived(V::kEventBeforeFutexWait, 3000);
      if (round == 0) o.gateReached = arrived;
      if (!arrived) vrt::inconclusive("gate not reached");
      for (int i = 1; i < s.waiters; ++i) ws.emplace_back(waiterBody);
      if (s.waiters > 1) hs::pollUntil([&] { return vrt::futexStats().inUntimedWaitNow >= s.waiters - 1; }, 200);
      for (int i = 0; i < s.notifiers; ++i) ns.emplace_back(notifyBody);
      for (auto& t : ns) t.join();
      ns.clear();
      vrt::gateOpen(V::kEventBeforeFutexWait);
    }
    for (auto& t : ns) t.join();
    for (auto& t : ws) t.join(); // a lost wake-up parks here for ever -> watchdog verdict
    o.early += g_early.load();
    clearPerturbation();
    if (round + 1 < s.rounds) ev.reset();
  }
  o.futexWaits = static_cast<long>(vrt::futexStats().waits - f0.waits);
  return o;
}

// ------------------------------------------------------------------ Latch
Obs runLatch(const Spec& s) {
  Obs o;
  dispenso::Latch latch(static_cast<uint32_t>(s.count));
  resetState(s.count);
  applyPerturbation(s);
  vrt::FutexStats f0 = vrt::futexStats();
  int arrivers = 0;
  for (auto& t : s.ops) {
    for (int op : t) arrivers += op == 0 ? 1 : 0;
  }
  auto afterWait = [&](const char* what) {
    long iss = g_issued.load(std::memory_order_relaxed);
    bool zero = latch.try_wait();
    if (iss < s.count || !zero) {
      g_early.fetch_add(1, std::memory_order_relaxed);
      vrt::violation(std::string("Latch::") + what + " returned before the count reached zero",
                     J().kv("issued", iss).kv("count", s.count).kv("try_wait", zero), "early-return");
    }
    g_waitReturned.fetch_add(1, std::memory_order_relaxed);
    vrt::progress();
  };
  auto waiterBody = [&]() {
    g_waitStarted.fetch_add(1, std::memory_order_relaxed);
    vrt::progress();
    latch.wait();
    afterWait("wait()");
  };
  auto doOp = [&](int op) {
    if (op == 0) {
      g_issued.fetch_add(1, std::memory_order_relaxed);
      g_waitStarted.fetch_add(1, std::memory_order_relaxed);
      latch.arrive_and_wait();
      afterWait("arrive_and_wait()");
    } else {
      g_issued.fetch_add(op, std::memory_order_relaxed);
      latch.count_down(static_cast<uint32_t>(op));
      g_opsReturned.fetch_add(1, std::memory_order_relaxed);
      vrt::progress();
    }
  };
  long nonBlockingOps = 0;
  for (auto& t : s.ops) {
    for (int op : t) nonBlockingOps += op != 0 ? 1 : 0;
  }
  std::vector<std::thread> ws, ns;
  const int parties = static_cast<int>(s.ops.size()) + (s.arrival == 2 ? s.waiters : 0);
  hs::SpinStart start(parties);
  if (s.arrival == 0) {
    for (int i = 0; i < s.waiters; ++i) ws.emplace_back(waiterBody);
    o.parkedAll = hs::pollUntil([&] { return vrt::futexStats().inUntimedWaitNow >= s.waiters; }, 300);
  } else if (s.arrival == 2) {
    for (int i = 0; i < s.waiters; ++i) ws.emplace_back([&] {
      start.arriveAndWait();
      waiterBody();
    });
  }
  for (size_t t = 0; t < s.ops.size(); ++t) {
    ns.emplace_back([&, t] {
      vrt::progress();
      start.arriveAndWait();
      vrt::progress();
      for (int op : s.ops[t]) doOp(op);
    });
  }
  if (s.ordered) {
    // everything except the final operation has completed (count_downs returned, arrivers and
    // waiters parked) before the final operation is issued
    bool settled = hs::pollUntil(
        [&] {
          return g_opsReturned.load(std::memory_order_relaxed) >= nonBlockingOps &&
              vrt::futexStats().inUntimedWaitNow >= (s.arrival == 1 ? 0 : s.waiters) + arrivers;
        },
        500);
    o.parkedAll = settled;
    // state-based part of the ordering: all count_downs have returned (bounded spin, they never block)
    while (g_opsReturned.load(std::memory_order_relaxed) < nonBlockingOps) std::this_thread::yield();
    if (s.finalOp == 0) {
      g_issued.fetch_add(1, std::memory_order_relaxed);
      latch.arrive_and_wait();
      afterWait("arrive_and_wait()");
    } else {
      g_issued.fetch_add(s.finalOp, std::memory_order_relaxed);
      latch.count_down(static_cast<uint32_t>(s.finalOp));
      vrt::progress();
    }
  }
  if (s.arrival == 1) {
    // waiters that arrive late: only once every decrement has been issued and returned
    for (auto& t : ns) t.join();
    ns.clear();
    for (int i = 0; i < s.waiters; ++i) ws.emplace_back(waiterBody);
  }
  for (auto& t : ns) t.join();
  for (int i = 0; i < s.lateWaiters; ++i) ws.emplace_back(waiterBody);
  for (auto& t : ws) t.join();
  o.early = g_early.load();
  o.futexWaits = static_cast<long>(vrt::futexStats().waits - f0.waits);
  clearPerturbation();
  return o;
}

// Split `total` into parts and spread them over threads. unitOnly => every part is 1.
void genLatch(vrt::Rng& r, Spec& s, int cls) {
  // cls: 0 unit ops only; 1 multi parts exist but the final op is a unit (ordered);
  //      2 ordered, final op is count_down(n>1); 3 race with multi parts
  s.kind = 1;
  s.count = static_cast<int>(r.range(cls == 0 ? 1 : 2, 16));
  if (cls == 1 && s.count < 3) s.count = 3;
  s.ordered = cls == 1 || cls == 2 || (cls == 0 && r.chance(0.5));
  int remaining = s.count;
  std::vector<int> parts;
  if (s.ordered) {
    if (cls == 2) {
      s.finalOp = static_cast<int>(r.range(2, s.count));
    } else {
      s.finalOp = r.chance(0.4) ? 0 : 1;
    }
    remaining -= s.finalOp == 0 ? 1 : s.finalOp;
  }
  bool needMulti = cls == 1 || cls == 3;
  while (remaining > 0) {
    int n = 1;
    bool arrive = r.chance(0.3);
    if (!arrive && cls != 0 && remaining >= 2 && (needMulti || r.chance(0.4))) {
      n = static_cast<int>(r.range(2, remaining));
      needMulti = false;
    }
    parts.push_back(arrive ? 0 : n);
    remaining -= arrive ? 1 : n;
  }
  if (needMulti && cls == 3) {
    // could not place one (all arrivals): force the count up
    parts.push_back(2);
    s.count += 2;
  }
  if (needMulti && cls == 1) {
    parts.push_back(2);
    s.count += 2;
  }
  for (int p : parts) s.multi = s.multi || p > 1;
  if (s.finalOp > 1) s.multi = true;
  // spread over threads; an arrive_and_wait must be the last op of its thread
  int nthreads = static_cast<int>(r.range(1, 4));
  std::vector<std::vector<int>> th(static_cast<size_t>(nthreads));
  std::vector<int> arrivals;
  for (int p : parts) {
    if (p == 0) arrivals.push_back(0);
    else th[r.below(th.size())].push_back(p);
  }
  for (size_t i = 0; i < arrivals.size(); ++i) {
    if (i < th.size()) th[i].push_back(0);
    else th.push_back(std::vector<int>{0});
  }
  for (auto& t : th) {
    if (!t.empty()) s.ops.push_back(t);
  }
  s.waiters = static_cast<int>(r.range(cls >= 2 ? 1 : 0, 6));
  if (s.ops.empty() && s.waiters == 0) s.waiters = 1;
  s.arrival = cls >= 2 ? 0 : static_cast<int>(r.below(3));
  if (s.waiters == 0) s.arrival = 2;
  s.lateWaiters = static_cast<int>(r.below(3));
}

void genPerturbation(vrt::Rng& r, Spec& s) {
  if (r.chance(0.5)) {
    s.preWaitP = r.chance(0.5) ? 1.0 : 0.5;
    s.preWaitUs = static_cast<int>(r.range(20, 400));
  }
  if (r.chance(0.3)) s.spuriousP = r.chance(0.5) ? 0.2 : 0.5;
  if (r.chance(0.5)) s.hookP = r.chance(0.5) ? 1.0 : 0.4;
}

const char* arrivalName(int a) {
  static const char* n[] = {"waiters-parked", "notify-first", "race", "gated-waiter"};
  return n[a];
}

} // namespace

void runC21() {
  const long n = vrt::g_args.getInt("n", vrt::thorough() ? 8200 : 328);
  vrt::setStateDumper(dumpState);
  for (long idx = 0; idx < n; ++idx) {
    if (!vrt::selected(idx)) continue;
    vrt::Rng r = vrt::caseRng(idx);
    Spec s;
    long sel = idx % 41;
    std::string key;
    if (sel < 16) {
      s.kind = 0;
      s.waiters = static_cast<int>(r.range(1, 8));
      s.arrival = static_cast<int>(sel % 4);
      s.rounds = static_cast<int>(r.range(1, 3));
      s.notifiers = r.chance(0.8) ? 1 : 2;
      genPerturbation(r, s);
      if (s.arrival == 3) s.hookP = 0; // the site is used as a gate
      key = std::string("event/") + arrivalName(s.arrival) + (s.waiters > 1 ? "/multi-waiter" : "/one-waiter");
    } else {
      int cls = 0;
      if (sel >= 36 && sel <= 37) cls = 1;
      else if (sel == 38) cls = ((idx / 41) % 2) ? 3 : 2;
      else if (sel >= 39) cls = 1;
      genLatch(r, s, cls);
      genPerturbation(r, s);
      if (cls == 2) key = "latch/ordered/final-count_down-n";
      else if (cls == 3) key = "latch/race/with-count_down-n";
      else if (cls == 1) key = std::string("latch/ordered/") + (s.finalOp == 0 ? "final-arrive" : "final-count_down-1") + "/count_down-n-earlier";
      else key = std::string("latch/") + (s.ordered ? (s.finalOp == 0 ? "ordered/final-arrive" : "ordered/final-count_down-1") : "race/unit-ops");
    }
    vrt::caseBegin(idx, key, s.json());
    vrt::watchdogArm();
    Obs o = s.kind == 0 ? runEvent(s) : runLatch(s);
    vrt::watchdogDisarm();
    std::vector<std::string> cls;
    cls.push_back(s.kind == 0 ? "event" : "latch");
    cls.push_back(std::string(s.kind == 0 ? "event:" : "latch:") + arrivalName(s.arrival));
    if (o.parkedAll) cls.push_back(s.kind == 0 ? "event:all-parked-before-notify" : "latch:all-parked-before-final");
    if (s.kind == 0 && s.arrival == 3 && o.gateReached) cls.push_back("event:gate-reached");
    if (s.kind == 0 && s.rounds > 1) cls.push_back("event:reset-reuse");
    if (s.kind == 1) {
      cls.push_back(s.ordered ? "latch:ordered" : "latch:race");
      if (s.multi) cls.push_back("latch:count_down-n");
      bool arr = s.finalOp == 0;
      for (auto& t : s.ops) {
        for (int op : t) arr = arr || op == 0;
      }
      if (arr) cls.push_back("latch:arrive_and_wait");
    }
    if (s.spuriousP > 0) cls.push_back("spurious-wakeups");
    if (s.preWaitP > 0) cls.push_back("pre-wait-delay");
    bool nt = o.futexWaits > 0; // at least one thread really entered a futex wait
    vrt::caseEnd(J().kv("early", o.early).kv("futexWaits", o.futexWaits).kv("parkedAll", o.parkedAll), nt ? s.json().str() : "", cls);
  }
}
