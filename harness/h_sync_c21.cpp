// C21 — CompletionEvent and Latch waits never miss a wakeup (and never return early).
//
// Monitor: "issued" is advanced (relaxed) BEFORE the harness calls notify / count_down /
// arrive_and_wait, so a waiter that returns while issued < needed has returned early. A waiter
// that never returns cannot be joined: the case then ends in the runtime's state-based hang
// verdict (threads parked in untimed FUTEX_WAIT, wait-exit counter stable, no CPU) and the process
// is sacrificed.
#include <dispenso/completion_event.h>
#include <dispenso/latch.h>

#include "h_sync_common.h"

namespace {

struct Spec {
  int kind = 0; // 0 CompletionEvent, 1 Latch
  int waiters = 1; // threads calling wait()
  int arrival = 0; // 0 waiters parked first, 1 notifier first, 2 race, 3 one waiter gated between status load and futex wait
  int rounds = 1; // event: rounds with reset() in between
  int notifiers = 1; // event: threads calling notify()
  // latch
  int count = 1;
  bool ordered = true; // final op issued after every other op has completed / parked
  std::vector<std::vector<int>> ops; // per notifier thread; n>0 = count_down(n), 0 = arrive_and_wait (last op of its thread)
  int finalOp = -1; // ordered: n>0 count_down(n), 0 arrive_and_wait (by the main thread)
  int lateWaiters = 0; // waiters started only after the count reached zero
  int simShape = -1; // >= 0: 'simultaneous final decrements' family (index into kSimShapes)
  int simRounds = 0;
  bool multi = false; // some count_down(n>1) exists
  // perturbation
  double preWaitP = 0, spuriousP = 0, hookP = 0;
  int preWaitUs = 0;

  J json() const {
    J j;
    j.kv("kind", kind ? "latch" : "event").kv("waiters", waiters).kv("arrival", arrival);
    if (simShape >= 0) {
      j.kv("family", "simultaneous-final").kv("shape", simShape).kv("rounds", simRounds);
      return j;
    }
    if (kind == 0) {
      j.kv("rounds", rounds).kv("notifiers", notifiers);
    } else {
      std::string o = "[";
      for (size_t t = 0; t < ops.size(); ++t) {
        if (t) o += ",";
        o += "[";
        for (size_t k = 0; k < ops[t].size(); ++k) {
          if (k) o += ",";
          o += std::to_string(ops[t][k]);
        }
        o += "]";
      }
      o += "]";
      j.kv("count", count).kv("ordered", ordered).raw("ops", o).kv("finalOp", finalOp).kv("lateWaiters", lateWaiters);
    }
    j.kv("preWaitP", preWaitP).kv("preWaitUs", preWaitUs).kv("spuriousP", spuriousP).kv("hookP", hookP);
    return j;
  }
};

// state shared with the watchdog's witness dump
std::atomic<long> g_issued{0}, g_needed{0}, g_opsReturned{0}, g_waitReturned{0}, g_waitStarted{0}, g_early{0};

std::string dumpState() {
  vrt::FutexStats fs = vrt::futexStats();
  return J()
      .kv("issued", g_issued.load())
      .kv("needed", g_needed.load())
      .kv("notifyOpsReturned", g_opsReturned.load())
      .kv("waitsStarted", g_waitStarted.load())
      .kv("waitsReturned", g_waitReturned.load())
      .kv("parkedUntimedNow", fs.inUntimedWaitNow)
      .str();
}

void resetState(long needed) {
  g_issued = 0;
  g_needed = needed;
  g_opsReturned = 0;
  g_waitReturned = 0;
  g_waitStarted = 0;
  g_early = 0;
}

void applyPerturbation(const Spec& s) {
  if (s.preWaitP > 0) vrt::futexPreWaitDelay(s.preWaitP, s.preWaitUs);
  if (s.spuriousP > 0) vrt::futexSpurious(s.spuriousP);
  if (s.hookP > 0) vrt::hookProb(V::kEventBeforeFutexWait, s.hookP);
}
void clearPerturbation() {
  vrt::hooksReset();
  vrt::futexReset();
}

struct Obs {
  long simParkedRounds = 0, simRounds = 0;
  long early = 0;
  bool parkedAll = false;
  bool gateReached = false;
  long futexWaits = 0;
};

// ------------------------------------------------------------------ CompletionEvent
Obs runEvent(const Spec& s) {
  Obs o;
  dispenso::CompletionEvent ev;
  vrt::FutexStats f0 = vrt::futexStats();
  for (int round = 0; round < s.rounds; ++round) {
    resetState(1);
    applyPerturbation(s);
    std::atomic<int> issued{0};
    auto waiterBody = [&]() {
      g_waitStarted.fetch_add(1, std::memory_order_relaxed);
      vrt::progress();
      ev.wait();
      bool ok = issued.load(std::memory_order_relaxed) != 0;
      bool done = ev.completed();
      if (!ok || !done) {
        g_early.fetch_add(1, std::memory_order_relaxed);
        vrt::violation("CompletionEvent::wait() returned before notify() was called",
                       J().kv("issuedSeen", ok).kv("completedAfterWait", done).kv("round", round), "early-return");
      }
      g_waitReturned.fetch_add(1, std::memory_order_relaxed);
      vrt::progress();
    };
    auto notifyBody = [&]() {
      vrt::progress();
      issued.store(1, std::memory_order_relaxed);
      g_issued.store(1, std::memory_order_relaxed);
      ev.notify();
      g_opsReturned.fetch_add(1, std::memory_order_relaxed);
      vrt::progress();
    };
    std::vector<std::thread> ws, ns;
    hs::SpinStart start(s.waiters + s.notifiers); // must outlive the threads: joined at the end of the round
    if (s.arrival == 0) {
      for (int i = 0; i < s.waiters; ++i) ws.emplace_back(waiterBody);
      bool parked = hs::pollUntil([&] { return vrt::futexStats().inUntimedWaitNow >= s.waiters; }, 300);
      if (round == 0) o.parkedAll = parked;
      for (int i = 0; i < s.notifiers; ++i) ns.emplace_back(notifyBody);
    } else if (s.arrival == 1) {
      for (int i = 0; i < s.notifiers; ++i) ns.emplace_back(notifyBody);
      for (auto& t : ns) t.join();
      ns.clear();
      for (int i = 0; i < s.waiters; ++i) ws.emplace_back(waiterBody);
    } else if (s.arrival == 2) {
      for (int i = 0; i < s.waiters; ++i) ws.emplace_back([&] {
        start.arriveAndWait();
        waiterBody();
      });
      for (int i = 0; i < s.notifiers; ++i) ns.emplace_back([&] {
        start.arriveAndWait();
        notifyBody();
      });
    } else {
      // one waiter is held between its status load and its futex wait while notify() runs
      vrt::gateArm(V::kEventBeforeFutexWait);
      ws.emplace_back(waiterBody);
      bool arrived = vrt::gateWaitArrived(V::kEventBeforeFutexWait, 3000);
      if (round == 0) o.gateReached = arrived;
      if (!arrived) vrt::inconclusive("gate not reached");
      for (int i = 1; i < s.waiters; ++i) ws.emplace_back(waiterBody);
      if (s.waiters > 1) hs::pollUntil([&] { return vrt::futexStats().inUntimedWaitNow >= s.waiters - 1; }, 200);
      for (int i = 0; i < s.notifiers; ++i) ns.emplace_back(notifyBody);
      for (auto& t : ns) t.join();
      ns.clear();
      vrt::gateOpen(V::kEventBeforeFutexWait);
    }
    for (auto& t : ns) t.join();
    for (auto& t : ws) t.join(); // a lost wake-up parks here for ever -> watchdog verdict
    o.early += g_early.load();
    clearPerturbation();
    if (round + 1 < s.rounds) ev.reset();
  }
  o.futexWaits = static_cast<long>(vrt::futexStats().waits - f0.waits);
  return o;
}

// ------------------------------------------------------------------ Latch
Obs runLatch(const Spec& s) {
  Obs o;
  dispenso::Latch latch(static_cast<uint32_t>(s.count));
  resetState(s.count);
  applyPerturbation(s);
  vrt::FutexStats f0 = vrt::futexStats();
  int arrivers = 0;
  for (auto& t : s.ops) {
    for (int op : t) arrivers += op == 0 ? 1 : 0;
  }
  auto afterWait = [&](const char* what) {
    long iss = g_issued.load(std::memory_order_relaxed);
    bool zero = latch.try_wait();
    if (iss < s.count || !zero) {
      g_early.fetch_add(1, std::memory_order_relaxed);
      vrt::violation(std::string("Latch::") + what + " returned before the count reached zero",
                     J().kv("issued", iss).kv("count", s.count).kv("try_wait", zero), "early-return");
    }
    g_waitReturned.fetch_add(1, std::memory_order_relaxed);
    vrt::progress();
  };
  auto waiterBody = [&]() {
    g_waitStarted.fetch_add(1, std::memory_order_relaxed);
    vrt::progress();
    latch.wait();
    afterWait("wait()");
  };
  auto doOp = [&](int op) {
    if (op == 0) {
      g_issued.fetch_add(1, std::memory_order_relaxed);
      g_waitStarted.fetch_add(1, std::memory_order_relaxed);
      latch.arrive_and_wait();
      afterWait("arrive_and_wait()");
    } else {
      g_issued.fetch_add(op, std::memory_order_relaxed);
      latch.count_down(static_cast<uint32_t>(op));
      g_opsReturned.fetch_add(1, std::memory_order_relaxed);
      vrt::progress();
    }
  };
  long nonBlockingOps = 0;
  for (auto& t : s.ops) {
    for (int op : t) nonBlockingOps += op != 0 ? 1 : 0;
  }
  std::vector<std::thread> ws, ns;
  const int parties = static_cast<int>(s.ops.size()) + (s.arrival == 2 ? s.waiters : 0);
  hs::SpinStart start(parties);
  if (s.arrival == 0) {
    for (int i = 0; i < s.waiters; ++i) ws.emplace_back(waiterBody);
    o.parkedAll = hs::pollUntil([&] { return vrt::futexStats().inUntimedWaitNow >= s.waiters; }, 300);
  } else if (s.arrival == 2) {
    for (int i = 0; i < s.waiters; ++i) ws.emplace_back([&] {
      start.arriveAndWait();
      waiterBody();
    });
  }
  for (size_t t = 0; t < s.ops.size(); ++t) {
    ns.emplace_back([&, t] {
      vrt::progress();
      start.arriveAndWait();
      vrt::progress();
      for (int op : s.ops[t]) doOp(op);
    });
  }
  if (s.ordered) {
    // everything except the final operation has completed (count_downs returned, arrivers and
    // waiters parked) before the final operation is issued
    bool settled = hs::pollUntil(
        [&] {
          return g_opsReturned.load(std::memory_order_relaxed) >= nonBlockingOps &&
              vrt::futexStats().inUntimedWaitNow >= (s.arrival == 1 ? 0 : s.waiters) + arrivers;
        },
        500);
    o.parkedAll = settled;
    // state-based part of the ordering: all count_downs have returned (bounded spin, they never block)
    while (g_opsReturned.load(std::memory_order_relaxed) < nonBlockingOps) std::this_thread::yield();
    if (s.finalOp == 0) {
      g_issued.fetch_add(1, std::memory_order_relaxed);
      latch.arrive_and_wait();
      afterWait("arrive_and_wait()");
    } else {
      g_issued.fetch_add(s.finalOp, std::memory_order_relaxed);
      latch.count_down(static_cast<uint32_t>(s.finalOp));
      vrt::progress();
    }
  }
  if (s.arrival == 1) {
    // waiters that arrive late: only once every decrement has been issued and returned
    for (auto& t : ns) t.join();
    ns.clear();
    for (int i = 0; i < s.waiters; ++i) ws.emplace_back(waiterBody);
  }
  for (auto& t : ns) t.join();
  for (int i = 0; i < s.lateWaiters; ++i) ws.emplace_back(waiterBody);
  for (auto& t : ws) t.join();
  o.early = g_early.load();
  o.futexWaits = static_cast<long>(vrt::futexStats().waits - f0.waits);
  clearPerturbation();
  return o;
}

// ------------------------------------------------------------------ simultaneous final decrements
// A waiter is parked in Latch::wait(); the last k decrements that together take the count to zero are
// released at the same instant through a hot spin line (relaxed atomics, no futex), with a per-round
// skew of -300..+300 ns between the racers, many rounds per case, a fresh Latch each round.
// Verdict (state only): the count is zero, every count_down has returned, no FUTEX_WAKE has been issued since the round
// began, and a waiter is still inside its untimed futex wait (3 samples, exit counter stable): nobody
// will ever wake it.
struct SimShape {
  const char* name;
  int count;
  std::vector<int> ops; // one per racer: n > 0 count_down(n), 0 arrive_and_wait()
};
const SimShape kSimShapes[] = {
    {"count_down1+count_down1", 2, {1, 1}},
    {"count_down2+count_down1", 3, {2, 1}},
    {"count_down1x3", 3, {1, 1, 1}},
    {"count_down1+arrive_and_wait", 2, {1, 0}},
};

inline void backoffWait(const std::atomic<long>& a, long r) {
  unsigned spins = 0;
  while (a.load(std::memory_order_relaxed) < r) {
    ++spins;
    if (spins > 2000) usleep(20);
    else if (spins > 200) std::this_thread::yield();
  }
}

Obs runSimultaneous(const Spec& s) {
  Obs o;
  const SimShape& sh = kSimShapes[s.simShape];
  const int k = static_cast<int>(sh.ops.size());
  const long R = s.simRounds;
  int cdOps = 0, arrOps = 0;
  for (int op : sh.ops) (op ? cdOps : arrOps)++;
  std::vector<std::unique_ptr<dispenso::Latch>> latches;
  for (long r = 0; r < R; ++r) latches.emplace_back(new dispenso::Latch(static_cast<uint32_t>(sh.count)));
  resetState(sh.count);
  std::atomic<long> wgo{-1}, prep{-1}, go{-1}, hot{0}, opsRet{0}, wdone{0}, arrDone{0};
  auto check = [&](const char* what, long r) {
    long iss = g_issued.load(std::memory_order_relaxed);
    bool zero = latches[static_cast<size_t>(r)]->try_wait();
    if (iss < sh.count || !zero) {
      g_early.fetch_add(1, std::memory_order_relaxed);
      vrt::violation(std::string("Latch::") + what + " returned before the count reached zero", J().kv("issued", iss).kv("count", sh.count).kv("try_wait", zero).kv("round", r), "early-return");
    }
  };
  std::thread waiter([&] {
    vrt::progress();
    for (long r = 0; r < R; ++r) {
      backoffWait(wgo, r);
      latches[static_cast<size_t>(r)]->wait();
      check("wait()", r);
      wdone.store(r + 1, std::memory_order_relaxed);
    }
  });
  std::vector<std::thread> racers;
  for (int t = 0; t < k; ++t) {
    racers.emplace_back([&, t] {
      vrt::progress();
      const int op = sh.ops[static_cast<size_t>(t)];
      for (long r = 0; r < R; ++r) {
        backoffWait(prep, r);
        hot.fetch_add(1, std::memory_order_relaxed);
        while (go.load(std::memory_order_relaxed) < r) {
        }
        // skew: racer 0 late for positive d, racer 1 late for negative d, racer 2 on its own cycle
        long d = ((r * 7) % 61 - 30) * 10;
        long mine = t == 0 ? (d > 0 ? d : 0) : t == 1 ? (d < 0 ? -d : 0) : (r % 5) * 25;
        for (volatile long i = 0; i < mine; ++i) {
        }
        dispenso::Latch& l = *latches[static_cast<size_t>(r)];
        if (op) {
          g_issued.fetch_add(op, std::memory_order_relaxed);
          l.count_down(static_cast<uint32_t>(op));
          opsRet.fetch_add(1, std::memory_order_relaxed);
        } else {
          g_issued.fetch_add(1, std::memory_order_relaxed);
          l.arrive_and_wait();
          check("arrive_and_wait()", r);
          arrDone.fetch_add(1, std::memory_order_relaxed);
        }
      }
    });
  }
  vrt::FutexStats f0 = vrt::futexStats();
  for (long r = 0; r < R; ++r) {
    g_issued.store(0, std::memory_order_relaxed);
    g_waitReturned.store(r, std::memory_order_relaxed);
    const vrt::FutexStats fr = vrt::futexStats();
    wgo.store(r, std::memory_order_relaxed);
    // the waiter must be parked before the racers are released (bounded; a round where it is not is
    // still run, it just does not count for the coverage class)
    bool parked = false;
    for (double end = vrt::nowSeconds() + 0.02; !parked;) {
      parked = vrt::futexStats().inUntimedWaitNow >= 1;
      if (parked || vrt::nowSeconds() > end) break;
      std::this_thread::yield();
    }
    if (parked) ++o.simParkedRounds;
    prep.store(r, std::memory_order_relaxed);
    for (unsigned spins = 0; hot.load(std::memory_order_relaxed) < static_cast<long>(k) * (r + 1);) {
      if (++spins > 100) std::this_thread::yield();
    }
    go.store(r, std::memory_order_relaxed);
    for (unsigned spins = 0; opsRet.load(std::memory_order_relaxed) < static_cast<long>(cdOps) * (r + 1);) {
      if (++spins > 100) std::this_thread::yield(); // count_down never blocks
    }
    g_opsReturned.store(cdOps, std::memory_order_relaxed);
    int stable = 0;
    uint64_t exitsSeen = 0;
    unsigned polls = 0;
    while (wdone.load(std::memory_order_relaxed) < r + 1 || arrDone.load(std::memory_order_relaxed) < static_cast<long>(arrOps) * (r + 1)) {
      if (++polls < 200) {
        std::this_thread::yield();
        continue;
      }
      vrt::FutexStats fs = vrt::futexStats();
      // (the count really is zero: an arriver that was preempted before its decrement leaves the waiter
      // parked legitimately)
      const bool zero = latches[static_cast<size_t>(r)]->try_wait();
      if (zero && fs.wakes == fr.wakes && fs.inUntimedWaitNow >= 1 && (stable == 0 || fs.waitExits == exitsSeen)) {
        exitsSeen = fs.waitExits;
        if (++stable >= 3) {
          vrt::violation("lost wake-up: the count reached zero through overlapping final decrements, every count_down() has returned, no FUTEX_WAKE was issued, and a waiter is still parked in its futex wait",
                         J().kv("shape", sh.name).kv("round", r).kv("skewNs", ((r * 7) % 61 - 30) * 10).kv("issued", g_issued.load()).kv("count", sh.count)
                             .kv("parkedUntimedNow", fs.inUntimedWaitNow).kv("waiterParkedBeforeRelease", parked).kv("try_wait", latches[static_cast<size_t>(r)]->try_wait()));
          _exit(3); // the parked threads can never be joined: the process is sacrificed (driver continues with the next case)
        }
      } else {
        stable = 0;
      }
      usleep(2000);
    }
    vrt::progress();
  }
  waiter.join();
  for (auto& t : racers) t.join();
  o.simRounds = R;
  o.early = g_early.load();
  o.futexWaits = static_cast<long>(vrt::futexStats().waits - f0.waits);
  return o;
}

// Split `total` into parts and spread them over threads. unitOnly => every part is 1.
void genLatch(vrt::Rng& r, Spec& s, int cls) {
  // cls: 0 unit ops only; 1 multi parts exist but the final op is a unit (ordered);
  //      2 ordered, final op is count_down(n>1); 3 race with multi parts
  s.kind = 1;
  s.count = static_cast<int>(r.range(cls == 0 ? 1 : 2, 16));
  if (cls == 1 && s.count < 3) s.count = 3;
  s.ordered = cls == 1 || cls == 2 || (cls == 0 && r.chance(0.5));
  int remaining = s.count;
  std::vector<int> parts;
  if (s.ordered) {
    if (cls == 2) {
      s.finalOp = static_cast<int>(r.range(2, s.count));
    } else {
      s.finalOp = r.chance(0.4) ? 0 : 1;
    }
    remaining -= s.finalOp == 0 ? 1 : s.finalOp;
  }
  bool needMulti = cls == 1 || cls == 3;
  while (remaining > 0) {
    int n = 1;
    bool arrive = r.chance(0.3);
    if (!arrive && cls != 0 && remaining >= 2 && (needMulti || r.chance(0.4))) {
      n = static_cast<int>(r.range(2, remaining));
      needMulti = false;
    }
    parts.push_back(arrive ? 0 : n);
    remaining -= arrive ? 1 : n;
  }
  if (needMulti && cls == 3) {
    // could not place one (all arrivals): force the count up
    parts.push_back(2);
    s.count += 2;
  }
  if (needMulti && cls == 1) {
    parts.push_back(2);
    s.count += 2;
  }
  for (int p : parts) s.multi = s.multi || p > 1;
  if (s.finalOp > 1) s.multi = true;
  // spread over threads; an arrive_and_wait must be the last op of its thread
  int nthreads = static_cast<int>(r.range(1, 4));
  std::vector<std::vector<int>> th(static_cast<size_t>(nthreads));
  std::vector<int> arrivals;
  for (int p : parts) {
    if (p == 0) arrivals.push_back(0);
    else th[r.below(th.size())].push_back(p);
  }
  for (size_t i = 0; i < arrivals.size(); ++i) {
    if (i < th.size()) th[i].push_back(0);
    else th.push_back(std::vector<int>{0});
  }
  for (auto& t : th) {
    if (!t.empty()) s.ops.push_back(t);
  }
  s.waiters = static_cast<int>(r.range(cls >= 2 ? 1 : 0, 6));
  if (s.ops.empty() && s.waiters == 0) s.waiters = 1;
  s.arrival = cls >= 2 ? 0 : static_cast<int>(r.below(3));
  if (s.waiters == 0) s.arrival = 2;
  s.lateWaiters = static_cast<int>(r.below(3));
}

void genPerturbation(vrt::Rng& r, Spec& s) {
  if (r.chance(0.5)) {
    s.preWaitP = r.chance(0.5) ? 1.0 : 0.5;
    s.preWaitUs = static_cast<int>(r.range(20, 400));
  }
  if (r.chance(0.3)) s.spuriousP = r.chance(0.5) ? 0.2 : 0.5;
  if (r.chance(0.5)) s.hookP = r.chance(0.5) ? 1.0 : 0.4;
}

const char* arrivalName(int a) {
  static const char* n[] = {"waiters-parked", "notify-first", "race", "gated-waiter"};
  return n[a];
}

} // namespace

void runC21() {
  const long n = vrt::g_args.getInt("n", vrt::thorough() ? 8200 : 328);
  vrt::setStateDumper(dumpState);
  for (long idx = 0; idx < n; ++idx) {
    if (!vrt::selected(idx)) continue;
    vrt::Rng r = vrt::caseRng(idx);
    Spec s;
    long sel = idx % 41;
    std::string key;
    if (sel < 16) {
      s.kind = 0;
      s.waiters = static_cast<int>(r.range(1, 8));
      s.arrival = static_cast<int>(sel % 4);
      s.rounds = static_cast<int>(r.range(1, 3));
      s.notifiers = r.chance(0.8) ? 1 : 2;
      genPerturbation(r, s);
      if (s.arrival == 3) s.hookP = 0; // the site is used as a gate
      key = std::string("event/") + arrivalName(s.arrival) + (s.waiters > 1 ? "/multi-waiter" : "/one-waiter");
    } else if (sel >= 39) {
      s.kind = 1;
      s.simShape = static_cast<int>((idx / 41 + sel) % 4);
      long maxR = vrt::g_args.getInt("simrounds", (VRT_TSAN || VRT_ASAN) ? 150 : (vrt::thorough() ? 3000 : 450));
      s.simRounds = static_cast<int>(r.range(maxR / 3, maxR));
      s.waiters = 1;
      key = std::string("latch/simultaneous-final/") + kSimShapes[s.simShape].name;
    } else {
      int cls = 0;
      if (sel >= 36 && sel <= 37) cls = 1;
      else if (sel == 38) cls = ((idx / 41) % 2) ? 3 : 2;
      else if (sel >= 39) cls = 1;
      genLatch(r, s, cls);
      genPerturbation(r, s);
      if (cls == 2) key = "latch/ordered/final-count_down-n";
      else if (cls == 3) key = "latch/race/with-count_down-n";
      else if (cls == 1) key = std::string("latch/ordered/") + (s.finalOp == 0 ? "final-arrive" : "final-count_down-1") + "/count_down-n-earlier";
      else key = std::string("latch/") + (s.ordered ? (s.finalOp == 0 ? "ordered/final-arrive" : "ordered/final-count_down-1") : "race/unit-ops");
    }
    vrt::caseBegin(idx, key, s.json());
    vrt::watchdogArm();
    Obs o = s.simShape >= 0 ? runSimultaneous(s) : (s.kind == 0 ? runEvent(s) : runLatch(s));
    vrt::watchdogDisarm();
    std::vector<std::string> cls;
    if (s.simShape >= 0) {
      cls.push_back("latch");
      cls.push_back("simultaneous-final");
      cls.push_back(std::string("simultaneous-final:") + kSimShapes[s.simShape].name);
      if (o.simParkedRounds * 2 >= o.simRounds) cls.push_back("simultaneous-final:waiter-parked");
      vrt::caseEnd(J().kv("rounds", o.simRounds).kv("roundsWithParkedWaiter", o.simParkedRounds).kv("early", o.early).kv("futexWaits", o.futexWaits),
                   o.simParkedRounds > 0 ? s.json().str() : "", cls);
      continue;
    }
    cls.push_back(s.kind == 0 ? "event" : "latch");
    cls.push_back(std::string(s.kind == 0 ? "event:" : "latch:") + arrivalName(s.arrival));
    if (o.parkedAll) cls.push_back(s.kind == 0 ? "event:all-parked-before-notify" : "latch:all-parked-before-final");
    if (s.kind == 0 && s.arrival == 3 && o.gateReached) cls.push_back("event:gate-reached");
    if (s.kind == 0 && s.rounds > 1) cls.push_back("event:reset-reuse");
    if (s.kind == 1) {
      cls.push_back(s.ordered ? "latch:ordered" : "latch:race");
      if (s.multi) cls.push_back("latch:count_down-n");
      bool arr = s.finalOp == 0;
      for (auto& t : s.ops) {
        for (int op : t) arr = arr || op == 0;
      }
      if (arr) cls.push_back("latch:arrive_and_wait");
    }
    if (s.spuriousP > 0) cls.push_back("spurious-wakeups");
    if (s.preWaitP > 0) cls.push_back("pre-wait-delay");
    bool nt = o.futexWaits > 0; // at least one thread really entered a futex wait
    vrt::caseEnd(J().kv("early", o.early).kv("futexWaits", o.futexWaits).kv("parkedAll", o.parkedAll), nt ? s.json().str() : "", cls);
  }
}
