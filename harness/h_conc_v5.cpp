#include "h_conc_vec_impl.h"
// ConcurrentVector instantiations for trait combinations 10 and 11 (x 4 element sizes)
VecOut runVec_t10(const VecSpec& s) {
  using Tr = VTraits<false, dispenso::ConcurrentVectorReallocStrategy::kAsNeeded, true>;
  switch (s.sizeIdx) {
    case 0: return runVecT<Tr, VElem<32>>(s);
    case 1: return runVecT<Tr, VElem<64>>(s);
    case 2: return runVecT<Tr, VElem<128>>(s);
    default: return runVecT<Tr, VElem<256>>(s);
  }
}
VecOut runVec_t11(const VecSpec& s) {
  using Tr = VTraits<false, dispenso::ConcurrentVectorReallocStrategy::kAsNeeded, false>;
  switch (s.sizeIdx) {
    case 0: return runVecT<Tr, VElem<32>>(s);
    case 1: return runVecT<Tr, VElem<64>>(s);
    case 2: return runVecT<Tr, VElem<128>>(s);
    default: return runVecT<Tr, VElem<256>>(s);
  }
}
