#include "h_parfor_impl.h"

Obs runSpec_t6(const Spec& s) {
  return runSpecT<int64_t>(s);
}
