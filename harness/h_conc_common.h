#pragma once
// Shared declarations for engine h_conc: C33 (ConcurrentVector concurrent growth), C34 (MpmcRingBuffer),
// C35 (SPSCRingBuffer), C36 (ChaseLevDeque), C37 (ConcurrentObjectArena).
#include <dispenso/detail/verif_hooks.h>

#include <algorithm>
#include <atomic>
#include <cstdint>
#include <cstdlib>
#include <memory>
#include <string>
#include <thread>
#include <vector>

#include <unistd.h>

#include "verif_rt.h"

using vrt::J;
namespace V = dispenso::verif;

// Barrier for harness threads that backs off to short sleeps (the machine is shared).
class HBarrier {
 public:
  explicit HBarrier(int n) : n_(n) {}
  void wait() {
    int gen = gen_.load(std::memory_order_acquire);
    if (count_.fetch_add(1, std::memory_order_acq_rel) + 1 == n_) {
      count_.store(0, std::memory_order_relaxed);
      gen_.fetch_add(1, std::memory_order_acq_rel);
    } else {
      int spins = 0;
      while (gen_.load(std::memory_order_acquire) == gen) {
        if (++spins < 200) std::this_thread::yield();
        else usleep(50);
      }
    }
  }

 private:
  const int n_;
  std::atomic<int> count_{0};
  std::atomic<int> gen_{0};
};

// violation with a per-case cap (monitors may fire from many threads / many elements)
extern std::atomic<long> g_flagged;
inline void flag(const std::string& msg, const J& detail, const std::string& subkey = "") {
  if (g_flagged.fetch_add(1, std::memory_order_relaxed) < 4) vrt::violation(msg, detail, subkey);
}

// per-thread xorshift for pauses inside monitored loops (no shared state)
struct TRng {
  uint64_t s;
  explicit TRng(uint64_t seed) : s(vrt::mix(seed, 0x51ED27) | 1) {}
  uint64_t next() {
    s ^= s << 13;
    s ^= s >> 7;
    s ^= s << 17;
    return s;
  }
  uint64_t below(uint64_t n) {
    return n ? next() % n : 0;
  }
  bool chance(double p) {
    return (next() >> 11) * (1.0 / 9007199254740992.0) < p;
  }
};
inline void maybePause(TRng& r, double p) {
  if (p > 0 && r.chance(p)) {
    unsigned k = static_cast<unsigned>(r.below(10));
    if (k < 6) std::this_thread::yield();
    else if (k < 9) vrt::spinFor(static_cast<int>(1 + r.below(30)));
    else usleep(static_cast<unsigned>(1 + r.below(120)));
  }
}

void runC33();
void runC34();
void runC35();
void runC36();
void runC37();
