// Engine h_pool: generic case runner (programs against one pool) and the scripted resize interleavings.
#include "h_pool_run.h"

#include <functional>
#include <new>

using dispenso::ConcurrentTaskSet;
using dispenso::TaskSet;
using dispenso::ThreadPool;

J CaseSpec::json() const {
  J j;
  j.kv("N", N).kv("mult", mult).kv("mode", mode ? "poll" : "wake");
  std::vector<std::string> ps;
  for (auto& p : programs) ps.push_back(p.str());
  j.arr("programs", ps).arr("ext", ext).arr("poolTasks", poolTasks).kv("main", mainProg).kv("resizer", resizerProg);
  j.kv("cts", ctsKind).kv("ctsSteal", ctsSteal).kv("gates", gates).kv("gateRelease", gateRelease);
  j.kv("perturb", perturb).kv("futexDelay", futexDelay).kv("futexSpur", futexSpur).kv("acct", checkAccounting).kv("finalResize", finalResize).kv("joinPoolTasks", joinPoolTasks).kv("hintRace", hintRace);
  return j;
}

J CaseObs::json() const {
  J j;
  j.kv("tasks", ids).kv("lost", lost).kv("dup", dup).kv("barriers", barrierChecks).kv("barrierFails", barrierFails);
  j.kv("futChecked", futChecked).kv("futNotReady", futNotReady).kv("fqTasks", fqTasks).kv("fqInline", fqInline);
  J c;
  for (int i = 1; i < C_NCLS; ++i) {
    if (cls[i]) c.kv(kClsNames[i], cls[i]);
  }
  j.kv("ranOn", c);
  j.kv("resizes", resizes).kv("maxOutstandingAtWait", maxOutstandingAtWait).kv("tryWaitFalse", tryWaitFalse);
  if (acctChecked) j.kv("drift", drift).kv("idleSeen", idleSeen).kv("quiescent", quiescent).kv("finalN", finalN).kv("probeInline", probeInline);
  return j;
}

static void setHooks(double p) {
  if (p <= 0) return;
  for (int site = 1; site <= 21; ++site) vrt::hookProb(site, p);
}

static void collect(CaseObs& o) {
  o.ids = g.nextId.load(std::memory_order_relaxed);
  for (uint32_t id = 0; id < o.ids && id < kMaxIds; ++id) {
    uint32_t c = g.count[id].load(std::memory_order_relaxed);
    if (c == 0) {
      ++o.lost;
      if (o.firstLost < 0) o.firstLost = id;
      uint32_t p = g.parentOf[id];
      if (p != kNoParent && p < kMaxIds && g.cls[p].load(std::memory_order_relaxed) == C_H_DTOR) ++o.lostChildOfDtorDrained;
      else ++o.lostOther;
      delete g.tok[id]; // the harness frees the token of a task dispenso dropped (keeps LSan for the sweeps clean)
      g.tok[id] = nullptr;
    } else {
      if (c > 1) {
        ++o.dup;
        if (o.firstDup < 0) o.firstDup = id;
      }
      if (g.plain[id] != id + 1) ++o.plainBad;
    }
    if (g.flagsOf[id] & F_FQ) ++o.fqTasks;
  }
  o.lateRuns = g.lateRuns.load();
  o.barrierChecks = g.barrierChecks.load();
  o.barrierFails = g.barrierFails.load();
  o.futChecked = g.futChecked.load();
  o.futNotReady = g.futNotReady.load();
  o.fqInline = g.fqInline.load();
  for (int i = 0; i < C_NCLS; ++i) o.cls[i] = g.clsCount[i].load();
  o.resizes = g.resizes.load();
  o.resizeGrow = g.resizeGrow.load();
  o.resizeShrink = g.resizeShrink.load();
  o.resizeZero = g.resizeZero.load();
  o.maxOutstandingAtWait = g.maxOutstandingAtWait.load();
  o.tryWaitFalse = g.tryWaitFalse.load();
}

void collectCounts(CaseObs& o) {
  collect(o);
}

// C08: with every submitted task finished, nobody submitting and every worker observed inside a futex
// wait at one instant (a worker flushes its batched decrements before it can wait), the pending-work
// counter must be zero.
static void accountingCheck(ThreadPool& pool, CaseObs& o) {
  o.acctChecked = true;
  o.finalN = static_cast<long>(pool.numThreads());
  // 1. all work finished?
  bool done = false;
  for (long i = 0; i < 400000; ++i) {
    if (g.finished.load(std::memory_order_relaxed) == static_cast<long>(g.nextId.load(std::memory_order_relaxed))) {
      done = true;
      break;
    }
    if (o.finalN == 0 && i > 2000) break; // nothing can run it: not quiescent, the property does not apply
    usleep(50);
  }
  o.quiescent = done;
  if (!done) return;
  // 2. every worker parked
  if (o.finalN > 0) {
    for (long i = 0; i < 200000 && !o.idleSeen; ++i) {
      vrt::FutexStats fs = vrt::futexStats();
      if (fs.inWaitNow >= o.finalN) o.idleSeen = true;
      else usleep(20);
      if ((i & 1023) == 1023) vrt::progress(); // bounded by the poll count, not by the watchdog
    }
    if (!o.idleSeen) return;
  } else {
    o.idleSeen = true;
  }
  o.drift = static_cast<long>(pool.verifWorkRemaining());
  o.notWorking = pool.verifNumNotWorking();
  o.resizeRan = g.clsCount[C_H_RESIZE].load();
  // 3. behavioural cross-check: a fresh pool with >= 1 thread queues its first task
  if (o.finalN > 0) {
    uint32_t id = newIds(1);
    Task t = mkTask(id, A_NONE, F_PROBE, 0, 0, nullptr, kNoParent, 0);
    subPool(pool, t);
    for (long i = 0; i < 400000 && g.count[id].load(std::memory_order_relaxed) == 0; ++i) usleep(50);
    o.probeInline = g.cls[id].load(std::memory_order_relaxed) == C_H_INLINE;
  }
}

static std::string poolState() {
  ThreadPool* p = g.pool;
  J j;
  j.kv("started", g.started.load()).kv("finished", g.finished.load()).kv("ids", g.nextId.load());
#if !VRT_TSAN && !VRT_ASAN
  // (sanitizer builds: the watchdog thread must not read pool internals that main may be tearing down)
  if (p && !g.poolDead.load() && !g.poolDying.load()) {
    j.kv("numThreads", static_cast<long>(p->numThreads()))
        .kv("workRemaining", static_cast<long>(p->verifWorkRemaining()))
        .kv("numNotWorking", p->verifNumNotWorking())
        .kv("numSleeping", p->verifNumSleeping())
        .kv("numRings", p->verifNumRings())
        .kv("ringsNonEmptyBeyond", p->verifRingsNonEmptyBeyond())
        .kv("queuedApprox", p->verifQueuedApprox());
  }
#else
  (void)p;
#endif
  j.kv("ctsSched", g.ctsMon.sched.load()).kv("ctsDone", g.ctsMon.done.load());
  return j.str();
}

CaseObs runCase(const CaseSpec& s) {
  CaseObs o;
  monReset();
  g.programs = s.programs;
  ThreadPool* pool = new ThreadPool(static_cast<size_t>(s.N), static_cast<size_t>(s.mult));
  g.pool = pool;
  vrt::progress();
  vrt::setStateDumper(poolState);
  if (s.mode == 1) {
    ResizeScope r;
    pool->setSignalingWake(false, std::chrono::microseconds(200));
    vrt::progress();
  }
  setHooks(s.perturb);
  if (s.hintRace) vrt::hookProb(V::kPoolFindBeforeHintClear, 0.85);
  if (s.futexDelay > 0) vrt::futexPreWaitDelay(s.futexDelay, 200);
  if (s.futexSpur > 0) vrt::futexSpurious(s.futexSpur);

  alignas(64) unsigned char ctsBuf[sizeof(ConcurrentTaskSet)];
  ConcurrentTaskSet* cts = nullptr;
  if (s.ctsKind) {
    cts = new (ctsBuf) ConcurrentTaskSet(*pool, s.ctsKind == 2 ? dispenso::TaskCost::kHeavy : dispenso::TaskCost::kLightweight, static_cast<ssize_t>(s.ctsSteal));
    g.cts = cts;
    g.ctsMon.set = cts;
    g.ctsMon.kind = s.ctsKind;
  }

  int gates = s.N > 0 ? std::min(s.gates, s.N) : 0;
  for (int i = 0; i < gates; ++i) {
    uint32_t id = newIds(1);
    subPoolFQ(*pool, mkTask(id, A_GATE, static_cast<uint8_t>(F_GATE | F_FQ), 0, 0, nullptr, kNoParent, 0));
  }
  while (g.gatesStarted.load(std::memory_order_relaxed) < gates) usleep(50);
  vrt::progress();

  for (int j : s.poolTasks) {
    uint32_t id = newIds(1);
    if (cts) {
      g.ctsMon.sched.fetch_add(1, std::memory_order_relaxed);
      subTs(*cts, mkTask(id, A_PROGRAM, 0, static_cast<uint16_t>(j), 0, &g.ctsMon, kNoParent, 0));
    } else {
      subPool(*pool, mkTask(id, A_PROGRAM, 0, static_cast<uint16_t>(j), 0, nullptr, kNoParent, 0));
    }
  }
  std::vector<int> threadsProgs = s.ext;
  if (s.resizerProg >= 0) threadsProgs.push_back(s.resizerProg);
  vrt::Barrier start(static_cast<int>(threadsProgs.size()) + 1);
  std::vector<std::thread> threads;
  for (int j : threadsProgs) {
    threads.emplace_back([j, &start]() {
      tl.role = 1;
      start.wait();
      runProgram(j);
    });
  }
  start.wait();
  if (gates && s.gateRelease == 0) g.release.store(1, std::memory_order_relaxed);
  if (s.mainProg >= 0) runProgram(s.mainProg);
  for (auto& t : threads) {
    t.join();
    vrt::progress();
  }
  if (s.joinPoolTasks && !cts) {
    // a pool task that waits on placed (steal-ring) work must not overlap ~ThreadPool (see report: shutdown hang)
    while (g.programsDone.load(std::memory_order_relaxed) < static_cast<long>(s.poolTasks.size())) usleep(50);
    vrt::progress();
  }
  if (cts) {
    {
      WaitScope w;
      cts->wait();
    }
    checkBarrier(g.ctsMon, 1);
    ++tl.inWait;
    cts->~ConcurrentTaskSet();
    --tl.inWait;
    g.cts = nullptr;
  }
  if (gates && s.gateRelease == 1) g.release.store(1, std::memory_order_relaxed);
  if (s.finalResize >= 0) {
    ResizeScope r;
    pool->resize(s.finalResize);
    g.resizes.fetch_add(1, std::memory_order_relaxed);
  }
  if (s.checkAccounting) {
    vrt::hooksReset();
    vrt::futexReset();
    accountingCheck(*pool, o);
    setHooks(s.perturb);
  }

  // ~ThreadPool
  std::thread releaser;
  if (gates && s.gateRelease == 2) {
    vrt::gateArm(V::kPoolDtorAfterStop);
    releaser = std::thread([&o]() {
      tl.role = 1;
      o.dtorGateReached = vrt::gateWaitArrived(V::kPoolDtorAfterStop, 30000);
      g.release.store(1, std::memory_order_relaxed);
      vrt::gateOpen(V::kPoolDtorAfterStop);
    });
  }
  vrt::progress();
  g.poolDying.store(true, std::memory_order_relaxed);
  ++tl.inDtor;
  delete pool;
  --tl.inDtor;
  g.poolDead.store(true, std::memory_order_relaxed);
  vrt::progress();
  if (releaser.joinable()) releaser.join();
  vrt::hooksReset();
  vrt::futexReset();
  vrt::setStateDumper(nullptr);
  collect(o);
  g.pool = nullptr;
  monRemember();
  return o;
}

// ------------------------------------------------------------------ scripted interleavings
J ScriptSpec::json() const {
  const char* kn[] = {"?", "push-after-shrink", "ringbulk-after-join", "ringbulk-after-stop", "placed-after-stop", "fq-after-resize0", "shrink-before-ringcount-load"};
  return J().kv("script", kn[kind]).kv("N", N).kv("target", target).kv("count", count).kv("set", setKind).kv("via", via).kv("mult", mult).kv("realWait", realWait).kv("repeat", repeat);
}

namespace {
// wait for the pool to be completely idle (all workers inside a futex wait); bounded by polls
bool waitAllParked(int n) {
  if (n <= 0) return true;
  for (long i = 0; i < 400000; ++i) {
    if (vrt::futexStats().inWaitNow >= n) return true;
    usleep(25);
    if ((i & 1023) == 1023) vrt::progress();
  }
  return false;
}

// tryWait loop with a state-based stranded verdict: task(s) outstanding, no body running, a ring with
// index >= the published ring count non-empty, and no progress over 4000 polls.
template <typename TS>
bool boundedWait(TS& ts, ThreadPool& pool, ScriptObs& so) {
  long stable = 0, lastFin = -1, gone = 0;
  for (;;) {
    bool ok;
    {
      WaitScope w;
      ok = ts.tryWait(32);
    }
    ++so.polls;
    if (ok) return true;
    long fin = g.finished.load(std::memory_order_relaxed);
    long beyond = static_cast<long>(pool.verifRingsNonEmptyBeyond());
    bool nothingRunning = g.started.load(std::memory_order_relaxed) == fin;
    if (fin == lastFin && beyond > 0 && nothingRunning) ++stable;
    else stable = 0;
    if (fin == lastFin && beyond == 0 && nothingRunning && pool.verifQueuedApprox() == 0) ++gone;
    else gone = 0;
    lastFin = fin;
    if ((so.polls & 511) == 511) vrt::progress(); // bounded by the poll count
    if (gone >= 8000) {
      // outstanding tasks that sit in no queue tier and are not running can never complete: the set's wait and
      // destructor would spin for ever, so the process ends here
      vrt::violation("task-set tasks are outstanding but sit in no queue tier and none is running: they were dropped, wait() can never return",
                     J().kv("outstanding", static_cast<long>(ts.verifOutstanding())).kv("polls", so.polls), "dropped");
      _exit(5);
    }
    if (stable >= 4000) {
      so.stranded = true;
      so.strandedTasks = static_cast<long>(ts.verifOutstanding());
      so.ringsBeyond = beyond;
      return false;
    }
    usleep(50);
  }
}

template <typename TS>
struct RingProducer {
  // Submits `count` tasks through scheduleBulk (ring fast path) and then waits; with the bounded probe the
  // wait is a tryWait loop that gives a state-based stranded verdict instead of spinning for ever.
  static void run(ThreadPool& pool, TS& ts, SetMon& mon, int count, bool realWait, std::atomic<int>& phase, ScriptObs& so) {
    mon.sched.fetch_add(count, std::memory_order_relaxed);
    uint32_t b = newIds(static_cast<uint32_t>(count));
    subTsBulk(ts, b, static_cast<uint32_t>(count), mkProto(A_NONE, 0, 0, 20, &mon, kNoParent, 0));
    phase.store(1, std::memory_order_release); // submission returned
    while (phase.load(std::memory_order_acquire) < 2) usleep(50); // main finished its side of the script
    if (realWait) {
      WaitScope w;
      ts.wait();
    } else {
      if (!boundedWait(ts, pool, so)) {
        phase.store(3, std::memory_order_release); // ask main to rescue (resize drains every ring)
        while (phase.load(std::memory_order_acquire) < 4) usleep(50);
        WaitScope w;
        ts.wait();
      }
    }
    checkBarrier(mon, 1);
  }
};
} // namespace

ScriptObs runScript(const ScriptSpec& s) {
  ScriptObs so;
  monReset();
  ThreadPool* pool = new ThreadPool(static_cast<size_t>(s.N), static_cast<size_t>(s.mult));
  g.pool = pool;
  vrt::progress();
  vrt::setStateDumper(poolState);
  std::atomic<int> phase{0};
  SetMon mon;
  auto fail = [&](const char* why) {
    so.reached = false;
    so.why = why;
  };

  if (s.kind == SK_PUSH_AFTER_SHRINK || s.kind == SK_SHRINK_BEFORE_RINGCOUNT) {
    const int psite = s.kind == SK_PUSH_AFTER_SHRINK ? static_cast<int>(V::kPoolBulkRingsAfterCount) : static_cast<int>(V::kTaskSetBulkAfterRingTest);
    vrt::gateArm(psite);
    std::thread prod([&]() {
      tl.role = 1;
      if (s.setKind == 1) {
        TaskSet ts(*pool);
        mon.kind = 1;
        RingProducer<TaskSet>::run(*pool, ts, mon, s.count, s.realWait, phase, so);
      } else {
        ConcurrentTaskSet ts(*pool, dispenso::TaskCost::kLightweight);
        mon.kind = 3;
        RingProducer<ConcurrentTaskSet>::run(*pool, ts, mon, s.count, s.realWait, phase, so);
      }
    });
    bool arrived = vrt::gateWaitArrived(psite, 20000);
    if (!arrived) fail("producer never reached the ring-count site (ring fast path not taken)");
    if (arrived) {
      ResizeScope r;
      pool->resize(s.target);
      g.resizes.fetch_add(1, std::memory_order_relaxed);
      vrt::progress();
    }
    vrt::gateOpen(psite);
    while (phase.load(std::memory_order_acquire) < 1) usleep(50);
    phase.store(2, std::memory_order_release);
    // rescue on request
    for (;;) {
      int ph = phase.load(std::memory_order_acquire);
      if (ph == 3) {
        ResizeScope r;
        pool->resize(s.N);
        vrt::progress();
        phase.store(4, std::memory_order_release);
        break;
      }
      if (g.barrierChecks.load(std::memory_order_relaxed) > 0) break; // producer finished its wait
      usleep(100);
    }
    prod.join();
    vrt::progress();
  } else if (s.kind == SK_RINGBULK_AFTER_JOIN || s.kind == SK_RINGBULK_AFTER_STOP || s.kind == SK_PLACED_AFTER_STOP) {
    int site = s.kind == SK_RINGBULK_AFTER_JOIN ? V::kPoolResizeAfterJoin : V::kPoolResizeAfterStop;
    int cur = s.N;
    for (int rep = 0; rep < s.repeat && so.reached; ++rep) {
      int tgt = (rep % 2 == 0) ? s.target : s.N;
      if (tgt == cur) tgt = cur + 1;
      if (s.kind != SK_RINGBULK_AFTER_JOIN && !waitAllParked(cur)) {
        fail("workers never all parked");
        break;
      }
      vrt::gateArm(site);
      std::thread rz([&]() {
        tl.role = 1;
        ResizeScope r;
        pool->resize(tgt);
        g.resizes.fetch_add(1, std::memory_order_relaxed);
        vrt::progress();
      });
      bool arrived = vrt::gateWaitArrived(site, 20000);
      if (!arrived) fail("resizer never reached its gate");
      // producer side on this thread while the resizer is parked
      int cnt = std::min(s.count, std::max(cur, 1));
      if (arrived && s.kind != SK_PLACED_AFTER_STOP) {
        if (s.setKind == 1) {
          SetMon m2;
          m2.kind = 1;
          {
            TaskSet ts(*pool);
            m2.sched.fetch_add(cnt, std::memory_order_relaxed);
            uint32_t b = newIds(static_cast<uint32_t>(cnt));
            subTsBulk(ts, b, static_cast<uint32_t>(cnt), mkProto(A_NONE, 0, 0, 0, &m2, kNoParent, 0));
            vrt::gateOpen(site);
            rz.join();
            if (!boundedWait(ts, *pool, so)) {
              {
                ResizeScope r;
                pool->resize(tgt + 1); // rescue: a resize drains every ring
              }
              tgt = tgt + 1;
              WaitScope w;
              ts.wait();
            }
          }
          checkBarrier(m2, 1);
        } else {
          SetMon m2;
          m2.kind = 3;
          {
            ConcurrentTaskSet ts(*pool, dispenso::TaskCost::kLightweight);
            m2.sched.fetch_add(cnt, std::memory_order_relaxed);
            uint32_t b = newIds(static_cast<uint32_t>(cnt));
            subTsBulk(ts, b, static_cast<uint32_t>(cnt), mkProto(A_NONE, 0, 0, 0, &m2, kNoParent, 0));
            vrt::gateOpen(site);
            rz.join();
            if (!boundedWait(ts, *pool, so)) {
              {
                ResizeScope r;
                pool->resize(tgt + 1);
              }
              tgt = tgt + 1;
              WaitScope w;
              ts.wait();
            }
          }
          checkBarrier(m2, 1);
        }
      } else if (arrived) {
        FutBox* box = futBoxNew();
        if (s.setKind == 2) {
          SetMon m2;
          m2.kind = 2;
          {
            ConcurrentTaskSet ts(*pool, dispenso::TaskCost::kHeavy);
            for (int i = 0; i < cnt; ++i) {
              m2.sched.fetch_add(1, std::memory_order_relaxed);
              uint32_t b = newIds(1);
              subTsFQ(ts, mkTask(b, A_NONE, F_FQ, 0, 0, &m2, kNoParent, 0));
            }
            vrt::gateOpen(site);
            rz.join();
            WaitScope w;
            ts.wait();
          }
          checkBarrier(m2, 1);
        } else {
          for (int i = 0; i < cnt; ++i) {
            uint32_t b = newIds(1);
            subFutPool(*pool, *box, mkTask(b, A_NONE, F_FUT, 0, 0, nullptr, kNoParent, 0), true);
          }
          vrt::gateOpen(site);
          rz.join();
        }
        futBoxFree(box);
      } else {
        vrt::gateOpen(site);
        rz.join();
      }
      cur = tgt;
    }
  } else if (s.kind == SK_FQ_AFTER_RESIZE0) {
    vrt::gateArm(V::kPoolForceEnqueueAfterSizeTest);
    std::atomic<uint32_t> theId{kNoParent};
    std::thread prod([&]() {
      tl.role = 1;
      uint32_t b = newIds(1);
      theId.store(b, std::memory_order_relaxed);
      if (s.via == 0) {
        subPoolFQ(*pool, mkTask(b, A_NONE, F_FQ, 0, 0, nullptr, kNoParent, 0));
        phase.store(1, std::memory_order_release);
      } else if (s.via == 2) {
        // plain schedule(): the first call parks inside forceEnqueue, the later ones see the zero-thread pool
        subPool(*pool, mkTask(b, A_NONE, 0, 0, 0, nullptr, kNoParent, 0));
        for (int i = 1; i < s.count; ++i) {
          uint32_t b2 = newIds(1);
          subPool(*pool, mkTask(b2, A_NONE, 0, 0, 0, nullptr, kNoParent, 0));
        }
        phase.store(1, std::memory_order_release);
      } else {
        mon.kind = 1;
        {
          TaskSet ts(*pool);
          mon.sched.fetch_add(1, std::memory_order_relaxed);
          subTsFQ(ts, mkTask(b, A_NONE, F_FQ, 0, 0, &mon, kNoParent, 0));
          phase.store(1, std::memory_order_release);
          WaitScope w;
          ts.wait();
        }
        checkBarrier(mon, 1);
      }
    });
    bool arrived = vrt::gateWaitArrived(V::kPoolForceEnqueueAfterSizeTest, 20000);
    if (!arrived) fail("producer never reached the forceEnqueue site");
    if (arrived) {
      ResizeScope r;
      pool->resize(0);
      g.resizes.fetch_add(1, std::memory_order_relaxed);
      vrt::progress();
    }
    vrt::gateOpen(V::kPoolForceEnqueueAfterSizeTest);
    prod.join();
    if (arrived && s.via != 1) {
      // the submit call has returned, nobody is calling into the pool, the pool has no thread
      uint32_t id = theId.load(std::memory_order_relaxed);
      long stable = 0;
      for (long i = 0; i < 4000; ++i) {
        ++so.polls;
        if ((i & 511) == 511) vrt::progress();
        if (g.count[id].load(std::memory_order_relaxed) == 0 && pool->numThreads() == 0 && pool->verifQueuedApprox() > 0) ++stable;
        else break;
        usleep(50);
      }
      if (stable >= 4000) {
        so.stranded = true;
        so.strandedTasks = 1;
      }
    }
  }

  if (s.checkAccounting && so.reached) accountingCheck(*pool, so.c);
  so.drainedByResize = g.clsCount[C_H_RESIZE].load();
  vrt::progress();
  long dtorBefore = g.clsCount[C_H_DTOR].load();
  (void)dtorBefore;
  g.poolDying.store(true, std::memory_order_relaxed);
  ++tl.inDtor;
  delete pool;
  --tl.inDtor;
  g.poolDead.store(true, std::memory_order_relaxed);
  vrt::hooksReset();
  vrt::setStateDumper(nullptr);
  collect(so.c);
  so.ranInDtor = so.c.cls[C_H_DTOR];
  g.pool = nullptr;
  monRemember();
  return so;
}

// ------------------------------------------------------------------ scripted shutdown with the hint race
DtorHintObs runDtorHintScript(int N) {
  DtorHintObs ho;
  monReset();
  ThreadPool* pool = new ThreadPool(static_cast<size_t>(N), 32);
  g.pool = pool;
  vrt::progress();
  auto pollUntil = [](const std::function<bool()>& f, long maxPolls) {
    for (long i = 0; i < maxPolls; ++i) {
      if (f()) return true;
      usleep(50);
      if ((i & 511) == 511) vrt::progress();
    }
    return f();
  };
  uint32_t parentId = 0;
  {
    // 1. one ring task per worker, each held until released: every worker that pops its ring task prefers
    //    its ring from now on (the hint-clear hook site is on that path)
    SetMon m;
    m.kind = 1;
    TaskSet ts(*pool);
    m.sched.fetch_add(N, std::memory_order_relaxed);
    uint32_t b = newIds(static_cast<uint32_t>(N));
    subTsBulk(ts, b, static_cast<uint32_t>(N), mkProto(A_GATE, F_GATE, 0, 0, &m, kNoParent, 0));
    if (!pollUntil([&]() { return g.gatesStarted.load(std::memory_order_relaxed) >= N; }, 100000)) {
      ho.reached = false;
      ho.why = "ring tasks did not all start on workers";
    }
    // 2. the phased parent is queued (hint set), the gate at the hint-clear site is armed, the ring tasks end
    parentId = newIds(1);
    subPoolFQ(*pool, mkTask(parentId, A_PHASED, F_FQ, 0, 0, nullptr, kNoParent, 0));
    vrt::gateArm(V::kPoolFindBeforeHintClear);
    g.release.store(1, std::memory_order_relaxed);
    if (!pollUntil([&]() { return m.done.load(std::memory_order_relaxed) >= N; }, 100000)) {
      ho.reached = false;
      ho.why = "ring tasks did not finish";
    }
    // wait() must find nothing outstanding: a waiter with outstanding work would steal the queued parent
    pollUntil([&]() { return ts.verifOutstanding() == 0; }, 100000);
    {
      WaitScope w;
      ts.wait();
    }
    checkBarrier(m, 1);
  }
  bool parked = ho.reached && vrt::gateWaitArrived(V::kPoolFindBeforeHintClear, 3000);
  bool parentOnWorker = ho.reached && pollUntil([&]() { return g.phasedStarted.load(std::memory_order_relaxed) == 1; }, 60000);
  if (ho.reached && (!parked || !parentOnWorker)) {
    ho.reached = false;
    ho.why = !parked ? "no worker parked at the hint-clear site" : "phased parent did not start";
  }
  // 3. ~ThreadPool on a helper thread; it stops the workers, drains the (empty) queue and blocks in join
  vrt::gateArm(V::kPoolDtorAfterStop);
  std::thread dtor([&]() {
    tl.role = 1;
    ++tl.inDtor;
    g.poolDying.store(true, std::memory_order_relaxed);
    delete pool;
    --tl.inDtor;
  });
  bool dArr = vrt::gateWaitArrived(V::kPoolDtorAfterStop, 20000);
  vrt::gateOpen(V::kPoolDtorAfterStop);
  if (!dArr && ho.reached) {
    ho.reached = false;
    ho.why = "destructor gate not reached";
  }
  usleep(5000); // schedule shaping only: lets the destructor finish its first drain and block in join
  vrt::progress();
  // 4. the parent force-queues its child (hint := true) and keeps running
  g.phase.store(1, std::memory_order_relaxed);
  pollUntil([&]() { return g.phasedKidQueued.load(std::memory_order_relaxed) == 1 || g.phasedStarted.load(std::memory_order_relaxed) == 0; }, 60000);
  // 5. the parked worker clears the hint over the queued child and exits
  vrt::gateOpen(V::kPoolFindBeforeHintClear);
  usleep(5000); // schedule shaping only
  // 6. the parent returns; its worker sees the hint cleared and exits; join completes
  g.phase.store(2, std::memory_order_relaxed);
  dtor.join();
  g.poolDead.store(true, std::memory_order_relaxed);
  vrt::progress();
  vrt::hooksReset();
  collect(ho.c);
  uint32_t kid = parentId + 1;
  if (kid < ho.c.ids) ho.kidRanInDtor = g.cls[kid].load(std::memory_order_relaxed) == C_H_DTOR;
  g.pool = nullptr;
  monRemember();
  return ho;
}
