// Engine h_pool: the dispenso calls under test for ThreadPool / TaskSet / ConcurrentTaskSet and the
// program interpreter. See h_pool_common.h.
#include "h_pool_common.h"

using dispenso::ConcurrentTaskSet;
using dispenso::ForceQueuingTag;
using dispenso::TaskSet;
using dispenso::ThreadPool;

// ------------------------------------------------------------------ ThreadPool
void subPool(ThreadPool& p, const Task& t) {
  SubmitScope s(t.id, t.id + 1, false);
  p.schedule(Task(t));
}
void subPoolFat(ThreadPool& p, const Task& t) {
  SubmitScope s(t.id, t.id + 1, false);
  FatTask f;
  f.t = t;
  p.schedule(std::move(f));
}
void subPoolFQ(ThreadPool& p, const Task& t) {
  SubmitScope s(t.id, t.id + 1, true);
  p.schedule(Task(t), ForceQueuingTag());
}
namespace {
struct Gen {
  uint32_t base;
  Task proto;
  Task operator()(size_t i) const {
    return mkTask(base + static_cast<uint32_t>(i), proto.act, proto.flags, proto.k, proto.dwellUs, proto.note, proto.parent, proto.depth);
  }
};
} // namespace
void subPoolBulk(ThreadPool& p, uint32_t base, uint32_t n, const Task& proto) {
  SubmitScope s(base, base + n, false);
  p.scheduleBulk(n, Gen{base, proto});
}

// ------------------------------------------------------------------ task sets
template <typename TS>
static void subTsT(TS& ts, const Task& t) {
  SubmitScope s(t.id, t.id + 1, false);
  ts.schedule(Task(t));
}
template <typename TS>
static void subTsFatT(TS& ts, const Task& t) {
  SubmitScope s(t.id, t.id + 1, false);
  FatTask f;
  f.t = t;
  ts.schedule(std::move(f));
}
template <typename TS>
static void subTsFQT(TS& ts, const Task& t) {
  SubmitScope s(t.id, t.id + 1, true);
  ts.schedule(Task(t), ForceQueuingTag());
}
template <typename TS>
static void subTsBulkT(TS& ts, uint32_t base, uint32_t n, const Task& proto) {
  SubmitScope s(base, base + n, false);
  ts.scheduleBulk(n, Gen{base, proto});
}
template <typename TS>
static void subTsBulkFQT(TS& ts, uint32_t base, uint32_t n, const Task& proto) {
  SubmitScope s(base, base + n, true);
  ts.scheduleBulk(n, Gen{base, proto}, ForceQueuingTag());
}
void subTs(TaskSet& s, const Task& t) {
  subTsT(s, t);
}
void subTs(ConcurrentTaskSet& s, const Task& t) {
  subTsT(s, t);
}
void subTsFat(TaskSet& s, const Task& t) {
  subTsFatT(s, t);
}
void subTsFat(ConcurrentTaskSet& s, const Task& t) {
  subTsFatT(s, t);
}
void subTsFQ(TaskSet& s, const Task& t) {
  subTsFQT(s, t);
}
void subTsFQ(ConcurrentTaskSet& s, const Task& t) {
  subTsFQT(s, t);
}
void subTsBulk(TaskSet& s, uint32_t base, uint32_t n, const Task& proto) {
  subTsBulkT(s, base, n, proto);
}
void subTsBulk(ConcurrentTaskSet& s, uint32_t base, uint32_t n, const Task& proto) {
  subTsBulkT(s, base, n, proto);
}
void subTsBulkFQ(TaskSet& s, uint32_t base, uint32_t n, const Task& proto) {
  subTsBulkFQT(s, base, n, proto);
}
void subTsBulkFQ(ConcurrentTaskSet& s, uint32_t base, uint32_t n, const Task& proto) {
  subTsBulkFQT(s, base, n, proto);
}

// ------------------------------------------------------------------ child spawning inside bodies
template <typename TS>
static void nestedSet(const Task& t) {
  SetMon local;
  {
    TS nts(*g.pool);
    local.sched.store(t.k, std::memory_order_relaxed);
    uint32_t base = newIds(t.k);
    for (uint32_t i = 0; i < t.k; ++i) {
      Task c = mkTask(base + i, A_NONE, F_CHILD, 0, t.dwellUs, &local, t.id, static_cast<uint16_t>(t.depth + 1));
      if (i % 3 == 2) subTsFQ(nts, c);
      else subTs(nts, c);
    }
    if (t.id & 1) {
      {
        WaitScope w;
        nts.wait();
      }
      checkBarrier(local, 4);
    } else {
      ++tl.inWait; // the destructor is the wait
    }
  }
  if (!(t.id & 1)) {
    --tl.inWait;
    checkBarrier(local, 4);
  }
}

void runKids(const Task& t) {
  switch (t.act) {
    case A_KIDS_POOL:
    case A_KIDS_POOL_FQ: {
      uint32_t base = newIds(t.k);
      for (uint32_t i = 0; i < t.k; ++i) {
        Task c = mkTask(base + i, A_NONE, static_cast<uint8_t>(F_CHILD | (t.act == A_KIDS_POOL_FQ ? F_FQ : 0)), 0, t.dwellUs, nullptr, t.id, static_cast<uint16_t>(t.depth + 1));
        if (t.act == A_KIDS_POOL_FQ) subPoolFQ(*g.pool, c);
        else subPool(*g.pool, c);
      }
      break;
    }
    case A_KIDS_BULK: {
      uint32_t base = newIds(t.k);
      Task proto = mkProto(A_NONE, F_CHILD, 0, t.dwellUs, nullptr, t.id, static_cast<uint16_t>(t.depth + 1));
      subPoolBulk(*g.pool, base, t.k, proto);
      break;
    }
    case A_KIDS_SET:
    case A_KIDS_SET_BULK: {
      // self-recursion is only within the contract of ConcurrentTaskSet
      if (!t.note || t.note->kind < 2 || !t.note->set) break;
      auto* cs = static_cast<ConcurrentTaskSet*>(t.note->set);
      t.note->sched.fetch_add(t.k, std::memory_order_relaxed);
      uint32_t base = newIds(t.k);
      if (t.act == A_KIDS_SET) {
        for (uint32_t i = 0; i < t.k; ++i) {
          Task c = mkTask(base + i, A_NONE, F_CHILD, 0, t.dwellUs, t.note, t.id, static_cast<uint16_t>(t.depth + 1));
          if (i & 1) subTsFQ(*cs, c);
          else subTs(*cs, c);
        }
      } else {
        Task proto = mkProto(A_NONE, F_CHILD, 0, t.dwellUs, t.note, t.id, static_cast<uint16_t>(t.depth + 1));
        subTsBulk(*cs, base, t.k, proto);
      }
      break;
    }
    case A_NESTED_TS:
      nestedSet<TaskSet>(t);
      break;
    case A_NESTED_CTS:
      nestedSet<ConcurrentTaskSet>(t);
      break;
    default:
      break;
  }
}

// ------------------------------------------------------------------ program interpreter
namespace {
struct NoSet {};

template <typename TS>
struct SetApi {
  static void sched(TS& s, const Task& t, bool fat) {
    if (fat) subTsFat(s, t);
    else subTs(s, t);
  }
  static void schedFQ(TS& s, const Task& t) {
    subTsFQ(s, t);
  }
  static void bulk(TS& s, uint32_t b, uint32_t n, const Task& p) {
    subTsBulk(s, b, n, p);
  }
  static void bulkFQ(TS& s, uint32_t b, uint32_t n, const Task& p) {
    subTsBulkFQ(s, b, n, p);
  }
  static void fut(TS& s, FutBox& box, const Task& t) {
    subFutTs(s, box, t);
  }
  static void then(TS& s, FutBox& box, const Task& a, const Task& c) {
    subThenTs(s, box, a, c);
  }
  static bool whenAll(TS& s, FutBox& box) {
    return subWhenAllTs(s, box);
  }
  static void parFor(TS& s, uint32_t b, uint32_t n, const Task& p, bool wait) {
    subParFor(s, b, n, p, wait);
  }
  static bool wait(TS& s) {
    WaitScope w;
    return s.wait();
  }
  static bool tryWait(TS& s, size_t n) {
    WaitScope w;
    return s.tryWait(n);
  }
  static long outstanding(TS& s) {
    return static_cast<long>(s.verifOutstanding());
  }
};

Task protoFor(uint32_t, const Op& op, uint8_t flags, SetMon* note) {
  return mkProto(op.act, flags, op.k, op.dwellUs, note, kNoParent, 0);
}

void afterBarrier(SetMon& mon, FutBox& box, int where) {
  checkBarrier(mon, where);
  long nr = futBoxNotReady(box);
  g.futChecked.fetch_add(futBoxSetBound(box), std::memory_order_relaxed);
  if (nr) g.futNotReady.fetch_add(nr, std::memory_order_relaxed);
  futBoxClearSetBound(box);
}

template <typename TS>
void setOp(const Op& op, TS* set, SetMon& mon, FutBox& box) {
  using A = SetApi<TS>;
  if (!set) return;
  switch (op.kind) {
    case O_TS_SCHED: {
      mon.sched.fetch_add(1, std::memory_order_relaxed);
      uint32_t b = newIds(1);
      A::sched(*set, mkTask(b, op.act, 0, op.k, op.dwellUs, &mon, kNoParent, 0), op.fat != 0);
      break;
    }
    case O_TS_SCHED_FQ: {
      mon.sched.fetch_add(1, std::memory_order_relaxed);
      uint32_t b = newIds(1);
      A::schedFQ(*set, mkTask(b, op.act, F_FQ, op.k, op.dwellUs, &mon, kNoParent, 0));
      break;
    }
    case O_TS_BULK: {
      mon.sched.fetch_add(op.n, std::memory_order_relaxed);
      uint32_t b = newIds(op.n);
      A::bulk(*set, b, op.n, protoFor(b, op, 0, &mon));
      break;
    }
    case O_TS_BULK_FQ: {
      mon.sched.fetch_add(op.n, std::memory_order_relaxed);
      uint32_t b = newIds(op.n);
      A::bulkFQ(*set, b, op.n, protoFor(b, op, F_FQ, &mon));
      break;
    }
    case O_TS_FUT: {
      mon.sched.fetch_add(1, std::memory_order_relaxed);
      uint32_t b = newIds(1);
      A::fut(*set, box, mkTask(b, op.act, F_FUT, op.k, op.dwellUs, &mon, kNoParent, 0));
      break;
    }
    case O_TS_THEN: {
      mon.sched.fetch_add(2, std::memory_order_relaxed);
      uint32_t b = newIds(2);
      A::then(*set, box, mkTask(b, A_NONE, F_FUT, 0, op.dwellUs, &mon, kNoParent, 0),
              mkTask(b + 1, op.act, static_cast<uint8_t>(F_FUT | F_CONT), op.k, op.dwellUs, &mon, kNoParent, 0));
      break;
    }
    case O_TS_WHENALL:
      A::whenAll(*set, box);
      break;
    case O_TS_PARFOR:
    case O_TS_PARFOR_NOWAIT: {
      mon.sched.fetch_add(op.n, std::memory_order_relaxed);
      uint32_t b = newIds(op.n);
      A::parFor(*set, b, op.n, protoFor(b, op, 0, &mon), op.kind == O_TS_PARFOR);
      break;
    }
    case O_TS_WAIT: {
      long out = A::outstanding(*set);
      long mx = g.maxOutstandingAtWait.load(std::memory_order_relaxed);
      while (out > mx && !g.maxOutstandingAtWait.compare_exchange_weak(mx, out, std::memory_order_relaxed)) {
      }
      A::wait(*set);
      afterBarrier(mon, box, 1);
      break;
    }
    case O_TS_TRYWAIT: {
      while (!A::tryWait(*set, op.n)) {
        g.tryWaitFalse.fetch_add(1, std::memory_order_relaxed);
        sched_yield();
      }
      afterBarrier(mon, box, 2);
      break;
    }
    default:
      break;
  }
}
template <>
void setOp<NoSet>(const Op&, NoSet*, SetMon&, FutBox&) {}

void globalOp(const Op& op, FutBox& box) {
  ConcurrentTaskSet* cs = g.cts;
  if (!cs) return;
  SetMon& mon = g.ctsMon;
  switch (op.kind) {
    case O_G_SCHED: {
      mon.sched.fetch_add(1, std::memory_order_relaxed);
      uint32_t b = newIds(1);
      Task t = mkTask(b, op.act, 0, op.k, op.dwellUs, &mon, kNoParent, 0);
      if (op.fat) subTsFat(*cs, t);
      else subTs(*cs, t);
      break;
    }
    case O_G_SCHED_FQ: {
      mon.sched.fetch_add(1, std::memory_order_relaxed);
      uint32_t b = newIds(1);
      subTsFQ(*cs, mkTask(b, op.act, F_FQ, op.k, op.dwellUs, &mon, kNoParent, 0));
      break;
    }
    case O_G_BULK: {
      mon.sched.fetch_add(op.n, std::memory_order_relaxed);
      uint32_t b = newIds(op.n);
      subTsBulk(*cs, b, op.n, protoFor(b, op, 0, &mon));
      break;
    }
    case O_G_BULK_FQ: {
      mon.sched.fetch_add(op.n, std::memory_order_relaxed);
      uint32_t b = newIds(op.n);
      subTsBulkFQ(*cs, b, op.n, protoFor(b, op, F_FQ, &mon));
      break;
    }
    case O_G_FUT: {
      mon.sched.fetch_add(1, std::memory_order_relaxed);
      uint32_t b = newIds(1);
      subFutTs(*cs, box, mkTask(b, op.act, F_FUT, op.k, op.dwellUs, &mon, kNoParent, 0));
      break;
    }
    default:
      break;
  }
}

template <typename TS>
void execOps(const Program& P, TS* set, SetMon& mon, FutBox& box) {
  ThreadPool& pool = *g.pool;
  for (const Op& op : P.ops) {
    switch (op.kind) {
      case O_SCHED: {
        uint32_t b = newIds(1);
        Task t = mkTask(b, op.act, 0, op.k, op.dwellUs, nullptr, kNoParent, 0);
        if (op.fat) subPoolFat(pool, t);
        else subPool(pool, t);
        break;
      }
      case O_SCHED_FQ: {
        uint32_t b = newIds(1);
        subPoolFQ(pool, mkTask(b, op.act, F_FQ, op.k, op.dwellUs, nullptr, kNoParent, 0));
        break;
      }
      case O_BULK: {
        uint32_t b = newIds(op.n);
        subPoolBulk(pool, b, op.n, protoFor(b, op, 0, nullptr));
        break;
      }
      case O_FUT:
      case O_FUT_ASYNC: {
        uint32_t b = newIds(1);
        subFutPool(pool, box, mkTask(b, op.act, static_cast<uint8_t>(F_FUT | (op.kind == O_FUT_ASYNC ? F_FQ : 0)), op.k, op.dwellUs, nullptr, kNoParent, 0), op.kind == O_FUT_ASYNC);
        break;
      }
      case O_RESIZE: {
        ssize_t before = pool.numThreads();
        {
          ResizeScope r;
          pool.resize(static_cast<ssize_t>(op.n));
        }
        g.resizes.fetch_add(1, std::memory_order_relaxed);
        if (op.n == 0) g.resizeZero.fetch_add(1, std::memory_order_relaxed);
        else if (static_cast<ssize_t>(op.n) > before) g.resizeGrow.fetch_add(1, std::memory_order_relaxed);
        else if (static_cast<ssize_t>(op.n) < before) g.resizeShrink.fetch_add(1, std::memory_order_relaxed);
        vrt::progress();
        break;
      }
      case O_SETWAKE: {
        ResizeScope r;
        if (op.n) pool.setSignalingWake(true, std::chrono::microseconds(100000));
        else pool.setSignalingWake(false, std::chrono::microseconds(200));
        g.resizes.fetch_add(1, std::memory_order_relaxed);
        vrt::progress();
        break;
      }
      case O_SLEEP:
        usleep(op.n);
        break;
      case O_YIELD:
        sched_yield();
        break;
      case O_G_SCHED:
      case O_G_SCHED_FQ:
      case O_G_BULK:
      case O_G_BULK_FQ:
      case O_G_FUT:
        globalOp(op, box);
        break;
      default:
        setOp<TS>(op, set, mon, box);
        break;
    }
  }
}
} // namespace

void runProgram(int j) {
  const Program& P = g.programs[static_cast<size_t>(j)];
  ThreadPool& pool = *g.pool;
  FutBox* box = futBoxNew();
  SetMon mon;
  mon.kind = P.setKind;
  switch (P.setKind) {
    case 1: {
      {
        TaskSet ts(pool, static_cast<ssize_t>(P.stealMult));
        execOps(P, &ts, mon, *box);
        ++tl.inWait; // the destructor waits
      }
      --tl.inWait;
      afterBarrier(mon, *box, 3);
      break;
    }
    case 2:
    case 3: {
      {
        ConcurrentTaskSet cs(pool, P.setKind == 2 ? dispenso::TaskCost::kHeavy : dispenso::TaskCost::kLightweight, static_cast<ssize_t>(P.stealMult));
        mon.set = &cs;
        execOps(P, &cs, mon, *box);
        ++tl.inWait;
      }
      --tl.inWait;
      afterBarrier(mon, *box, 3);
      break;
    }
    default: {
      NoSet* none = nullptr;
      execOps(P, none, mon, *box);
      break;
    }
  }
  futBoxFree(box);
}
