// C19, part 3: the variadic when_all / when_any overloads (arities 0, 1, 2, 3, 5; mixed value / void /
// reference futures; plain, TaskSet and ConcurrentTaskSet variants).
#include "h_future_common.h"

#include <functional>

namespace {

using FP = dispenso::Future<Payload>;
using FV = dispenso::Future<void>;
using FR = dispenso::Future<Payload&>;

enum Src : int { kReadyMade = 0, kManual = 1, kPoolQueued = 2, kNumSrc };
const char* const kSrcNames[] = {"ready", "manual", "pool"};

// forms: 0 (), 1 (P), 2 (P,void), 3 (P,void,ref), 4 (P,P), 5 (P,P,P,P,P)
constexpr int kFormArity[] = {0, 1, 2, 3, 2, 5};
const char* const kFormNames[] = {"()", "(P)", "(P,void)", "(P,void,ref)", "(P,P)", "(P,P,P,P,P)"};
// input slots: 0..4 = p[0..4], 5 = v, 6 = r
const int kFormSlots[6][5] = {{-1, -1, -1, -1, -1}, {0, -1, -1, -1, -1}, {0, 5, -1, -1, -1}, {0, 5, 6, -1, -1}, {0, 1, -1, -1, -1}, {0, 1, 2, 3, 4}};

struct Spec {
  bool any = false;
  int form = 0;
  int variant = 0;
  bool rvalues = false;
  int src[7];
  int order[7];
  int pool = 2;
  bool earlyGet = false, poller = true;
  int stepDelayUs = 0;
  int perturb = 0;
  J json() const {
    J j;
    j.kv("api", any ? "when_any" : "when_all").kv("form", kFormNames[form]).kv("variant", variant == 0 ? "plain" : variant == 1 ? "TaskSet" : "ConcurrentTaskSet").kv("rvalues", rvalues);
    std::vector<std::string> ss;
    std::vector<int> od;
    for (int k = 0; k < kFormArity[form]; ++k) {
      ss.push_back(kSrcNames[src[kFormSlots[form][k]]]);
      od.push_back(order[k]);
    }
    j.arr("src", ss).arr("order", od).kv("pool", pool).kv("earlyGet", earlyGet).kv("poller", poller).kv("stepDelayUs", stepDelayUs).kv("perturb", perturb);
    return j;
  }
};

struct Ctx {
  Spec s;
  long base = 0;
  std::atomic<int> runs[7];
  std::atomic<int> probeRuns{0}, readyButInputNot{0}, badIndex{0}, probes{0};
  std::atomic<long> badIndexVal{0};
  std::atomic<bool> go{false}, stop{false};
  std::unique_ptr<Payload> target;
  Ctx() {
    for (auto& r : runs) r.store(0);
  }
};

struct Inputs {
  FP p[5];
  FV v;
  FR r;
  bool ready(int slot) const {
    return slot < 5 ? p[slot].is_ready() : slot == 5 ? v.is_ready() : r.is_ready();
  }
  void wait(int slot) const {
    if (slot < 5) p[slot].wait();
    else if (slot == 5) v.wait();
    else r.wait();
  }
};

struct InBase {
  Ctx* c;
  int slot;
  FnGuts g;
  InBase(Ctx* cc, int s) : c(cc), slot(s) {}
  void body() {
    if (c->runs[slot].fetch_add(1, std::memory_order_relaxed) > 8) {
      vrt::violation("input functor storm");
      _exit(5);
    }
    vrt::progress();
  }
};
struct InP : InBase {
  using InBase::InBase;
  Payload operator()() {
    body();
    return Payload(c->base + slot);
  }
};
struct InV : InBase {
  using InBase::InBase;
  void operator()() {
    body();
  }
};
struct InR : InBase {
  using InBase::InBase;
  Payload& operator()() {
    body();
    return *c->target;
  }
};

template <bool kAny>
struct Sel;
template <>
struct Sel<false> {
  template <typename... A>
  static auto go(A&&... a) {
    return dispenso::when_all(std::forward<A>(a)...);
  }
};
template <>
struct Sel<true> {
  template <typename... A>
  static auto go(A&&... a) {
    return dispenso::when_any(std::forward<A>(a)...);
  }
};

template <bool kAny, int kForm>
struct Call;
template <bool kAny>
struct Call<kAny, 0> {
  template <typename... TS>
  static auto go(Inputs&, bool, TS&... ts) {
    return Sel<kAny>::go(ts...);
  }
};
template <bool kAny>
struct Call<kAny, 1> {
  template <typename... TS>
  static auto go(Inputs& in, bool rv, TS&... ts) {
    return rv ? Sel<kAny>::go(ts..., FP(in.p[0])) : Sel<kAny>::go(ts..., in.p[0]);
  }
};
template <bool kAny>
struct Call<kAny, 2> {
  template <typename... TS>
  static auto go(Inputs& in, bool rv, TS&... ts) {
    return rv ? Sel<kAny>::go(ts..., FP(in.p[0]), FV(in.v)) : Sel<kAny>::go(ts..., in.p[0], in.v);
  }
};
template <bool kAny>
struct Call<kAny, 3> {
  template <typename... TS>
  static auto go(Inputs& in, bool rv, TS&... ts) {
    return rv ? Sel<kAny>::go(ts..., FP(in.p[0]), in.v, FR(in.r)) : Sel<kAny>::go(ts..., in.p[0], in.v, in.r);
  }
};
template <bool kAny>
struct Call<kAny, 4> {
  template <typename... TS>
  static auto go(Inputs& in, bool rv, TS&... ts) {
    return rv ? Sel<kAny>::go(ts..., FP(in.p[0]), FP(in.p[1])) : Sel<kAny>::go(ts..., in.p[0], in.p[1]);
  }
};
template <bool kAny>
struct Call<kAny, 5> {
  template <typename... TS>
  static auto go(Inputs& in, bool rv, TS&... ts) {
    return rv ? Sel<kAny>::go(ts..., FP(in.p[0]), in.p[1], FP(in.p[2]), in.p[3], FP(in.p[4])) : Sel<kAny>::go(ts..., in.p[0], in.p[1], in.p[2], in.p[3], in.p[4]);
  }
};

// element checks for the when_all tuple
bool elemOk(const FP& f, Ctx& c, int slot) {
  return f.is_ready() && f.get().tag == c.base + slot;
}
bool elemOk(const FV& f, Ctx&, int) {
  return f.is_ready();
}
bool elemOk(const FR& f, Ctx& c, int) {
  return f.is_ready() && &f.get() == c.target.get();
}
template <typename Tuple, size_t... I>
int tupleBad(const Tuple& t, Ctx& c, int form, std::index_sequence<I...>) {
  int bad = -1;
  bool oks[] = {true, elemOk(std::get<I>(t), c, kFormSlots[form][I])...};
  for (size_t k = 1; k < sizeof(oks) / sizeof(oks[0]); ++k) {
    if (!oks[k] && bad < 0) bad = static_cast<int>(k) - 1;
  }
  return bad;
}

// result adaptors: probe() returns 0 (not ready / fine), 1 (ready but an input it depends on is not),
// 2 (index out of range)
template <typename... Ts>
int probeRes(const dispenso::Future<std::tuple<Ts...>>& res, const Inputs& in, int form) {
  if (!res.is_ready()) return 0;
  for (int k = 0; k < kFormArity[form]; ++k) {
    if (!in.ready(kFormSlots[form][k])) return 1;
  }
  return 0;
}
int probeRes(const dispenso::Future<size_t>& res, const Inputs& in, int form, long* idxOut = nullptr) {
  if (!res.is_ready()) return 0;
  size_t idx = res.get();
  if (idxOut) *idxOut = static_cast<long>(idx);
  if (kFormArity[form] == 0) return 0;
  if (idx >= static_cast<size_t>(kFormArity[form])) return 2;
  return in.ready(kFormSlots[form][idx]) ? 0 : 1;
}
template <typename... Ts>
std::string finalCheck(const dispenso::Future<std::tuple<Ts...>>& res, Ctx& c, const Inputs&, int form) {
  int bad = tupleBad(res.get(), c, form, std::index_sequence_for<Ts...>());
  if (static_cast<int>(sizeof...(Ts)) != kFormArity[form]) return "tuple arity differs from the number of inputs";
  if (bad >= 0) return "when_all tuple element " + std::to_string(bad) + " is not ready or is not input " + std::to_string(bad);
  return "";
}
std::string finalCheck(const dispenso::Future<size_t>& res, Ctx&, const Inputs& in, int form) {
  long idx = -1;
  int p = probeRes(res, in, form, &idx);
  if (p == 2) return "when_any index " + std::to_string(idx) + " out of range";
  if (p == 1) return "when_any names an input that is not ready";
  return "";
}

struct ProbeFn {
  std::function<void()> fn;
  FnGuts g;
  template <typename R>
  long operator()(R&&) {
    fn();
    return 1;
  }
};

struct Outcome {
  std::vector<std::string> cls;
  J stats;
  bool nontrivial = false;
};

template <bool kAny, int kForm>
Outcome runForm(const Spec& s, long idx) {
  Outcome out;
  std::unique_ptr<Ctx> cp(new Ctx);
  Ctx& c = *cp;
  c.s = s;
  vrt::Rng r = vrt::caseRng(idx, 411);
  c.base = 10 + static_cast<long>(r.below(100000)) * 100;
  vrt::lifeReset();
  applyPerturb(s.perturb, false, false);
  bool tsWaitNotReady = false;
  std::string finalMsg;
  const int arity = kFormArity[kForm];
  {
    c.target.reset(new Payload(c.base + 6));
    dispenso::ThreadPool pool(static_cast<size_t>(s.pool));
    ManualInvoker manual;
    Inputs in;
    int slotToManual[7] = {-1, -1, -1, -1, -1, -1, -1};
    {
      RoleScope role(kRoleCtor);
      for (int k = 0; k < arity; ++k) {
        int slot = kFormSlots[kForm][k];
        int src = s.src[slot];
        if (src == kManual) slotToManual[slot] = manual.size();
        if (slot < 5) {
          in.p[slot] = src == kReadyMade ? dispenso::make_ready_future(Payload(c.base + slot)) : src == kManual ? FP(InP(&c, slot), manual) : FP(InP(&c, slot), pool, std::launch::async);
        } else if (slot == 5) {
          in.v = src == kReadyMade ? dispenso::make_ready_future() : src == kManual ? FV(InV(&c, slot), manual) : FV(InV(&c, slot), pool, std::launch::async);
        } else {
          in.r = src == kReadyMade ? dispenso::make_ready_future(std::ref(*c.target)) : src == kManual ? FR(InR(&c, slot), manual) : FR(InR(&c, slot), pool, std::launch::async);
        }
      }
    }
    {
      std::unique_ptr<dispenso::TaskSet> ts;
      std::unique_ptr<dispenso::ConcurrentTaskSet> cts;
      if (s.variant == 1) ts.reset(new dispenso::TaskSet(pool));
      if (s.variant == 2) cts.reset(new dispenso::ConcurrentTaskSet(pool));
      using Res = decltype(Call<kAny, kForm>::go(in, false));
      Res res;
      {
        RoleScope role(kRoleCtor);
        res = s.variant == 0 ? Call<kAny, kForm>::go(in, s.rvalues) : s.variant == 1 ? Call<kAny, kForm>::go(in, s.rvalues, *ts) : Call<kAny, kForm>::go(in, s.rvalues, *cts);
      }
      auto probe = [&c, &in](const Res& rr) {
        c.probes.fetch_add(1, std::memory_order_relaxed);
        int p = probeRes(rr, in, kForm);
        if (p == 1) c.readyButInputNot.fetch_add(1, std::memory_order_relaxed);
        if (p == 2) c.badIndex.fetch_add(1, std::memory_order_relaxed);
      };
      probe(res);
      dispenso::Future<long> probeFut;
      {
        RoleScope role(kRoleRegistrar);
        Res copy(res);
        probeFut = res.then(ProbeFn{[&c, probe, copy]() {
                                      c.probeRuns.fetch_add(1, std::memory_order_relaxed);
                                      probe(copy);
                                    },
                                    FnGuts()},
                            dispenso::kImmediateInvoker);
      }
      std::vector<std::thread> th;
      if (s.poller) {
        th.emplace_back([&c, res, probe]() {
          RoleScope role(kRoleWaiter);
          while (!c.go.load(std::memory_order_relaxed)) sched_yield();
          while (!res.is_ready() && !c.stop.load(std::memory_order_relaxed)) sched_yield();
          probe(res);
        });
      }
      if (s.earlyGet) {
        th.emplace_back([&c, res, probe]() {
          RoleScope role(kRoleWaiter);
          while (!c.go.load(std::memory_order_relaxed)) sched_yield();
          res.wait();
          probe(res);
        });
      }
      th.emplace_back([&c, &s, &manual, &slotToManual, res, probe, arity]() {
        RoleScope role(kRoleRunner);
        while (!c.go.load(std::memory_order_relaxed)) sched_yield();
        for (int k = 0; k < arity; ++k) {
          int slot = kFormSlots[kForm][s.order[k]];
          if (slotToManual[slot] < 0) continue;
          if (s.stepDelayUs) vrt::spinFor(s.stepDelayUs);
          probe(res);
          manual.run(slotToManual[slot]);
          probe(res);
        }
      });
      c.go.store(true, std::memory_order_relaxed);
      if (s.variant) {
        RoleScope role(kRoleDrain);
        if (ts) ts->wait();
        else cts->wait();
        if (!res.is_ready()) tsWaitNotReady = true;
        probe(res);
      }
      for (auto& t : th) t.join();
      {
        RoleScope role(kRoleDrain);
        for (int k = 0; k < arity; ++k) in.wait(kFormSlots[kForm][k]);
        res.wait();
        probe(res);
        c.stop.store(true, std::memory_order_relaxed);
        finalMsg = finalCheck(res, c, in, kForm);
        probeFut.wait();
      }
      ts.reset();
      cts.reset();
    }
  }
  clearPerturb();
  J d;
  d.kv("spec", s.json());
  if (c.readyButInputNot.load()) vrt::violation(kAny ? "when_any result is ready and names an input that is not ready" : "when_all result is ready while an input is not ready", d, "ready");
  if (c.badIndex.load()) vrt::violation("when_any index out of range", d, "index");
  if (!finalMsg.empty()) vrt::violation(finalMsg, d, kAny ? "index" : "order");
  if (tsWaitNotReady) vrt::violation("taskSet.wait() returned but the combinator's result future is not ready", d, "taskset-wait");
  if (c.probeRuns.load() != 1) vrt::violation("continuation on the combinator result executed " + std::to_string(c.probeRuns.load()) + " times", d, "runs");
  for (int k = 0; k < arity; ++k) {
    int slot = kFormSlots[kForm][k];
    int expect = s.src[slot] == kReadyMade ? 0 : 1;
    if (c.runs[slot].load() != expect) vrt::violation("input functor executed " + std::to_string(c.runs[slot].load()) + " times", d.kv("slot", slot), "input-runs", "C18");
  }
  c.target.reset();
  lifeVerdict(kAny ? "C19 when_any variadic" : "C19 when_all variadic");
  out.cls.push_back(kAny ? "api:when_any-variadic" : "api:when_all-variadic");
  out.cls.push_back(std::string("form:") + kFormNames[kForm]);
  out.cls.push_back(s.variant == 0 ? "variant:plain" : s.variant == 1 ? "variant:TaskSet" : "variant:ConcurrentTaskSet");
  if (s.variant && !tsWaitNotReady) out.cls.push_back("taskset-wait-implies-ready");
  if (s.rvalues) out.cls.push_back("rvalue-arguments");
  if (s.earlyGet) out.cls.push_back("early-get");
  out.nontrivial = arity >= 2;
  out.stats = J().kv("probes", c.probes.load());
  return out;
}

template <bool kAny>
Outcome dispatch(const Spec& s, long idx) {
  switch (s.form) {
    case 0: return runForm<kAny, 0>(s, idx);
    case 1: return runForm<kAny, 1>(s, idx);
    case 2: return runForm<kAny, 2>(s, idx);
    case 3: return runForm<kAny, 3>(s, idx);
    case 4: return runForm<kAny, 4>(s, idx);
    default: return runForm<kAny, 5>(s, idx);
  }
}

Spec gen(vrt::Rng& r) {
  Spec s;
  s.any = r.chance(0.5);
  s.form = static_cast<int>(r.below(6));
  s.variant = static_cast<int>(r.below(3));
  s.rvalues = r.chance(0.4);
  int mode = static_cast<int>(r.below(3));
  for (int i = 0; i < 7; ++i) {
    s.src[i] = mode == 0 ? kManual : mode == 1 ? static_cast<int>(r.below(kNumSrc)) : (r.chance(0.5) ? kReadyMade : kPoolQueued);
    s.order[i] = i;
  }
  int ar = kFormArity[s.form];
  for (int i = ar - 1; i > 0; --i) std::swap(s.order[i], s.order[r.below(static_cast<uint64_t>(i) + 1)]);
  s.pool = static_cast<int>(r.range(1, 3));
  s.earlyGet = r.chance(0.3);
  s.poller = r.chance(0.7);
  static const int sd[] = {0, 0, 5, 60, 300};
  s.stepDelayUs = sd[r.below(5)];
  s.perturb = static_cast<int>(r.below(3));
  return s;
}

std::string keyOf(const Spec& s) {
  std::string k = s.any ? "when_any" : "when_all";
  k += s.variant == 0 ? "/variadic/plain/" : s.variant == 1 ? "/variadic/TaskSet/" : "/variadic/ConcurrentTaskSet/";
  k += kFormNames[s.form];
  if (s.earlyGet) k += "/early-get";
  return k;
}

} // namespace

void runC19Var(long base, long n) {
  for (long k = 0; k < n; ++k) {
    long idx = base + k;
    if (!vrt::selected(idx)) continue;
    vrt::Rng r = vrt::caseRng(idx);
    Spec s = gen(r);
    vrt::caseBegin(idx, keyOf(s), s.json());
    vrt::watchdogArm();
    Outcome o = s.any ? dispatch<true>(s, idx) : dispatch<false>(s, idx);
    vrt::watchdogDisarm();
    vrt::caseEnd(o.stats, o.nontrivial ? s.json().str() : "", o.cls);
  }
}
