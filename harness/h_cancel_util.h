#pragma once
// Shared helpers for engine h_cancel (C04 cancellation, C05 exception delivery).
#include <dispenso/task_set.h>
#include <dispenso/thread_pool.h>

#include <algorithm>
#include <memory>
#include <string>
#include <thread>
#include <vector>

#include <unistd.h>

#include "verif_rt.h"

using vrt::J;
namespace V = dispenso::verif;

// Harness hand-shakes between harness threads / harness task bodies. Under TSan they are relaxed so
// that the harness adds no happens-before edge between dispenso threads (monitor-lite); on x86 the
// real ordering is the same.
#if VRT_TSAN
#define HS_ACQ std::memory_order_relaxed
#define HS_REL std::memory_order_relaxed
#else
#define HS_ACQ std::memory_order_acquire
#define HS_REL std::memory_order_release
#endif

static constexpr int kMaxTasks = 4096;

struct Mon {
  std::atomic<int> ran[kMaxTasks];
  std::atomic<uint64_t> startStamp[kMaxTasks];
  std::atomic<int> runThread[kMaxTasks];
  std::atomic<int> inlineOfCall[kMaxTasks]; // id of the schedule call (on the running thread) the body ran inside, or -1
  std::atomic<long> inflight{0};
  std::atomic<long> started{0}, finished{0};
  void reset(int n) {
    for (int i = 0; i < n && i < kMaxTasks; ++i) {
      ran[i].store(0, std::memory_order_relaxed);
      startStamp[i].store(0, std::memory_order_relaxed);
      runThread[i].store(-1, std::memory_order_relaxed);
      inlineOfCall[i].store(-1, std::memory_order_relaxed);
    }
    inflight.store(0, std::memory_order_relaxed);
    started.store(0, std::memory_order_relaxed);
    finished.store(0, std::memory_order_relaxed);
  }
};
extern Mon g_mon;
// id of the harness-level schedule call the current thread is inside (-1 none)
extern thread_local int tl_callId;

struct VEx {
  int id;
};

// Gate tasks: hold a worker until released.
struct Gates {
  std::atomic<int> arrived{0}, release{0}, exited{0};
  void reset() {
    arrived.store(0, std::memory_order_relaxed);
    release.store(0, std::memory_order_relaxed);
    exited.store(0, std::memory_order_relaxed);
  }
  void body() {
    arrived.fetch_add(1, HS_REL);
    vrt::progress();
    while (!release.load(HS_ACQ)) {
      vrt::sleepUs(30);
    }
    exited.fetch_add(1, HS_REL);
    vrt::progress();
  }
  void open() {
    release.store(1, HS_REL);
  }
  void waitArrived(int n) {
    while (arrived.load(HS_ACQ) < n) {
      vrt::sleepUs(30);
    }
  }
};

// Stuck-state sentinel (plain / asan builds only): declares a violation when the watched set can
// provably never complete: nothing queued in any tier of the pool, no monitored body running, the
// gates open, progress flat, and outstandingTaskCount_ still positive, for the whole flat period.
struct Sentinel {
  std::atomic<dispenso::TaskSetBase*> set{nullptr};
  std::atomic<dispenso::ThreadPool*> pool{nullptr};
  std::atomic<int> lock{0};
  std::atomic<bool> gatesOpen{true};
  void start();
  void watch(dispenso::TaskSetBase* s, dispenso::ThreadPool* p) {
    take();
    set.store(s);
    pool.store(p);
    give();
  }
  void unwatch() {
    take();
    set.store(nullptr);
    pool.store(nullptr);
    give();
  }
  void take() {
    int e = 0;
    while (!lock.compare_exchange_weak(e, 1, std::memory_order_acquire)) {
      e = 0;
      std::this_thread::yield();
    }
  }
  void give() {
    lock.store(0, std::memory_order_release);
  }
};
extern Sentinel g_sentinel;

static inline const char* kindName(int k) {
  static const char* n[] = {"ts", "cts-heavy", "cts-light"};
  return n[k];
}

// A task-set handle that hides the three kinds behind one interface (no virtual dispatch inside
// dispenso calls: plain switch).
struct SetH {
  int kind = 0;
  std::unique_ptr<dispenso::TaskSet> ts;
  std::unique_ptr<dispenso::ConcurrentTaskSet> cts;
  SetH(int k, dispenso::ThreadPool& p, dispenso::ParentCascadeCancel pc, ssize_t stealMult) : kind(k) {
    if (k == 0) ts.reset(new dispenso::TaskSet(p, pc, stealMult));
    else cts.reset(new dispenso::ConcurrentTaskSet(p, pc, stealMult, k == 1 ? dispenso::TaskCost::kHeavy : dispenso::TaskCost::kLightweight));
  }
  dispenso::TaskSetBase* base() {
    return kind == 0 ? static_cast<dispenso::TaskSetBase*>(ts.get()) : static_cast<dispenso::TaskSetBase*>(cts.get());
  }
  void cancel() {
    if (kind == 0) ts->cancel();
    else cts->cancel();
  }
  bool canceled() {
    return kind == 0 ? ts->canceled() : cts->canceled();
  }
  bool wait() {
    return kind == 0 ? ts->wait() : cts->wait();
  }
  bool tryWait(size_t n) {
    return kind == 0 ? ts->tryWait(n) : cts->tryWait(n);
  }
  ssize_t outstanding() {
    return base()->verifOutstanding();
  }
  template <typename F>
  void schedule(F&& f) {
    if (kind == 0) ts->schedule(std::forward<F>(f));
    else cts->schedule(std::forward<F>(f));
  }
  template <typename F>
  void scheduleFQ(F&& f) {
    if (kind == 0) ts->schedule(std::forward<F>(f), dispenso::ForceQueuingTag());
    else cts->schedule(std::forward<F>(f), dispenso::ForceQueuingTag());
  }
  template <typename G>
  void bulk(size_t n, G&& g) {
    if (kind == 0) ts->scheduleBulk(n, std::forward<G>(g));
    else cts->scheduleBulk(n, std::forward<G>(g));
  }
  template <typename G>
  void bulkFQ(size_t n, G&& g) {
    if (kind == 0) ts->scheduleBulk(n, std::forward<G>(g), dispenso::ForceQueuingTag());
    else cts->scheduleBulk(n, std::forward<G>(g), dispenso::ForceQueuingTag());
  }
};
