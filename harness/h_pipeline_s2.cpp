#include "h_pipeline_impl.h"
void runShapes_g2(int shape, dispenso::ThreadPool& pool) {
  switch (shape) {
    case 11: runCodes<'G', 'p', 's'>(pool); break;
    case 24: runCodes<'G', 'V', 's'>(pool); break;
    case 12: runCodes<'G', 'V', 'O', 'S'>(pool); break;
    case 13: runCodes<'G', 'O', 'V', 'S'>(pool); break;
    default: break;
  }
}
