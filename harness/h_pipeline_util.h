#pragma once
// Engine-local helper: state-based hang verdict for a blocked pipeline() call.
//
// Why not the runtime watchdog alone: a pipeline() that is parked for ever in its generator
// completion wait leaves the pool's workers cycling through their timed sleeps, which costs a few
// percent of a CPU and keeps the futex wait-exit counter moving, so the runtime watchdog can neither
// call it "deadlock" (exits not stable) nor "livelock" (not enough CPU) and reports "inconclusive".
// Here the state is decisive: pipeline() has not returned, no stage function is running, no stage
// function has started or finished for T seconds. Stage functions dwell <= 150us, so a flat period of
// seconds with zero invocations in flight cannot be a slow case. The verdict is written as a
// violation with the bare case key and the process exits with the watchdog's hang code (3), which the
// driver treats like a runtime-watchdog hang (shard continues behind the case).
#include "h_pipeline_common.h"

#include <cstdlib>
#include <thread>

namespace hpu {

struct HangWatch {
  std::atomic<dispenso::ThreadPool*> pool{nullptr};
  std::atomic<int> armed{0}; // flat seconds; 0 = off
  std::atomic<int> sampling{0};
  std::atomic<uint64_t> phase{0}; // bumped by the harness between steps / from its own task bodies
  std::atomic<bool> bg{false};
  bool started = false;

  uint64_t signature() const {
    uint64_t s = phase.load(std::memory_order_relaxed) * 1000003ull;
    for (int k = 0; k < kMaxStages; ++k) s += static_cast<uint64_t>(g.calls[k].load(std::memory_order_relaxed));
    s += static_cast<uint64_t>(g.next.load(std::memory_order_relaxed)) * 7;
    s += static_cast<uint64_t>(g.returned.load(std::memory_order_relaxed)) * 1000000007ull;
    s += static_cast<uint64_t>(g.payloadDead.load(std::memory_order_relaxed)) * 13;
    return s;
  }

  void loop() {
    uint64_t last = signature();
    double flatSince = vrt::nowSeconds();
    int lastArmed = 0;
    for (;;) {
      usleep(100000);
      int T = armed.load(std::memory_order_seq_cst);
      if (!T) {
        lastArmed = 0;
        continue;
      }
      sampling.store(1, std::memory_order_seq_cst);
      if (!armed.load(std::memory_order_seq_cst)) {
        sampling.store(0, std::memory_order_seq_cst);
        continue;
      }
      uint64_t sig = signature();
      long infl = g.gInflight.load(std::memory_order_relaxed);
      if (sig != last || T != lastArmed || infl != 0) {
        last = sig;
        lastArmed = T;
        flatSince = vrt::nowSeconds();
        sampling.store(0, std::memory_order_seq_cst);
        continue;
      }
      double flat = vrt::nowSeconds() - flatSince;
      if (flat < T) {
        sampling.store(0, std::memory_order_seq_cst);
        continue;
      }
      dispenso::ThreadPool* p = pool.load(std::memory_order_seq_cst);
      long work = p ? static_cast<long>(p->verifWorkRemaining()) : -1;
      vrt::FutexStats fs = vrt::futexStats();
      std::vector<long> calls;
      for (int k = 0; k < kMaxStages; ++k) calls.push_back(g.calls[k].load());
      const char* kind = (work == 0 && !bg.load()) ? "deadlock: no stage function running, nothing queued in the pool" : "stalled: no stage function running or starting";
      vrt::violation(std::string("hang (") + kind + "): pipeline() has not returned and nothing happened for " + std::to_string(static_cast<int>(flat)) + " s",
                     J().kv("flat_s", flat).kv("workRemaining", work).kv("returned", g.returned.load()).arr("calls", calls).kv("generated", g.next.load()).kv("throws", g.throwN.load())
                         .kv("futexUntimedWaiters", fs.inUntimedWaitNow).kv("futexTimedWaiters", fs.inTimedWaitNow));
      fprintf(stderr, "@@VRT hang (h_pipeline HangWatch)\n");
      fflush(stderr);
      // witness: stacks of all threads, like the runtime watchdog does (best effort)
      if (!(getenv("VRT_GDB_ON_HANG") && getenv("VRT_GDB_ON_HANG")[0] == '0')) {
        char cmd[512];
        snprintf(cmd, sizeof cmd,
                 "timeout 90 gdb -p %d -batch -ex 'set pagination off' -ex 'thread apply all bt 16' 2>&1 | "
                 "grep -v '^\\[New LWP\\|^warning\\|^Reading\\|^$' | cut -c1-220 | head -n 500 >&2",
                 static_cast<int>(getpid()));
        fprintf(stderr, "@@VRT stacks begin\n");
        fflush(stderr);
        int rcg = system(cmd);
        (void)rcg;
        fprintf(stderr, "@@VRT stacks end\n");
        fflush(stderr);
      }
      _exit(3);
    }
  }

  void arm(dispenso::ThreadPool* p, bool withBg) {
    if (!started) {
      started = true;
      std::thread([this]() { loop(); }).detach();
    }
    pool.store(p, std::memory_order_seq_cst);
    bg.store(withBg);
    phase.fetch_add(1, std::memory_order_relaxed);
    // TSan slows everything ~10x on a loaded machine: same factor 2 as the runtime watchdog uses
    armed.store((vrt::thorough() ? 12 : 6) * (VRT_TSAN ? 2 : 1), std::memory_order_seq_cst);
  }
  void disarm() {
    armed.store(0, std::memory_order_seq_cst);
    while (sampling.load(std::memory_order_seq_cst)) std::this_thread::yield();
    pool.store(nullptr, std::memory_order_seq_cst);
  }
  void tick() {
    phase.fetch_add(1, std::memory_order_relaxed);
  }
};

} // namespace hpu
