// Engine h_nest, C16: parallel_invoke runs each functor exactly once, the last one on the calling
// thread before returning, all finished after tasks.wait(); flat calls of arity 1..8 and recursive
// divide-and-conquer trees.
#include "h_nest_common.h"

#include <dispenso/parallel_invoke.h>

namespace {

struct TNode {
  std::vector<int> kids; // empty: leaf
};

struct Ctx {
  std::vector<TNode> nodes;
  std::atomic<int>* count = nullptr;      // per node: invocations
  std::atomic<int>* lastOk = nullptr;     // per node that is a last argument: 1 ran on caller inside the call
  std::atomic<int>* inlineSeen = nullptr; // per node: ran on the calling thread while its parallel_invoke call was active
  dispenso::ConcurrentTaskSet* cts = nullptr;
  std::atomic<long> leavesRun{0}, callsMade{0}, lateLast{0}, nonLastInline{0};
};

Ctx* g_c = nullptr;
// innermost active parallel_invoke call on this thread: id of the calling node (or -1)
thread_local int tl_call = -1;

void runNode(int id);

struct PF {
  int id;      // tree node to run
  int parent;  // node whose parallel_invoke call this functor was passed to
  bool isLast;
  void operator()() const {
    bool insideOwnCall = tl_call == parent;
    if (isLast) {
      if (insideOwnCall) g_c->lastOk[id].store(1, std::memory_order_relaxed);
      else g_c->lateLast.fetch_add(1, std::memory_order_relaxed);
    } else if (insideOwnCall) {
      g_c->nonLastInline.fetch_add(1, std::memory_order_relaxed);
    }
    if (insideOwnCall) g_c->inlineSeen[id].store(1, std::memory_order_relaxed);
    runNode(id);
  }
};

void invokeKids(int id, const std::vector<int>& k) {
  dispenso::ConcurrentTaskSet& t = *g_c->cts;
  size_t n = k.size();
  auto f = [&](size_t j) { return PF{k[j], id, j + 1 == n}; };
  int prev = tl_call;
  tl_call = id;
  g_c->callsMade.fetch_add(1, std::memory_order_relaxed);
  switch (n) {
    case 1: dispenso::parallel_invoke(t, f(0)); break;
    case 2: dispenso::parallel_invoke(t, f(0), f(1)); break;
    case 3: dispenso::parallel_invoke(t, f(0), f(1), f(2)); break;
    case 4: dispenso::parallel_invoke(t, f(0), f(1), f(2), f(3)); break;
    case 5: dispenso::parallel_invoke(t, f(0), f(1), f(2), f(3), f(4)); break;
    case 6: dispenso::parallel_invoke(t, f(0), f(1), f(2), f(3), f(4), f(5)); break;
    case 7: dispenso::parallel_invoke(t, f(0), f(1), f(2), f(3), f(4), f(5), f(6)); break;
    default: dispenso::parallel_invoke(t, f(0), f(1), f(2), f(3), f(4), f(5), f(6), f(7)); break;
  }
  tl_call = prev;
}

void runNode(int id) {
  g_c->count[id].fetch_add(1, std::memory_order_relaxed);
  vrt::progress();
  const TNode& n = g_c->nodes[static_cast<size_t>(id)];
  if (n.kids.empty()) {
    g_c->leavesRun.fetch_add(1, std::memory_order_relaxed);
    return;
  }
  // a functor that was queued runs with whatever tl_call its thread has; clear it so that a nested
  // call only sees its own id
  int prev = tl_call;
  tl_call = -1;
  invokeKids(id, n.kids);
  tl_call = prev;
}

int genTree(vrt::Rng& r, Ctx& c, int depth, int maxDepth, long& leafBudget, int arityLo, int arityHi, double leafProb) {
  int id = static_cast<int>(c.nodes.size());
  c.nodes.emplace_back();
  if (depth >= maxDepth || leafBudget <= 1 || (depth > 0 && r.chance(leafProb))) {
    --leafBudget;
    return id;
  }
  int a = static_cast<int>(r.range(arityLo, arityHi));
  std::vector<int> kids;
  for (int j = 0; j < a; ++j) {
    if (leafBudget <= 0 && j > 0) break;
    kids.push_back(genTree(r, c, depth + 1, maxDepth, leafBudget, arityLo, arityHi, leafProb));
  }
  c.nodes[static_cast<size_t>(id)].kids = kids;
  return id;
}

} // namespace

void runC16() {
  const bool th = vrt::thorough();
  const long n = vrt::g_args.getInt("n", th ? 6000 : 640);
  installStateDumper();
  static std::atomic<int> rootDone{0};
  for (long idx = 0; idx < n; ++idx) {
    if (!vrt::selected(idx)) continue;
    vrt::Rng r = vrt::caseRng(idx);
    int poolN = static_cast<int>(r.range(0, 9));
    int mult = r.chance(0.5) ? 1 : 32;
    int stealMult = r.chance(0.5) ? 1 : 4;
    bool heavy = r.chance(0.6);
    int shape = static_cast<int>(idx % 4); // 0 flat, 1 binary D&C, 2 random arity tree, 3 flat under load
    // 4: left spine deeper than the inline depth cap (32), recursing through the NON-last functor,
    // on a task set held over its own load threshold: every level runs its first functor inline
    // until the cap forces it to be queued
    if (idx % 9 == 8) shape = 4;
    if (shape == 4 && poolN == 0) poolN = static_cast<int>(r.range(1, 4));
    bool fromPoolTask = poolN > 0 && r.chance(0.3);
    if (shape == 4) fromPoolTask = false;
    double perturb = r.chance(0.3) ? 0.05 : 0.0;
    Ctx c;
    int maxDepth = 1, lo = 1, hi = 8;
    long leaves = 8;
    double leafProb = 0.0;
    if (shape == 0 || shape == 3) {
      lo = hi = static_cast<int>(1 + (idx / 4) % 8);
      maxDepth = 1;
      leaves = 8;
    } else if (shape == 1) {
      lo = hi = 2;
      maxDepth = static_cast<int>(r.range(2, th ? 12 : 9));
      if (idx % 64 == 1) maxDepth = 12;
      leaves = 8192;
    } else {
      lo = 1;
      hi = static_cast<int>(r.range(2, 8));
      maxDepth = static_cast<int>(r.range(2, 7));
      leaves = th ? 8192 : 2048;
      leafProb = 0.15;
    }
    long budget = leaves;
    if (shape == 4) {
      maxDepth = static_cast<int>(r.range(40, 120));
      // node 2k: internal (kids: 2k+2 internal-or-final-leaf first, 2k+1 leaf last)
      for (int d = 0; d < maxDepth; ++d) {
        c.nodes.emplace_back(); // internal 2d
        c.nodes.emplace_back(); // its leaf 2d+1
      }
      c.nodes.emplace_back(); // final leaf 2*maxDepth
      for (int d = 0; d < maxDepth; ++d) c.nodes[static_cast<size_t>(2 * d)].kids = {2 * d + 2, 2 * d + 1};
    } else {
      genTree(r, c, 0, maxDepth, budget, lo, hi, leafProb);
    }
    const char* shapes[] = {"flat", "binary", "tree", "flat-loaded", "spine-loaded"};
    int arity0 = static_cast<int>(c.nodes[0].kids.size());
    J spec = J().kv("shape", shapes[shape]).kv("pool", poolN).kv("mult", mult).kv("stealMult", stealMult).kv("cost", heavy ? "heavy" : "light").kv("fromPoolTask", fromPoolTask)
                 .kv("nodes", static_cast<long>(c.nodes.size())).kv("maxDepth", maxDepth).kv("rootArity", arity0).kv("perturb", perturb);
    std::string key = std::string(shapes[shape]) + "/" + (shape == 0 || shape == 3 ? "arity" + std::to_string(arity0) : std::string("recursive")) + "/" + (poolN == 0 ? "pool0" : "poolN") + "/" + (heavy ? "heavy" : "light") + "/" + (fromPoolTask ? "rec" : "ext");
    vrt::caseBegin(idx, key, spec);
    size_t nn = c.nodes.size();
    std::vector<std::atomic<int>> count(nn), lastOk(nn), inl(nn);
    for (size_t i = 0; i < nn; ++i) {
      count[i].store(0, std::memory_order_relaxed);
      lastOk[i].store(0, std::memory_order_relaxed);
      inl[i].store(0, std::memory_order_relaxed);
    }
    c.count = count.data();
    c.lastOk = lastOk.data();
    c.inlineSeen = inl.data();
    g_c = &c;
    g_nodesTotal.store(static_cast<long>(nn));
    g_nodesDone.store(0);
    rootDone.store(0, std::memory_order_relaxed);
    g_ngates.reset();
    vrt::watchdogArm();
    bool waitRet = false;
    {
      dispenso::ThreadPool pool(static_cast<size_t>(poolN), static_cast<size_t>(mult));
      g_curPool.store(&pool);
      dispenso::ConcurrentTaskSet aux(pool, dispenso::TaskCost::kLightweight); // central queue: every worker looks there (placed work can sit in another group's steal ring)
      if (shape == 3 && poolN > 0) {
        // all (other) workers held and the pool pushed over its load factor: schedule() falls back to inline
        int h = fromPoolTask ? poolN - 1 : poolN;
        for (int i = 0; i < h; ++i) aux.schedule([]() { g_ngates.body(); }, dispenso::ForceQueuingTag());
        g_ngates.waitArrived(h);
        for (int i = 0; i < poolN * mult + 2 && i < 400; ++i) aux.schedule([]() { vrt::progress(); }, dispenso::ForceQueuingTag());
      }
      if (perturb > 0) {
        vrt::hookProb(V::kPoolForceEnqueueAfterSizeTest, perturb);
        vrt::hookProb(V::kPoolPlacedAfterClaim, perturb);
        vrt::hookProb(V::kPoolPlacedAfterPush, perturb);
        vrt::hookProb(V::kPoolSchedAfterEnqueue, perturb);
        vrt::hookProb(V::kTaskSetWrapperAfterBody, perturb);
      }
      {
        dispenso::ConcurrentTaskSet cts(pool, heavy ? dispenso::TaskCost::kHeavy : dispenso::TaskCost::kLightweight, stealMult);
        c.cts = &cts;
        if (shape == 4) {
          // hold every worker, then park no-op tasks in the set under test so that its outstanding
          // count stays above its inline threshold while the spine runs on this thread
          for (int i = 0; i < poolN; ++i) aux.schedule([]() { g_ngates.body(); }, dispenso::ForceQueuingTag());
          g_ngates.waitArrived(poolN);
          int k = stealMult * poolN + poolN + 3;
          for (int i = 0; i < k; ++i) cts.schedule([]() { vrt::progress(); }, dispenso::ForceQueuingTag());
        }
        if (fromPoolTask) {
          // the whole algorithm, including its single wait(), runs inside a pool task
          static std::atomic<int> ret{0};
          ret.store(0, std::memory_order_relaxed);
          pool.schedule(
              []() {
                runNode(0);
                bool w = g_c->cts->wait();
                ret.store(w ? 1 : 0, std::memory_order_relaxed);
                rootDone.store(1, HS_REL);
              },
              dispenso::ForceQueuingTag());
          while (!rootDone.load(HS_ACQ)) vrt::sleepUs(50);
          waitRet = ret.load(std::memory_order_relaxed) != 0;
        } else {
          runNode(0);
          waitRet = cts.wait();
        }
        // ---- verdict, right after tasks.wait() returned
        long bad = 0, firstBad = -1;
        for (size_t i = 0; i < nn; ++i) {
          if (count[i].load(std::memory_order_relaxed) != 1) {
            if (!bad) firstBad = static_cast<long>(i);
            ++bad;
          }
        }
        if (bad) {
          vrt::violation("after tasks.wait(): " + std::to_string(bad) + " functors were not invoked exactly once",
                         J().kv("firstNode", firstBad).kv("count", firstBad >= 0 ? count[static_cast<size_t>(firstBad)].load() : 0).kv("nodes", static_cast<long>(nn)), "count");
        }
        long lastMissing = 0;
        for (size_t i = 0; i < nn; ++i) {
          const TNode& tn = c.nodes[i];
          if (tn.kids.empty()) continue;
          int last = tn.kids.back();
          if (!lastOk[static_cast<size_t>(last)].load(std::memory_order_relaxed)) ++lastMissing;
        }
        if (lastMissing) {
          vrt::violation("the last functor of a parallel_invoke call did not run on the calling thread before the call returned",
                         J().kv("calls", lastMissing).kv("lateLast", c.lateLast.load()), "last-on-caller");
        }
        if (waitRet) vrt::violation("tasks.wait() reported cancellation", J(), "wait-result");
      }
      g_ngates.open();
      vrt::hooksReset();
      aux.wait();
      g_curPool.store(nullptr);
    }
    vrt::watchdogDisarm();
    std::vector<std::string> cls;
    cls.push_back(std::string("shape:") + shapes[shape]);
    if (shape == 0 || shape == 3) cls.push_back("arity:" + std::to_string(arity0));
    if (poolN == 0) cls.push_back("pool0");
    if (fromPoolTask) cls.push_back("from-pool-task");
    if (c.nonLastInline.load() > 0) cls.push_back("inline-fallback");
    if (maxDepth >= 12 && shape != 4) cls.push_back("depth12");
    if (shape == 4) cls.push_back("spine:deeper-than-inline-cap");
    cls.push_back(heavy ? "cost:heavy" : "cost:light");
    bool nt = c.callsMade.load() >= 1 && nn >= 3;
    vrt::caseEnd(J().kv("nodes", static_cast<long>(nn)).kv("calls", c.callsMade.load()).kv("leaves", c.leavesRun.load()).kv("nonLastInline", c.nonLastInline.load()), nt ? spec.str() + "#" + std::to_string(idx) : "", cls);
  }
}
