#pragma once
// Shared declarations for engine h_wake: C07 (submissions to a fully parked pool start without the
// sleep backstop) and C09 (pool destruction / resize / setSignalingWake always complete and leave
// no worker of the previous configuration behind).
//
// Monitors use relaxed atomics and /proc reads only (monitor-lite in every config): nothing in
// here adds a happens-before edge between pool workers and the harness.
#include <dispenso/task_set.h>
#include <dispenso/thread_pool.h>

#include <atomic>
#include <memory>
#include <string>
#include <vector>

#include <unistd.h>

#include "verif_rt.h"

using vrt::J;
namespace V = dispenso::verif;

namespace hw {

// ------------------------------------------------------------------ unit monitor
// A "unit" is one task (schedule paths) or one loop item (parallel_for / for_each paths).
constexpr int kMaxUnits = 4096;
extern std::atomic<int> g_unitStarted[kMaxUnits]; // how often unit i started
extern std::atomic<int> g_unitTid[kMaxUnits]; // kernel tid that ran unit i (last)
extern std::atomic<long> g_unitsTotal; // number of unit starts
extern std::atomic<long> g_unitsDone; // number of unit ends
extern std::atomic<int> g_dwellUs; // busy-wait inside each unit
extern std::atomic<int> g_holdFlag; // holder tasks spin while this is 1
extern std::atomic<long> g_holdersIn;

int myTid();
void resetUnits();
void unitBody(int i);
void holderBody();

// a heap-owning payload carried by every functor: a skipped destructor is an LSan leak
inline std::string payload(int i) {
  return std::string(40, static_cast<char>('a' + (i % 26)));
}

// ------------------------------------------------------------------ /proc helpers
std::vector<int> listTids(); // kernel tids of this process, sorted
struct TidStat {
  char state = 0; // 0 when /proc/self/task/<tid> is gone, else the state letter (R S D Z X t ...)
  long ticks = 0; // utime + stime in clock ticks
  long long start = 0; // start time of the thread in clock ticks since boot: (tid, start) identifies a
                       // thread even if the kernel recycles the tid (a recycle needs a full wrap of the
                       // pid space, which takes far longer than one tick)
};
TidStat tidStat(int tid);
char tidState(int tid); // 0 when /proc/self/task/<tid> is gone, else the state letter
inline bool tidLive(int tid) {
  char s = tidState(tid);
  return s != 0 && s != 'Z' && s != 'X' && s != 'x';
}
std::vector<int> minusTids(const std::vector<int>& a, const std::vector<int>& b);

// ------------------------------------------------------------------ pool state
// Wake mode only. True once every worker sits inside a timed FUTEX_WAIT (interposer count), has its
// sleep flag set (accessor), is asleep for the kernel (/proc state S: not merely counted as waiting
// while an earlier wake already made it runnable), and the futex counters did not move for three
// samples in a row.
bool allAsleep(const std::vector<int>& workerTids);
// sleepFlags=false for poll mode, whose workers never call enterSleep (the sleep counter reads 0 while
// they are parked in the futex)
bool waitAllParked(dispenso::ThreadPool& pool, const std::vector<int>& workerTids, double guardSeconds = 30.0, bool sleepFlags = true);
// Waits for a flag set by a task. 1: set. 0: the pool is demonstrably parked with the flag unset (every
// worker asleep inside a timed futex wait, wait exits stable, three samples 100 ms apart). -1: guard.
int waitFlagOrStranded(std::atomic<int>& flag, dispenso::ThreadPool& pool, const std::vector<int>& workerTids, double guardSeconds = 30.0,
                       bool sleepFlags = true);
J poolJson(dispenso::ThreadPool& pool);

constexpr uint32_t kHourUs = 3600u * 1000000u; // fits the pool's 32-bit microsecond field

// ------------------------------------------------------------------ C07 submission paths
enum Path {
  kPoolSchedule = 0,
  kPoolScheduleFq,
  kPoolBulk,
  kTsSchedule,
  kTsScheduleFq,
  kTsBulk,
  kTsBulkFq,
  kCtsHeavySchedule,
  kCtsHeavyScheduleFq,
  kCtsHeavyBulk,
  kCtsLightSchedule,
  kCtsLightBulk,
  kParforStatic,
  kParforAdaptive,
  kForEach,
  kFuture,
  kFutureAsync,
  kNumPaths
};
extern const char* const kPathNames[kNumPaths];

// Keeps task sets / futures / containers of one submission alive until the case is over.
struct PathOwner {
  virtual ~PathOwner() {}
  virtual void help() {} // bounded stealing from the caller (used only after a verdict)
  virtual void finish() {} // wait() on whatever the path owns
  virtual long outstanding() {
    return -1;
  }
};
// submit without waiting; returns the owner and sets totalUnits
std::unique_ptr<PathOwner> submitBasic(int path, dispenso::ThreadPool& pool, int k, long& totalUnits);
std::unique_ptr<PathOwner> submitLoops(int path, dispenso::ThreadPool& pool, int N, int k, long& totalUnits);

void runC07();
void runC09();

} // namespace hw
