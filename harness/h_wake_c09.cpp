// C09: ~ThreadPool, resize() and setSignalingWake() return for every state of the workers without
// the sleep backstop, and afterwards no worker of the previous configuration is still running.
//
// Wake mode runs with a one-hour backstop (public setSignalingWake), so a worker that is left parked
// cannot be rescued by it; poll mode keeps its 200 us poll period (there the timed sleep is the
// design). A monitor thread (relaxed atomics + /proc only) opens scripted gates and gives the
// state-based hang verdict early: caller asleep, every surviving worker of the stopped generation
// inside a timed FUTEX_WAIT, wait-exit counter stable, three samples 100 ms apart. The runtime
// watchdog stays armed as the slower second line.
#include "h_wake_common.h"

#include <algorithm>
#include <thread>

namespace hw {

namespace {

enum Phase { kParked = 0, kSpinning, kBusy, kParking, kGate8, kGate9, kGate10, kNumPhases };
const char* const kPhaseNames[kNumPhases] = {"parked", "spinning", "busy", "parking", "gate8", "gate9", "gate10"};
enum Op { kDtor = 0, kResize, kSsw };

struct Spec {
  int N = 1;
  int mode = 0; // 0 wake (1 h backstop), 1 poll (200 us), 2 pollL (poll mode with a 1 h period)
  bool forcedSswParked = false;
  int hist = 0; // 0 fresh, 1 bulk (ring path, claims nobody), 2 claimed (single force-queued tasks)
  int singles = 0;
  int phase = 0;
  int op = 0;
  int m = 0; // resize target
  int newMode = 0; // setSignalingWake target mode
  uint32_t newDurUs = kHourUs;
  int nbusy = 0, dwellUs = 0, jitterUs = 0;
  bool stopperHooks = false;
  bool spurious = false;
  int gateOpenMode = 0; // 0: after the stopper passed its stop loop (+delay); 1: right at op start (+delay)
  int openDelayUs = 0;
  std::string opName() const {
    if (op == kDtor) return "dtor";
    if (op == kResize) return m == 0 ? "resize-0" : N == 0 ? "resize-from0" : m > N ? "resize-up" : "resize-down";
    return (newMode == 0) == (mode == 0) ? "ssw-same" : "ssw-toggle"; // same signalling flag, other duration
  }
  bool wakeFlag() const {
    return mode == 0;
  }
  bool longGen() const { // the generation under test cannot be rescued by its timed wait
    return mode != 1;
  }
  const char* modeName() const {
    return mode == 0 ? "wake" : mode == 1 ? "poll" : "pollL";
  }
  const char* nClass() const {
    return N == 0 ? "n0" : N == 1 ? "n1" : N <= 8 ? "n2-8" : "n9+";
  }
  const char* histName() const {
    return hist == 0 ? "fresh" : hist == 1 ? "bulk" : "claimed";
  }
  std::string key() const {
    return opName() + "/" + modeName() + "/" + histName() + "/" + kPhaseNames[phase] + "/" + nClass();
  }
  J json() const {
    return J().kv("N", N).kv("mode", modeName()).kv("hist", histName()).kv("singles", singles).kv("phase", kPhaseNames[phase])
        .kv("op", opName()).kv("m", m).kv("newMode", newMode ? "poll" : "wake").kv("newDurUs", static_cast<unsigned long>(newDurUs))
        .kv("nbusy", nbusy).kv("dwellUs", dwellUs).kv("jitterUs", jitterUs).kv("stopperHooks", stopperHooks).kv("spurious", spurious)
        .kv("gateOpenMode", gateOpenMode).kv("openDelayUs", openDelayUs);
  }
};

// ------------------------------------------------------------------ monitor thread
struct Monitor {
  std::atomic<int> quit{0};
  std::atomic<int> opState{0}; // 0 idle, 1 an operation is running
  // sequence number of the running operation (release by main after the parameters below were
  // written, acquire by the monitor: an edge between these two harness threads only)
  std::atomic<uint64_t> opSeq{0};
  std::atomic<int> judge{0}; // 1: the stopped generation is wake mode with a long backstop
  std::atomic<int> gateSite{0};
  std::atomic<int> gateOpenMode{0};
  std::atomic<int> openDelayUs{0};
  std::atomic<int> afterStopSite{0};
  std::atomic<uint64_t> hits0{0};
  std::atomic<int> nOld{0};
  std::atomic<int> oldTid[64];
  std::atomic<int> mainTid{0};
  std::atomic<int> monTid{0};
  std::atomic<int> subkeyFinal{0};
  std::thread th;

  void start() {
    th = std::thread([this] { run(); });
    while (!monTid.load(std::memory_order_relaxed)) vrt::sleepUs(20);
  }
  void stop() {
    quit.store(1, std::memory_order_relaxed);
    th.join();
  }
  void run() {
    monTid.store(myTid(), std::memory_order_relaxed);
    while (!quit.load(std::memory_order_relaxed)) {
      const uint64_t seq = opSeq.load(std::memory_order_acquire);
      if (opState.load(std::memory_order_relaxed) != 1) {
        vrt::sleepUs(50);
        continue;
      }
      const double tStart = vrt::nowSeconds();
      const int gs = gateSite.load(std::memory_order_relaxed);
      bool gateOpened = gs == 0;
      int hangSamples = 0;
      uint64_t lastExits = ~0ull;
      double nextSample = tStart + 0.05;
      long ticks0 = -1;
      // leave as soon as this operation is over: a starved monitor must not carry one operation's
      // parameters (gate site!) into the next one
      while (opState.load(std::memory_order_relaxed) == 1 && opSeq.load(std::memory_order_acquire) == seq &&
             !quit.load(std::memory_order_relaxed)) {
        double now = vrt::nowSeconds();
        if (!gateOpened) {
          bool passed = vrt::hookHits(afterStopSite.load(std::memory_order_relaxed)) > hits0.load(std::memory_order_relaxed);
          if (gateOpenMode.load(std::memory_order_relaxed) == 1 || passed || now - tStart > 0.05) {
            int d = openDelayUs.load(std::memory_order_relaxed);
            if (d > 0) vrt::sleepUs(d);
            vrt::gateOpen(gs);
            gateOpened = true;
          }
        }
        if (now >= nextSample) {
          nextSample = now + 0.1;
          int alive = 0, asleep = 0;
          int n = nOld.load(std::memory_order_relaxed);
          for (int i = 0; i < n; ++i) {
            char ws = tidState(oldTid[i].load(std::memory_order_relaxed));
            if (ws != 0 && ws != 'Z' && ws != 'X' && ws != 'x') ++alive;
            if (ws == 'S') ++asleep;
          }
          vrt::FutexStats fs = vrt::futexStats();
          TidStat ms = tidStat(mainTid.load(std::memory_order_relaxed));
          char cs = ms.state;
          // Starvation is not a hang: while the caller or a worker of the stopped generation is
          // runnable/running (not asleep) and together they have burnt less than 8 CPU seconds inside
          // this call, count it as movement. A livelock keeps burning CPU and runs out of this budget,
          // a deadlock has everybody asleep: both still reach the watchdog.
          {
            long ticks = ms.ticks;
            bool anyRunnable = cs != 'S';
            for (int i = 0; i < n; ++i) {
              TidStat w = tidStat(oldTid[i].load(std::memory_order_relaxed));
              if (w.state == 0) continue;
              ticks += w.ticks;
              if (w.state == 'R' || w.state == 'D') anyRunnable = true;
            }
            if (ticks0 < 0) ticks0 = ticks;
            if (anyRunnable && ticks - ticks0 < 800) vrt::progress();
          }
          // every surviving worker: counted inside a timed futex wait AND asleep for the kernel
          bool c = judge.load(std::memory_order_relaxed) && gateOpened && alive > 0 && asleep == alive && fs.inTimedWaitNow == alive && cs == 'S';
          if (c && (hangSamples == 0 || fs.waitExits == lastExits)) ++hangSamples;
          else hangSamples = c ? 1 : 0;
          lastExits = fs.waitExits;
          if (hangSamples >= 3 && opState.load(std::memory_order_relaxed) == 1 && opSeq.load(std::memory_order_acquire) == seq) {
            std::vector<int> parkedTids;
            for (int i = 0; i < n; ++i) {
              int t = oldTid[i].load(std::memory_order_relaxed);
              if (tidLive(t)) parkedTids.push_back(i);
            }
            vrt::violation(
                "operation does not return: the caller sleeps in join while " + std::to_string(alive) +
                    " worker(s) of the stopped generation stay parked in a timed futex wait (30-60 min timeout) that nobody will wake",
                J().kv("aliveWorkers", alive).arr("parkedWorkerRanks", parkedTids).kv("inTimedWait", fs.inTimedWaitNow)
                    .kv("callerState", std::string(1, cs)).kv("flat_s", now - tStart).kv("hooks", vrt::hookStats()),
                subkeyFinal.load(std::memory_order_relaxed) ? "final-dtor" : "");
            fprintf(stderr, "@@VRT hang (h_wake monitor)\n");
            _exit(3);
          }
        }
        vrt::sleepUs(100);
      }
    }
  }
};

struct Ctx {
  Monitor* mon;
  std::vector<int> harnessTids; // threads that are not pool workers
  long evals = 0;
};

std::vector<int> liveWorkers(const Ctx& c) {
  std::vector<int> out;
  for (int t : minusTids(listTids(), c.harnessTids)) {
    if (tidLive(t)) out.push_back(t);
  }
  return out;
}

// Runs `op` on this thread under the monitor, then checks that no more than `expectNew` non-harness
// threads exist (identity-free, so a recycled tid cannot cause a false alarm).
template <typename F>
void monitoredOp(Ctx& c, const std::vector<int>& oldWorkers, bool judge, int gateSite, int gateOpenMode, int openDelayUs,
                 int afterStopSite, size_t expectNew, const char* subkey, bool finalDtor, F&& op) {
  Monitor& m = *c.mon;
  int n = static_cast<int>(std::min<size_t>(oldWorkers.size(), 64));
  for (int i = 0; i < n; ++i) m.oldTid[i].store(oldWorkers[static_cast<size_t>(i)], std::memory_order_relaxed);
  m.nOld.store(n, std::memory_order_relaxed);
  m.judge.store(judge ? 1 : 0, std::memory_order_relaxed);
  m.gateSite.store(gateSite, std::memory_order_relaxed);
  m.gateOpenMode.store(gateOpenMode, std::memory_order_relaxed);
  m.openDelayUs.store(openDelayUs, std::memory_order_relaxed);
  m.afterStopSite.store(afterStopSite, std::memory_order_relaxed);
  m.hits0.store(vrt::hookHits(afterStopSite), std::memory_order_relaxed);
  m.subkeyFinal.store(finalDtor ? 1 : 0, std::memory_order_relaxed);
  std::vector<long long> oldStart;
  for (int t : oldWorkers) oldStart.push_back(tidStat(t).start);
  m.opSeq.fetch_add(1, std::memory_order_release);
  m.opState.store(1, std::memory_order_relaxed);
  op();
  m.opState.store(0, std::memory_order_relaxed);
  vrt::progress();
  ++c.evals;
  // previous configuration gone? (a thread that has been joined may linger as a dying task for a
  // moment: short grace, dead states do not count)
  std::vector<int> live;
  for (int attempt = 0; attempt < 400; ++attempt) {
    live = liveWorkers(c);
    if (live.size() <= expectNew) break;
    vrt::progress();
    vrt::sleepUs(500);
  }
  // identity check: a thread of the stopped generation that is still alive (same tid AND same start
  // time) although the call returned. Needed where old and new configuration have the same size.
  std::vector<int> stale;
  for (int attempt = 0; attempt < 400; ++attempt) {
    stale.clear();
    for (size_t i = 0; i < oldWorkers.size(); ++i) {
      TidStat ts = tidStat(oldWorkers[i]);
      if (ts.state != 0 && ts.state != 'Z' && ts.state != 'X' && ts.state != 'x' && ts.start == oldStart[i] && oldStart[i] != 0) {
        stale.push_back(oldWorkers[i]);
      }
    }
    if (stale.empty()) break;
    vrt::progress();
    vrt::sleepUs(500);
  }
  if (live.size() > expectNew || !stale.empty()) {
    vrt::violation(
        "after the call returned, worker threads of the previous configuration are still alive: " + std::to_string(stale.size()) +
            " thread(s) of the stopped generation, " + std::to_string(live.size()) + " live non-harness threads, new configuration has " +
            std::to_string(expectNew),
        J().kv("live", static_cast<long>(live.size())).kv("expected", static_cast<long>(expectNew)).arr("staleTidsOfOldGeneration", stale),
        std::string(subkey) + (subkey[0] ? "/" : "") + "stale-worker");
  }
}

void ringBulkNoop(dispenso::ThreadPool& pool, int N, vrt::Rng& r) {
  if (N <= 0) return;
  dispenso::TaskSet ts(pool);
  std::vector<int> spins(static_cast<size_t>(N));
  for (auto& x : spins) x = static_cast<int>(r.range(0, 100));
  ts.scheduleBulk(static_cast<size_t>(N), [&spins](size_t i) {
    int us = spins[i];
    return [us]() {
      vrt::progress();
      if (us) vrt::spinFor(us);
    };
  });
  ts.wait();
}

Spec genSpec(vrt::Rng& r, long idx) {
  Spec s;
  const bool th = vrt::thorough();
  static const int quickNs[] = {0, 1, 2, 2, 3, 4, 4, 8, 8, 9, 9, 16, 17};
  s.N = th ? static_cast<int>(r.range(0, 17)) : quickNs[r.below(13)];
  {
    double u = static_cast<double>(r.below(1000)) / 1000.0;
    s.mode = u < 0.5 ? 0 : u < 0.7 ? 1 : 2;
  }
  s.phase = static_cast<int>(idx % kNumPhases); // every phase equally often
  {
    double u = static_cast<double>(r.below(1000)) / 1000.0;
    s.hist = u < 0.35 ? 0 : u < 0.65 ? 1 : 2;
  }
  s.singles = static_cast<int>(r.range(1, 4));
  {
    double u = static_cast<double>(r.below(1000)) / 1000.0;
    s.op = u < 0.4 ? kDtor : u < 0.75 ? kResize : kSsw;
  }
  do {
    s.m = th ? static_cast<int>(r.range(0, 17)) : quickNs[r.below(13)];
  } while (s.m == s.N);
  {
    const int flag = s.mode == 0 ? 0 : 1;
    s.newMode = r.chance(0.5) ? flag : 1 - flag;
    if (s.newMode == flag) {
      const uint32_t d[] = {kHourUs - 1000000u, 200u, 100u, kHourUs / 2};
      s.newDurUs = d[r.below(4)];
    } else if (s.newMode == 0) {
      s.newDurUs = r.chance(0.5) ? kHourUs : kHourUs / 2;
    } else {
      const uint32_t d[] = {200u, 100u, kHourUs};
      s.newDurUs = d[r.below(3)];
    }
  }
  const bool slice = r.chance(0.5);
  const bool sliceShort = r.chance(0.5);
  s.nbusy = static_cast<int>(r.range(1, 4)) * std::max(1, s.N);
  s.dwellUs = static_cast<int>(r.range(20, 400));
  s.jitterUs = r.chance(0.5) ? 0 : static_cast<int>(r.range(1, 300));
  s.stopperHooks = r.chance(0.3);
  s.spurious = r.chance(0.3);
  s.gateOpenMode = r.chance(0.3) ? 1 : 0;
  s.openDelayUs = r.chance(0.3) ? 0 : static_cast<int>(r.range(1, 1500));
  // normalisation
  const int nmax = static_cast<int>(vrt::g_args.getInt("nmax", 17)); // sanitizer runs cap the pool size
  if (s.N > nmax) s.N = nmax;
  if (s.m > nmax) s.m = nmax;
  if (s.m == s.N) s.m = s.N > 0 ? s.N - 1 : 1;
  if (s.N == 0) {
    s.phase = kParked;
    s.hist = 0;
  }
  if (s.mode != 0 && s.phase == kGate9) s.phase = kGate10; // site 9 exists in wake mode only
  if (s.mode == 2) s.hist = 0; // nothing wakes a poll-mode worker for a task: only a fresh generation
  // same flag, other duration, on parked workers whose period is long: 1 h -> 200 us and 1 h -> 1 h - 1 s
  if (s.op == kSsw && s.opName() == "ssw-same" && s.longGen() && s.N > 0 && slice) {
    s.phase = kParked;
    s.hist = s.mode == 0 && r.chance(0.3) ? 1 : 0;
    s.newDurUs = sliceShort ? 200u : kHourUs - 1000000u;
    s.forcedSswParked = true;
  }
  if (s.phase >= kGate8 && s.hist == 2) s.hist = 1; // gates are judged on a generation without claims
  if (s.phase == kParking) s.jitterUs = static_cast<int>(r.range(0, 3000));
  return s;
}

} // namespace

void runC09() {
  const bool th = vrt::thorough();
  const long n = vrt::g_args.getInt("n", th ? 9000 : 900);
  Monitor mon;
  mon.mainTid.store(myTid(), std::memory_order_relaxed);
  mon.start();

  for (long idx = 0; idx < n; ++idx) {
    if (!vrt::selected(idx)) continue;
    vrt::Rng r = vrt::caseRng(idx);
    Spec s = genSpec(r, idx);
    vrt::caseBegin(idx, s.key(), s.json());
    vrt::watchdogArm();
    resetUnits();
    vrt::hooksReset();
    vrt::futexReset();

    Ctx c;
    c.mon = &mon;
    c.harnessTids = listTids();
    std::vector<std::string> cls;
    long atParked = 0, atSleeping = 0, atNotWorking = 0;
    bool gateReached = false;

    const bool wake = s.mode == 0;
    const bool pollL = s.mode == 2;
    bool parkedOk = true;
    int gateSite = 0;
    dispenso::ThreadPool* pool = nullptr;
    if (!pollL) {
      pool = new dispenso::ThreadPool(static_cast<size_t>(s.N));
      std::vector<int> gen0 = liveWorkers(c);
      // ---- set-up restart (default 100 ms backstop generation: not judged for hangs, but it must be gone)
      monitoredOp(c, gen0, false, 0, 0, 0, V::kPoolResizeAfterStop, static_cast<size_t>(s.N), "setup", false, [&] {
        if (s.mode == 0) pool->setSignalingWake(true, std::chrono::microseconds(kHourUs));
        else pool->setSignalingWake(false, std::chrono::microseconds(200));
      });
    } else {
      // Poll mode with a one-hour period. Nothing ever wakes such a worker for a task, so the phases
      // are set up on the way to its first park: the pool starts empty, gets the mode, the park-site
      // delays / the gate are armed, and resize(N) creates the generation under test.
      pool = new dispenso::ThreadPool(0);
      pool->setSignalingWake(false, std::chrono::microseconds(kHourUs));
      if (s.phase == kParking) {
        vrt::hookMaxSleepUs(2000);
        vrt::hookProb(V::kPoolWorkerBeforeEnterSleep, 0.9);
        vrt::hookProb(V::kPoolWorkerBeforeWait, 0.9);
        vrt::futexPreWaitDelay(0.5, 500);
        if (s.spurious) vrt::futexSpurious(0.2);
      } else if (s.phase == kGate8 || s.phase == kGate10) {
        gateSite = s.phase == kGate8 ? V::kPoolWorkerBeforeEnterSleep : V::kPoolWorkerBeforeWait;
        vrt::gateArm(gateSite);
      }
      monitoredOp(c, std::vector<int>(), false, 0, 0, 0, V::kPoolResizeAfterStop, static_cast<size_t>(s.N), "setup", false,
                  [&] { pool->resize(s.N); });
    }
    --c.evals; // the set-up is not counted as a lifecycle under test
    std::vector<int> workers = liveWorkers(c);

    // ---- history of this generation
    if (s.hist == 1) {
      ringBulkNoop(*pool, s.N, r);
    } else if (s.hist == 2) {
      for (int j = 0; j < s.singles; ++j) {
        if (wake) parkedOk = waitAllParked(*pool, workers) && parkedOk;
        static std::atomic<int> done{0};
        done.store(0, std::memory_order_relaxed);
        pool->schedule(
            []() {
              vrt::progress();
              done.store(1, std::memory_order_relaxed);
            },
            dispenso::ForceQueuingTag());
        if (wake) waitFlagOrStranded(done, *pool, workers);
        else {
          double t0 = vrt::nowSeconds();
          while (!done.load(std::memory_order_relaxed) && vrt::nowSeconds() - t0 < 30.0) {
            vrt::progress();
            vrt::sleepUs(50);
          }
        }
      }
    }

    // ---- drive the workers to the target phase
    if (pollL) {
      switch (s.phase) {
        case kParked:
          parkedOk = waitAllParked(*pool, workers, 30.0, false) && parkedOk;
          break;
        case kBusy:
          // best effort: the work is queued while the new workers are still in their first spin
          g_dwellUs.store(s.dwellUs, std::memory_order_relaxed);
          pool->scheduleBulk(static_cast<size_t>(s.nbusy), [](size_t i) {
            int ii = static_cast<int>(i);
            return [ii, p = payload(ii)]() { unitBody(ii); };
          });
          break;
        case kGate8:
        case kGate10:
          for (int w = 0; w < 200 && !gateReached; ++w) {
            gateReached = vrt::gateWaitArrived(gateSite, 50);
            vrt::progress();
          }
          if (!gateReached) {
            vrt::inconclusive("gate not reached");
            vrt::gateOpen(gateSite);
            gateSite = 0;
          }
          break;
        default: break; // spinning / parking: the call comes while the workers head for their first park
      }
    } else
    switch (s.phase) {
      case kParked:
        if (wake) parkedOk = waitAllParked(*pool, workers) && parkedOk;
        else vrt::sleepUs(1000);
        break;
      case kSpinning:
        if (s.hist == 0 && r.chance(0.5)) ringBulkNoop(*pool, s.N, r);
        break;
      case kBusy: {
        g_dwellUs.store(s.dwellUs, std::memory_order_relaxed);
        if (wake && s.hist == 2) {
          parkedOk = waitAllParked(*pool, workers) && parkedOk;
          for (int i = 0; i < s.nbusy; ++i) pool->schedule([i, p = payload(i)]() { unitBody(i); });
        } else {
          // hold every worker inside a ring task so that nobody sleeps, queue the work (no sleeper:
          // no claim), release
          g_holdFlag.store(1, std::memory_order_relaxed);
          {
            dispenso::TaskSet hs(*pool);
            hs.scheduleBulk(static_cast<size_t>(s.N), [](size_t) { return []() { holderBody(); }; });
            double t0 = vrt::nowSeconds();
            while (g_holdersIn.load(std::memory_order_relaxed) < s.N && vrt::nowSeconds() - t0 < 20.0) {
              if (!allAsleep(workers)) vrt::progress();
              vrt::sleepUs(50);
            }
            pool->scheduleBulk(static_cast<size_t>(s.nbusy), [](size_t i) {
              int ii = static_cast<int>(i);
              return [ii, p = payload(ii)]() { unitBody(ii); };
            });
            g_holdFlag.store(0, std::memory_order_relaxed);
            hs.wait();
          }
        }
        break;
      }
      case kParking:
        vrt::hookMaxSleepUs(2000);
        vrt::hookProb(V::kPoolWorkerBeforeEnterSleep, 0.9);
        vrt::hookProb(V::kPoolWorkerAfterEnterSleep, 0.9);
        vrt::hookProb(V::kPoolWorkerBeforeWait, 0.9);
        vrt::futexPreWaitDelay(0.5, 500);
        if (s.spurious) vrt::futexSpurious(0.2);
        ringBulkNoop(*pool, s.N, r);
        break;
      case kGate8:
      case kGate9:
      case kGate10: {
        gateSite = s.phase == kGate8 ? V::kPoolWorkerBeforeEnterSleep : s.phase == kGate9 ? V::kPoolWorkerAfterEnterSleep : V::kPoolWorkerBeforeWait;
        if (wake) parkedOk = waitAllParked(*pool, workers) && parkedOk;
        vrt::gateArm(gateSite);
        ringBulkNoop(*pool, s.N, r); // wakes every worker; on its way back to sleep the first one parks in the gate
        for (int w = 0; w < 200 && !gateReached; ++w) {
          gateReached = vrt::gateWaitArrived(gateSite, 50);
          vrt::progress();
        }
        if (!gateReached) {
          vrt::inconclusive("gate not reached");
          vrt::gateOpen(gateSite);
          gateSite = 0;
        }
        break;
      }
      default: break;
    }
    if (s.stopperHooks) {
      vrt::hookProb(V::kPoolResizeAfterStop, 0.7);
      vrt::hookProb(V::kPoolResizeAfterJoin, 0.5);
      vrt::hookProb(V::kPoolResizeAfterRingCount, 0.5);
      vrt::hookProb(V::kPoolDtorAfterStop, 0.7);
    }
    if (s.jitterUs) {
      if (s.jitterUs <= 300) vrt::spinFor(s.jitterUs);
      else vrt::sleepUs(s.jitterUs);
    }

    // ---- phase actually present at call time
    {
      vrt::FutexStats fs = vrt::futexStats();
      atParked = fs.inTimedWaitNow;
      atSleeping = pool->verifNumSleeping();
      atNotWorking = pool->verifNumNotWorking();
      if (atParked > 0) cls.push_back("at-call:parked");
      if (wake && atSleeping > atParked) cls.push_back("at-call:sleep-flag-set-not-parked");
      if (atNotWorking - (wake ? atSleeping : atParked) > 0) cls.push_back("at-call:spinning");
      if (s.N - atNotWorking > 0) cls.push_back("at-call:busy");
    }

    // ---- the operation under test
    const long submitted = s.phase == kBusy ? s.nbusy : 0;
    size_t expectNew = s.op == kDtor ? 0u : s.op == kResize ? static_cast<size_t>(s.m) : static_cast<size_t>(s.N);
    int afterStop = s.op == kDtor ? V::kPoolDtorAfterStop : V::kPoolResizeAfterStop;
    monitoredOp(c, workers, s.longGen(), gateSite, s.gateOpenMode, s.openDelayUs, afterStop, expectNew, "", false, [&] {
      if (s.op == kDtor) {
        delete pool;
        pool = nullptr;
      } else if (s.op == kResize) {
        pool->resize(s.m);
      } else {
        pool->setSignalingWake(s.newMode == 0, std::chrono::microseconds(s.newDurUs));
      }
    });
    vrt::hooksReset();
    vrt::futexReset();
    if (s.op == kDtor && submitted && g_unitsDone.load(std::memory_order_relaxed) != submitted) {
      vrt::violation("pool destructor returned before all queued work completed", J().kv("submitted", submitted).kv("done", g_unitsDone.load()), "", "C01");
    }

    // ---- final destruction of the surviving pool: a fresh generation, judged like any other
    if (pool) {
      const bool wake2 = s.op == kSsw ? s.newMode == 0 : wake;
      const uint32_t dur2 = s.op == kSsw ? s.newDurUs : (s.mode == 1 ? 200u : kHourUs);
      std::vector<int> gen2 = liveWorkers(c);
      // ---- after "same flag, other duration": besides the identity check inside monitoredOp, a task
      // force-queued now must be started by the NEW configuration (signalled wake, or the new short poll
      // period), not wait for a parked worker of the old one
      if (s.op == kSsw && s.opName() == "ssw-same" && (wake2 || dur2 <= 200u)) {
        static std::atomic<int> fdone{0};
        fdone.store(0, std::memory_order_relaxed);
        // In wake mode the task is submitted only once every new worker is parked: while workers are
        // still spinning down, the documented centralQueueNonEmpty_ hint race (a worker's hint clear
        // overwriting the producer's set; thread_pool.h says it is recovered by the timeout wake) can
        // strand a single task. That is C07's known finding, not a statement about setSignalingWake,
        // and it produced one false alarm of this check (seed 1, TSan) before this wait was added.
        if (wake2) waitAllParked(*pool, gen2, 10.0, wake2);
        pool->schedule(
            []() {
              vrt::progress();
              fdone.store(1, std::memory_order_relaxed);
            },
            dispenso::ForceQueuingTag());
        int w = waitFlagOrStranded(fdone, *pool, gen2, 30.0, wake2);
        if (w == 0) {
          vrt::violation(
              "after setSignalingWake(same mode, new duration) a force-queued task is not started: every worker is parked in a timed futex wait and none leaves it",
              J().kv("spec", s.json()).kv("workers", static_cast<long>(gen2.size())).kv("inTimedWait", vrt::futexStats().inTimedWaitNow),
              "followup-task");
        } else if (w < 0) {
          vrt::inconclusive("follow-up task: guard expired without a stranded state");
        }
        cls.push_back(std::string("followup:") + (wake2 ? "wake" : "poll"));
      }
      bool judge2 = dur2 >= kHourUs / 2;
      if (judge2) waitAllParked(*pool, gen2, 10.0, wake2);
      monitoredOp(c, gen2, judge2, 0, 0, 0, V::kPoolDtorAfterStop, 0u, "final-dtor", true, [&] {
        delete pool;
        pool = nullptr;
      });
      if (submitted && g_unitsDone.load(std::memory_order_relaxed) != submitted) {
        vrt::violation("work queued before a resize was not completed by the time the pool was destroyed",
                       J().kv("submitted", submitted).kv("done", g_unitsDone.load()), "", "C03");
      }
    }
    g_dwellUs.store(0, std::memory_order_relaxed);
    vrt::watchdogDisarm();
    if (!parkedOk) vrt::inconclusive("pool never reached the all-parked state");

    cls.push_back("op:" + s.opName());
    cls.push_back(std::string("mode:") + s.modeName());
    if (pollL) {
      cls.push_back(std::string("pollL:") + kPhaseNames[s.phase]);
      cls.push_back(std::string("pollL:op:") + (s.op == kDtor ? "dtor" : s.op == kResize ? "resize" : "ssw"));
      if (gateReached) cls.push_back(std::string("pollL:gate-reached:") + kPhaseNames[s.phase]);
    }
    if (s.forcedSswParked) cls.push_back(std::string("ssw-parked:") + (wake ? "wake" : "poll") + (s.newDurUs <= 200u ? ":long-short" : ":long-long"));
    cls.push_back(std::string("phase:") + kPhaseNames[s.phase]);
    cls.push_back(std::string("hist:") + s.histName());
    cls.push_back(s.nClass());
    if (s.N >= 9) cls.push_back("multi-group");
    if (gateReached) cls.push_back(std::string("gate-reached:") + kPhaseNames[s.phase]);
    J stats;
    stats.kv("_evals", c.evals).kv("_nt", static_cast<long>(s.N > 0 ? c.evals : 0)).kv("atParked", atParked).kv("atSleeping", atSleeping)
        .kv("atNotWorking", atNotWorking).kv("gateReached", gateReached);
    vrt::caseEnd(stats, s.N > 0 ? s.json().str() : "", cls);
  }
  mon.stop();
}

} // namespace hw
