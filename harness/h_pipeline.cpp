// Engine h_pipeline: C27 (exactly-once delivery), C28 (stage concurrency limits), C29 (exceptions).
// See h_pipeline_common.h for the monitors; the dispenso::pipeline instantiations live in
// h_pipeline_s<N>.cpp.
#include "h_pipeline_common.h"
#include "h_pipeline_util.h"

#include <algorithm>
#include <thread>

Ctx g;
std::atomic<uint8_t>* g_cnt[kMaxStages];
std::atomic<uint8_t>* g_dead;
static hpu::HangWatch g_hw;
static long g_dirty = 0; // tags [0, g_dirty) of the arrays may be non-zero

const ShapeInfo kShapes[] = {
    {"x"},     {"X"},     {"gs"},    {"GS"},    {"Rs"},   {"gS"},   {"gvs"},   {"GVS"},  {"GOS"},
    {"goS"},   {"RPS"},   {"Gps"},   {"GVOS"},  {"GOVS"}, {"gvvs"}, {"RPOs"},  {"GoOS"}, {"GVVVS"},
    {"GOVOS"}, {"gvovs"}, {"RPVPS"}, {"GvOVs"}, {"GOOOS"}, {"Gs"},  {"GVs"},
    {"GC"},    {"gc"},    {"GWC"},   {"GwS"},   {"GVC"},
};
const int kNumShapes = static_cast<int>(sizeof(kShapes) / sizeof(kShapes[0]));

void runShape(int shape, dispenso::ThreadPool& pool) {
  if (shape >= 25) runShapes_g6(shape, pool);
  else if (shape <= 5 || shape == 23) runShapes_g0(shape, pool);
  else if (shape <= 10) runShapes_g1(shape, pool);
  else if (shape <= 13 || shape == 24) runShapes_g2(shape, pool);
  else if (shape <= 17) runShapes_g3(shape, pool);
  else if (shape <= 20) runShapes_g4(shape, pool);
  else runShapes_g5(shape, pool);
}

void genStorm() {
  int exp = 0;
  if (g.genNotStopped.compare_exchange_strong(exp, 1, std::memory_order_relaxed)) {
    // reported by the case driver after the pipeline returned (or by the watchdog if it never does)
  }
}

// ------------------------------------------------------------------ spec
static const long kNoLimit = static_cast<long>(dispenso::kStageNoLimit);
static const long kUnboundedCap = 40000; // an 'unbounded' generator is cut off here if nothing stops it earlier

struct Spec {
  int shape = 2;
  long n = 0;
  int pool = 2;
  long limit[kMaxStages] = {1, 1, 1, 1, 1};
  int dwell[kMaxStages] = {0, 0, 0, 0, 0};
  uint32_t filtT[kMaxStages] = {0, 0, 0, 0, 0};
  bool yieldInStage = false;
  double hookPipe = 0, hookPool = 0, futexDelayP = 0, futexSpur = 0;
  bool bg = false;
  bool unbounded = false;
  bool tail = false;
  int reps = 1; // the same pipeline is run this many times on one pool inside the case
  int slowStage = -1;
  long slowFrom = 0;
  int slowUs = 0;
  std::string family; // scenario family tag (also part of the key)
  long throwLo[kMaxStages] = {0, 0, 0, 0, 0};
  long throwHi[kMaxStages] = {-1, -1, -1, -1, -1};
  uint64_t salt = 1;
  std::string posClass = "none";

  int nStages() const {
    return static_cast<int>(strlen(kShapes[shape].code));
  }
  char code(int k) const {
    return kShapes[shape].code[k];
  }
  bool wrapped(int k) const {
    return code(k) >= 'A' && code(k) <= 'Z';
  }
  bool filterCapable(int k) const {
    char c = code(k);
    return c == 'o' || c == 'O' || c == 'p' || c == 'P';
  }
  // concurrency bound the property gives stage k; 0 = none (unlimited)
  long bound(int k) const {
    if (!wrapped(k)) return 1;
    if (limit[k] == kNoLimit) return 0;
    return std::max<long>(1, limit[k]);
  }
  char limClass(int k) const {
    long b = bound(k);
    return b == 0 ? 'u' : (b == 1 ? 's' : 'l');
  }
  std::string limString() const {
    std::string s;
    for (int k = 0; k < nStages(); ++k) {
      if (k == 1) s += '-';
      s += limClass(k);
    }
    return s;
  }
  bool anyFilter() const {
    for (int k = 0; k < nStages(); ++k) {
      if (filterCapable(k) && filtT[k]) return true;
    }
    return false;
  }
  bool anyThrow() const {
    for (int k = 0; k < nStages(); ++k) {
      if (throwHi[k] >= throwLo[k]) return true;
    }
    return false;
  }
  const char* poolClass() const {
    return pool == 0 ? "pool0" : (pool == 1 ? "pool1" : "poolN");
  }
  J json() const {
    J j;
    j.kv("shape", kShapes[shape].code).kv("n", n).kv("pool", pool);
    std::vector<std::string> lim;
    std::vector<long> dw, ft, tl, th;
    for (int k = 0; k < nStages(); ++k) {
      lim.push_back(!wrapped(k) ? "plain" : (limit[k] == kNoLimit ? "nolimit" : std::to_string(limit[k])));
      dw.push_back(dwell[k]);
      ft.push_back(static_cast<long>(filtT[k]));
      tl.push_back(throwLo[k]);
      th.push_back(throwHi[k]);
    }
    j.arr("limit", lim).arr("dwellUs", dw).arr("filtT", ft);
    if (anyThrow()) j.arr("throwLo", tl).arr("throwHi", th).kv("pos", posClass);
    j.kv("yield", yieldInStage).kv("hookPipe", hookPipe).kv("hookPool", hookPool).kv("futexDelayP", futexDelayP).kv("futexSpur", futexSpur);
    j.kv("bg", bg).kv("unbounded", unbounded).kv("tail", tail).kv("salt", salt);
    if (reps > 1) j.kv("reps", reps);
    if (slowStage >= 0) j.kv("slowStage", slowStage).kv("slowFrom", slowFrom).kv("slowUs", slowUs);
    if (!family.empty()) j.kv("family", family);
    return j;
  }
};

static void clearArrays() {
  long hi = std::min(kMaxTags, g_dirty);
  for (int k = 0; k < kMaxStages; ++k) {
    for (long i = 0; i < hi; ++i) g_cnt[k][i].store(0, std::memory_order_relaxed);
  }
  for (long i = 0; i < hi; ++i) g_dead[i].store(0, std::memory_order_relaxed);
  g_dirty = 0;
}

static void applySpec(const Spec& s) {
  clearArrays();
  g.nStages = s.nStages();
  g.n = s.unbounded ? kUnboundedCap : s.n;
  g.unbounded = s.unbounded;
  g.salt = s.salt;
  g.yieldInStage = s.yieldInStage;
  g.slowStage = s.slowStage;
  g.slowFrom = s.slowFrom;
  g.slowUs = s.slowUs;
  for (int k = 0; k < kMaxStages; ++k) {
    bool in = k < s.nStages();
    g.limit[k] = in ? s.limit[k] : 1;
    g.dwellUs[k] = in ? s.dwell[k] : 0;
    g.canFilter[k] = in && s.filterCapable(k);
    g.filtT[k] = in ? s.filtT[k] : 0;
    g.throwLo[k] = in ? s.throwLo[k] : 0;
    g.throwHi[k] = in ? s.throwHi[k] : -1;
    g.inflight[k] = 0;
    g.maxInflight[k] = 0;
    g.calls[k] = 0;
  }
  g.next = 0;
  g.gInflight = 0;
  g.gMax = 0;
  g.chainBad = 0;
  g.chainBadTag = -1;
  g.chainBadStage = -1;
  g.chainBadWhat = 0;
  g.late = 0;
  g.lateStage = -1;
  g.returned = 0;
  g.payloadMade = 0;
  g.payloadDead = 0;
  g.throwN = 0;
  g.postThrowGen = 0;
  g.genNotStopped = 0;
  g.tagOverflow = 0;
}

// first stage at which `tag` is filtered out, or nStages if it reaches the sink (uses g.*)
static int filterPoint(const Spec& s, long tag) {
  for (int k = 1; k < s.nStages() - 1; ++k) {
    if (filteredAt(k, tag)) return k;
  }
  return s.nStages();
}
static bool reaches(const Spec& s, int k, long tag) {
  return k <= filterPoint(s, tag) || k == 0;
}

// ------------------------------------------------------------------ background load
struct BgLoad {
  std::thread th;
  std::atomic<bool> stop{false};
  void start(dispenso::ThreadPool& pool, int poolN) {
    th = std::thread([this, &pool, poolN]() {
      dispenso::ConcurrentTaskSet ts(pool);
      while (!stop.load(std::memory_order_relaxed)) {
        int m = 40 * std::max(1, poolN);
        for (int i = 0; i < m; ++i) {
          ts.schedule([]() { vrt::spinFor(3); }, dispenso::ForceQueuingTag());
        }
        ts.wait();
        std::this_thread::yield();
      }
    });
  }
  void finish() {
    if (th.joinable()) {
      stop.store(true, std::memory_order_relaxed);
      th.join();
    }
  }
};

static void perturbOn(const Spec& s) {
  vrt::hookProb(V::kPipeAfterEnqueue, std::max(s.hookPipe, 0.0002));
  vrt::hookProb(V::kPipeCompletionAfterFailedDequeue, std::max(s.hookPipe, 0.0002));
  if (s.hookPool > 0) {
    for (int site = V::kPoolForceEnqueueAfterSizeTest; site <= V::kPoolWorkerBeforeWait; ++site) vrt::hookProb(site, s.hookPool);
    vrt::hookProb(V::kTaskSetWrapperAfterBody, s.hookPool);
    vrt::hookProb(V::kEventBeforeFutexWait, s.hookPool);
  }
  if (s.futexDelayP > 0) vrt::futexPreWaitDelay(s.futexDelayP, 200);
  if (s.futexSpur > 0) vrt::futexSpurious(s.futexSpur);
}
static void perturbOff() {
  vrt::hooksReset();
  vrt::futexReset();
}

struct RunResult {
  bool threw = false;
  long caughtId = -1;
  bool otherException = false;
  long inflightAtReturn = 0;
  long producedAtReturn = 0;
};

static RunResult runPipelineOnce(const Spec& s, dispenso::ThreadPool& pool) {
  RunResult rr;
  try {
    runShape(s.shape, pool);
  } catch (const PipeErr& e) {
    rr.threw = true;
    rr.caughtId = e.id;
  } catch (...) {
    rr.threw = true;
    rr.otherException = true;
  }
  g.returned.store(1, std::memory_order_relaxed);
  rr.inflightAtReturn = g.gInflight.load(std::memory_order_relaxed);
  rr.producedAtReturn = std::min(g.next.load(std::memory_order_relaxed), kMaxTags);
  g_dirty = std::max(g_dirty, std::min(kMaxTags, rr.producedAtReturn + 64));
  return rr;
}

// ------------------------------------------------------------------ checks
struct DeliveryObs {
  long lost = 0, dup = 0, extra = 0, sunk = 0;
  long firstTag = -1;
  int firstStage = -1;
  int firstCnt = 0;
  int firstExpected = 0;
};

// Full C27 oracle for a pipeline that did not throw.
static DeliveryObs checkDelivery(const Spec& s) {
  DeliveryObs o;
  int ns = s.nStages();
  long n = std::min(s.n, kMaxTags - 1);
  for (long t = 0; t < n; ++t) {
    int fp = ns == 1 ? 1 : filterPoint(s, t);
    for (int k = 0; k < ns; ++k) {
      int expected = (k <= fp) ? 1 : 0;
      int c = g_cnt[k][t].load(std::memory_order_relaxed);
      if (c != expected) {
        if (c > 1 || (expected == 1 && c > 1)) ++o.dup;
        else if (expected == 1) ++o.lost;
        else ++o.extra;
        if (o.firstTag < 0) {
          o.firstTag = t;
          o.firstStage = k;
          o.firstCnt = c;
          o.firstExpected = expected;
        }
      }
    }
    if (ns > 1 && fp == ns && g_cnt[ns - 1][t].load(std::memory_order_relaxed) == 1) ++o.sunk;
  }
  // tags beyond n must never appear
  long hi = std::min(kMaxTags, g.next.load(std::memory_order_relaxed) + 8);
  for (long t = n; t < hi; ++t) {
    for (int k = 0; k < ns; ++k) {
      if (g_cnt[k][t].load(std::memory_order_relaxed)) {
        ++o.extra;
        if (o.firstTag < 0) {
          o.firstTag = t;
          o.firstStage = k;
          o.firstCnt = g_cnt[k][t].load(std::memory_order_relaxed);
          o.firstExpected = 0;
        }
      }
    }
  }
  return o;
}

static J obsJson(const Spec& s, const RunResult& rr) {
  J j;
  std::vector<long> mx, calls;
  for (int k = 0; k < s.nStages(); ++k) {
    mx.push_back(g.maxInflight[k].load());
    calls.push_back(g.calls[k].load());
  }
  j.arr("maxInflight", mx).arr("calls", calls).kv("gMax", g.gMax.load());
  j.kv("payloadMade", g.payloadMade.load()).kv("payloadDead", g.payloadDead.load());
  j.kv("inflightAtReturn", rr.inflightAtReturn).kv("late", g.late.load());
  return j;
}

// Reports C27 violations (prop given explicitly so that other properties' runs log them as by-catch).
static void reportDelivery(const Spec& s, const RunResult& rr, const char* prop, const std::string& sub) {
  if (rr.threw) {
    vrt::violation("pipeline() threw although no stage threw", J().kv("caught", rr.caughtId).kv("spec", s.json()), sub + "spurious-exception", prop);
    return;
  }
  if (s.nStages() == 1 && s.pool == 0) return; // single stage on a zero-thread pool never runs (noted, not a C27 matter)
  DeliveryObs o = checkDelivery(s);
  if (o.lost || o.dup || o.extra) {
    std::string what = o.dup ? "item processed twice by a stage" : (o.lost ? "item not delivered to a stage it had to pass" : "stage ran for an item that was filtered out / never generated");
    vrt::violation(what, J().kv("lost", o.lost).kv("dup", o.dup).kv("extra", o.extra).kv("tag", o.firstTag).kv("stage", o.firstStage).kv("count", o.firstCnt).kv("expected", o.firstExpected).kv("obs", obsJson(s, rr)).kv("spec", s.json()),
                   sub + (o.dup ? "dup" : (o.lost ? "lost" : "extra")), prop);
  }
  if (g.chainBad.load()) {
    vrt::violation("stage received something other than its predecessor's output for the item",
                   J().kv("count", g.chainBad.load()).kv("tag", g.chainBadTag.load()).kv("stage", g.chainBadStage.load()).kv("what", g.chainBadWhat.load()).kv("spec", s.json()), sub + "chain", prop);
  }
  if (rr.inflightAtReturn != 0) {
    vrt::violation("stage functions still running when pipeline() returned", J().kv("inflight", rr.inflightAtReturn).kv("spec", s.json()), sub + "early-return", prop);
  }
}
static void reportLate(const Spec& s, const char* prop, const std::string& sub) {
  if (g.late.load()) {
    vrt::violation("stage function invoked after pipeline() had returned", J().kv("count", g.late.load()).kv("stage", g.lateStage.load()).kv("spec", s.json()), sub + "late", prop);
  }
}
static bool reportLimits(const Spec& s, const char* prop, const std::string& sub) {
  bool bad = false;
  for (int k = 0; k < s.nStages(); ++k) {
    long b = s.bound(k);
    long mx = g.maxInflight[k].load();
    if (b && mx > b) {
      bad = true;
      vrt::violation("stage ran more concurrent invocations than its limit",
                     J().kv("stage", k).kv("max", mx).kv("bound", b).kv("plainFunction", !s.wrapped(k)).kv("spec", s.json()),
                     sub + std::string(k == 0 ? "gen" : "stage") + "-over-limit", prop);
    }
  }
  return bad;
}

// ------------------------------------------------------------------ generation (C27 / C28)
static long pickLimit(vrt::Rng& r, int pool) {
  long c[] = {1, 1, 2, 2, 3, pool, pool + 1, kNoLimit, kNoLimit, 4, 17, 0};
  long v = c[r.below(12)];
  if (v == 0 && !r.chance(0.3)) v = 2;
  return v;
}

static Spec genFlow(vrt::Rng& r, bool c28) {
  Spec s;
  s.salt = r.next() | 1;
  // shape: bias towards >= 3 stages
  s.shape = static_cast<int>(r.below(static_cast<uint64_t>(kNumShapes)));
  if (s.nStages() <= 2 && r.chance(0.5)) s.shape = static_cast<int>(r.below(static_cast<uint64_t>(kNumShapes)));
  static const int pools[] = {0, 1, 1, 2, 2, 3, 4, 4, 6, 8, 9};
  s.pool = r.pick(pools);
  if (c28 && s.pool < 2 && r.chance(0.7)) s.pool = static_cast<int>(r.range(2, 9));
  double u = (r.next() >> 11) * (1.0 / 9007199254740992.0);
  long maxN = vrt::thorough() ? 20000 : 5000;
  if (c28) {
    s.n = u < 0.05 ? r.range(0, 3) : (u < 0.6 ? r.range(20, 200) : r.range(201, 800));
  } else {
    s.n = u < 0.10 ? r.range(0, 3) : (u < 0.40 ? r.range(4, 40) : (u < 0.75 ? r.range(41, 400) : (u < 0.95 ? r.range(401, 2000) : r.range(2001, maxN))));
  }
  int ns = s.nStages();
  for (int k = 0; k < ns; ++k) {
    s.limit[k] = pickLimit(r, s.pool);
    static const int dw[] = {0, 0, 0, 1, 5, 20, 100};
    static const int dw28[] = {0, 5, 20, 50, 100, 100};
    s.dwell[k] = c28 ? r.pick(dw28) : r.pick(dw);
    if (s.filterCapable(k)) {
      static const uint32_t ft[] = {0, 6554, 6554, 32768, 32768, 58982, 65536};
      s.filtT[k] = r.pick(ft);
    }
  }
  if (c28) {
    // a fast, parallel generator makes downstream limits binding
    if (r.chance(0.6)) s.dwell[0] = 0;
    if (s.wrapped(0) && r.chance(0.5)) s.limit[0] = r.chance(0.5) ? kNoLimit : 4;
  }
  // keep a case's busy time bounded: n * sum(dwell) <= budget
  long budget = c28 ? 120000 : 60000;
  long sum = 0;
  for (int k = 0; k < ns; ++k) sum += s.dwell[k];
  while (sum > 0 && s.n * sum > budget) {
    sum = 0;
    for (int k = 0; k < ns; ++k) {
      s.dwell[k] /= 2;
      sum += s.dwell[k];
    }
  }
  s.yieldInStage = r.chance(0.25);
  static const double hp[] = {0, 0.05, 0.3, 0.9};
  s.hookPipe = r.pick(hp);
  if (s.n > 500 && s.hookPipe > 0.3) s.hookPipe = 0.3;
  static const double hq[] = {0, 0, 0.02, 0.1};
  s.hookPool = r.pick(hq);
  if (s.n > 500 && s.hookPool > 0.02) s.hookPool = 0.02;
  s.futexDelayP = r.chance(0.25) ? 0.2 : 0;
  s.futexSpur = r.chance(0.2) ? 0.1 : 0;
  s.bg = r.chance(0.15);
  if (!c28 && r.chance(0.35)) {
    // "tail" scenario: very few items, so the last enqueue of a bounded stage often races with the
    // completion that finds the queue empty (item left in the local queue with nobody to dispatch it
    // until wait() picks it up) -- delays at both hand-off sites, short dwells, pool >= 2
    s.n = r.range(1, 8);
    if (s.pool < 2) s.pool = static_cast<int>(r.range(2, 6));
    for (int k = 0; k < ns; ++k) {
      static const long lim[] = {1, 1, 2, 3};
      static const int dw[] = {0, 1, 3, 8};
      if (k > 0) s.limit[k] = r.pick(lim);
      s.dwell[k] = r.pick(dw);
      if (s.filtT[k] > 32768) s.filtT[k] = 6554;
    }
    s.hookPipe = r.chance(0.7) ? 0.9 : 0.5;
    s.hookPool = 0;
    s.bg = false;
    s.tail = true;
  }
  if (!c28 && r.chance(0.12)) {
    // "slow tail" families, looped many times per case. (a) unlimited-then-limited: an unlimited
    // transform is still working on the last item(s) when the generator has finished and the caller
    // walks the wait()s; the item then arrives at a LIMITED stage whose completion callback may just
    // have found the queue empty (sites 22/23 delayed) -> nobody but a wait() that still looks can
    // dispatch it. (b) limited-upstream-busy: the same with a limited slow stage feeding a limited one.
    int sub = static_cast<int>(r.below(4));
    s = Spec();
    s.salt = r.next() | 1;
    static const int shapesA[] = {24, 7, 12};
    s.shape = sub < 3 ? shapesA[sub] : (r.chance(0.5) ? 7 : 17);
    ns = s.nStages();
    s.n = r.range(1, 8);
    s.pool = static_cast<int>(r.range(2, 6));
    s.limit[0] = r.chance(0.7) ? 1 : 2;
    for (int k = 1; k < ns; ++k) {
      s.limit[k] = r.chance(0.6) ? 1 : 2;
      static const int dw[] = {0, 1, 3, 8, 30};
      s.dwell[k] = r.pick(dw);
    }
    if (sub < 3) s.limit[1] = kNoLimit; // (shape 24's sink is a plain function: serial)
    if (ns == 5) s.limit[3] = r.chance(0.5) ? kNoLimit : 2;
    s.slowStage = 1;
    s.slowFrom = std::max<long>(0, s.n - (r.chance(0.6) ? 2 : 1));
    s.slowUs = static_cast<int>(r.range(1000, 10000));
    s.dwell[1] = 0;
    s.reps = static_cast<int>(std::max<long>(30, std::min<long>(200, 300000 / s.slowUs)));
    s.hookPipe = 0.9;
    s.family = sub < 3 ? "tail:unlimited-then-limited" : "tail:limited-upstream-busy";
  }
  return s;
}

static std::string flowKey(const Spec& s) {
  if (!s.family.empty()) return std::string("pipe/") + s.family + "/" + std::to_string(s.nStages()) + "st/" + s.limString() + "/" + s.poolClass();
  return std::string("pipe/") + std::to_string(s.nStages()) + "st/" + s.limString() + "/" + (s.anyFilter() ? "filt" : "nofilt") + "/" + s.poolClass();
}

static void flowClasses(const Spec& s, std::vector<std::string>& cls, uint64_t hits23) {
  int ns = s.nStages();
  cls.push_back("stages:" + std::to_string(ns));
  cls.push_back(s.poolClass());
  bool hasS = false, hasL = false, hasU = false, plainFn = false, opres = false, opt = false;
  for (int k = 0; k < ns; ++k) {
    char c = s.limClass(k);
    if (k > 0 || ns == 1) {
      hasS |= c == 's';
      hasL |= c == 'l';
      hasU |= c == 'u';
    }
    plainFn |= !s.wrapped(k);
    char cc = s.code(k);
    opres |= cc == 'r' || cc == 'R' || cc == 'p' || cc == 'P';
    opt |= cc == 'g' || cc == 'G' || cc == 'o' || cc == 'O';
  }
  if (hasS) cls.push_back("limit:serial");
  if (hasL) cls.push_back("limit:limited");
  if (hasU) cls.push_back("limit:unlimited");
  if (plainFn) cls.push_back("plain-fn");
  if (opres) cls.push_back("opresult");
  if (opt) cls.push_back("optional");
  if (ns > 1 && s.bound(0) != 1 && s.pool > 1) cls.push_back("gen-parallel");
  if (s.n == 0) cls.push_back("items:0");
  if (s.n > 1000) cls.push_back("items:large");
  if (s.bg) cls.push_back("bg-load");
  if (s.tail) cls.push_back("tail-race");
  if (!s.family.empty()) cls.push_back(s.family);
  bool someF = false, allF = false;
  for (int k = 0; k < ns; ++k) {
    if (s.filterCapable(k) && s.filtT[k] > 0 && s.filtT[k] < 65536) someF = true;
    if (s.filterCapable(k) && s.filtT[k] >= 65536) allF = true;
  }
  cls.push_back(allF ? "filter:all" : (someF ? "filter:some" : "filter:none"));
  if (hits23) cls.push_back("orphan-window");
}

// One C27/C28 case.
static void runFlowCase(long idx, bool c28) {
  vrt::Rng r = vrt::caseRng(idx);
  Spec s = genFlow(r, c28);
  vrt::caseBegin(idx, flowKey(s), s.json());
  applySpec(s);
  uint64_t h23before = vrt::hookHits(V::kPipeCompletionAfterFailedDequeue);
  RunResult rr;
  long badIters = 0, firstBadIter = -1, itersDone = 1;
  {
    dispenso::ThreadPool pool(static_cast<size_t>(s.pool));
    BgLoad bg;
    perturbOn(s);
    if (s.bg) bg.start(pool, s.pool);
    vrt::watchdogArm();
    g_hw.arm(&pool, s.bg);
    rr = runPipelineOnce(s, pool);
    // looped families: the same pipeline again and again on the same pool, judged per iteration
    for (int it = 1; it < s.reps && badIters < 3; ++it) {
      DeliveryObs o = checkDelivery(s);
      bool bad = rr.threw || o.lost || o.dup || o.extra || g.chainBad.load() || rr.inflightAtReturn != 0;
      if (bad) {
        if (badIters == 0) {
          firstBadIter = it - 1;
          reportDelivery(s, rr, "C27", "");
        }
        ++badIters;
      }
      reportLimits(s, "C28", "");
      applySpec(s);
      g_hw.tick();
      rr = runPipelineOnce(s, pool);
      ++itersDone;
    }
    g_hw.disarm();
    vrt::watchdogDisarm();
    bg.finish();
    perturbOff();
  } // pool joined: anything that still ran is in g.late
  uint64_t hits23 = vrt::hookHits(V::kPipeCompletionAfterFailedDequeue) - h23before;
  reportDelivery(s, rr, "C27", "");
  reportLate(s, "C27", "");
  reportLimits(s, "C28", "");
  if (s.nStages() == 1 && s.pool == 0 && s.n > 0 && g.calls[0].load() == 0) {
    vrt::note(J().kv("observation", "single-stage pipeline on a zero-thread pool returns without ever calling the stage").kv("n", s.n));
  }
  std::vector<std::string> cls;
  flowClasses(s, cls, hits23);
  bool nt;
  int ns = s.nStages();
  if (c28) {
    nt = false;
    for (int k = 0; k < ns; ++k) {
      long b = s.bound(k);
      long mx = g.maxInflight[k].load();
      if (b && g.calls[k].load() >= 2) nt = true;
      if (b >= 2 && mx == b) cls.push_back(k == 0 ? "gen-bound-reached" : "bound-reached");
      if (b == 1 && k > 0 && g.gMax.load() >= 2 && g.calls[k].load() >= 2) cls.push_back("serial-under-concurrency");
      if (k == 0 && b >= 2) cls.push_back("gen-limited");
    }
    if (g.gMax.load() >= 2) cls.push_back("concurrent");
  } else {
    DeliveryObs o = checkDelivery(s);
    nt = ns >= 2 && o.sunk >= 2;
    if (g.gMax.load() >= 2) cls.push_back("concurrent");
  }
  J st = obsJson(s, rr);
  st.kv("hits23", hits23);
  if (s.reps > 1) st.kv("iters", itersDone).kv("badIters", badIters).kv("firstBadIter", firstBadIter);
  vrt::caseEnd(st, nt ? s.json().str() : "", cls);
}

static void runFlow(bool c28) {
  const long n = vrt::g_args.getInt("n", vrt::thorough() ? 16000 : 1600);
  for (long idx = 0; idx < n; ++idx) {
    if (!vrt::selected(idx)) continue;
    runFlowCase(idx, c28);
  }
}

// ------------------------------------------------------------------ C29
struct EnumCase {
  int shape, nItems, thrower, pos, limProfile, pool;
};
static std::vector<EnumCase> buildEnum() {
  std::vector<EnumCase> v;
  static const int shapes[] = {2, 3, 6, 7, 8, 12, 17, 1, 10};
  std::vector<int> items = vrt::thorough() ? std::vector<int>{1, 2, 3, 6, 12} : std::vector<int>{1, 3, 6};
  std::vector<int> pools = vrt::thorough() ? std::vector<int>{0, 1, 2, 4} : std::vector<int>{0, 1, 3};
  for (int sh : shapes) {
    int ns = static_cast<int>(strlen(kShapes[sh].code));
    for (int ni : items) {
      for (int th = 0; th < ns; ++th) {
        for (int p = 0; p < ni; ++p) {
          for (int lp = 0; lp < 4; ++lp) {
            for (int pl : pools) v.push_back(EnumCase{sh, ni, th, p, lp, pl});
          }
        }
      }
    }
  }
  return v;
}

// p-th (0-based) tag that reaches stage k, scanning [0, lim); -1 if there are fewer
static long nthReaching(const Spec& s, int k, long p, long lim) {
  long seen = 0;
  for (long t = 0; t < lim; ++t) {
    if (reaches(s, k, t)) {
      if (seen == p) return t;
      ++seen;
    }
  }
  return -1;
}
static long countReaching(const Spec& s, int k, long lim) {
  long seen = 0;
  for (long t = 0; t < lim; ++t) {
    if (reaches(s, k, t)) ++seen;
  }
  return seen;
}

// number of generator tasks pipeline() starts: max(1, min(pool, limit))
static long genTasks(const Spec& s) {
  long b = s.bound(0);
  if (s.nStages() == 1) return std::min<long>(s.pool, b ? b : s.pool);
  return std::max<long>(1, std::min<long>(s.pool, b ? b : s.pool));
}
static std::string excKey(const Spec& s, int thrower) {
  bool lim = false;
  for (int k = 1; k < s.nStages(); ++k) {
    if (s.bound(k)) lim = true;
  }
  int ns = s.nStages();
  std::string tk = ns == 1 ? "single" : (thrower == 0 ? "gen" : (thrower == ns - 1 ? "sink" : "xform"));
  std::string key = std::string("exc/") + (lim ? "lim" : "nolim") + "/" + (genTasks(s) >= 2 ? "genpar" : "genser") + "/" + std::to_string(ns) + "st/thrower-" + tk + "-" + s.limClass(thrower) + "/" + s.posClass + "/" + s.poolClass();
  if (s.unbounded) key += "/unbounded";
  if (s.bg) key += "/bg";
  {
    char tc = s.code(thrower);
    if (tc == 'c' || tc == 'C') key += "/cref";
    if (tc == 'w' || tc == 'W') key += "/rref";
  }
  // fixed last component: a bare case key (hang / crash) can be told from "<key>/<monitor subkey>"
  return key + "/end";
}

struct ExcStats {
  long thrown = 0, leaked = 0, postThrowGen = 0;
};

// Runs one exception scenario and checks everything C29 states. `thrower` is the (first) throwing stage.
static void runExcCase(long idx, Spec s, int thrower, std::vector<std::string> cls) {
  // the throw spec needs g.salt / filters in place to know which tags reach which stage
  vrt::caseBegin(idx, excKey(s, thrower), s.json());
  applySpec(s);
  int ns = s.nStages();
  RunResult rr;
  long thrown = 0, leaked = 0, leakedAtStage[kMaxStages + 1] = {0, 0, 0, 0, 0, 0};
  long usableBad = 0;
  bool secondOk = true;
  J obs1;
  bool deferLeak = false;
  long hi = 0;
  auto judgeLeak = [&]() {
      if (leaked != 0) {
        long otherLeak = 0;
        for (long t = 0; t < hi; ++t) {
          if (g_cnt[0][t].load(std::memory_order_relaxed) == 0) continue;
          if (throwsAt(0, t)) continue; // the generator threw instead of producing
          if (g_dead[t].load(std::memory_order_relaxed) != 0) continue;
          int rch = 0;
          for (int k = 1; k < ns; ++k) {
            if (g_cnt[k][t].load(std::memory_order_relaxed)) rch = k;
          }
          int pend = rch + 1;
          if (pend >= ns || (rch > 0 && filteredAt(rch, t)) || throwsAt(rch, t)) {
            ++otherLeak;
          } else {
            ++leakedAtStage[pend];
          }
        }
        std::vector<long> las(leakedAtStage, leakedAtStage + ns);
        J d;
        d.kv("live", leaked).arr("pendingAtStage", las).kv("unclassified", otherLeak).kv("obs", obs1).kv("spec", s.json());
        bool reported = false;
        if (otherLeak || s.pool == 0) {
          vrt::violation("item payloads still alive after pipeline() rethrew (item not waiting for any stage, or zero-thread pool)", d, "leak-other");
          reported = true;
        }
        for (int k = 1; k < ns && !(s.pool == 0); ++k) {
          if (!leakedAtStage[k]) continue;
          long b = s.bound(k);
          if (b == 0) {
            vrt::violation("item payloads waiting for an unlimited stage still alive after pipeline() rethrew", d, "leak-other");
          } else if (k == 1 && leakedAtStage[k] > b) {
            vrt::violation("queued items of the first limited stage were discarded without being destroyed (more than its limit can have been dispatched)", d, "leak-queued");
          } else if (k == 1) {
            vrt::violation("items dispatched to the task set for a limited stage and skipped after the exception are never destroyed", d, "leak-dispatched");
          } else {
            vrt::violation("items waiting for a limited stage (dispatched-and-skipped, or enqueued after its discard pass) are never destroyed", d, "leak-downstream");
          }
          reported = true;
        }
        if (!reported) vrt::violation("item payloads still alive after pipeline() rethrew", d, "leak-other");
      }
  };
  {
    dispenso::ThreadPool pool(static_cast<size_t>(s.pool));
    BgLoad bg;
    perturbOn(s);
    if (s.bg) bg.start(pool, s.pool);
    vrt::watchdogArm();
    g_hw.arm(&pool, s.bg);
    rr = runPipelineOnce(s, pool);
    // ---- verdicts about the throwing run, taken right after pipeline() returned
    thrown = std::min<long>(g.throwN.load(), kMaxThrowRecs);
    long madeAtReturn = g.payloadMade.load(), deadAtReturn = g.payloadDead.load();
    leaked = madeAtReturn - deadAtReturn;
    obs1 = obsJson(s, rr);
    obs1.kv("thrown", g.throwN.load()).kv("caught", rr.caughtId).kv("postThrowGen", g.postThrowGen.load()).kv("produced", rr.producedAtReturn);

    if (thrown == 0) {
      // nothing threw (e.g. the position was not reachable): the full C27 oracle applies
      if (!s.unbounded) reportDelivery(s, rr, "C29", "nothrow-");
    } else {
      if (!rr.threw) {
        vrt::violation("a stage threw but pipeline() returned normally", J().kv("obs", obs1).kv("spec", s.json()), "swallowed");
      } else if (rr.otherException) {
        vrt::violation("pipeline() threw an exception that no stage threw", J().kv("obs", obs1).kv("spec", s.json()), "foreign-exception");
      } else {
        bool member = false;
        long firstId = -1;
        uint64_t firstStamp = ~0ull;
        int stagesThrowing = 0;
        bool stageSeen[kMaxStages] = {false, false, false, false, false};
        for (long i = 0; i < thrown; ++i) {
          long id = g.throwRecs[i].id.load();
          uint64_t st = g.throwRecs[i].stamp.load();
          if (id == rr.caughtId) member = true;
          if (id >= 0 && st < firstStamp) {
            firstStamp = st;
            firstId = id;
          }
          int k = static_cast<int>(id / 1000000);
          if (k >= 0 && k < kMaxStages && !stageSeen[k]) {
            stageSeen[k] = true;
            ++stagesThrowing;
          }
        }
        if (!member && g.throwN.load() <= kMaxThrowRecs) {
          vrt::violation("pipeline() rethrew an exception that no stage threw", J().kv("obs", obs1).kv("spec", s.json()), "foreign-exception");
        }
        // determinate first exception: everything sequential (pool 0, no helper thread), or all
        // throws came from one stage that runs one invocation at a time
        int tk = static_cast<int>(firstId / 1000000);
        bool serialThrower = stagesThrowing == 1 && (tk == 0 ? genTasks(s) <= 1 : s.bound(tk) == 1);
        bool determinate = (s.pool == 0 && !s.bg) || serialThrower;
        if (determinate && member && rr.caughtId != firstId) {
          vrt::violation("pipeline() did not rethrow the first exception", J().kv("first", firstId).kv("caught", rr.caughtId).kv("obs", obs1).kv("spec", s.json()), "not-first");
        }
        if (determinate) cls.push_back("first-determinate");
      }
      // no (tag, stage) twice; every stage still saw its predecessor's output
      long dup = 0, dupTag = -1;
      int dupStage = -1;
      hi = rr.producedAtReturn;
      for (long t = 0; t < hi; ++t) {
        for (int k = 0; k < ns; ++k) {
          if (g_cnt[k][t].load(std::memory_order_relaxed) > 1) {
            ++dup;
            if (dupTag < 0) {
              dupTag = t;
              dupStage = k;
            }
          }
        }
      }
      if (dup) vrt::violation("item processed twice by a stage", J().kv("dup", dup).kv("tag", dupTag).kv("stage", dupStage).kv("obs", obs1).kv("spec", s.json()), "dup");
      if (g.chainBad.load()) {
        vrt::violation("stage received something other than its predecessor's output for the item",
                       J().kv("count", g.chainBad.load()).kv("tag", g.chainBadTag.load()).kv("stage", g.chainBadStage.load()).kv("what", g.chainBadWhat.load()).kv("spec", s.json()), "chain");
      }
      if (rr.inflightAtReturn != 0) {
        vrt::violation("stage functions still running when pipeline() returned", J().kv("inflight", rr.inflightAtReturn).kv("spec", s.json()), "early-return");
      }
      if (g.genNotStopped.load()) {
        vrt::violation("generator kept being called long after a stage threw", J().kv("postThrowCalls", g.postThrowGen.load()).kv("cap", kPostThrowGenCap).kv("obs", obs1).kv("spec", s.json()), "generator-not-stopped");
      }
      // memory: every payload that was created must be gone once pipeline() has returned. The task-set
      // wrapper of a skipped task decrements the set's counter before the worker destroys the functor
      // (and the item it holds), so pipeline() may return a moment before that destructor has run:
      // a non-zero live count here is only judged after the pool has been joined (below).
      deferLeak = thrown != 0 && leaked != 0;
    }
    // ---- the pool stays usable: a task set, then a second pipeline, on the same pool
    {
      std::atomic<long> c{0};
      {
        dispenso::ConcurrentTaskSet ts(pool);
        for (int i = 0; i < 64; ++i) {
          ts.schedule([&c]() {
            c.fetch_add(1, std::memory_order_relaxed);
            g_hw.tick();
            vrt::progress();
          });
        }
        ts.wait();
      }
      {
        dispenso::TaskSet ts(pool);
        for (int i = 0; i < 64; ++i) {
          ts.schedule([&c]() {
            c.fetch_add(1, std::memory_order_relaxed);
            g_hw.tick();
            vrt::progress();
          });
        }
        ts.wait();
      }
      if (c.load() != 128) ++usableBad;
    }
    // the generator (or any stage) of the first pipeline must not have been called after it returned
    if (thrown) reportLate(s, "C29", "");
    if (!deferLeak) { // (the second pipeline would reset the counters the deferred leak verdict needs)
      Spec s2 = s;
      s2.unbounded = false;
      s2.n = 24;
      for (int k = 0; k < kMaxStages; ++k) {
        s2.throwLo[k] = 0;
        s2.throwHi[k] = -1;
        s2.dwell[k] = std::min(s2.dwell[k], 5);
      }
      applySpec(s2);
      g_hw.tick();
      RunResult r2 = runPipelineOnce(s2, pool);
      long v0 = vrt::violationsSeen();
      reportDelivery(s2, r2, "C29", "second-pipeline-");
      reportLimits(s2, "C28", "second-pipeline-");
      secondOk = vrt::violationsSeen() == v0;
    }
    g_hw.disarm();
    vrt::watchdogDisarm();
    bg.finish();
    perturbOff();
  }
  if (deferLeak) {
    // pool joined: every functor the pool still held has been destroyed by now
    leaked = g.payloadMade.load() - g.payloadDead.load();
    if (leaked != 0) judgeLeak();
    else cls.push_back("late-destroy");
  }
  if (usableBad) vrt::violation("task sets on the pool did not run all their tasks after a pipeline exception", J().kv("spec", s.json()), "pool-unusable");
  (void)secondOk;
  if (thrown) {
    cls.push_back("threw");
    if (s.unbounded && rr.producedAtReturn < kUnboundedCap) cls.push_back("unbounded-generator");
    if (leaked == 0) cls.push_back("no-leak");
  }
  obs1.kv("leaked", leaked);
  // ASan builds: the runtime's LeakSanitizer pass at caseEnd costs ~1 s on a loaded machine. It is
  // forced whenever the payload counter saw a leak (so the report carries this case's key) and
  // otherwise runs for every 4th case (a leak of other memory is attributed within 4 cases).
  vrt::leakCheckEvery((leaked != 0 || (idx & 3) == 0) ? 1 : (1l << 40));
  vrt::caseEnd(obs1, thrown ? s.json().str() : "", cls);
}

static void limitsFromProfile(Spec& s, int lp, uint64_t h) {
  for (int k = 0; k < s.nStages(); ++k) {
    if (lp == 0) s.limit[k] = 1;
    else if (lp == 1) s.limit[k] = 2;
    else if (lp == 2) s.limit[k] = kNoLimit;
    else {
      long c[] = {1, 2, 3, kNoLimit};
      s.limit[k] = c[(h >> (k * 3)) & 3];
    }
  }
}

static void runC29() {
  std::vector<EnumCase> en = buildEnum();
  const long stride = std::max<long>(1, vrt::g_args.getInt("estride", 1));
  const long nEnum = static_cast<long>(en.size());
  const long nRand = vrt::g_args.getInt("n", vrt::thorough() ? 12000 : 1200);
  const long nRef = vrt::g_args.getInt("nref", vrt::thorough() ? 6000 : 640);
  for (long idx = 0; idx < nEnum + nRand + nRef; ++idx) {
    if (!vrt::selected(idx)) continue;
    vrt::Rng r = vrt::caseRng(idx);
    Spec s;
    s.salt = r.next() | 1;
    // A parallel generator + an early throw used to deadlock pipeline() (finding
    // C29-skipped-generator-task-hangs, fixed by 5e20fdf; 6 s of hang watch per occurrence if it
    // comes back): one in 4 of the scenarios that would have >= 2 generator tasks keeps them.
    const bool keepGenPar = r.below(4) == 0;
    int thrower = 0;
    std::vector<std::string> cls;
    if (idx < nEnum) {
      // with a stride, the seed picks which residue class of the enumeration is run
      if (stride > 1 && static_cast<long>(vrt::mix(static_cast<uint64_t>(idx), 0xE29) % static_cast<uint64_t>(stride)) != static_cast<long>(vrt::g_args.seed % static_cast<uint64_t>(stride))) continue;
      const EnumCase& e = en[static_cast<size_t>(idx)];
      s.shape = e.shape;
      s.n = e.nItems;
      s.pool = e.pool;
      uint64_t h = r.next();
      limitsFromProfile(s, e.limProfile, h);
      static const int dws[] = {0, 3, 20};
      int base = dws[(h >> 20) % 3];
      for (int k = 0; k < s.nStages(); ++k) {
        s.dwell[k] = base;
        if (s.filterCapable(k)) s.filtT[k] = ((h >> 24) & 1) ? 19661 : 0;
      }
      if ((h >> 25) & 1) s.dwell[0] = 0; // generator runs ahead: queues are populated when the throw happens
      s.hookPipe = ((h >> 26) & 1) ? 0.5 : 0;
      s.hookPool = ((h >> 27) & 3) == 0 ? 0.05 : 0;
      thrower = e.thrower;
      // position among the tags that reach the thrower
      g.salt = s.salt; // reaches() uses g.*
      applySpec(s);
      long tag = nthReaching(s, thrower, e.pos, s.n);
      if (tag < 0) tag = nthReaching(s, thrower, 0, s.n);
      if (tag >= 0) {
        s.throwLo[thrower] = s.throwHi[thrower] = tag;
      }
      s.posClass = e.pos == 0 ? "first" : (e.pos == e.nItems - 1 ? "last" : "middle");
      cls.push_back("enumerated");
    } else if (idx >= nEnum + nRand) {
      // The thrower takes its input by const reference (sink) or by rvalue reference without moving
      // from it (transform): the item and its payload are still owned by the pipeline's closure when
      // the stage throws, so a closure that is not destroyed after a throwing invocation is a leak
      // the payload counter and LSan see. Limits 1,2,4,8, pools 0..4 (pool 1: one deterministic
      // worker schedule), throw at the first / a middle / the last item.
      static const int shapes[] = {25, 26, 27, 27, 28, 29};
      s.shape = r.pick(shapes);
      s.pool = static_cast<int>(r.below(5));
      int ns = s.nStages();
      s.n = r.chance(0.5) ? r.range(1, 8) : r.range(9, 60);
      s.limit[0] = r.chance(0.75) ? 1 : 2;
      for (int k = 1; k < ns; ++k) {
        static const long lim[] = {1, 2, 4, 8};
        static const int dw[] = {0, 0, 1, 5, 20};
        s.limit[k] = r.pick(lim);
        s.dwell[k] = r.pick(dw);
      }
      s.dwell[0] = r.chance(0.5) ? 0 : 3;
      static const double hp[] = {0, 0, 0.3, 0.9};
      s.hookPipe = r.pick(hp);
      // thrower: a stage whose functor takes a reference
      std::vector<int> cand;
      for (int k = 1; k < ns; ++k) {
        char c = s.code(k);
        if (c == 'c' || c == 'C' || c == 'w' || c == 'W') cand.push_back(k);
      }
      thrower = cand[r.below(cand.size())];
      int pc = static_cast<int>(r.below(3));
      long tag = pc == 0 ? 0 : (pc == 1 ? s.n / 2 : s.n - 1);
      s.throwLo[thrower] = s.throwHi[thrower] = tag;
      s.posClass = pc == 0 ? "first" : (pc == 1 ? "middle" : "last");
      s.family = "byref";
    } else {
      s.shape = static_cast<int>(r.below(static_cast<uint64_t>(kNumShapes)));
      static const int pools[] = {0, 1, 2, 2, 3, 4, 4, 6, 8, 9};
      s.pool = r.pick(pools);
      int ns = s.nStages();
      double u = (r.next() >> 11) * (1.0 / 9007199254740992.0);
      s.n = u < 0.3 ? r.range(2, 30) : (u < 0.8 ? r.range(31, 400) : r.range(401, 2000));
      for (int k = 0; k < ns; ++k) {
        s.limit[k] = pickLimit(r, s.pool);
        static const int dw[] = {0, 0, 1, 5, 20, 50};
        s.dwell[k] = r.pick(dw);
        if (s.filterCapable(k)) {
          static const uint32_t ft[] = {0, 0, 6554, 32768};
          s.filtT[k] = r.pick(ft);
        }
      }
      if (r.chance(0.5)) s.dwell[0] = 0;
      long sum = 0;
      for (int k = 0; k < ns; ++k) sum += s.dwell[k];
      while (sum > 0 && s.n * sum > 40000) {
        sum = 0;
        for (int k = 0; k < ns; ++k) {
          s.dwell[k] /= 2;
          sum += s.dwell[k];
        }
      }
      s.yieldInStage = r.chance(0.2);
      static const double hp[] = {0, 0.05, 0.3, 0.9};
      s.hookPipe = r.pick(hp);
      if (s.n > 500 && s.hookPipe > 0.3) s.hookPipe = 0.3;
      static const double hq[] = {0, 0, 0.02, 0.1};
      s.hookPool = r.pick(hq);
      s.futexDelayP = r.chance(0.2) ? 0.2 : 0;
      s.futexSpur = r.chance(0.2) ? 0.1 : 0;
      s.bg = r.chance(0.15);
      s.unbounded = ns > 1 && r.chance(0.2);
      thrower = static_cast<int>(r.below(static_cast<uint64_t>(ns)));
      if (s.unbounded) {
        // the throw must come while the generator is still running: early tag, short dwells, and a
        // generator that is not orders of magnitude faster than the stages
        for (int k = 0; k < ns; ++k) s.dwell[k] = std::min(s.dwell[k], 20);
        s.dwell[0] = std::max(s.dwell[0], 2);
        // a generator that never ends must leave a worker free for the other stages (pipeline()'s
        // caller does not help while it waits for the generator)
        if (s.pool < 2) s.pool = static_cast<int>(2 + r.below(3));
        s.limit[0] = (keepGenPar && s.pool >= 3) ? 2 : 1;
      }
      applySpec(s);
      long scanLim = s.unbounded ? 400 : s.n;
      long reach = countReaching(s, thrower, scanLim);
      if (reach == 0) s.unbounded = false;
      if (s.unbounded) reach = std::min<long>(reach, 10);
      int pc = static_cast<int>(r.below(4));
      if (reach > 0) {
        if (pc == 0) {
          s.throwLo[thrower] = s.throwHi[thrower] = nthReaching(s, thrower, 0, scanLim);
          s.posClass = "first";
        } else if (pc == 1) {
          s.throwLo[thrower] = s.throwHi[thrower] = nthReaching(s, thrower, reach / 2, scanLim);
          s.posClass = "middle";
        } else if (pc == 2 && !s.unbounded) {
          s.throwLo[thrower] = s.throwHi[thrower] = nthReaching(s, thrower, reach - 1, scanLim);
          s.posClass = "last";
        } else {
          // every invocation from some tag on throws; sometimes a second stage throws as well
          s.throwLo[thrower] = nthReaching(s, thrower, static_cast<long>(r.below(static_cast<uint64_t>(reach))), scanLim);
          s.throwHi[thrower] = kMaxTags;
          if (ns > 1 && r.chance(0.5)) {
            int k2 = static_cast<int>(r.below(static_cast<uint64_t>(ns)));
            if (k2 != thrower) {
              s.throwLo[k2] = r.range(0, scanLim - 1);
              s.throwHi[k2] = s.throwLo[k2] + r.range(0, 5);
            }
          }
          s.posClass = "multi";
        }
      }
      if (s.bg) cls.push_back("bg-load");
    }
    int ns = s.nStages();
    if (ns > 1 && genTasks(s) >= 2) {
      if (keepGenPar) cls.push_back("gen-parallel");
      else s.limit[0] = 1;
    }
    cls.push_back("pos:" + s.posClass);
    cls.push_back(s.poolClass());
    cls.push_back(std::string("thrower:") + (ns == 1 ? "single" : (thrower == 0 ? "gen" : (thrower == ns - 1 ? "sink" : "xform"))));
    cls.push_back(std::string("thrower-limit:") + s.limClass(thrower));
    {
      char tc = s.code(thrower);
      if (tc == 'c' || tc == 'C') cls.push_back("thrower-takes-const-ref");
      if (tc == 'w' || tc == 'W') cls.push_back("thrower-takes-rvalue-ref");
    }
    runExcCase(idx, s, thrower, cls);
  }
}

int main(int argc, char** argv) {
  vrt::init(argc, argv);
  for (int k = 0; k < kMaxStages; ++k) {
    g_cnt[k] = new std::atomic<uint8_t>[kMaxTags];
    for (long i = 0; i < kMaxTags; ++i) g_cnt[k][i].store(0, std::memory_order_relaxed);
  }
  g_dead = new std::atomic<uint8_t>[kMaxTags];
  for (long i = 0; i < kMaxTags; ++i) g_dead[i].store(0, std::memory_order_relaxed);
  // every blocking primitive in play belongs to the code under test (completion event, pool sleeps)
  vrt::watchdogIdleFlatIsHang(true);
  vrt::setStateDumper([]() {
    J j;
    std::vector<long> infl, calls;
    for (int k = 0; k < g.nStages; ++k) {
      infl.push_back(g.inflight[k].load());
      calls.push_back(g.calls[k].load());
    }
    j.arr("inflight", infl).arr("calls", calls).kv("next", g.next.load()).kv("returned", g.returned.load()).kv("throws", g.throwN.load());
    return j.str();
  });
  const std::string& p = vrt::g_args.prop;
  // ASan builds: the runtime's per-case LeakSanitizer pass costs ~0.5 s; the non-exception flows
  // check every 8th case (a leak is then attributed to one of 8 cases), C29 checks every case.
  if (p == "C27" || p == "C28") vrt::leakCheckEvery(8);
  if (p == "C27") runFlow(false);
  else if (p == "C28") runFlow(true);
  else if (p == "C29") runC29();
  else {
    fprintf(stderr, "h_pipeline: unknown property %s\n", p.c_str());
    return 2;
  }
  return vrt::finish();
}
